(* C02 simulation, part 1: the VM model running the compiled code of a frame-free expression computes the value the
   big-step relation pev assigns to it (and pushes exactly that one value), for every surrounding code and stack. *)
From Coq Require Import String Ascii.
From Coq Require Import ZArith List Bool Lia.
From SqfVerif Require Import Gen.DiagCodes Gen.Overloads VM.VmDefs VM.VmExec VM.RefSem VM.C02Proofs VM.SimDefs.
Import ListNotations.
Local Open Scope string_scope.
Local Open Scope list_scope.

Lemma frame_fuel_S : exists k, frame_fuel = S k.
Proof. destruct frame_fuel eqn:E; [exfalso; unfold frame_fuel in E; lia|eauto]. Qed.

(* ---------------------------------------------------------------- bookkeeping of the current context *)
Lemma nth_error_list_upd_same {A} : forall (l:list A) i x, i < length l -> nth_error (list_upd l i x) i = Some x.
Proof. induction l as [|a l IH]; intros [|i] x L; cbn in *; try lia; auto. apply IH. lia. Qed.
Lemma list_upd_twice {A} : forall (l:list A) i x y, list_upd (list_upd l i x) i y = list_upd l i y.
Proof. induction l as [|a l IH]; intros [|i] x y; cbn; auto. f_equal. apply IH. Qed.

Lemma cur_upd_cur r c c' : cur r = Some c -> cur (upd_cur r c') = Some c'.
Proof.
  unfold cur, upd_cur. destruct (r_active r) as [i|] eqn:A; [|discriminate]. intros H. cbn. rewrite A.
  apply nth_error_list_upd_same. apply nth_error_Some. congruence.
Qed.
Lemma upd_cur_twice r a b : upd_cur (upd_cur r a) b = upd_cur r b.
Proof.
  unfold upd_cur. destruct (r_active r) as [i|] eqn:A; cbn; rewrite A; [|reflexivity]. cbn. rewrite list_upd_twice. reflexivity.
Qed.
Lemma set_msgs_upd_cur r c : r_msgs r = [] -> set_msgs (upd_cur r c) [] = upd_cur r c.
Proof. intros M. unfold upd_cur. destruct (r_active r); unfold set_msgs, set_ctxs, rt_with; cbn; rewrite <- M; destruct r; reflexivity. Qed.

Lemma good_upd r c c' : Good r c -> c_suspended c' = false -> Good (upd_cur r c') c'.
Proof.
  intros (C & X & St & E & M & D & SU) SU'. unfold Good. split; [eapply cur_upd_cur; eauto|].
  unfold upd_cur. destruct (r_active r); cbn; auto 10.
Qed.

(* ---------------------------------------------------------------- one instruction *)
Lemma step_instr r c f rest i r3 c5 :
  Good r c -> c_frames c = f :: rest -> nth_error (f_code f) (f_pos f) = Some i ->
  exec_instr i r (set_frames c (set_pos f (S (f_pos f)) :: rest)) = Ok (r3, c5) ->
  r_err (upd_cur r3 c5) = false ->
  do_iter r = Ok (Executed (set_msgs (upd_cur r3 c5) [])).
Proof.
  intros (C & X & St & E & M & D & SU) EF N EX NE. unfold do_iter. rewrite X, C, SU, EF, St.
  destruct frame_fuel_S as [k Hk]. rewrite Hk. cbn [frame_next]. rewrite EF.
  assert (P : f_pos f < length (f_code f)) by (apply nth_error_Some; congruence).
  assert (A1 : at_end f = false) by (unfold at_end; apply Nat.eqb_neq; lia).
  assert (A2 : at_end (set_pos f (S (f_pos f))) = false) by (unfold at_end; cbn; apply Nat.eqb_neq; lia).
  rewrite A1, A2.
  destruct (f_exit (set_pos f (S (f_pos f)))) as [b|] eqn:EB.
  - cbn [andb bindr]. rewrite E.
    unfold current_instr. cbn [c_frames set_frames f_code set_pos f_pos]. rewrite Nat.sub_succ, Nat.sub_0_r, N.
    rewrite D. cbn [Z.eqb]. rewrite EX. cbn [bindr]. rewrite NE. reflexivity.
  - cbn [bindr]. rewrite E.
    unfold current_instr. cbn [c_frames set_frames f_code set_pos f_pos]. rewrite Nat.sub_succ, Nat.sub_0_r, N.
    rewrite D. cbn [Z.eqb]. rewrite EX. cbn [bindr]. rewrite NE. reflexivity.
Qed.

(* ---------------------------------------------------------------- pure operators mean the same on both sides *)
Lemma cv_data_not_nil v : is_data v = true -> cv v <> VNil.
Proof. destruct v; cbn; intros H; try discriminate H; discriminate. Qed.

(* printing and comparing mean the same on both sides *)
Lemma show_cv b : forall v t, rshow b v = Some t -> show b (cv v) = Some t.
Proof.
  fix IH 1. intros v t. destruct v; cbn [cv rshow show]; try (intros H; exact H); try discriminate.
  intros H.
  assert (E : forall l0 u, (fix go (l:list rvalue) : option string :=
               match l with
               | [] => Some ""
               | u :: l' => match rshow b u, go l' with
                            | Some a, Some b => Some (append a (match l' with [] => b | _ => append "," b end))
                            | _, _ => None end end) l0 = Some u ->
             (fix go (l:list value) : option string :=
               match l with
               | [] => Some ""
               | u :: l' => match show b u, go l' with
                            | Some a, Some b => Some (append a (match l' with [] => b | _ => append "," b end))
                            | _, _ => None end end) (map cv l0) = Some u).
  { induction l0 as [|x l0 IHl]; intros u HU; [exact HU|]. cbn [map].
    destruct (rshow b x) as [a|] eqn:EA; [|discriminate HU]. rewrite (IH x a EA).
    match type of HU with match ?g with _ => _ end = _ => destruct g as [bb|] eqn:EB; [|discriminate HU] end.
    rewrite (IHl bb eq_refl). destruct l0; exact HU. }
  match type of H with match ?g with _ => _ end = _ => destruct g as [u|] eqn:EG; [|discriminate H] end.
  rewrite (E l u EG). exact H.
Qed.

Lemma veqb_cv cs : forall a b, veqb cs (cv a) (cv b) = req cs a b.
Proof.
  fix IH 1. intros a b. destruct a; destruct b; try reflexivity.
  cbn [cv veqb req]. revert l0. induction l as [|u l IHl]; intros [|w l0]; cbn [map]; try reflexivity.
  rewrite IH, IHl. reflexivity.
Qed.

Lemma pure_unary_vm n va v r c : pure_unary n va = Some v -> op_unary n (cv va) r c = Ok (r, c, cv v) /\ cv va <> VNil.
Proof.
  unfold pure_unary. intros H.
  destruct (String.eqb n "!") eqn:E1; [apply String.eqb_eq in E1; subst n; destruct va; inversion H; subst; split; [reflexivity|discriminate]|].
  destruct (String.eqb n "count") eqn:E2; [apply String.eqb_eq in E2; subst n; destruct va; inversion H; subst; split; [|discriminate]|].
  { cbn. now rewrite map_length. }
  destruct (String.eqb n "str") eqn:E3.
  { apply String.eqb_eq in E3; subst n.
    assert (N : cv va <> VNil) by (destruct va; try discriminate H; discriminate).
    split; [|exact N].
    destruct (rshow true va) as [t|] eqn:ES; [|destruct va; discriminate H].
    assert (v = RStr t) by (destruct va; inversion H; reflexivity). subst v.
    unfold op_unary. cbn [String.eqb Ascii.eqb Bool.eqb]. rewrite (show_cv true va t ES). reflexivity. }
  destruct (String.eqb n "-") eqn:E4.
  { apply String.eqb_eq in E4; subst n. destruct va; try discriminate H. split; [|discriminate].
    destruct (Z.eqb n 0) eqn:Z0; [discriminate H|]. destruct (is_int_in_range (- n)) eqn:R; inversion H; subst.
    cbn. rewrite Z0. unfold num. rewrite R. reflexivity. }
  destruct (String.eqb n "+") eqn:E5; [|discriminate H].
  apply String.eqb_eq in E5; subst n. destruct va; inversion H; subst; split; try reflexivity; discriminate.
Qed.

Lemma pure_binary_vm n va vb v r c : pure_binary n va vb = Some v ->
  op_binary n (cv va) (cv vb) r c = Ok (r, c, cv v) /\ cv va <> VNil /\ cv vb <> VNil.
Proof.
  unfold pure_binary. intros H.
  destruct (String.eqb n "+") eqn:E1.
  { apply String.eqb_eq in E1; subst n. destruct va, vb; try discriminate H.
    - destruct (is_int_in_range (n + n0)) eqn:R; inversion H; subst. repeat split; try discriminate.
      cbn. unfold num. rewrite R. reflexivity.
    - inversion H; subst. repeat split; try discriminate.
    - inversion H; subst. repeat split; try discriminate. cbn. now rewrite map_app. }
  destruct (String.eqb n "-") eqn:E2.
  { apply String.eqb_eq in E2; subst n. destruct va, vb; try discriminate H.
    destruct (is_int_in_range (n - n0)) eqn:R; inversion H; subst. repeat split; try discriminate.
    cbn. unfold num. rewrite R. reflexivity. }
  destruct (String.eqb n "&&") eqn:E3.
  { apply String.eqb_eq in E3; subst n. destruct va, vb; inversion H; subst. repeat split; try discriminate. }
  destruct (String.eqb n "||") eqn:E4.
  { apply String.eqb_eq in E4; subst n. destruct va, vb; inversion H; subst. repeat split; try discriminate. }
  destruct (String.eqb n "<") eqn:E5.
  { apply String.eqb_eq in E5; subst n. destruct va, vb; inversion H; subst. repeat split; try discriminate. }
  destruct (String.eqb n ">") eqn:E6.
  { apply String.eqb_eq in E6; subst n. destruct va, vb; inversion H; subst. repeat split; try discriminate. }
  destruct (String.eqb n "<=") eqn:E7.
  { apply String.eqb_eq in E7; subst n. destruct va, vb; inversion H; subst. repeat split; try discriminate. }
  destruct (String.eqb n ">=") eqn:E8.
  { apply String.eqb_eq in E8; subst n. destruct va, vb; inversion H; subst. repeat split; try discriminate. }
  destruct (String.eqb n "*") eqn:E9.
  { apply String.eqb_eq in E9; subst n. destruct va, vb; try discriminate H.
    destruct (andb (Z.eqb (n * n0) 0) (orb (Z.ltb n 0) (Z.ltb n0 0))) eqn:NZ; [discriminate H|].
    destruct (is_int_in_range (n * n0)) eqn:R; inversion H; subst. repeat split; try discriminate.
    cbn. rewrite NZ. unfold num. rewrite R. reflexivity. }
  destruct (String.eqb n "==") eqn:E10.
  { apply String.eqb_eq in E10; subst n. destruct va, vb; inversion H; subst; repeat split; try discriminate;
      unfold op_binary; cbn [String.eqb Ascii.eqb Bool.eqb orb cv]; rewrite <- veqb_cv; reflexivity. }
  destruct (String.eqb n "!=") eqn:E11.
  { apply String.eqb_eq in E11; subst n. destruct va, vb; inversion H; subst; repeat split; try discriminate;
      unfold op_binary; cbn [String.eqb Ascii.eqb Bool.eqb orb cv]; rewrite <- veqb_cv; reflexivity. }
  destruct (String.eqb n "isequalto") eqn:E12; [|discriminate H].
  apply String.eqb_eq in E12; subst n.
  assert (NA : cv va <> VNil) by (destruct va; try discriminate H; discriminate).
  assert (NB : cv vb <> VNil) by (destruct va; try discriminate H; destruct vb; try discriminate H; discriminate).
  split; [|split; assumption].
  destruct (rshow true va) as [ta|] eqn:SA; [|destruct va; try discriminate H; destruct vb; discriminate H].
  destruct (rshow true vb) as [tb|] eqn:SB; [|destruct va; try discriminate H; destruct vb; discriminate H].
  assert (v = RBool (req true va vb)) by (destruct va; try discriminate H; destruct vb; try discriminate H; inversion H; reflexivity). subst v.
  unfold op_binary. cbn [String.eqb Ascii.eqb Bool.eqb orb]. rewrite (show_cv true va ta SA), (show_cv true vb tb SB), veqb_cv. reflexivity.
Qed.

Lemma lower_idem s : lower (lower s) = lower s.
Proof.
  induction s as [|a s IH]; cbn; [reflexivity|]. f_equal; [|exact IH].
  unfold lower_ascii. destruct (andb (Nat.leb 65 (nat_of_ascii a)) (Nat.leb (nat_of_ascii a) 90)) eqn:E.
  - rewrite nat_ascii_embedding.
    + destruct (andb (Nat.leb 65 (nat_of_ascii a + 32)) (Nat.leb (nat_of_ascii a + 32) 90)) eqn:E2; [|reflexivity].
      apply andb_prop in E, E2. destruct E as [A B], E2 as [A2 B2]. apply Nat.leb_le in A, B, A2, B2. lia.
    + apply andb_prop in E. destruct E as [A B]. apply Nat.leb_le in B. lia.
  - rewrite E. reflexivity.
Qed.

(* ---------------------------------------------------------------- running straight-line expression code *)
(* the context after k more instructions of the top frame with the values vs (top first) pushed *)
Definition adv (c:context) (f:frame) (rest:list frame) (k:nat) (vs:list value) : context :=
  set_values (set_frames c (set_pos f (f_pos f + k) :: rest)) (vs ++ c_values c).

Lemma steps_trans a b c : Steps a b -> Steps b c -> Steps a c.
Proof. induction 1; intros; eauto using Steps. Qed.

Lemma nth_error_mid {A} (pre:list A) i post : nth_error (pre ++ i :: post) (length pre) = Some i.
Proof. induction pre; cbn; auto. Qed.

Lemma lookup_frames_set_pos n f p rest : lookup_frames n (set_pos f p :: rest) = lookup_frames n (f :: rest).
Proof. reflexivity. Qed.

(* what the environment of the relation means on the machine: locals through the frame chain, globals in the
   namespace of the current frame *)
Definition env_ok (loc glob : string -> option rvalue) (r:rt) (fs:list frame) (ns:string) : Prop :=
  (forall k w, hidden k = false -> loc k = Some w -> lookup_frames k fs = Some (cv w)) /\
  (forall k w, glob k = Some w -> match assoc ns (r_nss r) with Some m => assoc k m | None => None end = Some (cv w)).

Lemma adv_adv c f rest k1 vs1 k2 vs2 :
  adv (adv c f rest k1 vs1) (set_pos f (f_pos f + k1)) rest k2 vs2 = adv c f rest (k1 + k2) (vs2 ++ vs1).
Proof. unfold adv. cbn. rewrite Nat.add_assoc, app_assoc. reflexivity. Qed.

Lemma good_adv r c f rest k vs : Good r c -> Good (upd_cur r (adv c f rest k vs)) (adv c f rest k vs).
Proof. intros G. apply (good_upd r c _ G). destruct G as (_ & _ & _ & _ & _ & _ & SU). exact SU. Qed.

Lemma pop_args_stack : forall (ws:list value) c0 f rest vals acc, c_frames c0 = f :: rest -> f_base f <= length vals ->
  pop_args (length ws) (set_values c0 (ws ++ vals)) acc = (rev ws ++ acc, set_values c0 vals, true).
Proof.
  induction ws as [|w ws IH]; intros c0 f rest vals acc EF B.
  - reflexivity.
  - cbn [length pop_args app]. unfold pop_value. cbn [c_values set_values c_frames]. rewrite EF.
    destruct (Nat.leb_spec (length (w :: ws ++ vals)) (f_base f)) as [L|L]; [cbn [length] in L; rewrite app_length in L; lia|].
    change (set_values (set_values c0 (w :: ws ++ vals)) (ws ++ vals)) with (set_values c0 (ws ++ vals)).
    rewrite (IH c0 f rest vals (w :: acc) EF B). cbn [rev]. rewrite <- app_assoc. reflexivity.
Qed.

Lemma compile_unary_nonlit n a : (forall k, a <> ENum k) -> compile_expr (EUnary n a) = compile_expr a ++ [IUnary (lower n)].
Proof. intros H. destruct a; try reflexivity. exfalso. eapply H; reflexivity. Qed.

(* one instruction that leaves the runtime record alone *)
Lemma run_one r c f rest i c2 :
  Good r c -> c_frames c = f :: rest -> nth_error (f_code f) (f_pos f) = Some i ->
  exec_instr i r (set_frames c (set_pos f (S (f_pos f)) :: rest)) = Ok (r, c2) -> c_suspended c2 = false ->
  Steps r (upd_cur r c2) /\ Good (upd_cur r c2) c2.
Proof.
  intros G EF N EX SU2. pose proof G as (C & X & St & E & M & D & SU). split; [|apply (good_upd r c _ G SU2)].
  apply steps_exec_upd. rewrite <- (set_msgs_upd_cur r c2 M).
  eapply step_instr; eauto. unfold upd_cur. destruct (r_active r); exact E.
Qed.

Lemma nss_upd_cur r c : r_nss (upd_cur r c) = r_nss r.
Proof. unfold upd_cur. destruct (r_active r); reflexivity. Qed.

(* what a program can observe of the machine besides its own frames: the namespaces and the markers it logged
   (diag_log output, newest first; the diagnostics in between are the machine's own business) *)
Fixpoint marks (out:list event) : list string :=
  match out with [] => [] | EMark s :: r => s :: marks r | EDiag _ _ :: r => marks r end.
Definition world (r:rt) : list (string * list (string * value)) * list string := (r_nss r, marks (r_out r)).
Lemma world_upd_cur r c : world (upd_cur r c) = world r.
Proof. unfold world, upd_cur. destruct (r_active r); reflexivity. Qed.
Lemma world_nss r a b : world r = (a, b) -> r_nss r = a.
Proof. intros H. exact (f_equal fst H). Qed.
Lemma world_marks r a b : world r = (a, b) -> marks (r_out r) = b.
Proof. intros H. exact (f_equal snd H). Qed.

Lemma env_ok_upd loc glob r c fs ns : env_ok loc glob r fs ns -> env_ok loc glob (upd_cur r c) fs ns.
Proof. intros [A B]. split; [exact A|]. rewrite nss_upd_cur. exact B. Qed.

Lemma susp_adv c f rest k vs : c_suspended (adv c f rest k vs) = c_suspended c. Proof. reflexivity. Qed.

(* push-like instruction at the current position *)
Lemma run_push r c f rest pre post i v :
  Good r c -> c_frames c = f :: rest -> f_code f = pre ++ i :: post -> f_pos f = length pre ->
  (forall c1, c_frames c1 = set_pos f (S (f_pos f)) :: rest -> exec_instr i r c1 = Ok (r, push_value c1 v)) ->
  Steps r (upd_cur r (adv c f rest 1 [v])).
Proof.
  intros G EF EC EP EX.
  assert (N : nth_error (f_code f) (f_pos f) = Some i) by (rewrite EC, EP; apply nth_error_mid).
  destruct (run_one r c f rest i (push_value (set_frames c (set_pos f (S (f_pos f)) :: rest)) v) G EF N) as [S1 _].
  - apply EX. reflexivity.
  - destruct G as (_ & _ & _ & _ & _ & _ & SU). exact SU.
  - replace (adv c f rest 1 [v]) with (push_value (set_frames c (set_pos f (S (f_pos f)) :: rest)) v)
      by (unfold adv, push_value; cbn; rewrite Nat.add_1_r; reflexivity).
    exact S1.
Qed.

Lemma exec_unary_nonnil n v r c1 c2 r' c3 x : pop_value c1 = Some (v, c2) -> v <> VNil ->
  op_unary (lower n) v r c2 = Ok (r', c3, x) -> exec_instr (IUnary n) r c1 = Ok (r', push_value c3 x).
Proof. intros P NV OP. cbn [exec_instr]. rewrite P. destruct v; try contradiction; rewrite OP; reflexivity. Qed.

Lemma exec_binary_nonnil n l v r c1 c2 c3 r' c4 x : pop_value c1 = Some (v, c2) -> v <> VNil ->
  pop_value c2 = Some (l, c3) -> l <> VNil ->
  op_binary (lower n) l v r c3 = Ok (r', c4, x) -> exec_instr (IBinary n) r c1 = Ok (r', push_value c4 x).
Proof.
  intros P NV P2 NL OP. cbn [exec_instr]. rewrite P. destruct v; try contradiction; rewrite P2; destruct l; try contradiction; rewrite OP; reflexivity.
Qed.

Lemma list_upd_self {A} : forall (l:list A) i x, nth_error l i = Some x -> list_upd l i x = l.
Proof. induction l as [|a l IH]; intros [|i] x H; cbn in *; try discriminate; [inversion H; reflexivity|f_equal; apply IH; exact H]. Qed.
Lemma upd_cur_self r c : cur r = Some c -> upd_cur r c = r.
Proof.
  unfold cur, upd_cur. destruct (r_active r) as [i|] eqn:A; [|discriminate]. intros H.
  unfold set_ctxs, rt_with. rewrite (list_upd_self _ _ _ H). destruct r; cbn in *. rewrite A. reflexivity.
Qed.
Lemma adv_zero c f rest : c_frames c = f :: rest -> adv c f rest 0 [] = c.
Proof. intros E. unfold adv. cbn. rewrite Nat.add_0_r. destruct c; cbn in *; subst. destruct f; reflexivity. Qed.

Theorem pure_sim loc glob :
  (forall e v, pev loc glob e v -> forall r c f rest pre post,
      Good r c -> c_frames c = f :: rest -> f_code f = pre ++ compile_expr e ++ post -> f_pos f = length pre ->
      f_base f <= length (c_values c) -> env_ok loc glob r (f :: rest) (f_ns f) ->
      Steps r (upd_cur r (adv c f rest (length (compile_expr e)) [cv v])) /\ cv v <> VNil) /\
  (forall l vs, pevs loc glob l vs -> forall r c f rest pre post,
      Good r c -> c_frames c = f :: rest -> f_code f = pre ++ flat_map compile_expr l ++ post -> f_pos f = length pre ->
      f_base f <= length (c_values c) -> env_ok loc glob r (f :: rest) (f_ns f) ->
      Steps r (upd_cur r (adv c f rest (length (flat_map compile_expr l)) (rev (map cv vs)))) /\ length l = length vs).
Proof.
  apply pev_pevs_ind.
  - (* number *) intros n r c f rest pre post G EF EC EP B ENV. split; [|discriminate].
    cbn [compile_expr app length] in *. eapply run_push; eauto; try (intros; reflexivity).
  - (* boolean *) intros b r c f rest pre post G EF EC EP B ENV. split; [|discriminate].
    cbn [compile_expr app length] in *. eapply run_push; eauto; try (intros; reflexivity).
  - (* string *) intros s r c f rest pre post G EF EC EP B ENV. split; [|discriminate].
    cbn [compile_expr app length] in *. eapply run_push; eauto; try (intros; reflexivity).
  - (* local variable *) intros n v L HH HL DV r c f rest pre post G EF EC EP B ENV.
    split; [|apply cv_data_not_nil; exact DV].
    cbn [compile_expr app length] in *. eapply run_push; eauto. intros c1 F1. cbn [exec_instr]. rewrite L. unfold get_variable. rewrite F1.
    rewrite lookup_frames_set_pos. destruct ENV as [EL _]. rewrite (EL _ _ HH HL). reflexivity.
  - (* global variable *) intros n v L HL DV r c f rest pre post G EF EC EP B ENV.
    split; [|apply cv_data_not_nil; exact DV].
    cbn [compile_expr app length] in *. eapply run_push; eauto. intros c1 F1. cbn [exec_instr]. rewrite L, F1. unfold ns_get. cbn [f_ns set_pos].
    destruct ENV as [_ EG]. rewrite (EG _ _ HL). reflexivity.
  - (* array *) intros l vs HP IH r c f rest pre post G EF EC EP B ENV.
    rewrite compile_array in *. rewrite app_length. cbn [length]. rewrite <- app_assoc in EC.
    destruct (IH r c f rest pre ([IMakeArray (length l)] ++ post) G EF EC EP B ENV) as [S1 LEN].
    split; [|discriminate].
    set (k := length (flat_map compile_expr l)) in *.
    set (c1 := adv c f rest k (rev (map cv vs))) in *.
    eapply steps_trans; [exact S1|].
    assert (G1 : Good (upd_cur r c1) c1) by (apply good_adv; exact G).
    assert (N : nth_error (f_code (set_pos f (f_pos f + k))) (f_pos (set_pos f (f_pos f + k))) = Some (IMakeArray (length l))).
    { cbn [f_code f_pos set_pos]. rewrite EC, EP. replace (length pre + k) with (length (pre ++ flat_map compile_expr l)) by (rewrite app_length; reflexivity).
      rewrite app_assoc. apply nth_error_mid. }
    destruct (run_one (upd_cur r c1) c1 (set_pos f (f_pos f + k)) rest (IMakeArray (length l))
                (adv c f rest (k + 1) [cv (RArr vs)]) G1 eq_refl N) as [S2 _].
    + cbn [exec_instr]. rewrite LEN, <- (map_length cv vs), <- (rev_length (map cv vs)).
      unfold c1, adv. cbn [set_frames c_frames set_values f_pos set_pos].
      match goal with |- context [pop_args _ ?x []] =>
        change x with (set_values (set_frames c (set_pos f (S (f_pos f + k)) :: rest)) (rev (map cv vs) ++ c_values c)) end.
      erewrite pop_args_stack; [|reflexivity|exact B]. rewrite rev_involutive, app_nil_r.
      unfold push_value. cbn. replace (S (f_pos f + k)) with (f_pos f + (k + 1)) by lia. reflexivity.
    + destruct G as (_ & _ & _ & _ & _ & _ & SU); exact SU.
    + rewrite upd_cur_twice in S2. exact S2.
  - (* unary *) intros n a va v NL HA IHa HU r c f rest pre post G EF EC EP B ENV.
    rewrite (compile_unary_nonlit n a NL) in *. rewrite app_length. cbn [length]. rewrite <- app_assoc in EC.
    destruct (IHa r c f rest pre ([IUnary (lower n)] ++ post) G EF EC EP B ENV) as [S1 NV].
    set (k := length (compile_expr a)) in *.
    set (c1 := adv c f rest k [cv va]) in *.
    assert (G1 : Good (upd_cur r c1) c1) by (apply good_adv; exact G).
    assert (N : nth_error (f_code (set_pos f (f_pos f + k))) (f_pos (set_pos f (f_pos f + k))) = Some (IUnary (lower n))).
    { cbn [f_code f_pos set_pos]. rewrite EC, EP. replace (length pre + k) with (length (pre ++ compile_expr a)) by (rewrite app_length; reflexivity).
      rewrite app_assoc. apply nth_error_mid. }
    assert (VV : cv v <> VNil).
    { unfold pure_unary, option_map in HU. crack HU; inversion HU; discriminate. }
    split; [|exact VV].
    eapply steps_trans; [exact S1|].
    destruct (run_one (upd_cur r c1) c1 (set_pos f (f_pos f + k)) rest (IUnary (lower n))
                (adv c f rest (k + 1) [cv v]) G1 eq_refl N) as [S2 _].
    + replace (adv c f rest (k + 1) [cv v])
        with (push_value (set_values (set_frames c (set_pos f (S (f_pos f + k)) :: rest)) (c_values c)) (cv v))
        by (unfold adv, push_value; cbn; replace (S (f_pos f + k)) with (f_pos f + (k + 1)) by lia; reflexivity).
      eapply (exec_unary_nonnil (lower n) (cv va) _ _ (set_values (set_frames c (set_pos f (S (f_pos f + k)) :: rest)) (c_values c))).
      * unfold c1, adv, pop_value. cbn [set_frames c_frames set_values c_values app length f_base set_pos f_pos].
        destruct (Nat.leb_spec (S (length (c_values c))) (f_base f)) as [L|L]; [lia|]. reflexivity.
      * exact NV.
      * rewrite lower_idem.
        match goal with |- op_unary _ _ ?rr ?cc = _ => destruct (pure_unary_vm (lower n) va v rr cc HU) as [OP _]; rewrite OP end.
        reflexivity.
    + destruct G as (_ & _ & _ & _ & _ & _ & SU); exact SU.
    + rewrite upd_cur_twice in S2. exact S2.
  - (* binary *) intros n a b va vb v HA IHa HB IHb HBin r c f rest pre post G EF EC EP B ENV.
    rewrite compile_binary in *. rewrite !app_length. cbn [length]. rewrite <- !app_assoc in EC.
    destruct (IHa r c f rest pre (compile_expr b ++ [IBinary (lower n)] ++ post) G EF EC EP B ENV) as [S1 NVa].
    set (ka := length (compile_expr a)) in *. set (kb := length (compile_expr b)) in *.
    set (c1 := adv c f rest ka [cv va]) in *.
    assert (G1 : Good (upd_cur r c1) c1) by (apply good_adv; exact G).
    destruct (IHb (upd_cur r c1) c1 (set_pos f (f_pos f + ka)) rest (pre ++ compile_expr a) ([IBinary (lower n)] ++ post) G1 eq_refl) as [S2 NVb].
    { cbn [f_code set_pos]. rewrite EC, <- !app_assoc. reflexivity. }
    { cbn [f_pos set_pos]. rewrite EP, app_length. reflexivity. }
    { cbn [f_base set_pos]. unfold c1, adv. cbn. lia. }
    { apply env_ok_upd. exact ENV. }
    fold kb in S2. rewrite upd_cur_twice in S2. unfold c1 in S2. rewrite adv_adv in S2.
    set (c2 := adv c f rest (ka + kb) ([cv vb] ++ [cv va])) in *.
    assert (G2 : Good (upd_cur r c2) c2) by (apply good_adv; exact G).
    assert (N : nth_error (f_code (set_pos f (f_pos f + (ka + kb)))) (f_pos (set_pos f (f_pos f + (ka + kb)))) = Some (IBinary (lower n))).
    { cbn [f_code f_pos set_pos]. rewrite EC, EP.
      replace (length pre + (ka + kb)) with (length (pre ++ compile_expr a ++ compile_expr b)) by (rewrite !app_length; lia).
      replace (pre ++ compile_expr a ++ compile_expr b ++ [IBinary (lower n)] ++ post)
        with ((pre ++ compile_expr a ++ compile_expr b) ++ IBinary (lower n) :: post) by (rewrite <- !app_assoc; reflexivity).
      apply nth_error_mid. }
    destruct (pure_binary_vm (lower n) va vb v r c HBin) as (_ & NA & NB).
    assert (VV : cv v <> VNil).
    { unfold pure_binary in HBin. crack HBin; inversion HBin; discriminate. }
    split; [|exact VV].
    eapply steps_trans; [exact S1|]. eapply steps_trans; [exact S2|].
    destruct (run_one (upd_cur r c2) c2 (set_pos f (f_pos f + (ka + kb))) rest (IBinary (lower n))
                (adv c f rest (ka + kb + 1) [cv v]) G2 eq_refl N) as [S3 _].
    + replace (adv c f rest (ka + kb + 1) [cv v])
        with (push_value (set_values (set_frames c (set_pos f (S (f_pos f + (ka + kb))) :: rest)) (c_values c)) (cv v))
        by (unfold adv, push_value; cbn; replace (S (f_pos f + (ka + kb))) with (f_pos f + (ka + kb + 1)) by lia; reflexivity).
      eapply (exec_binary_nonnil (lower n) (cv va) (cv vb) _ _
                (set_values (set_frames c (set_pos f (S (f_pos f + (ka + kb))) :: rest)) (cv va :: c_values c))
                (set_values (set_frames c (set_pos f (S (f_pos f + (ka + kb))) :: rest)) (c_values c))).
      * unfold c2, adv, pop_value. cbn [set_frames c_frames set_values c_values app length f_base set_pos f_pos].
        destruct (Nat.leb_spec (S (S (length (c_values c)))) (f_base f)) as [L|L]; [lia|]. reflexivity.
      * exact NB.
      * unfold pop_value. cbn [set_frames c_frames set_values c_values app length f_base set_pos f_pos].
        destruct (Nat.leb_spec (S (length (c_values c))) (f_base f)) as [L|L]; [lia|]. reflexivity.
      * exact NA.
      * rewrite lower_idem.
        match goal with |- op_binary _ _ _ ?rr ?cc = _ => destruct (pure_binary_vm (lower n) va vb v rr cc HBin) as (OP & _ & _); rewrite OP end.
        reflexivity.
    + destruct G as (_ & _ & _ & _ & _ & _ & SU); exact SU.
    + rewrite upd_cur_twice in S3. replace (ka + (kb + 1)) with (ka + kb + 1) by lia. exact S3.
  - (* nil list *) intros r c f rest pre post G EF EC EP B ENV. cbn. split; [|reflexivity].
    rewrite (adv_zero c f rest EF). destruct G as (C & _). rewrite (upd_cur_self r c C). apply StepsRefl.
  - (* cons *) intros e v l vs HE IHe HL IHl r c f rest pre post G EF EC EP B ENV.
    cbn [flat_map map rev] in *. rewrite app_length. rewrite <- app_assoc in EC.
    destruct (IHe r c f rest pre (flat_map compile_expr l ++ post) G EF EC EP B ENV) as [S1 NV].
    set (ke := length (compile_expr e)) in *.
    set (c1 := adv c f rest ke [cv v]) in *.
    assert (G1 : Good (upd_cur r c1) c1) by (apply good_adv; exact G).
    destruct (IHl (upd_cur r c1) c1 (set_pos f (f_pos f + ke)) rest (pre ++ compile_expr e) post G1 eq_refl) as [S2 LEN].
    { cbn [f_code set_pos]. rewrite EC, <- !app_assoc. reflexivity. }
    { cbn [f_pos set_pos]. rewrite EP, app_length. reflexivity. }
    { cbn [f_base set_pos]. unfold c1, adv. cbn. lia. }
    { apply env_ok_upd. exact ENV. }
    rewrite upd_cur_twice in S2. unfold c1 in S2. rewrite adv_adv in S2.
    split; [|cbn; lia]. eapply steps_trans; [exact S1|exact S2].
Qed.

(* ---------------------------------------------------------------- ... and it is what the reference semantics computes *)
Fixpoint esize (e:expr) : nat :=
  match e with
  | EArr l => S (S ((fix go (l:list expr) : nat := match l with [] => 0 | x :: r => esize x + go r end) l))
  | EUnary _ a => S (S (esize a))
  | EBinary _ a b => S (S (esize a + esize b))
  | _ => 1 end.
Fixpoint esizes (l:list expr) : nat := match l with [] => 0 | x :: r => esize x + esizes r end.
Lemma esize_arr l : esize (EArr l) = S (S (esizes l)).
Proof. cbn [esize]. do 2 apply f_equal. induction l as [|x r IH]; cbn [esizes]; [reflexivity|]. rewrite IH. reflexivity. Qed.

Definition renv_ok (loc glob : string -> option rvalue) (s:sstate) : Prop :=
  (forall k, loc k = lookup_scopes k (st_scopes s)) /\ (forall k, glob k = match assoc (cur_ns_of s) (st_nss s) with Some m => assoc k m | None => None end).

Lemma pure_unary_ref n va v f s isc psc : pure_unary n va = Some v -> eval_unary (S f) s n va isc psc = (ONormal v, s).
Proof.
  unfold pure_unary. intros H.
  destruct (String.eqb n "!") eqn:E1; [apply String.eqb_eq in E1; subst n; destruct va; inversion H; reflexivity|].
  destruct (String.eqb n "count") eqn:E2; [apply String.eqb_eq in E2; subst n; destruct va; inversion H; reflexivity|].
  destruct (String.eqb n "str") eqn:E3.
  { apply String.eqb_eq in E3; subst n. unfold option_map in H.
    destruct (rshow true va) as [t|] eqn:ES; [|destruct va; discriminate H].
    assert (v = RStr t) by (destruct va; inversion H; reflexivity). subst v.
    unfold eval_unary. cbn [String.eqb Ascii.eqb Bool.eqb]. rewrite ES. reflexivity. }
  destruct (String.eqb n "-") eqn:E4.
  { apply String.eqb_eq in E4; subst n. destruct va; try discriminate H.
    destruct (Z.eqb n 0) eqn:Z0; [discriminate H|]. destruct (is_int_in_range (- n)) eqn:R; inversion H; subst.
    cbn. rewrite Z0. unfold rnum. rewrite R. reflexivity. }
  destruct (String.eqb n "+") eqn:E5; [|discriminate H].
  apply String.eqb_eq in E5; subst n. destruct va; inversion H; subst; reflexivity.
Qed.

Lemma pure_binary_ref n va vb v f s isc psc : pure_binary n va vb = Some v -> eval_binary (S f) s n va vb isc psc = (ONormal v, s).
Proof.
  unfold pure_binary. intros H.
  destruct (String.eqb n "+") eqn:E1.
  { apply String.eqb_eq in E1; subst n. destruct va, vb; try discriminate H.
    - destruct (is_int_in_range (n + n0)) eqn:R; inversion H; subst. cbn. unfold rnum. rewrite R. reflexivity.
    - inversion H; reflexivity.
    - inversion H; reflexivity. }
  destruct (String.eqb n "-") eqn:E2.
  { apply String.eqb_eq in E2; subst n. destruct va, vb; try discriminate H.
    destruct (is_int_in_range (n - n0)) eqn:R; inversion H; subst. cbn. unfold rnum. rewrite R. reflexivity. }
  destruct (String.eqb n "&&") eqn:E3; [apply String.eqb_eq in E3; subst n; destruct va, vb; inversion H; reflexivity|].
  destruct (String.eqb n "||") eqn:E4; [apply String.eqb_eq in E4; subst n; destruct va, vb; inversion H; reflexivity|].
  destruct (String.eqb n "<") eqn:E5; [apply String.eqb_eq in E5; subst n; destruct va, vb; inversion H; reflexivity|].
  destruct (String.eqb n ">") eqn:E6; [apply String.eqb_eq in E6; subst n; destruct va, vb; inversion H; reflexivity|].
  destruct (String.eqb n "<=") eqn:E7; [apply String.eqb_eq in E7; subst n; destruct va, vb; inversion H; reflexivity|].
  destruct (String.eqb n ">=") eqn:E8; [apply String.eqb_eq in E8; subst n; destruct va, vb; inversion H; reflexivity|].
  destruct (String.eqb n "*") eqn:E9.
  { apply String.eqb_eq in E9; subst n. destruct va, vb; try discriminate H.
    destruct (andb (Z.eqb (n * n0) 0) (orb (Z.ltb n 0) (Z.ltb n0 0))) eqn:NZ; [discriminate H|].
    destruct (is_int_in_range (n * n0)) eqn:R; inversion H; subst. cbn. rewrite NZ. unfold rnum. rewrite R. reflexivity. }
  destruct (String.eqb n "==") eqn:E10; [apply String.eqb_eq in E10; subst n; destruct va, vb; inversion H; reflexivity|].
  destruct (String.eqb n "!=") eqn:E11; [apply String.eqb_eq in E11; subst n; destruct va, vb; inversion H; reflexivity|].
  destruct (String.eqb n "isequalto") eqn:E12; [|discriminate H].
  apply String.eqb_eq in E12; subst n.
  destruct (rshow true va) as [ta|] eqn:SA; [|destruct va; try discriminate H; destruct vb; discriminate H].
  destruct (rshow true vb) as [tb|] eqn:SB; [|destruct va; try discriminate H; destruct vb; discriminate H].
  assert (v = RBool (req true va vb)) by (destruct va; try discriminate H; destruct vb; try discriminate H; inversion H; reflexivity). subst v.
  unfold eval_binary. cbn [String.eqb Ascii.eqb Bool.eqb orb]. rewrite SA, SB. reflexivity.
Qed.

Lemma data_not_nil v : is_data v = true -> v <> RNil /\ v <> RNone.
Proof. destruct v; cbn; intros H; try discriminate H; split; discriminate. Qed.

Lemma pure_unary_data n va v : pure_unary n va = Some v -> is_data va = true -> is_data v = true /\ va <> RNil /\ va <> RNone.
Proof.
  unfold pure_unary. intros H D. destruct (data_not_nil _ D) as [A B]. split; [|auto].
  unfold option_map in H. crack H; inversion H; subst; try reflexivity; exact D.
Qed.

Lemma forallb_app {A} (p:A->bool) a b : forallb p (a ++ b) = andb (forallb p a) (forallb p b).
Proof. induction a; cbn; auto. rewrite IHa. now rewrite andb_assoc. Qed.

Lemma pure_binary_data n va vb v : pure_binary n va vb = Some v -> is_data va = true -> is_data vb = true -> is_data v = true.
Proof.
  unfold pure_binary. intros H DA DB.
  crack H; inversion H; try reflexivity.
  cbn in *. rewrite forallb_app, DA, DB. reflexivity.
Qed.

Theorem pure_ref loc glob :
  (forall e v, pev loc glob e v -> is_data v = true /\
      forall s f, renv_ok loc glob s -> esize e <= f -> eval f s e = (ONormal v, s)) /\
  (forall l vs, pevs loc glob l vs -> forallb is_data vs = true /\
      forall s f acc, renv_ok loc glob s -> esizes l < f ->
        (fix go (s:sstate) (l:list expr) (acc:list rvalue) : outcome * sstate :=
           match l with
           | [] => (ONormal (RArr (rev acc)), s)
           | x :: r => match eval f s x with
                       | (ONormal RNone, s1) => (OError, s1)
                       | (ONormal v, s1) => go s1 r (v :: acc)
                       | other => other end end) s l acc = (ONormal (RArr (rev acc ++ vs)), s)).
Proof.
  apply pev_pevs_ind.
  - intros n. split; [reflexivity|]. intros s [|f] _ L; [cbn in L; lia|reflexivity].
  - intros b. split; [reflexivity|]. intros s [|f] _ L; [cbn in L; lia|reflexivity].
  - intros t. split; [reflexivity|]. intros s [|f] _ L; [cbn in L; lia|reflexivity].
  - intros n v IL HH HL DV. split; [exact DV|]. intros s [|f] [EL _] L; [cbn in L; lia|]. cbn [eval]. rewrite IL, <- EL, HL. reflexivity.
  - intros n v IL HL DV. split; [exact DV|]. intros s [|f] [_ EG] L; [cbn in L; lia|]. cbn [eval]. rewrite IL. unfold rns_get. rewrite <- EG, HL. reflexivity.
  - intros l vs HP [DVS IH]. split; [exact DVS|]. intros s [|f] ENV L; [rewrite esize_arr in L; lia|].
    rewrite esize_arr in L. cbn [eval]. specialize (IH s f [] ENV). rewrite IH by lia. reflexivity.
  - intros n a va v NL HA [DA IHa] HU. destruct (pure_unary_data _ _ _ HU DA) as (DV & N1 & N2). split; [exact DV|].
    intros s [|f] ENV L; [cbn in L; lia|]. cbn [esize] in L.
    assert (E : eval (S f) s (EUnary n a) = match eval f s a with
              | (ONormal RNil, s1) => (ONormal RNone, s1) | (ONormal RNone, s1) => (OError, s1)
              | (ONormal v0, s1) => eval_unary f s1 (lower n) v0
                   (fun (s:sstate) (sc:scope) (b:list stmt) =>
                      let '(o, s1) := eval_block f (push_scope s sc) b RNil in
                      let s2 := pop_scope s1 in
                      match o with
                      | ONormal RNone => (ONormal RNil, s2)
                      | OExit v => (ONormal v, s2)
                      | OBreak name v => match st_scopes s1 with
                                         | sc' :: _ => if String.eqb (sc_name sc') name then (ONormal v, s2) else (OBreak name v, s2)
                                         | [] => (OBreak name v, s2) end
                      | other => (other, s2) end)
                   (fun (s:sstate) (vars:list (string*rvalue)) => mk_scope (cur_ns_of s) vars)
              | other => other end).
    { destruct a; try reflexivity. exfalso. eapply NL; reflexivity. }
    rewrite E. rewrite (IHa s f ENV) by lia.
    destruct f as [|f']; [lia|].
    destruct va; try contradiction; try (rewrite (pure_unary_ref _ _ _ f' s _ _ HU); reflexivity); try discriminate DA.
  - intros n a b va vb v HA [DA IHa] HB [DB IHb] HBin. split; [eapply pure_binary_data; eauto|].
    intros s [|f] ENV L; [cbn in L; lia|]. cbn [esize] in L. cbn [eval].
    rewrite (IHa s f ENV) by lia. rewrite (IHb s f ENV) by lia.
    destruct (data_not_nil _ DA) as [A1 A2]. destruct (data_not_nil _ DB) as [B1 B2].
    destruct f as [|f']; [lia|].
    destruct va; try contradiction; try discriminate DA; destruct vb; try contradiction; try discriminate DB;
      rewrite (pure_binary_ref _ _ _ _ f' s _ _ HBin); reflexivity.
  - split; [reflexivity|]. intros s f acc _ _. rewrite app_nil_r. reflexivity.
  - intros e v l vs HE [DE IHe] HL [DL IHl]. split; [cbn; rewrite DE, DL; reflexivity|].
    intros s f acc ENV L. cbn [esizes] in L. rewrite (IHe s f ENV) by lia.
    destruct (data_not_nil _ DE) as [A1 A2].
    assert (G : forall X, (match v with RNone => (OError, s) | _ => X end) = X) by (intros X; destruct v; try reflexivity; contradiction).
    transitivity ((fix go (s0 : sstate) (l0 : list expr) (acc0 : list rvalue) {struct l0} : outcome * sstate :=
       match l0 with
       | [] => (ONormal (RArr (rev acc0)), s0)
       | x :: r => match eval f s0 x with
                   | (ONormal RNone, s1) => (OError, s1)
                   | (ONormal v0, s1) => go s1 r (v0 :: acc0)
                   | other => other end end) s l (v :: acc)).
    + destruct v; try reflexivity; contradiction.
    + rewrite (IHl s f (v :: acc) ENV) by lia. cbn [rev]. rewrite <- app_assoc. reflexivity.
Qed.
