(* Shape lemmas about the VM model shared by the C11 and C12 proofs (part 1: operators): what one operator call, one exit
   behaviour, one frame::next, one error handling and one execute_do iteration can do to the machine -
   which fields they leave alone, how the context list evolves (existing contexts keep their place and
   identity, only terminate flags are raised, new contexts are appended with fresh ids) and how often
   the clock is read. *)
From Coq Require Import String Ascii ZArith List Bool Lia Arith.
From SqfVerif Require Import Gen.DiagCodes Gen.Overloads VM.VmDefs VM.VmExec VM.SchedDefs.
Import ListNotations.
Local Open Scope list_scope.

Opaque frame_fuel exec_fuel.

(* ------------------------------------------------------------------ fields nobody touches while executing *)
Definition rcfg (r:rt) := (r_tick r, r_max_runtime r, r_run_ts r, r_max_loop r, r_slice r, r_defects r, r_timestamp r).
Definition rctl (r:rt) := (r_exit_req r, r_halt_req r, r_run r, r_state r, r_active r).

(* ------------------------------------------------------------------ contexts *)
Definition ckey (c:context) := (c_id c, c_can_suspend c, c_weak c).
(* what may happen to the executing context: identity and kind stay, the terminate flag is only raised *)
Definition ctx_ok (c c':context) : Prop :=
  ckey c' = ckey c /\ (c_terminate c' = c_terminate c \/ c_terminate c' = true).
(* what may happen to a context that is not executing: nothing, or its terminate flag is raised *)
Definition term_le (c c':context) : Prop := c' = c \/ c' = set_terminate c true.

Lemma ctx_ok_refl c : ctx_ok c c.
Proof. split; auto. Qed.
Lemma ctx_ok_trans a b c : ctx_ok a b -> ctx_ok b c -> ctx_ok a c.
Proof. intros [K1 T1] [K2 T2]. split; [congruence|]. destruct T2 as [T2|T2]; [destruct T1; [left|right]; congruence | right; auto]. Qed.
Lemma term_le_refl c : term_le c c.
Proof. left; auto. Qed.
Lemma term_le_trans a b c : term_le a b -> term_le b c -> term_le a c.
Proof. intros [ -> | -> ] [ -> | -> ]; unfold term_le; auto. Qed.
Lemma term_le_ok c c' : term_le c c' -> ctx_ok c c'.
Proof. intros [ -> | -> ]; [apply ctx_ok_refl|]. split; auto. Qed.
Lemma term_le_id c c' : term_le c c' -> c_id c' = c_id c.
Proof. intros [ -> | -> ]; auto. Qed.
Lemma term_le_flag c c' : term_le c c' -> c_terminate c = true -> c_terminate c' = true.
Proof. intros [ -> | -> ]; auto. Qed.
Lemma ctx_ok_id c c' : ctx_ok c c' -> c_id c' = c_id c.
Proof. intros [K _]. unfold ckey in K. congruence. Qed.
Lemma ctx_ok_flag c c' : ctx_ok c c' -> c_terminate c = true -> c_terminate c' = true.
Proof. intros [_ [T|T]] H; congruence. Qed.

(* projections through the context helpers *)
Lemma ckey_set_frames c x : ckey (set_frames c x) = ckey c. Proof. reflexivity. Qed.
Lemma ckey_set_values c x : ckey (set_values c x) = ckey c. Proof. reflexivity. Qed.
Lemma ckey_set_suspended c b w : ckey (set_suspended c b w) = ckey c. Proof. reflexivity. Qed.
Lemma ckey_set_terminate c b : ckey (set_terminate c b) = ckey c. Proof. reflexivity. Qed.
Lemma ckey_push_frame c f : ckey (push_frame c f) = ckey c. Proof. reflexivity. Qed.
Lemma ckey_push_value c v : ckey (push_value c v) = ckey c. Proof. reflexivity. Qed.
Lemma ckey_pop_frame c : ckey (pop_frame c) = ckey c. Proof. reflexivity. Qed.
Lemma ckey_clear_values c : ckey (clear_values c) = ckey c. Proof. unfold clear_values. destruct (c_frames c); reflexivity. Qed.
Lemma ckey_upd_top c g : ckey (upd_top c g) = ckey c. Proof. unfold upd_top. destruct (c_frames c); reflexivity. Qed.
Lemma ckey_assign_local_var c n v : ckey (assign_local_var c n v) = ckey c.
Proof. unfold assign_local_var. destruct (assign_frames _ _ _); [reflexivity|apply ckey_upd_top]. Qed.
Lemma ckey_set_top_var c n v : ckey (set_top_var c n v) = ckey c. Proof. apply ckey_upd_top. Qed.
Lemma ckey_declare_top_var c n : ckey (declare_top_var c n) = ckey c. Proof. apply ckey_upd_top. Qed.
Lemma ckey_restart_with c v : ckey (restart_with c v) = ckey c.
Proof. unfold restart_with. rewrite ckey_upd_top. apply ckey_clear_values. Qed.
Lemma ckey_pop_clearing k : forall c, ckey (pop_clearing k c) = ckey c.
Proof. induction k; intro c; cbn [pop_clearing]; auto. rewrite IHk, ckey_pop_frame. apply ckey_clear_values. Qed.

Lemma ct_set_frames c x : c_terminate (set_frames c x) = c_terminate c. Proof. reflexivity. Qed.
Lemma ct_set_values c x : c_terminate (set_values c x) = c_terminate c. Proof. reflexivity. Qed.
Lemma ct_set_suspended c b w : c_terminate (set_suspended c b w) = c_terminate c. Proof. reflexivity. Qed.
Lemma ct_set_terminate c b : c_terminate (set_terminate c b) = b. Proof. reflexivity. Qed.
Lemma ct_push_frame c f : c_terminate (push_frame c f) = c_terminate c. Proof. reflexivity. Qed.
Lemma ct_push_value c v : c_terminate (push_value c v) = c_terminate c. Proof. reflexivity. Qed.
Lemma ct_pop_frame c : c_terminate (pop_frame c) = c_terminate c. Proof. reflexivity. Qed.
Lemma ct_clear_values c : c_terminate (clear_values c) = c_terminate c. Proof. unfold clear_values. destruct (c_frames c); reflexivity. Qed.
Lemma ct_upd_top c g : c_terminate (upd_top c g) = c_terminate c. Proof. unfold upd_top. destruct (c_frames c); reflexivity. Qed.
Lemma ct_assign_local_var c n v : c_terminate (assign_local_var c n v) = c_terminate c.
Proof. unfold assign_local_var. destruct (assign_frames _ _ _); [reflexivity|apply ct_upd_top]. Qed.
Lemma ct_set_top_var c n v : c_terminate (set_top_var c n v) = c_terminate c. Proof. apply ct_upd_top. Qed.
Lemma ct_declare_top_var c n : c_terminate (declare_top_var c n) = c_terminate c. Proof. apply ct_upd_top. Qed.
Lemma ct_restart_with c v : c_terminate (restart_with c v) = c_terminate c.
Proof. unfold restart_with. rewrite ct_upd_top. apply ct_clear_values. Qed.
Lemma ct_pop_clearing k : forall c, c_terminate (pop_clearing k c) = c_terminate c.
Proof. induction k; intro c; cbn [pop_clearing]; auto. rewrite IHk, ct_pop_frame. apply ct_clear_values. Qed.

#[export] Hint Rewrite ckey_set_frames ckey_set_values ckey_set_suspended ckey_set_terminate ckey_push_frame ckey_push_value
  ckey_pop_frame ckey_clear_values ckey_upd_top ckey_assign_local_var ckey_set_top_var ckey_declare_top_var ckey_restart_with
  ckey_pop_clearing
  ct_set_frames ct_set_values ct_set_suspended ct_set_terminate ct_push_frame ct_push_value ct_pop_frame ct_clear_values
  ct_upd_top ct_assign_local_var ct_set_top_var ct_declare_top_var ct_restart_with ct_pop_clearing : ctx.

Lemma pop_value_keys c v c1 : pop_value c = Some (v, c1) -> ckey c1 = ckey c /\ c_terminate c1 = c_terminate c.
Proof.
  unfold pop_value. destruct (c_values c); [discriminate|]. destruct (c_frames c); [discriminate|].
  destruct (Nat.leb _ _); [discriminate|]. intro H; inversion H; subst. split; reflexivity.
Qed.
Lemma pop_value_ok c v c1 : pop_value c = Some (v, c1) -> ctx_ok c c1.
Proof. intro H. apply pop_value_keys in H. destruct H. split; auto. Qed.

(* closes a goal [ctx_ok c X] where X is built from c (and from contexts known to be ctx_ok-related to c) *)
Ltac ctx_solve :=
  repeat match goal with
         | H : pop_value _ = Some (_, _) |- _ => apply pop_value_keys in H; destruct H
         | H : ctx_ok _ _ |- _ => destruct H
         end;
  unfold ctx_ok; autorewrite with ctx;
  split; [ congruence | first [ left; congruence | right; congruence
                              | repeat match goal with H : _ \/ _ |- _ => destruct H end;
                                first [ left; congruence | right; congruence ] ] ].

(* ------------------------------------------------------------------ the machine record *)
(* what operators, behaviours and error handling do to the machine besides the executing context:
   a sequence of these primitive updates *)
Inductive reach (r:rt) : rt -> Prop :=
| reach_refl : reach r r
| reach_log r1 d : reach r r1 -> reach r (logmsg r1 d)
| reach_mark r1 s : reach r r1 -> reach r (mark r1 s)
| reach_ns r1 a b v : reach r r1 -> reach r (ns_set r1 a b v)
| reach_clock r1 t : reach r r1 -> t = (r_clock r1 + r_tick r1)%Z -> reach r (set_clock r1 t)
| reach_spawn r1 nc : reach r r1 -> c_id nc = r_next_id r1 ->
    reach r (set_next_id (set_ctxs r1 (r_ctxs r1 ++ [nc])) (S (r_next_id r1)))
| reach_term r1 id : reach r r1 ->
    reach r (set_ctxs r1 (map (fun y => if Nat.eqb (c_id y) id then set_terminate y true else y) (r_ctxs r1)))
| reach_msgs r1 m : reach r r1 -> reach r (set_msgs r1 m)
| reach_errflag r1 b : reach r r1 -> reach r (set_errflag r1 b).

Lemma reach_trans r r1 r2 : reach r r1 -> reach r1 r2 -> reach r r2.
Proof. intros H1 H2. induction H2; try (econstructor; eauto; fail). assumption. Qed.

Lemma rcfg_logmsg r d : rcfg (logmsg r d) = rcfg r.
Proof. unfold logmsg. destruct (Z.leb _ _); reflexivity. Qed.
Lemma rctl_logmsg r d : rctl (logmsg r d) = rctl r.
Proof. unfold logmsg. destruct (Z.leb _ _); reflexivity. Qed.
Lemma ctxs_logmsg r d : r_ctxs (logmsg r d) = r_ctxs r.
Proof. unfold logmsg. destruct (Z.leb _ _); reflexivity. Qed.
Lemma clock_logmsg r d : r_clock (logmsg r d) = r_clock r.
Proof. unfold logmsg. destruct (Z.leb _ _); reflexivity. Qed.
Lemma nextid_logmsg r d : r_next_id (logmsg r d) = r_next_id r.
Proof. unfold logmsg. destruct (Z.leb _ _); reflexivity. Qed.

Lemma reach_cfg r r' : reach r r' -> rcfg r' = rcfg r.
Proof. induction 1; auto; try (rewrite <- IHreach; reflexivity). rewrite rcfg_logmsg; auto. Qed.
Lemma reach_ctl r r' : reach r r' -> rctl r' = rctl r.
Proof. induction 1; auto; try (rewrite <- IHreach; reflexivity). rewrite rctl_logmsg; auto. Qed.
(* the clock only moves by whole ticks: k = number of clock reads *)
Lemma reach_clock_reads r r' : reach r r' -> exists k:nat, r_clock r' = (r_clock r + Z.of_nat k * r_tick r)%Z.
Proof.
  induction 1; try (destruct IHreach as [k IH]; exists k; rewrite <- IH; try reflexivity; fail).
  - exists O. cbn. lia.
  - destruct IHreach as [k IH]. exists k. rewrite clock_logmsg. auto.
  - destruct IHreach as [k IH]. exists (S k). cbn [r_clock set_clock rt_with]. subst t.
    assert (E : r_tick r1 = r_tick r) by (apply reach_cfg in H; unfold rcfg in H; congruence).
    rewrite IH, E. lia.
Qed.

(* ------------------------------------------------------------------ how the context list evolves *)
Definition fresh_from (n n':nat) (sp:list context) : Prop :=
  n <= n' /\ Forall (fun c => n <= c_id c < n') sp /\ NoDup (map c_id sp).
(* existing contexts keep their position (flags may be raised), new ones are appended with fresh ids *)
Definition ctxs_ext (l:list context) (n:nat) (l':list context) (n':nat) : Prop :=
  exists l1 sp, l' = l1 ++ sp /\ Forall2 term_le l l1 /\ fresh_from n n' sp.

Lemma Forall2_term_le_refl l : Forall2 term_le l l.
Proof. induction l; constructor; auto using term_le_refl. Qed.
Lemma Forall2_term_le_trans a b c : Forall2 term_le a b -> Forall2 term_le b c -> Forall2 term_le a c.
Proof.
  intros H; revert c; induction H; intros c0 H2; inversion H2; subst; constructor; eauto using term_le_trans.
Qed.
Lemma Forall2_term_le_ids a b : Forall2 term_le a b -> map c_id b = map c_id a.
Proof. induction 1; cbn; auto. rewrite IHForall2. f_equal. apply term_le_id; auto. Qed.
Definition raise (id:nat) (y:context) : context := if Nat.eqb (c_id y) id then set_terminate y true else y.
Lemma raise_term_le id y : term_le y (raise id y).
Proof. unfold raise. destruct (Nat.eqb _ _); [right|left]; auto. Qed.
Lemma raise_id id y : c_id (raise id y) = c_id y.
Proof. unfold raise. destruct (Nat.eqb _ _); auto. Qed.
Lemma Forall2_raise id l : Forall2 term_le l (map (raise id) l).
Proof. induction l; cbn; constructor; auto using raise_term_le. Qed.

Lemma ctxs_ext_refl l n : ctxs_ext l n l n.
Proof. exists l, []. rewrite app_nil_r. repeat split; auto using Forall2_term_le_refl; constructor. Qed.

Lemma NoDup_app_intro {A} (a b:list A) : NoDup a -> NoDup b -> (forall x, In x a -> ~ In x b) -> NoDup (a ++ b).
Proof.
  induction a as [|x a IH]; cbn; intros Ha Hb Hd; auto.
  inversion Ha; subst. constructor.
  - rewrite in_app_iff. intros [H|H]; [auto|]. apply (Hd x); auto.
  - apply IH; auto.
Qed.
Lemma NoDup_app_elim {A} (a b:list A) : NoDup (a ++ b) -> NoDup a /\ NoDup b /\ (forall x, In x a -> ~ In x b).
Proof.
  induction a as [|x a IH]; cbn; intros H.
  - repeat split; auto. constructor.
  - inversion H; subst. destruct (IH H3) as (Ha & Hb & Hd). rewrite in_app_iff in H2. repeat split; auto.
    + constructor; auto.
    + intros y [->|Hy]; auto.
Qed.

Lemma fresh_from_app n n' n'' a b : fresh_from n n' a -> fresh_from n' n'' b -> fresh_from n n'' (a ++ b).
Proof.
  intros (L1 & F1 & D1) (L2 & F2 & D2). split; [lia|]. split.
  - apply Forall_app; split; (eapply Forall_impl; [|eassumption]); cbn; intros; lia.
  - rewrite map_app. apply NoDup_app_intro; auto.
    intros x Hx Hy. apply in_map_iff in Hx. destruct Hx as (c1 & <- & I1). apply in_map_iff in Hy. destruct Hy as (c2 & E & I2).
    rewrite Forall_forall in F1, F2. specialize (F1 _ I1). specialize (F2 _ I2). lia.
Qed.
Lemma fresh_from_relabel n n' a b : fresh_from n n' a -> map c_id b = map c_id a -> fresh_from n n' b.
Proof.
  intros (L & F & D) E. split; auto. split; [|rewrite E; auto].
  rewrite Forall_forall in *. intros c Hc. assert (In (c_id c) (map c_id b)) by (apply in_map; auto).
  rewrite E in H. apply in_map_iff in H. destruct H as (c' & E' & I'). specialize (F _ I'). lia.
Qed.

Lemma ctxs_ext_trans l n l' n' l'' n'' : ctxs_ext l n l' n' -> ctxs_ext l' n' l'' n'' -> ctxs_ext l n l'' n''.
Proof.
  intros (l1 & sp & -> & F1 & Fr1) (l2 & sp2 & -> & F2 & Fr2).
  apply Forall2_app_inv_l in F2. destruct F2 as (a & b & Fa & Fb & ->).
  exists a, (b ++ sp2). rewrite app_assoc. split; auto. split; [eauto using Forall2_term_le_trans|].
  eapply fresh_from_app; [|eassumption]. eapply fresh_from_relabel; [eassumption|]. apply Forall2_term_le_ids; auto.
Qed.

Lemma reach_ctxs r r' : reach r r' -> ctxs_ext (r_ctxs r) (r_next_id r) (r_ctxs r') (r_next_id r').
Proof.
  induction 1.
  - apply ctxs_ext_refl.
  - rewrite ctxs_logmsg, nextid_logmsg; auto.
  - exact IHreach.
  - exact IHreach.
  - exact IHreach.
  - eapply ctxs_ext_trans; [exact IHreach|]. cbn.
    exists (r_ctxs r1), [nc]. repeat split; auto using Forall2_term_le_refl.
    + constructor; [lia|constructor].
    + cbn. constructor; [intros []|constructor].
  - eapply ctxs_ext_trans; [exact IHreach|]. cbn.
    exists (map (raise id) (r_ctxs r1)), []. rewrite app_nil_r. repeat split; auto using Forall2_raise; constructor.
  - exact IHreach.
  - exact IHreach.
Qed.

(* ------------------------------------------------------------------ operators *)
Lemma ckey_declare_all l : forall c,
  ckey (fold_left (fun c' x => match x with VStr s => declare_top_var c' s | _ => c' end) l c) = ckey c.
Proof. induction l as [|x l IH]; intro c; cbn; auto. rewrite IH. destruct x; auto using ckey_declare_top_var. Qed.
Lemma ct_declare_all l : forall c,
  c_terminate (fold_left (fun c' x => match x with VStr s => declare_top_var c' s | _ => c' end) l c) = c_terminate c.
Proof. induction l as [|x l IH]; intro c; cbn; auto. rewrite IH. destruct x; auto using ct_declare_top_var. Qed.
#[export] Hint Rewrite ckey_declare_all ct_declare_all : ctx.

Ltac break_hyp H :=
  match type of H with
  | context [match ?x with _ => _ end] =>
      lazymatch x with
      | context [match _ with _ => _ end] => fail
      | _ => destruct x eqn:?
      end
  end.
Ltac reach_solve :=
  repeat first [ assumption | apply reach_refl | apply reach_log | apply reach_mark | apply reach_ns | (apply reach_clock; [|reflexivity])
               | apply reach_term | (apply reach_spawn; [|reflexivity]) | apply reach_msgs | apply reach_errflag ].
Ltac leaf H := inversion H; subst; clear H; split; [ reach_solve | ctx_solve ].

Lemma op_nular_shape n r c r' c' y : op_nular n r c = Ok (r', c', y) -> reach r r' /\ ctx_ok c c'.
Proof.
  unfold op_nular. intro H.
  repeat (break_hyp H; try discriminate; try (leaf H; fail)).
Qed.

Lemma op_breakout_shape r c v t r' c' y : op_breakout r c v t = Ok (r', c', y) -> reach r r' /\ ctx_ok c c'.
Proof.
  unfold op_breakout. intro H.
  repeat (break_hyp H; try discriminate; try (leaf H; fail)).
Qed.

Lemma err_enact_shape r c k failed r' c' : err_enact r c k = Ok (failed, r', c') -> r' = r /\ ctx_ok c c'.
Proof.
  unfold err_enact. intro H.
  repeat (break_hyp H; try discriminate; try (inversion H; subst; clear H; split; [reflexivity|ctx_solve]; fail)).
Qed.

Lemma op_throw_shape r c v r' c' y : op_throw r c v = Ok (r', c', y) -> reach r r' /\ ctx_ok c c'.
Proof.
  unfold op_throw. intro H. destruct (find_handler _ _); [|leaf H].
  unfold bindr in H. destruct (err_enact _ _ _) as [[[failed r2] c2]| | |] eqn:E; try discriminate.
  apply err_enact_shape in E. destruct E as [-> E]. 
  assert (E0 : ctx_ok c c2) by (eapply ctx_ok_trans; [|exact E]; ctx_solve). clear E.
  repeat (break_hyp H; try discriminate; try (leaf H; fail)).
Qed.

Ltac op_branch H :=
  unfold bindr, num, now in H;
  try (leaf H; fail);
  repeat (first [ break_hyp H; try discriminate
                | match type of H with
                  | op_throw _ _ _ = Ok _ => apply op_throw_shape in H; exact H
                  | op_breakout _ _ _ _ = Ok _ => apply op_breakout_shape in H; exact H
                  end ];
          try (leaf H; fail)).

Lemma op_unary_shape n v r c r' c' y : op_unary n v r c = Ok (r', c', y) -> reach r r' /\ ctx_ok c c'.
Proof.
  unfold op_unary. cbv zeta.
  repeat match goal with
         | |- (if String.eqb n ?s then _ else _) = _ -> _ =>
             destruct (String.eqb n s); [ intro H; op_branch H; fail | ]
         end.
  intro H; discriminate.
Qed.

Lemma op_binary_shape n l v r c r' c' y : op_binary n l v r c = Ok (r', c', y) -> reach r r' /\ ctx_ok c c'.
Proof.
  unfold op_binary. cbv zeta.
  repeat match goal with
         | |- (if String.eqb n ?s then _ else _) = _ -> _ =>
             destruct (String.eqb n s); [ intro H; op_branch H; fail | ]
         | |- (if orb (String.eqb n ?s) (String.eqb n ?s2) then _ else _) = _ -> _ =>
             destruct (orb (String.eqb n s) (String.eqb n s2)); [ intro H; op_branch H; fail | ]
         end.
  intro H. op_branch H.
Qed.

