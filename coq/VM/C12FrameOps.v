(* C12 - isolation: the turns of two scheduled scripts that touch disjoint state commute.
   Frame transformers: a change of the machine that the executing script neither reads nor overwrites (another
   script's context, log lines at the old end of the log, global variables outside its footprint) commutes with
   everything the executing script does - operators, behaviours, frame::next, error handling, execute_do, a
   scheduler turn. The effect of an independent turn is such a change. *)
From Coq Require Import String Ascii ZArith List Bool Lia Arith.
From SqfVerif Require Import Gen.DiagCodes Gen.Overloads VM.VmDefs VM.VmExec VM.SchedDefs VM.SchedOps VM.SchedBase VM.SchedIter.
Import ListNotations.
Local Open Scope list_scope.

Opaque frame_fuel exec_fuel.

(* ------------------------------------------------------------------ global variables as keys *)
Definition key := (string * string)%type.     (* namespace, lower-cased variable name *)
Definition key_eqb (a b:key) : bool := andb (String.eqb (fst a) (fst b)) (String.eqb (snd a) (snd b)).
Definition kin (k:key) (l:list key) : bool := existsb (key_eqb k) l.
Notation nsmap := (list (string * list (string * value))) (only parsing).

Definition raw_get (nss:nsmap) (ns n:string) : option value :=
  match assoc ns nss with Some m => assoc n m | None => None end.
Definition raw_set (nss:nsmap) (ns n:string) (v:value) : nsmap :=
  assoc_set ns (assoc_set n v (match assoc ns nss with Some m => m | None => [] end)) nss.
Lemma ns_get_raw r ns n : ns_get r ns n = raw_get (r_nss r) ns (lower n).
Proof. reflexivity. Qed.
Lemma ns_set_raw r ns n v : ns_set r ns n v = set_nss r (raw_set (r_nss r) ns (lower n) v).
Proof. reflexivity. Qed.

(* ------------------------------------------------------------------ frame transformers *)
Record tr := { t_ctx : list context -> list context; t_out : list event; t_nss : nsmap -> nsmap }.
Definition app (T:tr) (r:rt) : rt :=
  {| r_ctxs := t_ctx T (r_ctxs r);
     r_active := r_active r; r_state := r_state r; r_exit_req := r_exit_req r; r_halt_req := r_halt_req r;
     r_run := r_run r; r_err := r_err r; r_msgs := r_msgs r; r_out := r_out r ++ t_out T; r_nss := t_nss T (r_nss r);
     r_clock := r_clock r; r_tick := r_tick r; r_timestamp := r_timestamp r; r_run_ts := r_run_ts r;
     r_max_runtime := r_max_runtime r; r_max_loop := r_max_loop r; r_slice := r_slice r; r_next_id := r_next_id r;
     r_defects := r_defects r |}.
(* T is invisible to the script at index i with read footprint R and write footprint W: it leaves the script's own
   context alone (and the number of contexts), and the globals the script reads or assigns *)
Record tr_ok (T:tr) (i:nat) (R W:list key) : Prop := {
  tk_nth : forall l, nth_error (t_ctx T l) i = nth_error l i;
  tk_upd : forall l c, t_ctx T (list_upd l i c) = list_upd (t_ctx T l) i c;
  tk_len : forall l, length (t_ctx T l) = length l;
  tk_get : forall nss ns n, kin (ns, n) R = true -> raw_get (t_nss T nss) ns n = raw_get nss ns n;
  tk_set : forall nss ns n v, kin (ns, n) W = true -> t_nss T (raw_set nss ns n v) = raw_set (t_nss T nss) ns n v }.

(* app commutes with the primitive updates *)
Lemma app_logmsg T r d : logmsg (app T r) d = app T (logmsg r d).
Proof. unfold logmsg. cbn. destruct (Z.leb (fst d) 1); reflexivity. Qed.
Lemma app_mark T r s : mark (app T r) s = app T (mark r s).
Proof. reflexivity. Qed.
Lemma app_set_clock T r t : set_clock (app T r) t = app T (set_clock r t).
Proof. reflexivity. Qed.
Lemma app_set_msgs T r m : set_msgs (app T r) m = app T (set_msgs r m).
Proof. reflexivity. Qed.
Lemma app_set_errflag T r b : set_errflag (app T r) b = app T (set_errflag r b).
Proof. reflexivity. Qed.
Lemma app_set_exit_req T r b : set_exit_req (app T r) b = app T (set_exit_req r b).
Proof. reflexivity. Qed.
Lemma app_set_active T r a : set_active (app T r) a = app T (set_active r a).
Proof. reflexivity. Qed.
Lemma app_defect T r d : defect (app T r) d = defect r d.
Proof. reflexivity. Qed.
Lemma app_ns_get T i R W r ns n : tr_ok T i R W -> kin (ns, lower n) R = true -> ns_get (app T r) ns n = ns_get r ns n.
Proof. intros OK K. rewrite !ns_get_raw. cbn [r_nss app]. apply (tk_get _ _ _ _ OK); auto. Qed.
Lemma app_ns_set T i R W r ns n v : tr_ok T i R W -> kin (ns, lower n) W = true -> ns_set (app T r) ns n v = app T (ns_set r ns n v).
Proof.
  intros OK K. pose proof (tk_set _ _ _ _ OK) as S. rewrite !ns_set_raw. unfold app at 2. cbn [r_nss set_nss rt_with r_ctxs r_out r_active r_state r_exit_req r_halt_req r_run r_err r_msgs r_clock r_tick r_timestamp r_run_ts r_max_runtime r_max_loop r_slice r_next_id r_defects].
  rewrite <- S by auto. reflexivity.
Qed.

Definition map_op (f:rt -> rt) (x:opres) : opres :=
  match x with Ok (r, c, v) => Ok (f r, c, v) | Unsupported w => Unsupported w | Hang w => Hang w | UB w => UB w end.

Lemma app_op_nular T n r c : op_nular n (app T r) c = map_op (app T) (op_nular n r c).
Proof.
  unfold op_nular.
  repeat match goal with |- context [if ?x then _ else _] => destruct x end; try reflexivity.
  destruct (c_frames c); reflexivity.
Qed.

Ltac app_norm := unfold defect, now, bindr, num; cbn [r_defects r_clock r_tick r_max_loop r_next_id r_max_runtime r_run_ts app].
Ltac app_split :=
  repeat match goal with
         | |- context [match ?x with _ => _ end] =>
             lazymatch x with
             | context [app] => fail
             | context [ns_get] => fail
             | context [match _ with _ => _ end] => fail
             | _ => destruct x eqn:?
             end
         end.
Ltac app_leaf := cbn [map_op bindr]; rewrite ?app_logmsg, ?app_mark, ?app_set_clock; try reflexivity.

Lemma app_op_breakout T r c v t : op_breakout (app T r) c v t = map_op (app T) (op_breakout r c v t).
Proof. unfold op_breakout. app_norm. app_split; app_leaf. Qed.

Definition map_err (f:rt -> rt) (x:res (bool * rt * context)) : res (bool * rt * context) :=
  match x with Ok (b, r, c) => Ok (b, f r, c) | Unsupported w => Unsupported w | Hang w => Hang w | UB w => UB w end.
Lemma app_err_enact T r c k : err_enact (app T r) c k = map_err (app T) (err_enact r c k).
Proof. unfold err_enact. cbn [r_err app]. app_split; reflexivity. Qed.

Lemma app_op_throw T r c v : op_throw (app T r) c v = map_op (app T) (op_throw r c v).
Proof.
  unfold op_throw. destruct (find_handler _ _); [|app_leaf].
  rewrite app_err_enact. destruct (err_enact r _ _) as [[[failed r2] c2]| | |]; cbn [map_err bindr map_op]; try reflexivity.
  app_split; app_leaf.
Qed.

(* ------------------------------------------------------------------ what an operator call may touch *)
(* a unary operator call is admissible if it is not scriptDone / terminate (they look at other scripts) and, for
   isNil "name", the global it may read is in the read footprint *)
Definition uop_ok (R:list key) (n:string) (v:value) (c:context) : bool :=
  if String.eqb n "scriptdone" then false else if String.eqb n "terminate" then false
  else if String.eqb n "isnil" then
    match v, c_frames c with VStr s, f :: _ => kin (f_ns f, lower s) R | _, _ => true end
  else true.

Ltac app_branch := app_norm; app_split; rewrite ?app_op_throw, ?app_op_breakout; app_leaf.

Lemma app_op_unary T i R W n v r c : tr_ok T i R W -> uop_ok R n v c = true ->
  op_unary n v (app T r) c = map_op (app T) (op_unary n v r c).
Proof.
  intros OK H. unfold op_unary. cbv zeta.
  repeat match goal with
         | |- (if String.eqb n ?s then _ else _) = _ =>
             destruct (String.eqb n s) eqn:?E;
             [ first [ (app_branch; fail)
                     | (match goal with HE : String.eqb n _ = true |- _ => apply String.eqb_eq in HE; subst n end; cbn in H; try discriminate;
                        destruct v; try reflexivity;
                        destruct (get_variable c s); try reflexivity;
                        destruct (c_frames c); try reflexivity;
                        erewrite app_ns_get by eauto; reflexivity) ] | ]
         end.
  reflexivity.
Qed.

(* a binary operator call is admissible if it is not spawn and the global that getVariable / setVariable
   touches is in the read / write footprint *)
Definition bop_ok (R W:list key) (n:string) (l v:value) : bool :=
  if String.eqb n "spawn" then false
  else if String.eqb n "getvariable" then
    match l, v with
    | VNs s, VStr name => kin (s, lower name) R
    | VNs s, VArr [VStr name; _] => kin (s, lower name) R
    | _, _ => true end
  else if String.eqb n "setvariable" then
    match l, v with VNs s, VArr [VStr name; _] => kin (s, lower name) W | _, _ => true end
  else true.

Ltac app_special H :=
  match goal with HE : String.eqb ?n _ = true |- _ => apply String.eqb_eq in HE; subst n end; cbn in H; try discriminate;
  app_split; cbn in H; try discriminate;
  first [ reflexivity
        | (erewrite app_ns_get by eauto; reflexivity)
        | (erewrite app_ns_set by eauto; reflexivity) ].

Lemma app_op_binary T i R W n l v r c : tr_ok T i R W -> bop_ok R W n l v = true ->
  op_binary n l v (app T r) c = map_op (app T) (op_binary n l v r c).
Proof.
  intros OK H. unfold op_binary. cbv zeta.
  repeat match goal with
         | |- (if String.eqb n ?s then _ else _) = _ =>
             destruct (String.eqb n s) eqn:?E; [ first [ (app_branch; fail) | (app_special H; fail) ] | ]
         | |- (if orb (String.eqb n ?s) (String.eqb n ?s2) then _ else _) = _ =>
             destruct (orb (String.eqb n s) (String.eqb n s2)); [ app_branch; fail | ]
         end.
  app_branch.
Qed.
