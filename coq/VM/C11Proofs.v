(* C11 - execution bounds: the per-run time limit and the iteration cap of while in unscheduled code.
   Proofs about the VM model (VmDefs/VmExec) and its scheduler extension (SchedDefs). *)
From Coq Require Import String Ascii ZArith List Bool Lia Arith.
From SqfVerif Require Import Gen.DiagCodes Gen.Overloads VM.VmDefs VM.VmExec VM.SchedDefs VM.SchedOps VM.SchedBase VM.SchedIter VM.SchedEquiv.
Import ListNotations.
Local Open Scope list_scope.

Opaque frame_fuel exec_fuel.

(* ================================================================== the time limit *)

(* ------------------------------------------------------------------ the test itself *)
Lemma deadline_test_fires r : r_max_runtime r <> 0%Z -> (r_max_runtime r + r_run_ts r < r_clock r + r_tick r)%Z ->
  fst (deadline_test r) = true.
Proof.
  intros Hm Hd. rewrite deadline_test_spec. destruct (Z.eqb_spec (r_max_runtime r) 0); [contradiction|].
  cbn. apply Z.ltb_lt; auto.
Qed.
Lemma deadline_test_passes r : (r_clock r + r_tick r <= r_max_runtime r + r_run_ts r)%Z -> fst (deadline_test r) = false.
Proof.
  intros Hd. rewrite deadline_test_spec. destruct (Z.eqb (r_max_runtime r) 0); auto. cbn. apply Z.ltb_ge; auto.
Qed.
(* the verdict depends on the limit, the start of the run, the clock and nothing else: in particular not
   on m_runtime_timestamp, the age of the VM *)
Lemma deadline_test_footprint r r' :
  r_max_runtime r = r_max_runtime r' -> r_run_ts r = r_run_ts r' -> r_clock r = r_clock r' -> r_tick r = r_tick r' ->
  fst (deadline_test r) = fst (deadline_test r').
Proof. intros A B C D. rewrite !deadline_test_spec, A, B, C, D. destruct (Z.eqb _ _); reflexivity. Qed.

(* ------------------------------------------------------------------ one iteration of execute_do *)
(* whatever the iteration does: if it executed an instruction (or went round an empty loop body once),
   the clock value read by the preceding test was within the limit *)
Theorem unit_within_limit b r r' i c :
  do_iter2 b r = Ok (Executed2 r') \/ do_iter2 b r = Ok (Restarted2 r') ->
  r_active r = Some i -> nth_error (r_ctxs r) i = Some c ->
  r_max_runtime r <> 0%Z -> (0 <= r_tick r)%Z ->
  (r_clock r + r_tick r <= r_max_runtime r + r_run_ts r)%Z /\ (r_clock r + r_tick r <= r_clock r')%Z.
Proof.
  intros H Ha Hc Hm Ht.
  assert (P : passed_test r r').
  { destruct H as [H|H]; apply (do_iter2_spec _ _ _ _ _ H Ha) in Hc; inversion Hc; auto. }
  destruct (passed_test_time _ _ P Hm Ht) as (t & T1 & T2 & T3). lia.
Qed.

(* ... and an iteration that finds the limit exceeded when an instruction is due (or an empty loop body went
   round) ends the slice: the result is runtime_error, MaximumRuntimeReached is logged at fatal level, exit is
   requested and no error state remains *)
Theorem deadline_fires b r i c fr r1 c1 ins :
  r_exit_req r = false -> r_active r = Some i -> nth_error (r_ctxs r) i = Some c ->
  c_suspended c = false -> c_frames c <> [] -> r_state r = StRunning ->
  frame_next2 b frame_fuel r c = Ok (fr, r1, c1) -> r_err r1 = false ->
  (fr = F2Restarted \/ (fr = F2Ok /\ current_instr c1 = Some ins)) ->
  r_max_runtime r <> 0%Z -> (r_max_runtime r + r_run_ts r < r_clock r1 + r_tick r)%Z ->
  exists r', do_iter2 b r = Ok (Return2 RRuntimeError r') /\
    r_exit_req r' = true /\ r_err r' = false /\ r_msgs r' = [] /\
    hd_error (r_out r') = Some (EDiag (fst d_MaximumRuntimeReached) (snd d_MaximumRuntimeReached)).
Proof.
  intros Ex Ha Hc Su Fr St FN Er Due Hm Hd.
  destruct (frame_next2_shape _ _ _ _ _ _ _ FN) as [R1 _].
  pose proof (reach_cfg _ _ R1) as C. unfold rcfg in C.
  assert (F : fst (deadline_test r1) = true).
  { apply deadline_test_fires; [congruence|]. replace (r_max_runtime r1) with (r_max_runtime r) by congruence.
    replace (r_run_ts r1) with (r_run_ts r) by congruence. replace (r_tick r1) with (r_tick r) by congruence. auto. }
  destruct (deadline_test r1) as [exp r2] eqn:T. cbn in F. subst exp.
  exists (abort_run (upd_cur r2 c1)). split; [|repeat split].
  unfold do_iter2. rewrite Ex. unfold cur. rewrite Ha, Hc, Su.
  destruct (c_frames c) eqn:Fr'; [congruence|]. rewrite St. rewrite FN. cbn [bindr]. rewrite Er.
  destruct Due as [->|[-> CI]].
  - rewrite T. reflexivity.
  - rewrite CI, T. reflexivity.
Qed.

(* ------------------------------------------------------------------ a pass, the loop, a run *)

(* the machine after a run that was cut by the time limit *)
Definition cut_by_limit (x:rresult) (r:rt) : Prop :=
  r_exit_req r = true /\ x = RRuntimeError /\ r_ctxs r = [] /\ r_state r = StEmpty /\
  In (EDiag (fst d_MaximumRuntimeReached) (snd d_MaximumRuntimeReached)) (r_out r).

Lemma visit_ctx_exit b1 b2 r i x r' v : visit_ctx b1 b2 r i = Ok (x, r', v) -> i < length (r_ctxs r) -> r_exit_req r = false ->
  (r_exit_req r' = true -> x = RRuntimeError /\ aborted r').
Proof.
  intros V Hi Ex. destruct (nth_error (r_ctxs r) i) as [c00|] eqn:Hc; [|apply nth_error_None in Hc; lia].
  destruct (visit_ctx_shape _ _ _ _ _ _ _ _ V Hc) as (_ & _ & Sh).
  apply (visit_shape_exit _ _ _ _ _ _ _ _ Sh Hc Ex).
Qed.

Lemma pass_run_exit b1 b2 r i x log p : pass_run b1 b2 r i x log p -> r_exit_req r = false ->
  match p with
  | PassDone2 _ r' _ => r_exit_req r' = false
  | PassExit2 x' r' _ => r_exit_req r' = false \/ cut_by_limit x' r'
  end.
Proof.
  induction 1; intro Ex; auto.
  - right. destruct (visit_ctx_exit _ _ _ _ _ _ _ H0 H Ex H1) as [-> [r0 ->]].
    repeat split; auto. cbn. left. reflexivity.
  - left. change (r_exit_req (retire r2 i) = false). rewrite retire_exit. auto.
  - apply IHpass_run. rewrite retire_exit. auto.
  - apply IHpass_run. auto.
Qed.

Lemma loop_run_exit b1 b2 r x ps x' r' ps' : loop_run b1 b2 r x ps x' r' ps' -> r_exit_req r = false ->
  r_exit_req r' = false \/ cut_by_limit x' r'.
Proof.
  induction 1; intro Ex; auto.
  - apply (pass_run_exit _ _ _ _ _ _ _ H0 Ex).
  - apply IHloop_run. apply (pass_run_exit _ _ _ _ _ _ _ H0 Ex).
Qed.

(* A run that the time limit cut: it is reported as failed (runtime_error), the diagnostic is in the log, and
   the VM is left empty - no contexts, state empty, not running. *)
Theorem run_cut_by_limit b1 b2 r x r' ps :
  execute_sw b1 b2 AStart r = Ok (x, r', ps) -> r_run r = false ->
  r_exit_req r' = true ->
  x = RRuntimeError /\ r_ctxs r' = [] /\ r_active r' = None /\ r_state r' = StEmpty /\ r_run r' = false /\
  In (EDiag (fst d_MaximumRuntimeReached) (snd d_MaximumRuntimeReached)) (r_out r').
Proof.
  intros H Hr Ex. cbn [execute_sw] in H. rewrite Hr in H.
  match type of H with context [start_loop2 b1 b2 exec_fuel ?a ?b ?c] =>
    destruct (start_loop2 b1 b2 exec_fuel a b c) as [[[x1 r1] ps1]| | |] eqn:L end; cbn [bindr] in H; try discriminate.
  inversion H; subst. clear H.
  apply start_loop2_loop_run in L. apply loop_run_exit in L; [|reflexivity].
  unfold finish_action in *.
  assert (E : r_exit_req (state_of_result x r1) = r_exit_req r1) by (destruct x; reflexivity).
  rewrite E in *. destruct (r_exit_req r1) eqn:E1.
  - destruct L as [L|(_ & -> & C & S & O)]; [discriminate|]. repeat split; auto.
  - cbn in Ex. rewrite E in Ex. congruence.
Qed.

(* ------------------------------------------------------------------ how much can happen before the limit *)
Fixpoint sum_units (l:list visit) : nat := match l with [] => 0 | v :: r => v_units v + sum_units r end.
Fixpoint total_units (ps:list (list visit)) : nat := match ps with [] => 0 | p :: r => sum_units p + total_units r end.
Lemma sum_units_app a b : sum_units (a ++ b) = sum_units a + sum_units b.
Proof. induction a; cbn; lia. Qed.
Lemma total_units_app a b : total_units (a ++ b) = total_units a + total_units b.
Proof. induction a; cbn; lia. Qed.

Lemma visit_ctx_time b1 r i x r' v : visit_ctx b1 false r i = Ok (x, r', v) -> i < length (r_ctxs r) ->
  r_max_runtime r <> 0%Z -> (0 <= r_tick r)%Z ->
  units_ok (r_tick r) (r_max_runtime r + r_run_ts r) (r_clock r) (r_clock r') (v_units v) /\ rcfg r' = rcfg r.
Proof.
  intros V Hi Hm Ht. destruct (nth_error (r_ctxs r) i) as [c00|] eqn:Hc; [|apply nth_error_None in Hc; lia].
  destruct (visit_ctx_shape _ _ _ _ _ _ _ _ V Hc) as (_ & Hx & Sh). split.
  - eapply visit_shape_time; eauto.
  - apply (vs_cfg _ _ _ (visit_shape_vstep _ _ _ _ _ _ _ _ Sh Hc)).
Qed.

Lemma pass_run_time b1 r i x log p : pass_run b1 false r i x log p ->
  r_max_runtime r <> 0%Z -> (0 <= r_tick r)%Z ->
  exists new, pass_log p = log ++ new /\ rcfg (pass_rt p) = rcfg r /\
    units_ok (r_tick r) (r_max_runtime r + r_run_ts r) (r_clock r) (r_clock (pass_rt p)) (sum_units new).
Proof.
  induction 1; intros Hm Ht.
  - exists []. rewrite app_nil_r. split; [reflexivity|]. split; [reflexivity|]. apply units_ok_zero. cbn [pass_rt]. lia.
  - destruct (visit_ctx_time _ _ _ _ _ _ H0 H Hm Ht) as [U C]. exists [v]. cbn. rewrite Nat.add_0_r. auto.
  - destruct (visit_ctx_time _ _ _ _ _ _ H0 H Hm Ht) as [U C]. exists [v]. cbn. rewrite Nat.add_0_r. auto.
  - destruct (visit_ctx_time _ _ _ _ _ _ H0 H Hm Ht) as [U C]. exists [v]. cbn [pass_log pass_rt sum_units]. rewrite Nat.add_0_r.
    split; [reflexivity|]. split.
    + transitivity (rcfg (retire r2 i)); [reflexivity|]. rewrite retire_cfg. auto.
    + change (r_clock (set_active (retire r2 i) None)) with (r_clock (retire r2 i)). rewrite retire_clock. auto.
  - destruct (visit_ctx_time _ _ _ _ _ _ H0 H Hm Ht) as [U C].
    pose proof (retire_cfg r2 i) as RC. assert (C2 : rcfg (retire r2 i) = rcfg r) by congruence. unfold rcfg in C2.
    destruct IHpass_run as (new & E & C3 & U3); [congruence|congruence|].
    exists (v :: new). rewrite E, <- app_assoc. split; auto. split; [congruence|].
    cbn [sum_units]. eapply units_ok_seq; [auto|exact U|].
    rewrite retire_clock in U3. replace (r_tick r) with (r_tick (retire r2 i)) by congruence.
    replace (r_max_runtime r) with (r_max_runtime (retire r2 i)) by congruence.
    replace (r_run_ts r) with (r_run_ts (retire r2 i)) by congruence. auto.
  - destruct (visit_ctx_time _ _ _ _ _ _ H0 H Hm Ht) as [U C]. unfold rcfg in C.
    destruct IHpass_run as (new & E & C3 & U3); [congruence|congruence|].
    exists (v :: new). rewrite E, <- app_assoc. split; auto. split; [unfold rcfg in *; congruence|].
    cbn [sum_units]. eapply units_ok_seq; [auto|exact U|].
    replace (r_tick r) with (r_tick r2) by congruence.
    replace (r_max_runtime r) with (r_max_runtime r2) by congruence.
    replace (r_run_ts r) with (r_run_ts r2) by congruence. auto.
Qed.

Lemma loop_run_time b1 r x ps x' r' ps' : loop_run b1 false r x ps x' r' ps' ->
  r_max_runtime r <> 0%Z -> (0 <= r_tick r)%Z ->
  exists new, ps' = ps ++ new /\ rcfg r' = rcfg r /\
    units_ok (r_tick r) (r_max_runtime r + r_run_ts r) (r_clock r) (r_clock r') (total_units new).
Proof.
  induction 1; intros Hm Ht.
  - exists []. rewrite app_nil_r. split; [reflexivity|]. split; [reflexivity|]. apply units_ok_zero. lia.
  - destruct (pass_run_time _ _ _ _ _ _ H0 Hm Ht) as (new & E & C & U). cbn in E, C, U. subst log.
    exists [new]. cbn. rewrite Nat.add_0_r. auto.
  - destruct (pass_run_time _ _ _ _ _ _ H0 Hm Ht) as (new & E & C & U). cbn in E, C, U. subst log. unfold rcfg in C.
    destruct IHloop_run as (new2 & E2 & C2 & U2); [congruence|congruence|].
    exists (new :: new2). rewrite E2, <- app_assoc. split; auto. split; [unfold rcfg in *; congruence|].
    cbn [total_units]. eapply units_ok_seq; [auto|exact U|].
    replace (r_tick r) with (r_tick r1) by congruence.
    replace (r_max_runtime r) with (r_max_runtime r1) by congruence.
    replace (r_run_ts r) with (r_run_ts r1) by congruence. auto.
Qed.

(* Repaired runtime. Whatever the scripts do: the units of work of a run - executed instructions, empty loop
   rounds, visits of sleeping scripts - all started before the limit, each took at least one tick of the clock.
   With the run's start s, limit m and a clock that advances by tick > 0 per query, a run performs at most
   m / tick of them before the test fails and the run is cut (instantiate with r_state r = StEmpty below). *)
Theorem run_work_bounded b1 r x r' ps :
  execute_sw b1 false AStart r = Ok (x, r', ps) -> r_run r = false ->
  r_max_runtime r <> 0%Z -> (0 < r_tick r)%Z ->
  let r0 := begin_run_if_empty (set_run r true) in
  total_units ps = 0 \/ (r_clock r0 + Z.of_nat (total_units ps) * r_tick r <= r_max_runtime r + r_run_ts r0)%Z.
Proof.
  intros H Hr Hm Ht r0. cbn [execute_sw] in H. rewrite Hr in H. fold r0 in H.
  set (rS := set_state (set_halt_req (set_exit_req r0 false) false) StRunning) in *.
  destruct (start_loop2 b1 false exec_fuel rS RInvalid []) as [[[x1 r1] ps1]| | |] eqn:L; cbn [bindr] in H; try discriminate.
  inversion H; subst. clear H.
  apply start_loop2_loop_run in L.
  assert (C0 : r_max_runtime r0 = r_max_runtime r /\ r_tick r0 = r_tick r).
  { unfold r0, begin_run_if_empty. destruct (r_state (set_run r true)); cbn; auto. }
  destruct C0 as [C1 C2].
  assert (E1 : r_max_runtime rS = r_max_runtime r0) by reflexivity.
  assert (E2 : r_tick rS = r_tick r0) by reflexivity.
  assert (E3 : r_run_ts rS = r_run_ts r0) by reflexivity.
  assert (E4 : r_clock rS = r_clock r0) by reflexivity.
  apply loop_run_time in L; [|congruence|rewrite E2, C2; lia].
  destruct L as (new & -> & _ & [_ U]). cbn [app] in *.
  rewrite E1, E2, E3, E4, C1, C2 in U. auto.
Qed.

(* the limit is measured from the start of the run: a run that begins on an empty runtime takes its start
   time from the clock at that moment, whatever the age of the VM (m_runtime_timestamp is not consulted) *)
Theorem deadline_measured_from_run_start r :
  r_state r = StEmpty ->
  let r0 := begin_run_if_empty (set_run r true) in
  r_run_ts r0 = (r_clock r + r_tick r)%Z /\ r_clock r0 = (r_clock r + r_tick r)%Z /\
  (forall ts, r_run_ts (begin_run_if_empty (set_run (set_timestamp r ts) true)) = r_run_ts r0).
Proof. intro St. unfold begin_run_if_empty. cbn. rewrite St. cbn. auto. Qed.

(* ... so that at most m / tick units fit into such a run, and at least the first (m / tick) - 1 tests pass:
   a test made no later than m after the start passes *)
Corollary fresh_run_work_bounded b1 r x r' ps :
  execute_sw b1 false AStart r = Ok (x, r', ps) -> r_run r = false -> r_state r = StEmpty ->
  (0 < r_max_runtime r)%Z -> (0 < r_tick r)%Z ->
  (Z.of_nat (total_units ps) * r_tick r <= r_max_runtime r)%Z.
Proof.
  intros H Hr St Hm0 Ht. assert (Hm : r_max_runtime r <> 0%Z) by lia.
  destruct (run_work_bounded _ _ _ _ _ H Hr Hm Ht) as [->|B]; [cbn; lia|].
  destruct (deadline_measured_from_run_start r St) as (A1 & A2 & _). rewrite A1, A2 in B. lia.
Qed.
Lemma test_within_limit_passes r0 r : r_run_ts r = r_clock r0 -> r_max_runtime r <> 0%Z ->
  (r_clock r + r_tick r <= r_clock r0 + r_max_runtime r)%Z -> fst (deadline_test r) = false.
Proof. intros A B C. apply deadline_test_passes. lia. Qed.

(* the start time of the run does not change while the run executes *)
Theorem run_ts_constant b1 b2 r x r' ps :
  execute_sw b1 b2 AStart r = Ok (x, r', ps) -> r_run r = false ->
  r_run_ts r' = r_run_ts (begin_run_if_empty (set_run r true)).
Proof.
  intros H Hr. cbn [execute_sw] in H. rewrite Hr in H.
  match type of H with context [start_loop2 b1 b2 exec_fuel ?a ?b ?c] =>
    destruct (start_loop2 b1 b2 exec_fuel a b c) as [[[x1 r1] ps1]| | |] eqn:L end; cbn [bindr] in H; try discriminate.
  inversion H; subst. clear H.
  apply start_loop2_loop_run in L.
  assert (G : forall b1 b2 r x ps x' r' ps', loop_run b1 b2 r x ps x' r' ps' -> r_run_ts r' = r_run_ts r).
  { clear. 
    assert (V : forall b1 b2 r i x r' v, visit_ctx b1 b2 r i = Ok (x, r', v) -> i < length (r_ctxs r) -> r_run_ts r' = r_run_ts r).
    { intros b1 b2 r i x r' v V Hi. destruct (nth_error (r_ctxs r) i) as [c00|] eqn:Hc; [|apply nth_error_None in Hc; lia].
      destruct (visit_ctx_shape _ _ _ _ _ _ _ _ V Hc) as (_ & _ & Sh).
      pose proof (vs_cfg _ _ _ (visit_shape_vstep _ _ _ _ _ _ _ _ Sh Hc)) as C. unfold rcfg in C. congruence. }
    assert (P : forall b1 b2 r i x log p, pass_run b1 b2 r i x log p -> r_run_ts (pass_rt p) = r_run_ts r).
    { induction 1; cbn [pass_rt]; auto.
      - apply V in H0; auto.
      - apply V in H0; auto.
      - apply V in H0; auto. pose proof (retire_cfg r2 i) as C. unfold rcfg in C. change (r_run_ts (retire r2 i) = r_run_ts r). congruence.
      - apply V in H0; auto. pose proof (retire_cfg r2 i) as C. unfold rcfg in C. congruence.
      - apply V in H0; auto. congruence. }
    induction 1; auto.
    - apply P in H0. auto.
    - apply P in H0. cbn in H0. congruence. }
  apply G in L. unfold finish_action. destruct (r_exit_req (state_of_result x r1)); destruct x; cbn in *; auto.
Qed.

(* ================================================================== the iteration cap of while *)
Definition sw_while : string := "while_empty_body_uncapped".

(* One call of the while behaviour that lets the loop go on (any result but ok), in an unscheduled context with
   the cap on: either the condition held and the body is started (counter unchanged), or an iteration was
   completed - the body ran to its end, or there is no body - and then the counter went up by one and is
   still below the cap. *)
Lemma while_enact loops m cond body r c br b1 r' c' :
  enact (BWhile loops m cond body) r c = Ok (br, b1, r', c') ->
  defect r sw_while = false -> c_can_suspend c = false -> 0 < r_max_loop r -> br <> BrOk ->
  (m = WCond /\ body <> [] /\ br = BrExchange body /\ b1 = BWhile loops WCode cond body) \/
  (m = WCond /\ body = [] /\ br = BrSeekStart /\ b1 = BWhile (S loops) WCond cond body /\ S loops < r_max_loop r) \/
  (m = WCode /\ br = BrExchange cond /\ b1 = BWhile (S loops) WCond cond body /\ S loops < r_max_loop r).
Proof.
  intros H D Cs Mx Nok. cbn [enact] in H. unfold sw_while in D. destruct m.
  - destruct (pop_value c) as [[v cx]|]; [|destruct (exit_value_missing r); inversion H; subst; congruence].
    destruct v; try (inversion H; subst; congruence).
    destruct b; [|inversion H; subst; congruence].
    destruct body as [|i0 body].
    + rewrite D, Cs in H. cbn [negb andb] in H.
      destruct (Nat.ltb_spec 0 (r_max_loop r)); [|lia]. cbn [andb] in H.
      destruct (Nat.leb_spec (r_max_loop r) (S loops)); inversion H; subst; [congruence|].
      right; left. repeat split; auto.
    + inversion H; subst. left. repeat split; auto. discriminate.
  - rewrite Cs in H. cbn [negb andb] in H.
    destruct (Nat.ltb_spec 0 (r_max_loop r)); [|lia]. cbn [andb] in H.
    destruct (Nat.leb_spec (r_max_loop r) (S loops)); inversion H; subst; [congruence|].
    right; right. repeat split; auto.
Qed.

(* a history of calls of one loop's behaviour that all let the loop go on; the machine and the context may be
   anything at every call (whatever condition and body did), as long as the context is unscheduled, the cap is
   mx and the switch has the given value; the list records the behaviour before each call *)
Inductive wsteps (old:bool) (mx:nat) : behavior -> list behavior -> behavior -> Prop :=
| ws_nil b : wsteps old mx b [] b
| ws_cons b r c br b1 r' c' l b2 :
    c_can_suspend c = false -> r_max_loop r = mx -> defect r sw_while = old ->
    enact b r c = Ok (br, b1, r', c') -> br <> BrOk -> wsteps old mx b1 l b2 ->
    wsteps old mx b (b :: l) b2.

(* iterations begun: calls made when the condition has just been evaluated (and held, since the loop goes on) *)
Definition in_cond (b:behavior) : bool := match b with BWhile _ WCond _ _ => true | _ => false end.
Definition iterations (l:list behavior) : nat := length (filter in_cond l).

Lemma while_cap_inv mx cond body : 0 < mx -> forall b l b2, wsteps false mx b l b2 ->
  forall loops m, b = BWhile loops m cond body -> loops < mx ->
  iterations l + loops + (match m with WCode => 1 | WCond => 0 end) <= mx.
Proof.
  intros Hmx b l b2 H. induction H; intros loops m Eb Lt.
  - subst. unfold iterations. cbn. destruct m; lia.
  - subst b. rewrite <- H0 in *.
    destruct (while_enact _ _ _ _ _ _ _ _ _ _ H2 H1 H Hmx H3)
      as [(-> & Nb & -> & ->)|[(-> & Eb & -> & -> & Lt2)|(-> & -> & -> & Lt2)]].
    + specialize (IHwsteps loops WCode eq_refl Lt). unfold iterations in *. cbn [filter in_cond length]. lia.
    + specialize (IHwsteps (S loops) WCond eq_refl Lt2). unfold iterations in *. cbn [filter in_cond length]. lia.
    + specialize (IHwsteps (S loops) WCond eq_refl Lt2). unfold iterations in *. cbn [filter in_cond length]. lia.
Qed.

(* In unscheduled code every while loop begins at most mx iterations, whatever its condition and body,
   including an empty body (the behaviour is pushed with a zero counter in condition mode by `do`). *)
Theorem while_cap mx cond body l b2 :
  0 < mx -> wsteps false mx (BWhile 0 WCond cond body) l b2 -> iterations l <= mx.
Proof.
  intros Hmx H. pose proof (while_cap_inv mx cond body Hmx _ _ _ H 0 WCond eq_refl Hmx) as Q. cbv iota in Q. lia.
Qed.

(* the counter is the number of completed iterations, and the call that makes it reach the cap ends the loop *)
Theorem while_counter_reaches_cap loops m cond body r c br b1 r' c' :
  enact (BWhile loops m cond body) r c = Ok (br, b1, r', c') ->
  defect r sw_while = false -> c_can_suspend c = false -> 0 < r_max_loop r ->
  (m = WCode \/ (m = WCond /\ body = [] /\ exists cx, pop_value c = Some (VBool true, cx))) ->
  exists m', b1 = BWhile (S loops) m' cond body /\ (r_max_loop r <= S loops -> br = BrOk).
Proof.
  intros H D Cs Mx Case. cbn [enact] in H. unfold sw_while in D.
  destruct Case as [->|(-> & -> & cx & P)].
  - rewrite Cs in H. cbn [negb andb] in H. destruct (Nat.ltb_spec 0 (r_max_loop r)); [|lia]. cbn [andb] in H.
    destruct (Nat.leb_spec (r_max_loop r) (S loops)); inversion H; subst; eexists; split; eauto; intro; lia.
  - rewrite P, D, Cs in H. cbn [negb andb] in H. destruct (Nat.ltb_spec 0 (r_max_loop r)); [|lia]. cbn [andb] in H.
    destruct (Nat.leb_spec (r_max_loop r) (S loops)); inversion H; subst; eexists; split; eauto; intro; lia.
Qed.

(* the code before the repair (switch on): with an empty body the counter never moved, so the loop could go
   round any number of times although the cap is 1 *)
Definition refute_frame : frame := mk_frame default_ns [IPush (VBool true)] None None [].
Definition refute_ctx : context := push_value (push_frame (new_context 0 false) refute_frame) (VBool true).
Definition refute_rt : rt := init_rt [sw_while] 0 0 1 150.
Theorem while_empty_body_uncapped_refuted :
  forall k, exists l b2, wsteps true 1 (BWhile 0 WCond [IPush (VBool true)] []) l b2 /\ iterations l = k.
Proof.
  intro k. exists (repeat (BWhile 0 WCond [IPush (VBool true)] []) k), (BWhile 0 WCond [IPush (VBool true)] []).
  split.
  - induction k; cbn [repeat]; [constructor|].
    eapply (ws_cons true 1 _ refute_rt refute_ctx); try reflexivity; [|exact IHk]. discriminate.
  - unfold iterations. induction k; cbn in *; auto.
Qed.
