(* C02 simulation, part 4: from the step relation to execute_do, the loop of runtime.cpp.  A slice of execute_do follows
   the path the simulation describes: it either gets to the end of that path or stops part-way along it (the slice is
   used up, or an exit was requested).  For a whole structured program in the root frame of a context: the slice that
   finishes it returns `empty`, the context has no frame left and holds exactly the program's value, and the
   namespaces are those of the reference result. *)
From Coq Require Import String Ascii.
From Coq Require Import ZArith List Bool Lia.
From SqfVerif Require Import Gen.DiagCodes Gen.Overloads VM.VmDefs VM.VmExec VM.RefSem VM.C02Proofs VM.SimDefs VM.SimProofs VM.SimBlock VM.SimCtl.
Import ListNotations.
Local Open Scope string_scope.
Local Open Scope list_scope.

Lemma execute_do_follows : forall r r2, Steps r r2 -> forall fuel n x r', execute_do fuel r n = Ok (x, r') ->
  (exists fuel2 n2, fuel2 <= fuel /\ n2 <= n /\ execute_do fuel2 r2 n2 = Ok (x, r')) \/
  (x = ROk /\ Steps r r' /\ Steps r' r2).
Proof.
  induction 1 as [r|r r1 r2 D CF S IH|r r1 r2 D CF S IH]; intros fuel n x r' H.
  - left. exists fuel, n. auto.
  - destruct fuel as [|fuel]; [discriminate H|]. cbn [execute_do] in H.
    destruct (r_exit_req r). { inversion H; subst. right. split; [reflexivity|]. split; [apply StepsRefl|eapply StepsExec; eauto]. }
    destruct n as [|n]. { inversion H; subst. right. split; [reflexivity|]. split; [apply StepsRefl|eapply StepsExec; eauto]. }
    rewrite D in H. cbn [bindr] in H.
    destruct (IH _ _ _ _ H) as [(f2 & n2 & L1 & L2 & E)|(X & S1 & S2)].
    + left. exists f2, n2. split; [lia|]. split; [lia|exact E].
    + right. split; [exact X|]. split; [eapply StepsExec; eauto|exact S2].
  - destruct fuel as [|fuel]; [discriminate H|]. cbn [execute_do] in H.
    destruct (r_exit_req r). { inversion H; subst. right. split; [reflexivity|]. split; [apply StepsRefl|eapply StepsCont; eauto]. }
    destruct n as [|n]. { inversion H; subst. right. split; [reflexivity|]. split; [apply StepsRefl|eapply StepsCont; eauto]. }
    rewrite D in H. cbn [bindr] in H.
    destruct (IH _ _ _ _ H) as [(f2 & n2 & L1 & L2 & E)|(X & S1 & S2)].
    + left. exists f2, n2. split; [lia|]. split; [lia|exact E].
    + right. split; [exact X|]. split; [eapply StepsCont; eauto|exact S2].
Qed.

(* the root frame of a context completes: it leaves its value (if it has one) and no frame *)
Lemma complete_root r c f top vals :
  Good r c -> c_frames c = [f] -> f_pos f = length (f_code f) -> f_exit f = None ->
  c_values c = top ++ vals -> length vals = f_base f ->
  let c4 := set_values (set_frames c []) (match top with [] => vals | x :: _ => x :: vals end) in
  Steps r (upd_cur r c4) /\ do_iter (upd_cur r c4) = Ok (Return REmpty (upd_cur r c4)).
Proof.
  intros G EF EP EX EV LB c4. pose proof G as (C & X & St & E & M & MR & SU).
  assert (G4 : Good (upd_cur r c4) c4) by (apply (good_upd r c c4 G); exact SU).
  split.
  - apply steps_cont_upd.
    unfold do_iter. rewrite X, C, SU, EF, St.
    destruct frame_fuel_S as [k Hk]. rewrite Hk. cbn [frame_next]. rewrite EF.
    assert (A1 : at_end f = false) by (unfold at_end; apply Nat.eqb_neq; lia).
    assert (A2 : at_end (set_pos f (S (f_pos f))) = true) by (unfold at_end; cbn; apply Nat.eqb_eq; lia).
    rewrite A1, A2. cbn [f_exit set_pos]. rewrite EX. cbn [bindr]. rewrite E.
    cbn [c_frames set_frames length]. rewrite Nat.eqb_refl.
    set (c1 := set_frames c [set_pos f (S (f_pos f))]).
    destruct top as [|x top].
    + cbn [app] in EV.
      assert (P : pop_value c1 = None).
      { unfold pop_value. cbn [c_values c1 set_frames c_frames f_base set_pos]. rewrite EV. destruct vals; [reflexivity|].
        destruct (Nat.leb_spec (length (v :: vals)) (f_base f)) as [L|L]; [reflexivity|lia]. }
      rewrite P. unfold clear_values, pop_frame. cbn [c_frames c1 set_frames c_values f_base set_pos tl set_values].
      rewrite EV, LB, Nat.sub_diag. cbn [skipn].
      destruct (defect r "block_value_dropped"); subst c4; cbn; reflexivity.
    + cbn [app] in EV.
      assert (P : pop_value c1 = Some (x, set_values c1 (top ++ vals))).
      { apply (pop_value_top c1 (set_pos f (S (f_pos f))) []); [reflexivity|exact EV|cbn; rewrite app_length; lia]. }
      rewrite P. unfold clear_values, pop_frame. cbn [c_frames c1 set_frames c_values f_base set_pos tl set_values].
      rewrite app_length, <- LB. replace (length top + length vals - length vals) with (length top) by lia.
      rewrite skipn_app, skipn_all, Nat.sub_diag. cbn [skipn app]. unfold push_value. cbn. reflexivity.
  - destruct G4 as (C4 & X4 & _ & _ & _ & _ & SU4). unfold do_iter. rewrite X4, C4, SU4. reflexivity.
Qed.

(* a whole structured program in the root frame *)
Theorem program_run s p reg s' r c f :
  xblock s RNone p reg s' ->
  AtM s RNone r c f [] [] -> f_code f = compile_block p -> f_pos f = 0 -> f_exit f = None ->
  exists rf cf,
    Steps r rf /\ cur rf = Some cf /\ c_frames cf = [] /\
    c_values cf = match reg with RNone => [] | v => [cv v] end /\
    world rf = (mnss (st_nss s'), st_trace s') /\
    do_iter rf = Ok (Return REmpty rf) /\
    forall fuel n x r', execute_do fuel r n = Ok (x, r') ->
      (x = REmpty /\ r' = rf) \/ (x = ROk /\ Steps r r' /\ Steps r' rf).
Proof.
  intros HB A EC EP EX.
  assert (FR : Fresh c []).
  { destruct A as (_ & _ & top & EV & RR). apply fresh_nil. destruct top as [|x t]; [rewrite EV; reflexivity|]. destruct RR as (_ & N & _). exfalso. apply N. reflexivity. }
  destruct (proj2 (proj2 (proj2 vm_runs)) s RNone p reg s' HB r c f [] [] [] [] A FR) as (r1 & c1 & f1 & rest1 & S1 & A1 & MV & P1 & K1).
  { cbn. rewrite app_nil_r. exact EC. } { exact EP. }
  inversion K1; subst. destruct A1 as ((G1 & EF1 & (F1 & N1) & B1 & D1) & LB1 & top & EV1 & RR).
  destruct (complete_root r1 c1 f1 top [] G1 EF1) as [S2 T].
  { rewrite P1, EP, (moved_code _ _ MV), EC. reflexivity. }
  { rewrite (moved_exit _ _ MV). exact EX. }
  { exact EV1. } { exact LB1. }
  set (c4 := set_values (set_frames c1 []) (match top with [] => [] | x :: _ => [x] end)) in *.
  exists (upd_cur r1 c4), c4. split; [eapply steps_trans; eassumption|].
  destruct G1 as (C1 & _). split; [eapply cur_upd_cur; exact C1|]. split; [reflexivity|]. split.
  { cbn. destruct top as [|x top]; cbn in RR.
    - rewrite RR. reflexivity.
    - destruct RR as (-> & NN & _). destruct reg; try reflexivity. exfalso. apply NN. reflexivity. }
  split; [rewrite world_upd_cur; exact N1|]. split; [exact T|].
  intros fuel n x r' H.
  destruct (execute_do_follows r (upd_cur r1 c4) (steps_trans _ _ _ S1 S2) fuel n x r' H) as [(f2 & n2 & _ & _ & E)|Q]; [|right; exact Q].
  destruct f2 as [|f2]; [discriminate E|]. cbn [execute_do] in E.
  destruct (r_exit_req (upd_cur r1 c4)) eqn:XR.
  { exfalso. unfold do_iter in T. rewrite XR in T. inversion T. }
  destruct n2 as [|n2].
  - inversion E; subst. right. split; [reflexivity|]. split; [eapply steps_trans; eassumption|apply StepsRefl].
  - rewrite T in E. cbn [bindr] in E. inversion E; subst. left. split; reflexivity.
Qed.
