(* C12 - isolation with turns that CREATE globals, part 2: a scheduler turn up to the order of namespace entries.
   Two machines r and r' = app (cst a') r that differ only in their namespaces, where a' is - up to the order of entries -
   G (r_nss r) for a change G the running script cannot observe (sem_ok), take the same turn: same result, same visit
   record, same log, same contexts, and the namespaces afterwards are related in the same way. G = identity gives the
   congruence of req for a turn; G = the replayed writes of another script gives the frame property that the commutation
   of turns needs. Everything that does not touch a global is inherited from the exact frame lemmas of C12Frame.v (the
   transformer cst a' replaces the namespaces and has the empty footprint). *)
From Coq Require Import String Ascii ZArith List Bool Lia Arith.
From SqfVerif Require Import Gen.DiagCodes Gen.Overloads VM.VmDefs VM.VmExec VM.SchedDefs VM.SchedOps VM.SchedBase VM.SchedIter VM.C12FrameOps VM.C12Frame VM.C12Commute VM.C12NsEq.
Import ListNotations.
Local Open Scope list_scope.
Opaque frame_fuel exec_fuel.

Notation nsm := (list (string * list (string * value))) (only parsing).

(* the transformer that replaces the namespaces *)
Definition cst (a:nsm) : tr := {| t_ctx := fun l => l; t_out := []; t_nss := fun _ => a |}.
Lemma cst_ok a i : tr_ok (cst a) i [] [].
Proof. split; cbn; auto; intros; discriminate. Qed.
Lemma app_cst_self r : app (cst (r_nss r)) r = r.
Proof. rewrite (rt_eta r) at 3. unfold app, cst. cbn. rewrite app_nil_r. reflexivity. Qed.
Lemma nss_app_cst a r : r_nss (app (cst a) r) = a.
Proof. reflexivity. Qed.

(* ------------------------------------------------------------------ what does not touch a global leaves the namespaces alone *)
Lemma nss_logmsg r d : r_nss (logmsg r d) = r_nss r.
Proof. unfold logmsg. destruct (Z.leb (fst d) 1); reflexivity. Qed.
Lemma nss_upd_cur r c : r_nss (upd_cur r c) = r_nss r.
Proof. unfold upd_cur. destruct (r_active r); reflexivity. Qed.
Lemma nss_deadline_test r : r_nss (snd (deadline_test r)) = r_nss r.
Proof. unfold deadline_test, now. destruct (Z.eqb _ 0); reflexivity. Qed.
Lemma nss_abort_run r : r_nss (abort_run r) = r_nss r.
Proof. unfold abort_run. cbn [r_nss set_msgs set_errflag set_exit_req rt_with]. apply nss_logmsg. Qed.
Lemma nss_frame_next2 b fuel r c fr r1 c1 : frame_next2 b fuel r c = Ok (fr, r1, c1) -> r_nss r1 = r_nss r.
Proof.
  intro H. pose proof (app_frame_next2 (cst (r_nss r)) b fuel r c) as E. rewrite app_cst_self, H in E. cbn [map_fn] in E.
  injection E as E1. apply (f_equal r_nss) in E1. exact E1.
Qed.
Lemma nss_on_error i r rec r1 : r_active r = Some i -> on_error r = Ok (rec, r1) -> r_nss r1 = r_nss r.
Proof.
  intros Ha H. pose proof (app_on_error (cst (r_nss r)) i [] [] r (cst_ok _ _) Ha) as E. rewrite app_cst_self, H in E. cbn [map_oe] in E.
  injection E as E1. apply (f_equal r_nss) in E1. exact E1.
Qed.
Lemma nss_exec_instr ins r c r1 c1 : instr_ok [] [] ins c = true -> exec_instr ins r c = Ok (r1, c1) -> r_nss r1 = r_nss r.
Proof.
  intros I H. pose proof (app_exec_instr (cst (r_nss r)) 0 [] [] ins r c (cst_ok _ _) I) as E. rewrite app_cst_self, H in E. cbn [map_ex] in E.
  injection E as E1. apply (f_equal r_nss) in E1. exact E1.
Qed.
Lemma nss_op_unary n v r c r1 c1 y : uop_ok [] n v c = true -> op_unary n v r c = Ok (r1, c1, y) -> r_nss r1 = r_nss r.
Proof.
  intros I H. pose proof (app_op_unary (cst (r_nss r)) 0 [] [] n v r c (cst_ok _ _) I) as E. rewrite app_cst_self, H in E. cbn [map_op] in E.
  injection E as E1. apply (f_equal r_nss) in E1. exact E1.
Qed.
Lemma nss_op_binary n l v r c r1 c1 y : bop_ok [] [] n l v = true -> op_binary n l v r c = Ok (r1, c1, y) -> r_nss r1 = r_nss r.
Proof.
  intros I H. pose proof (app_op_binary (cst (r_nss r)) 0 [] [] n l v r c (cst_ok _ _) I) as E. rewrite app_cst_self, H in E. cbn [map_op] in E.
  injection E as E1. apply (f_equal r_nss) in E1. exact E1.
Qed.

(* ------------------------------------------------------------------ results related up to the namespaces *)
Section Rel.
Variable G : nsm -> nsm.
(* a' stands, up to the order of entries, for what G makes of the namespaces of r *)
Definition relN (r:rt) (a':nsm) : Prop := nss_eq a' (G (r_nss r)).
Lemma relN_nss r r' a' : r_nss r' = r_nss r -> relN r a' -> relN r' a'.
Proof. unfold relN. intros ->. auto. Qed.

Definition rres_op (x' x:opres) : Prop :=
  match x with
  | Ok (r1, c1, y) => exists a1, x' = Ok (app (cst a1) r1, c1, y) /\ relN r1 a1
  | Unsupported w => x' = Unsupported w | Hang w => x' = Hang w | UB w => x' = UB w end.
Definition rres_ex (x' x:res (rt * context)) : Prop :=
  match x with
  | Ok (r1, c1) => exists a1, x' = Ok (app (cst a1) r1, c1) /\ relN r1 a1
  | Unsupported w => x' = Unsupported w | Hang w => x' = Hang w | UB w => x' = UB w end.
Definition mapi (f:rt -> rt) (it:iter2) : iter2 :=
  match it with Continue2 r => Continue2 (f r) | Executed2 r => Executed2 (f r) | Restarted2 r => Restarted2 (f r) | Return2 x r => Return2 x (f r) end.
Definition rres_it (x' x:res iter2) : Prop :=
  match x with
  | Ok it => exists a1, x' = Ok (mapi (app (cst a1)) it) /\ relN (rt_of it) a1
  | Unsupported w => x' = Unsupported w | Hang w => x' = Hang w | UB w => x' = UB w end.
Definition rres_sl (x' x:res (rresult * rt * (nat * nat))) : Prop :=
  match x with
  | Ok (a, r1, k) => exists a1, x' = Ok (a, app (cst a1) r1, k) /\ relN r1 a1
  | Unsupported w => x' = Unsupported w | Hang w => x' = Hang w | UB w => x' = UB w end.
Definition rres_v (x' x:res (rresult * rt * visit)) : Prop :=
  match x with
  | Ok (a, r1, k) => exists a1, x' = Ok (a, app (cst a1) r1, k) /\ relN r1 a1
  | Unsupported w => x' = Unsupported w | Hang w => x' = Hang w | UB w => x' = UB w end.

(* ------------------------------------------------------------------ instructions *)
Section Instr.
Variables R W : list key.
Hypothesis GOK : sem_ok G R W.

Lemma ns_get_rel r a' ns n : relN r a' -> kin (ns, lower n) R = true -> ns_get (app (cst a') r) ns n = ns_get r ns n.
Proof.
  intros [H _] K. rewrite !ns_get_raw. cbn [r_nss app cst t_nss]. rewrite H. apply (so_get _ _ _ GOK). exact K.
Qed.
Lemma ns_set_rel r a' ns n v : relN r a' -> kin (ns, lower n) W = true ->
  ns_set (app (cst a') r) ns n v = app (cst (raw_set a' ns (lower n) v)) (ns_set r ns n v) /\
  relN (ns_set r ns n v) (raw_set a' ns (lower n) v).
Proof.
  intros H K. split; [reflexivity|]. unfold relN. rewrite ns_set_raw. cbn [r_nss set_nss rt_with].
  eapply nss_eq_trans; [apply nss_eq_set; exact H|]. apply nss_eq_sym. apply (so_set _ _ _ GOK). exact K.
Qed.

Lemma isnil_eq s r c f rest : c_frames c = f :: rest ->
  op_unary "isnil" (VStr s) r c =
    Ok (r, c, VBool (match (match get_variable c s with Some x => Some x | None => ns_get r (f_ns f) s end) with
                     | Some VNil => true | Some _ => false | None => true end)).
Proof. intro Fr. unfold op_unary. rewrite Fr. reflexivity. Qed.

Lemma unary_rel n v r c a' : relN r a' -> uop_ok R n v c = true ->
  rres_op (op_unary n v (app (cst a') r) c) (op_unary n v r c).
Proof.
  intros RL U. destruct (uop_ok [] n v c) eqn:U0.
  - rewrite (app_op_unary (cst a') 0 [] []) by auto using cst_ok.
    destruct (op_unary n v r c) as [[[r1 c1] y]| | |] eqn:E; cbn [map_op rres_op]; try reflexivity.
    exists a'. split; [reflexivity|]. apply (relN_nss r); auto. eapply nss_op_unary; eauto.
  - unfold uop_ok in U, U0.
    destruct (String.eqb n "scriptdone"); [discriminate|]. destruct (String.eqb n "terminate"); [discriminate|].
    destruct (String.eqb n "isnil") eqn:E; [|discriminate]. apply String.eqb_eq in E. subst n.
    destruct v; try discriminate. destruct (c_frames c) as [|f rest] eqn:Fr; [discriminate|].
    rewrite !(isnil_eq _ _ _ _ _ Fr). rewrite (ns_get_rel _ _ _ _ RL U).
    cbn [rres_op]. exists a'. split; [reflexivity|exact RL].
Qed.

Lemma getvar_eq1 s name r c : op_binary "getvariable" (VNs s) (VStr name) r c = Ok (r, c, match ns_get r s name with Some x => x | None => VNil end).
Proof. reflexivity. Qed.
Lemma getvar_eq2 s name d r c : op_binary "getvariable" (VNs s) (VArr [VStr name; d]) r c = Ok (r, c, match ns_get r s name with Some x => x | None => d end).
Proof. reflexivity. Qed.
Lemma setvar_eq s name x r c : op_binary "setvariable" (VNs s) (VArr [VStr name; x]) r c = Ok (ns_set r s name x, c, VNil).
Proof. reflexivity. Qed.

Lemma binary_rel n l v r c a' : relN r a' -> bop_ok R W n l v = true ->
  rres_op (op_binary n l v (app (cst a') r) c) (op_binary n l v r c).
Proof.
  intros RL U. destruct (bop_ok [] [] n l v) eqn:U0.
  - rewrite (app_op_binary (cst a') 0 [] []) by auto using cst_ok.
    destruct (op_binary n l v r c) as [[[r1 c1] y]| | |] eqn:E; cbn [map_op rres_op]; try reflexivity.
    exists a'. split; [reflexivity|]. apply (relN_nss r); auto. eapply nss_op_binary; eauto.
  - unfold bop_ok in U, U0.
    destruct (String.eqb n "spawn"); [discriminate|].
    destruct (String.eqb n "getvariable") eqn:E1.
    { apply String.eqb_eq in E1. subst n.
      destruct l; try discriminate. destruct v; try discriminate.
      - rewrite !getvar_eq1, (ns_get_rel _ _ _ _ RL U). cbn [rres_op]. exists a'. split; [reflexivity|exact RL].
      - destruct l as [|x0 l]; try discriminate. destruct x0; try discriminate.
        destruct l as [|d l]; try discriminate. destruct l; try discriminate.
        rewrite !getvar_eq2, (ns_get_rel _ _ _ _ RL U). cbn [rres_op]. exists a'. split; [reflexivity|exact RL]. }
    destruct (String.eqb n "setvariable") eqn:E2; [|discriminate].
    apply String.eqb_eq in E2. subst n.
    destruct l; try discriminate. destruct v; try discriminate.
    destruct l as [|x0 l]; try discriminate. destruct x0; try discriminate.
    destruct l as [|d l]; try discriminate. destruct l; try discriminate.
    rewrite !setvar_eq.
    match type of U with kin (?ss, lower ?nm) W = true => destruct (ns_set_rel r a' ss nm d RL U) as [A B] end. rewrite A.
    cbn [rres_op]. eexists. split; [reflexivity|exact B].
Qed.

Lemma rres_ex_same ins r c a' : relN r a' -> instr_ok [] [] ins c = true ->
  rres_ex (exec_instr ins (app (cst a') r) c) (exec_instr ins r c).
Proof.
  intros RL I. rewrite (app_exec_instr (cst a') 0 [] []) by auto using cst_ok.
  destruct (exec_instr ins r c) as [[r1 c1]| | |] eqn:E; cbn [map_ex rres_ex]; try reflexivity.
  exists a'. split; [reflexivity|]. apply (relN_nss r); auto. eapply nss_exec_instr; eauto.
Qed.

Ltac same a' RL := cbn [rres_ex]; exists a'; split; [rewrite ?app_logmsg; reflexivity | try (apply (relN_nss _ _ _ (nss_logmsg _ _))); exact RL].

Lemma exec_rel ins r c a' : relN r a' -> instr_ok R W ins c = true ->
  rres_ex (exec_instr ins (app (cst a') r) c) (exec_instr ins r c).
Proof.
  intros RL I. destruct (instr_ok [] [] ins c) eqn:I0; [apply rres_ex_same; auto|].
  destruct ins; cbn [instr_ok] in I, I0; try discriminate; cbn [exec_instr].
  - (* IGet *)
    destruct (is_local n); [discriminate|]. destruct (c_frames c) as [|f rest]; [discriminate|].
    rewrite (ns_get_rel _ _ _ _ RL I). destruct (ns_get r (f_ns f) n); same a' RL.
  - (* IAssign *)
    destruct (pop_value c) as [[v c1]|]; [|discriminate].
    destruct (String.eqb n ""); [discriminate|]. destruct (is_local n); [discriminate|].
    destruct (c_frames c1) as [|f rest]; [discriminate|].
    set (r1 := match v with VNil => logmsg r d_AssigningNilValue | _ => r end).
    assert (L : (match v with VNil => logmsg (app (cst a') r) d_AssigningNilValue | _ => app (cst a') r end) = app (cst a') r1)
      by (unfold r1; destruct v; rewrite ?app_logmsg; reflexivity).
    rewrite L.
    assert (RL1 : relN r1 a') by (unfold r1; destruct v; try exact RL; apply (relN_nss _ _ _ (nss_logmsg _ _)); exact RL).
    destruct (ns_set_rel r1 a' (f_ns f) n v RL1 I) as [A B]. rewrite A.
    cbn [rres_ex]. eexists. split; [reflexivity|exact B].
  - (* IUnary *)
    destruct (pop_value c) as [[v c1]|]; [|discriminate].
    pose proof (unary_rel (lower n) v r c1 a' RL I) as H.
    destruct v; try (same a' RL; fail);
    (destruct (op_unary (lower n) _ r c1) as [[[r1 cc2] yy]| | |] eqn:E; cbn [rres_op] in H;
     [ destruct H as (a1 & H & RL1); rewrite H; cbn [bindr rres_ex]; exists a1; split; [reflexivity|exact RL1]
     | rewrite H; destruct (has_unary _ _); [reflexivity|same a' RL]
     | rewrite H; reflexivity | rewrite H; reflexivity ]).
  - (* IBinary *)
    destruct (pop_value c) as [[v c1]|]; [|discriminate].
    destruct (pop_value c1) as [[l c2]|] eqn:P2; [|destruct v; discriminate].
    pose proof (binary_rel (lower n) l v r c2 a' RL I) as H.
    destruct v; try (same a' RL; fail); destruct l; try (same a' RL; fail);
    (destruct (op_binary (lower n) _ _ r c2) as [[[r1 cc3] yy]| | |] eqn:E; cbn [rres_op] in H;
     [ destruct H as (a1 & H & RL1); rewrite H; cbn [bindr rres_ex]; exists a1; split; [reflexivity|exact RL1]
     | rewrite H; destruct (has_binary _ _ _); [reflexivity|same a' RL]
     | rewrite H; reflexivity | rewrite H; reflexivity ]).
Qed.
End Instr.

(* ------------------------------------------------------------------ one iteration, a slice, a turn *)
Section Chain.
(* okI: which instructions the turn may execute; Hex: they respect the relation *)
Variable okI : instr -> context -> bool.
Hypothesis Hex : forall ins r c a', relN r a' -> okI ins c = true -> rres_ex (exec_instr ins (app (cst a') r) c) (exec_instr ins r c).

Definition iter_okG (b:bool) (r:rt) : bool :=
  match cur r with
  | None => true
  | Some c =>
    match frame_next2 b frame_fuel r c with
    | Ok (fr, r1, c1) =>
        if r_err r1 then true else
        match fr with
        | F2Restarted => true
        | F2Done => if Nat.eqb (length (c_frames c1)) (length (c_frames c)) then true
                    else match current_instr c1 with Some ins => okI ins c1 | None => true end
        | F2Ok => match current_instr c1 with Some ins => okI ins c1 | None => true end
        end
    | _ => true end
  end.

Ltac it_same a' := cbn [rres_it mapi rt_of]; exists a'; split; [reflexivity|].

Lemma rel_do_iter2 i b r a' : relN r a' -> r_active r = Some i -> iter_okG b r = true ->
  rres_it (do_iter2 b (app (cst a') r)) (do_iter2 b r).
Proof.
  intros RL Ha H. assert (OK : forall a, tr_ok (cst a) i [] []) by (intro; apply cst_ok).
  unfold do_iter2, iter_okG in *. cbn [r_exit_req r_state app].
  destruct (r_exit_req r); [it_same a'; exact RL|].
  rewrite (app_cur (cst a') i [] []) by auto. destruct (cur r) as [c|]; [|reflexivity].
  destruct (c_suspended c); [it_same a'; exact RL|]. destruct (c_frames c) eqn:Fr; [it_same a'; exact RL|].
  destruct (r_state r); try (it_same a'; exact RL).
  rewrite app_frame_next2.
  destruct (frame_next2 b frame_fuel r c) as [[[fr r1] c1]| | |] eqn:FN; cbn [bindr map_fn]; try reflexivity.
  destruct (frame_next2_shape _ _ _ _ _ _ _ FN) as [R1 _].
  assert (Ha1 : r_active r1 = Some i) by (rewrite (reach_active _ _ R1); auto).
  assert (RL1 : relN r1 a') by (apply (relN_nss r); auto; eapply nss_frame_next2; eauto).
  cbn [r_err app]. destruct (r_err r1).
  { rewrite (app_upd_cur (cst a') i [] []) by auto.
    rewrite (app_on_error (cst a') i [] []) by (auto; rewrite upd_cur_active; auto).
    destruct (on_error (upd_cur r1 c1)) as [[rec r2]| | |] eqn:OE; cbn [bindr map_oe]; try reflexivity.
    assert (RL2 : relN r2 a').
    { apply (relN_nss r1); auto. rewrite (nss_on_error i _ _ _ (eq_trans (upd_cur_active _ _) Ha1) OE). apply nss_upd_cur. }
    destruct rec; it_same a'; exact RL2. }
  assert (Exec : forall ins, okI ins c1 = true ->
     rres_it
     (let '(expired, r2) := deadline_test (app (cst a') r1) in
      if expired then Ok (Return2 RRuntimeError (abort_run (upd_cur r2 c1)))
      else bindr (exec_instr ins r2 c1) (fun '(r3, c5) =>
             let r4 := upd_cur r3 c5 in
             if negb (r_err r4) then Ok (Executed2 (set_msgs r4 []))
             else bindr (on_error r4) (fun '(recovered, r5) => if recovered then Ok (Executed2 r5) else Ok (Return2 RRuntimeError r5))))
     (let '(expired, r2) := deadline_test r1 in
      if expired then Ok (Return2 RRuntimeError (abort_run (upd_cur r2 c1)))
      else bindr (exec_instr ins r2 c1) (fun '(r3, c5) =>
             let r4 := upd_cur r3 c5 in
             if negb (r_err r4) then Ok (Executed2 (set_msgs r4 []))
             else bindr (on_error r4) (fun '(recovered, r5) => if recovered then Ok (Executed2 r5) else Ok (Return2 RRuntimeError r5))))).
  { intros ins IO. rewrite app_deadline_test. pose proof (nss_deadline_test r1) as ND.
    destruct (deadline_test r1) as [exp r2] eqn:DT. cbn [fst snd] in *.
    assert (Ha2 : r_active r2 = Some i) by (rewrite (reach_active _ _ (deadline_test_reach _ _ _ DT)); auto).
    assert (RL2 : relN r2 a') by (apply (relN_nss r1); auto).
    destruct exp.
    - rewrite (app_upd_cur (cst a') i [] []) by auto. rewrite app_abort_run. it_same a'.
      apply (relN_nss r2); auto. rewrite nss_abort_run. apply nss_upd_cur.
    - pose proof (Hex ins r2 c1 a' RL2 IO) as HE.
      destruct (exec_instr ins r2 c1) as [[r3 c5]| | |] eqn:EI; cbn [rres_ex] in HE;
        [|rewrite HE; reflexivity|rewrite HE; reflexivity|rewrite HE; reflexivity].
      destruct HE as (a3 & E3 & RL3). rewrite E3. cbn [bindr].
      destruct (exec_instr_shape _ _ _ _ _ EI) as [R3 _].
      assert (Ha3 : r_active r3 = Some i) by (rewrite (reach_active _ _ R3); auto).
      rewrite (app_upd_cur (cst a3) i [] []) by auto. cbn [r_err app].
      destruct (negb (r_err (upd_cur r3 c5))).
      + rewrite app_set_msgs. it_same a3. apply (relN_nss r3); auto. cbn. apply nss_upd_cur.
      + rewrite (app_on_error (cst a3) i [] []) by (auto; rewrite upd_cur_active; auto).
        destruct (on_error (upd_cur r3 c5)) as [[rec r5]| | |] eqn:OE; cbn [bindr map_oe]; try reflexivity.
        assert (RL5 : relN r5 a3).
        { apply (relN_nss r3); auto. rewrite (nss_on_error i _ _ _ (eq_trans (upd_cur_active _ _) Ha3) OE). apply nss_upd_cur. }
        destruct rec; it_same a3; exact RL5. }
  destruct fr.
  - destruct (Nat.eqb _ _).
    + rewrite (app_upd_cur (cst a') i [] []) by auto. it_same a'. apply (relN_nss r1); auto. apply nss_upd_cur.
    + destruct (current_instr c1); [|reflexivity]. apply Exec; auto.
  - destruct (current_instr c1); [|reflexivity]. apply Exec; auto.
  - rewrite app_deadline_test. pose proof (nss_deadline_test r1) as ND.
    destruct (deadline_test r1) as [exp r2] eqn:DT. cbn [fst snd] in *.
    assert (Ha2 : r_active r2 = Some i) by (rewrite (reach_active _ _ (deadline_test_reach _ _ _ DT)); auto).
    rewrite (app_upd_cur (cst a') i [] []) by auto.
    destruct exp; [rewrite app_abort_run|]; it_same a'; apply (relN_nss r1); auto;
      rewrite ?nss_abort_run, nss_upd_cur; exact ND.
Qed.

Fixpoint slice_okG (b:bool) (fuel:nat) (r:rt) (n:nat) : bool :=
  match fuel with O => true | S fuel' =>
    if r_exit_req r then true else
    match n with
    | O => true
    | S ea =>
      andb (iter_okG b r)
        match do_iter2 b r with
        | Ok (Continue2 r1) => slice_okG b fuel' r1 n
        | Ok (Executed2 r1) => slice_okG b fuel' r1 ea
        | Ok (Restarted2 r1) => slice_okG b fuel' r1 ea
        | _ => true end
    end end.

Lemma rel_execute_do2 i b fuel : forall r a' n ki kr,
  relN r a' -> r_active r = Some i -> i < length (r_ctxs r) -> slice_okG b fuel r n = true ->
  rres_sl (execute_do2 b fuel (app (cst a') r) n ki kr) (execute_do2 b fuel r n ki kr).
Proof.
  induction fuel; intros r a' n ki kr RL Ha Hi H; cbn [execute_do2 slice_okG] in *; [reflexivity|].
  cbn [r_exit_req app]. destruct (r_exit_req r); [cbn [rres_sl]; exists a'; split; [reflexivity|exact RL]|].
  destruct n; [cbn [rres_sl]; exists a'; split; [reflexivity|exact RL]|].
  apply andb_prop in H. destruct H as [H1 H2].
  pose proof (rel_do_iter2 i b r a' RL Ha H1) as DI'.
  destruct (nth_error (r_ctxs r) i) as [c|] eqn:Hc; [|apply nth_error_None in Hc; lia].
  destruct (do_iter2 b r) as [it| | |] eqn:DI; cbn [rres_it] in DI';
    [|rewrite DI'; reflexivity|rewrite DI'; reflexivity|rewrite DI'; reflexivity].
  destruct DI' as (a1 & E1 & RL1). rewrite E1. cbn [bindr].
  pose proof (iter_spec_dstep _ _ _ _ _ (do_iter2_spec _ _ _ _ _ DI Ha Hc) Ha Hc) as D.
  assert (Ha1 : r_active (rt_of it) = Some i) by (rewrite (ds_active _ _ _ D); auto).
  assert (Hi1 : i < length (r_ctxs (rt_of it))) by (pose proof (dstep_len _ _ _ D); lia).
  destruct it; cbn [rt_of mapi] in *; auto.
  cbn [rres_sl]. exists a1. split; [reflexivity|exact RL1].
Qed.

Definition visit_okG (b1:bool) (r:rt) (i:nat) : bool :=
  match nth_error (r_ctxs r) i with
  | None => true
  | Some c00 =>
    let c := prepared c00 in
    let r0 := handed r i c00 in
    if c_suspended c then
      if Z.leb (c_wakeup c) (r_clock r0 + r_tick r0) then
        let rs := upd_cur (set_clock r0 (r_clock r0 + r_tick r0)%Z) (set_suspended c false (c_wakeup c)) in
        slice_okG b1 exec_fuel rs (r_slice rs)
      else true
    else slice_okG b1 exec_fuel r0 (r_slice r0)
  end.

Lemma rel_visit_ctx i b1 b2 r a' : relN r a' -> i < length (r_ctxs r) -> visit_okG b1 r i = true ->
  rres_v (visit_ctx b1 b2 (app (cst a') r) i) (visit_ctx b1 b2 r i).
Proof.
  intros RL Hi H. assert (OK : forall a, tr_ok (cst a) i [] []) by (intro; apply cst_ok).
  unfold visit_ctx, visit_okG in *. rewrite app_set_active.
  rewrite (app_cur (cst a') i [] []) by auto.
  destruct (nth_error (r_ctxs r) i) as [c00|] eqn:Hc; [|apply nth_error_None in Hc; lia].
  assert (Hcur : cur (set_active r (Some i)) = Some c00) by (unfold cur; cbn; auto). rewrite Hcur.
  fold (prepared c00). cbv zeta in H. unfold handed in H.
  rewrite (app_upd_cur (cst a') i [] []) by auto.
  set (r0 := upd_cur (set_active r (Some i)) (prepared c00)) in *.
  assert (Ha0 : r_active r0 = Some i) by (unfold r0; rewrite upd_cur_active; reflexivity).
  assert (Hi0 : i < length (r_ctxs r0)) by (unfold r0, upd_cur; cbn; rewrite list_upd_length; auto).
  assert (RL0 : relN r0 a') by (apply (relN_nss r); auto; unfold r0; rewrite nss_upd_cur; reflexivity).
  assert (Run : forall rs, relN rs a' -> r_active rs = Some i -> i < length (r_ctxs rs) -> slice_okG b1 exec_fuel rs (r_slice rs) = true ->
     rres_v
     (bindr (execute_do2 b1 exec_fuel (app (cst a') rs) (r_slice (app (cst a') rs)) 0 0)
       (fun '(x, r2, (ki, kr)) => Ok (x, r2, {| v_id := c_id (prepared c00); v_entered := true; v_instr := ki; v_restarts := kr; v_result := x |})))
     (bindr (execute_do2 b1 exec_fuel rs (r_slice rs) 0 0)
       (fun '(x, r2, (ki, kr)) => Ok (x, r2, {| v_id := c_id (prepared c00); v_entered := true; v_instr := ki; v_restarts := kr; v_result := x |})))).
  { intros rs RLs A L S. cbn [r_slice app].
    pose proof (rel_execute_do2 i b1 exec_fuel rs a' (r_slice rs) 0 0 RLs A L S) as E.
    destruct (execute_do2 b1 exec_fuel rs (r_slice rs) 0 0) as [[[x r2] [ki kr]]| | |]; cbn [rres_sl] in E;
      [|rewrite E; reflexivity|rewrite E; reflexivity|rewrite E; reflexivity].
    destruct E as (a1 & E & RL1). rewrite E. cbn [bindr rres_v]. exists a1. split; [reflexivity|exact RL1]. }
  destruct (c_suspended (prepared c00)).
  - unfold now. cbn [r_clock r_tick app].
    destruct (Z.leb _ _).
    + rewrite app_set_clock. rewrite (app_upd_cur (cst a') i [] []) by auto.
      match goal with |- context [execute_do2 b1 exec_fuel (app (cst a') ?rs)] =>
        assert (A : r_active rs = Some i) by (rewrite upd_cur_active; exact Ha0);
        assert (L : i < length (r_ctxs rs)) by (unfold upd_cur; cbn [r_active set_clock rt_with]; rewrite Ha0; cbn [r_ctxs set_ctxs set_clock rt_with]; rewrite list_upd_length; exact Hi0);
        assert (RLs : relN rs a') by (apply (relN_nss r0); auto; rewrite nss_upd_cur; reflexivity)
      end.
      apply Run; auto.
    + rewrite app_set_clock. destruct b2.
      * cbn [rres_v]. exists a'. split; [reflexivity|]. apply (relN_nss r0); auto.
      * rewrite app_deadline_test.
        match goal with |- context [deadline_test ?x] => pose proof (nss_deadline_test x) as ND; destruct (deadline_test x) as [exp r2] end.
        cbn [fst snd] in *.
        destruct exp; [rewrite app_abort_run|]; cbn [rres_v]; exists a'; (split; [reflexivity|]);
          apply (relN_nss r0); auto; rewrite ?nss_abort_run, ND; reflexivity.
  - apply Run; auto.
Qed.
End Chain.
End Rel.

(* the executable footprint check of C12Frame.v is the instance okI = instr_ok R W *)
Lemma slice_okG_instr b R W fuel : forall r n, slice_okG (instr_ok R W) b fuel r n = slice_ok b R W fuel r n.
Proof.
  induction fuel; intros r n; cbn [slice_okG slice_ok]; auto.
  destruct (r_exit_req r); auto. destruct n; auto.
  change (iter_okG (instr_ok R W) b r) with (iter_ok b R W r). f_equal.
  destruct (do_iter2 b r) as [[]| | |]; auto.
Qed.
Lemma visit_okG_instr b1 R W r i : visit_okG (instr_ok R W) b1 r i = visit_ok b1 R W r i.
Proof. unfold visit_okG, visit_ok. destruct (nth_error (r_ctxs r) i); [|reflexivity]. cbv zeta. rewrite !slice_okG_instr. reflexivity. Qed.

(* A turn inside the footprints (R, W) does not see a change G of the namespaces that is sem_ok for (R, W) - up to the order
   of the entries: from r with its namespaces replaced by a' ~ G (r_nss r) it returns the same result and visit record, and
   the machine it returns from r with its namespaces replaced by some a1 ~ G (the namespaces it leaves from r). *)
Theorem turn_up_to_order G R W i b1 b2 r a' :
  sem_ok G R W -> relN G r a' -> i < length (r_ctxs r) -> visit_ok b1 R W r i = true ->
  rres_v G (visit_ctx b1 b2 (app (cst a') r) i) (visit_ctx b1 b2 r i).
Proof.
  intros GOK RL Hi OK.
  refine (rel_visit_ctx G (instr_ok R W) _ i b1 b2 r a' RL Hi _).
  - intros ins r0 c a0 RL0 I. exact (exec_rel G R W GOK ins r0 c a0 RL0 I).
  - rewrite visit_okG_instr. exact OK.
Qed.
