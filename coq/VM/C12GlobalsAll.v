(* C12 - isolation with turns that CREATE globals, part 4: req is a congruence for EVERY scheduler turn.
   Every instruction respects "the same machine up to the order of namespace entries": an instruction that touches a global has
   a one-key footprint (keyof_u, keyof_b), so C12Globals.exec_rel applies with G = identity; spawn, terminate and scriptDone (which the
   footprint check excludes because they look at other scripts) do not touch the namespaces and are treated directly. *)
From Coq Require Import String Ascii ZArith List Bool Lia Arith.
From SqfVerif Require Import Gen.DiagCodes Gen.Overloads VM.VmDefs VM.VmExec VM.SchedDefs VM.SchedOps VM.SchedBase VM.SchedIter VM.C12FrameOps VM.C12Frame VM.C12Commute VM.C12NsEq VM.C12Globals.
Import ListNotations.
Local Open Scope list_scope.
Local Open Scope string_scope.
Opaque frame_fuel exec_fuel.

Notation idn := (fun a : list (string * list (string * value)) => a) (only parsing).

Lemma kin_self k : kin k [k] = true.
Proof. unfold kin. cbn [existsb]. rewrite key_eqb_refl. reflexivity. Qed.

(* ------------------------------------------------------------------ the three operators that look at other scripts *)
Lemma sd_eq id r c : op_unary "scriptdone" (VScript id) r c = Ok (r, c, VBool (negb (existsb (fun x => Nat.eqb (c_id x) id) (r_ctxs r)))).
Proof. reflexivity. Qed.
Lemma term_eq id r c : op_unary "terminate" (VScript id) r c =
  if negb (existsb (fun x => Nat.eqb (c_id x) id) (r_ctxs r)) then Ok (logmsg r d_ScriptHandleAlreadyFinished, c, VNil)
  else if Nat.eqb id (c_id c) then
    if c_terminate c then Ok (logmsg r d_ScriptHandleAlreadyTerminated, c, VNil) else Ok (r, set_terminate c true, VNil)
  else
    match find (fun x => Nat.eqb (c_id x) id) (r_ctxs r) with
    | Some x => if c_terminate x then Ok (logmsg r d_ScriptHandleAlreadyTerminated, c, VNil)
                else Ok (set_ctxs r (map (fun y => if Nat.eqb (c_id y) id then set_terminate y true else y) (r_ctxs r)), c, VNil)
    | None => Ok (r, c, VNil) end.
Proof. reflexivity. Qed.
Lemma spawn_eq l body r c : op_binary "spawn" l (VCode body) r c =
  Ok (set_next_id (set_ctxs r (r_ctxs r ++ [push_frame (new_context (r_next_id r) true)
        (mk_frame default_ns body None None [("_thisscript", VScript (r_next_id r)); ("_this", l)])])) (S (r_next_id r)), c, VScript (r_next_id r)).
Proof. reflexivity. Qed.

Ltac op_same a' RL := cbn [rres_op]; exists a'; split; [rewrite ?app_logmsg; reflexivity | try (apply (relN_nss _ _ _ _ (nss_logmsg _ _))); exact RL].

Lemma scriptdone_all v r c a' : relN idn r a' -> rres_op idn (op_unary "scriptdone" v (app (cst a') r) c) (op_unary "scriptdone" v r c).
Proof.
  intro RL. destruct v; try reflexivity. rewrite !sd_eq. op_same a' RL.
Qed.
Lemma terminate_all v r c a' : relN idn r a' -> rres_op idn (op_unary "terminate" v (app (cst a') r) c) (op_unary "terminate" v r c).
Proof.
  intro RL. destruct v; try reflexivity. rewrite !term_eq. cbn [r_ctxs app cst t_ctx].
  destruct (negb _); [op_same a' RL|]. destruct (Nat.eqb _ _).
  - destruct (c_terminate c); op_same a' RL.
  - destruct (find _ _) as [x|]; [|op_same a' RL]. destruct (c_terminate x); op_same a' RL.
Qed.
Lemma spawn_all l v r c a' : relN idn r a' -> rres_op idn (op_binary "spawn" l v (app (cst a') r) c) (op_binary "spawn" l v r c).
Proof.
  intro RL. destruct v; try reflexivity. rewrite !spawn_eq. op_same a' RL.
Qed.

(* ------------------------------------------------------------------ every other operator call has a one-key footprint *)
Definition keyof_u (v:value) (c:context) : list key :=
  match v, c_frames c with VStr s, f :: _ => [(f_ns f, lower s)] | _, _ => [] end.
Lemma uop_ok_self n v c : String.eqb n "scriptdone" = false -> String.eqb n "terminate" = false ->
  uop_ok (keyof_u v c) n v c = true.
Proof.
  intros H1 H2. unfold uop_ok, keyof_u. rewrite H1, H2. destruct (String.eqb n "isnil"); [|reflexivity].
  destruct v; try reflexivity. destruct (c_frames c); [reflexivity|apply kin_self].
Qed.
Definition keyof_b (l v:value) : list key :=
  match l, v with
  | VNs s, VStr name => [(s, lower name)]
  | VNs s, VArr [VStr name; _] => [(s, lower name)]
  | _, _ => [] end.
Lemma bop_ok_self n l v : String.eqb n "spawn" = false -> bop_ok (keyof_b l v) (keyof_b l v) n l v = true.
Proof.
  intro H. unfold bop_ok, keyof_b. rewrite H.
  destruct (String.eqb n "getvariable"); [|destruct (String.eqb n "setvariable"); [|reflexivity]];
    (destruct l; try reflexivity; destruct v; try reflexivity; try apply kin_self;
     match goal with |- context [match ?LL with [] => _ | _ => _ end] => destruct LL as [|xx0 ll0] end; try reflexivity;
     destruct xx0; try reflexivity; destruct ll0 as [|dd ll1]; try reflexivity; destruct ll1; try reflexivity; apply kin_self).
Qed.

Lemma unary_all n v r c a' : relN idn r a' -> rres_op idn (op_unary n v (app (cst a') r) c) (op_unary n v r c).
Proof.
  intro RL. destruct (String.eqb n "scriptdone") eqn:E1; [apply String.eqb_eq in E1; subst n; apply scriptdone_all; exact RL|].
  destruct (String.eqb n "terminate") eqn:E2; [apply String.eqb_eq in E2; subst n; apply terminate_all; exact RL|].
  apply (unary_rel idn (keyof_u v c) [] (sem_ok_id _ _)); [exact RL|apply uop_ok_self; assumption].
Qed.
Lemma binary_all n l v r c a' : relN idn r a' -> rres_op idn (op_binary n l v (app (cst a') r) c) (op_binary n l v r c).
Proof.
  intro RL. destruct (String.eqb n "spawn") eqn:E1; [apply String.eqb_eq in E1; subst n; apply spawn_all; exact RL|].
  apply (binary_rel idn (keyof_b l v) (keyof_b l v) (sem_ok_id _ _)); [exact RL|apply bop_ok_self; assumption].
Qed.

(* ------------------------------------------------------------------ every instruction *)
Ltac ex_same a' RL := cbn [rres_ex]; exists a'; split; [rewrite ?app_logmsg; reflexivity | try (apply (relN_nss _ _ _ _ (nss_logmsg _ _))); exact RL].

Lemma get_all n r c a' : relN idn r a' -> rres_ex idn (exec_instr (IGet n) (app (cst a') r) c) (exec_instr (IGet n) r c).
Proof.
  intro RL. set (K := match c_frames c with f :: _ => [(f_ns f, lower n)] | [] => [] end).
  apply (exec_rel idn K K (sem_ok_id _ _)); [exact RL|]. unfold K. cbn [instr_ok].
  destruct (is_local n); [reflexivity|]. destruct (c_frames c); [reflexivity|apply kin_self].
Qed.
Lemma assign_all n r c a' : relN idn r a' -> rres_ex idn (exec_instr (IAssign n) (app (cst a') r) c) (exec_instr (IAssign n) r c).
Proof.
  intro RL.
  set (K := match pop_value c with Some (_, c1) => match c_frames c1 with f :: _ => [(f_ns f, lower n)] | [] => [] end | None => [] end).
  apply (exec_rel idn K K (sem_ok_id _ _)); [exact RL|]. unfold K. cbn [instr_ok].
  destruct (pop_value c) as [[v c1]|]; [|reflexivity].
  destruct (String.eqb n ""); [reflexivity|]. destruct (is_local n); [reflexivity|].
  destruct (c_frames c1); [reflexivity|apply kin_self].
Qed.
Lemma unary_i_all n r c a' : relN idn r a' -> rres_ex idn (exec_instr (IUnary n) (app (cst a') r) c) (exec_instr (IUnary n) r c).
Proof.
  intro RL. cbn [exec_instr]. destruct (pop_value c) as [[v c1]|]; [|ex_same a' RL].
  pose proof (unary_all (lower n) v r c1 a' RL) as H.
  destruct v; try (ex_same a' RL; fail);
  (destruct (op_unary (lower n) _ r c1) as [[[r1 cc2] yy]| | |] eqn:E; cbn [rres_op] in H;
   [ destruct H as (a1 & H & RL1); rewrite H; cbn [bindr rres_ex]; exists a1; split; [reflexivity|exact RL1]
   | rewrite H; destruct (has_unary _ _); [reflexivity|ex_same a' RL]
   | rewrite H; reflexivity | rewrite H; reflexivity ]).
Qed.
Lemma binary_i_all n r c a' : relN idn r a' -> rres_ex idn (exec_instr (IBinary n) (app (cst a') r) c) (exec_instr (IBinary n) r c).
Proof.
  intro RL. cbn [exec_instr]. destruct (pop_value c) as [[v c1]|]; [|ex_same a' RL].
  destruct (pop_value c1) as [[l c2]|] eqn:P2; [|destruct v; ex_same a' RL].
  pose proof (binary_all (lower n) l v r c2 a' RL) as H.
  destruct v; try (ex_same a' RL; fail); destruct l; try (ex_same a' RL; fail);
  (destruct (op_binary (lower n) _ _ r c2) as [[[r1 cc3] yy]| | |] eqn:E; cbn [rres_op] in H;
   [ destruct H as (a1 & H & RL1); rewrite H; cbn [bindr rres_ex]; exists a1; split; [reflexivity|exact RL1]
   | rewrite H; destruct (has_binary _ _ _); [reflexivity|ex_same a' RL]
   | rewrite H; reflexivity | rewrite H; reflexivity ]).
Qed.

Lemma exec_all ins r c a' : relN idn r a' -> (fun (_:instr) (_:context) => true) ins c = true ->
  rres_ex idn (exec_instr ins (app (cst a') r) c) (exec_instr ins r c).
Proof.
  intros RL _. destruct ins;
    first [ apply get_all; exact RL | apply assign_all; exact RL | apply unary_i_all; exact RL | apply binary_i_all; exact RL
          | apply rres_ex_same; [exact RL|reflexivity] ].
Qed.

(* ------------------------------------------------------------------ every turn *)
Lemma iter_okG_true b r : iter_okG (fun _ _ => true) b r = true.
Proof.
  unfold iter_okG. destruct (cur r) as [c|]; [|reflexivity].
  destruct (frame_next2 b frame_fuel r c) as [[[fr r1] c1]| | |]; try reflexivity.
  destruct (r_err r1); [reflexivity|].
  destruct fr; try reflexivity; try (destruct (Nat.eqb _ _); [reflexivity|]); destruct (current_instr c1); reflexivity.
Qed.
Lemma slice_okG_true b fuel : forall r n, slice_okG (fun _ _ => true) b fuel r n = true.
Proof.
  induction fuel; intros r n; cbn [slice_okG]; [reflexivity|].
  destruct (r_exit_req r); [reflexivity|]. destruct n; [reflexivity|].
  rewrite iter_okG_true. cbn [andb]. destruct (do_iter2 b r) as [[]| | |]; auto.
Qed.
Lemma visit_okG_true b1 r i : visit_okG (fun _ _ => true) b1 r i = true.
Proof.
  unfold visit_okG. destruct (nth_error (r_ctxs r) i); [|reflexivity]. cbv zeta.
  destruct (c_suspended _); [destruct (Z.leb _ _); [|reflexivity]|]; apply slice_okG_true.
Qed.

Lemma req_as_cst r r' : req r r' -> r' = app (cst (r_nss r')) r.
Proof.
  intros [E N]. rewrite <- (app_cst_self r') at 1. unfold app, cst. cbn.
  assert (F0 : r_ctxs r = r_ctxs r') by exact (f_equal r_ctxs E).
  assert (F1 : r_state r = r_state r') by exact (f_equal r_state E).
  assert (F2 : r_exit_req r = r_exit_req r') by exact (f_equal r_exit_req E).
  assert (F3 : r_halt_req r = r_halt_req r') by exact (f_equal r_halt_req E).
  assert (F4 : r_run r = r_run r') by exact (f_equal r_run E).
  assert (F5 : r_err r = r_err r') by exact (f_equal r_err E).
  assert (F6 : r_msgs r = r_msgs r') by exact (f_equal r_msgs E).
  assert (F7 : r_active r = r_active r') by exact (f_equal r_active E).
  assert (F8 : r_clock r = r_clock r') by exact (f_equal r_clock E).
  assert (F9 : r_tick r = r_tick r') by exact (f_equal r_tick E).
  assert (F10 : r_timestamp r = r_timestamp r') by exact (f_equal r_timestamp E).
  assert (F11 : r_run_ts r = r_run_ts r') by exact (f_equal r_run_ts E).
  assert (F12 : r_max_runtime r = r_max_runtime r') by exact (f_equal r_max_runtime E).
  assert (F13 : r_max_loop r = r_max_loop r') by exact (f_equal r_max_loop E).
  assert (F14 : r_slice r = r_slice r') by exact (f_equal r_slice E).
  assert (F15 : r_next_id r = r_next_id r') by exact (f_equal r_next_id E).
  assert (F16 : r_defects r = r_defects r') by exact (f_equal r_defects E).
  assert (F17 : r_out r = r_out r') by exact (f_equal r_out E).
  rewrite F0, F1, F2, F3, F4, F5, F6, F7, F8, F9, F10, F11, F12, F13, F14, F15, F16, F17. reflexivity.
Qed.

(* req is a congruence for a scheduler turn - whatever the turn executes (globals read, assigned, created; spawn, terminate,
   scriptDone; errors; sleep): equivalent machines take equivalent turns with the same result and the same visit record, and
   non-Ok outcomes (Unsupported / Hang / UB) are the same outcomes *)
Theorem req_turn_congruence_all b1 b2 r r' i x r1 v :
  req r r' -> i < length (r_ctxs r) ->
  visit_ctx b1 b2 r i = Ok (x, r1, v) ->
  exists r1', visit_ctx b1 b2 r' i = Ok (x, r1', v) /\ req r1 r1'.
Proof.
  intros Q Hi V. pose proof (req_as_cst r r' Q) as Er. destruct Q as [E N].
  pose proof (rel_visit_ctx idn (fun _ _ => true) exec_all i b1 b2 r (r_nss r') (nss_eq_sym _ _ N) Hi (visit_okG_true b1 r i)) as H.
  rewrite V in H. cbn [rres_v] in H. destruct H as (a1 & H & RL).
  exists (app (cst a1) r1). split; [rewrite Er; exact H|].
  split.
  - unfold app, cst, set_nss, rt_with. cbn. rewrite app_nil_r. reflexivity.
  - cbn [r_nss app cst t_nss]. apply nss_eq_sym. exact RL.
Qed.
(* ... and a turn that does not come back with Ok does not from the equivalent machine either, with the same outcome *)
Theorem req_turn_congruence_fail b1 b2 r r' i :
  req r r' -> i < length (r_ctxs r) ->
  match visit_ctx b1 b2 r i with Ok _ => True | x => visit_ctx b1 b2 r' i = x end.
Proof.
  intros Q Hi. pose proof (req_as_cst r r' Q) as Er. destruct Q as [E N].
  pose proof (rel_visit_ctx idn (fun _ _ => true) exec_all i b1 b2 r (r_nss r') (nss_eq_sym _ _ N) Hi (visit_okG_true b1 r i)) as H.
  rewrite <- Er in H. destruct (visit_ctx b1 b2 r i) as [[[x r1] v]| | |]; cbn [rres_v] in H; auto.
Qed.
