(* M2 - executable model of the SQF-VM stack machine: values, instructions, frames with exit/error
   behaviours, contexts, the execute_do loop, the scheduler loop of runtime::execute(start) and the
   single-step actions.  Mirrors src/runtime/{frame.h,context.h,runtime.cpp,runtime.h},
   src/opcodes/*.h and the control-structure operators of src/operators/ops_generic.cpp,
   ops_logic.cpp, ops_namespace.cpp, ops_sqfvm.cpp (file:line references in comments).
   No proofs here.  Numbers are integers (the generators stay below 2^24 where binary32 is exact);
   arrays are immutable values (in-place array operators belong to the data model, M3). *)
From Coq Require Import String Ascii.
From Coq Require Import ZArith List Bool.
From SqfVerif Require Import Gen.DiagCodes Gen.Overloads.
Import ListNotations.
Local Open Scope string_scope.
Local Open Scope list_scope.

(* ------------------------------------------------------------------ names *)
Definition lower_ascii (c:ascii) : ascii :=
  let n := nat_of_ascii c in
  if andb (Nat.leb 65 n) (Nat.leb n 90) then ascii_of_nat (n + 32) else c.
Fixpoint lower (s:string) : string :=
  match s with EmptyString => EmptyString | String c r => String (lower_ascii c) (lower r) end.
Definition is_local (s:string) : bool :=
  match s with String c _ => Ascii.eqb c "_"%char | EmptyString => false end.

(* ------------------------------------------------------------------ values and instructions *)
Inductive value : Type :=
| VNil
| VNum (n:Z)
| VBool (b:bool)
| VStr (s:string)
| VArr (l:list value)
| VCode (c:list instr)
| VIf (b:bool)                                   (* d_if,    ops_generic.h:29 *)
| VWhile (c:list instr)                          (* d_while, ops_generic.h:134 *)
| VFor (var:string) (from to step:Z)             (* d_for,   ops_generic.h:144 *)
| VSwitch (v:value) (target:list instr) (now has:bool)   (* d_switch, ops_generic.h:87 *)
| VExc (c:list instr)                            (* d_exception: try {..} *)
| VNs (ns:string)                                (* d_namespace *)
| VWith (ns:string)                              (* d_with *)
| VScript (id:nat)                               (* d_script: weak handle to a context *)
| VTrace (v:value)                               (* d_stacktrace carrying a thrown value / messages *)
with instr : Type :=
| IPush (v:value)
| IGet (n:string)
| IAssign (n:string)
| IAssignLocal (n:string)
| INular (n:string)
| IUnary (n:string)
| IBinary (n:string)
| IMakeArray (n:nat)
| IEnd.

Definition code := list instr.

Inductive ty := TNothing | TScalar | TBool | TString | TArray | TCode | TIf | TWhile | TFor | TSwitch
              | TExc | TNamespace | TWith | TScript | TTrace.
Definition type_of (v:value) : ty :=
  match v with
  | VNil => TNothing | VNum _ => TScalar | VBool _ => TBool | VStr _ => TString | VArr _ => TArray
  | VCode _ => TCode | VIf _ => TIf | VWhile _ => TWhile | VFor _ _ _ _ => TFor | VSwitch _ _ _ _ => TSwitch
  | VExc _ => TExc | VNs _ => TNamespace | VWith _ => TWith | VScript _ => TScript | VTrace _ => TTrace end.

(* structural equality (isEqualTo / == on the modelled types); strings case-sensitive when cs *)
Fixpoint veqb (cs:bool) (a b:value) {struct a} : bool :=
  match a, b with
  | VNum x, VNum y => Z.eqb x y
  | VBool x, VBool y => Bool.eqb x y
  | VStr x, VStr y => if cs then String.eqb x y else String.eqb (lower x) (lower y)
  | VArr x, VArr y =>
      (fix go (l1 l2:list value) : bool :=
         match l1, l2 with
         | [], [] => true
         | u :: l1', w :: l2' => andb (veqb cs u w) (go l1' l2')
         | _, _ => false end) x y
  | VNs x, VNs y => String.eqb x y
  | VScript x, VScript y => Nat.eqb x y
  | _, _ => false
  end.

(* to_string (diag_log) and to_string_sqf (str) for the printable fragment; None = outside it *)
Definition digit (n:nat) : string := String (ascii_of_nat (48 + n)) EmptyString.
Fixpoint pos_digits (fuel:nat) (n:Z) (acc:string) : string :=
  match fuel with O => acc | S f =>
    if Z.ltb n 10 then append (digit (Z.to_nat n)) acc
    else pos_digits f (Z.div n 10) (append (digit (Z.to_nat (Z.modulo n 10))) acc) end.
Definition show_Z (n:Z) : string :=
  if Z.ltb n 0 then append "-" (pos_digits 40 (Z.opp n) "") else pos_digits 40 n "".
Fixpoint quote_str (s:string) : string :=
  match s with EmptyString => EmptyString
  | String c r => if Ascii.eqb c """"%char then String c (String c (quote_str r)) else String c (quote_str r) end.
Fixpoint show (sqf:bool) (v:value) {struct v} : option string :=
  match v with
  | VNil => Some (if sqf then "nil" else "")
  | VNum n => if andb (Z.ltb (-1000000) n) (Z.ltb n 1000000) then Some (show_Z n) else None
  | VBool b => Some (if b then "true" else "false")
  | VStr s => Some (if sqf then append """" (append (quote_str s) """") else s)
  | VArr l =>
      match (fix go (l:list value) : option string :=
               match l with
               | [] => Some ""
               | u :: l' => match show sqf u, go l' with
                            | Some a, Some b => Some (append a (match l' with [] => b | _ => append "," b end))
                            | _, _ => None end end) l with
      | Some s => Some (append "[" (append s "]")) | None => None end
  | _ => None
  end.

(* ------------------------------------------------------------------ behaviours, frames, contexts *)
Inductive wmode := WCond | WCode.
Inductive behavior :=
| BCount (arr:list value) (idx:nat) (cnt:Z)        (* ops_generic.cpp:93  behavior_count_exit *)
| BWhile (loops:nat) (m:wmode) (cond body:code)    (* ops_generic.cpp:330 behavior_while_exit *)
| BFor (var:string) (to_ step:Z)                   (* ops_generic.cpp:454 behavior_for_exit *)
| BForEach (arr:list value) (idx:nat)              (* ops_generic.cpp:516 behavior_foreach_exit *)
| BSelect (arr out:list value) (idx:nat)           (* ops_generic.cpp:656 behavior_select_exit *)
| BApply (arr out:list value) (idx:nat)            (* ops_generic.cpp:1109 behavior_apply_exit *)
| BFindIf (arr:list value) (idx:nat)               (* ops_generic.cpp:867 behavior_findif_exit *)
| BIsNil                                           (* ops_generic.cpp:976 behavior_isnil_exit *)
| BSwitch (switched:bool)                          (* ops_generic.cpp:1028 behavior_switch_exit *)
| BWaitUntil (cnt:nat).                            (* ops_generic.cpp:270 behavior_waituntil_exit *)
Inductive ebehavior :=
| ECatch (c:code)                                  (* ops_generic.cpp:2009 behavior_catch_exit *)
| EExcept (c:code) (exchanged:bool).               (* ops_sqfvm.cpp:418 behavior_except *)

Record frame := {
  f_code : code;
  f_pos : nat;             (* m_position + 1; 0 = position_invalid, |code|+1 = "at end" *)
  f_exit : option behavior;
  f_err : option ebehavior;
  f_vars : list (string * value);   (* keys lower-cased, first match wins *)
  f_ns : string;           (* globals_value_scope *)
  f_bubble : bool;
  f_die : bool;
  f_base : nat;            (* value_stack_pos *)
  f_scope : string }.      (* scope_name, "" = unset *)

Record context := {
  c_frames : list frame;   (* top first *)
  c_values : list value;   (* top first *)
  c_can_suspend : bool;
  c_suspended : bool;
  c_wakeup : Z;
  c_weak : bool;
  c_terminate : bool;
  c_id : nat }.

Inductive rstate := StEmpty | StHalted | StRunning | StHaltedError.   (* runtime.h:48 (evaluating not modelled) *)
Inductive rresult := RInvalid | REmpty | ROk | RActionError | RRuntimeError.   (* runtime.h:40 *)

Inductive event := EDiag (lvl code:Z) | EMark (s:string).

Record rt := {
  r_ctxs : list context;
  r_active : option nat;       (* m_context_active as position in r_ctxs *)
  r_state : rstate;
  r_exit_req : bool;
  r_halt_req : bool;
  r_run : bool;                (* m_run_atomic *)
  r_err : bool;                (* m_runtime_error *)
  r_msgs : list (Z*Z);         (* log_messages: error-level diagnostics of the current instruction *)
  r_out : list event;          (* everything logged, newest first *)
  r_nss : list (string * list (string * value));
  r_clock : Z;                 (* virtual clock, microseconds *)
  r_tick : Z;                  (* advance per clock query *)
  r_timestamp : Z;             (* m_runtime_timestamp *)
  r_run_ts : Z;                (* m_run_timestamp: start of the current run *)
  r_max_runtime : Z;           (* microseconds, 0 = off *)
  r_max_loop : nat;            (* max_loop_iterations_in_unscheduled *)
  r_slice : nat;               (* 150 *)
  r_next_id : nat;
  r_defects : list string }.   (* names of defect switches that are ON (as_is) *)

Definition default_ns := "missionNamespace".

(* ------------------------------------------------------------------ small helpers *)
Fixpoint assoc {A} (k:string) (l:list (string * A)) : option A :=
  match l with [] => None | (k', v) :: r => if String.eqb k k' then Some v else assoc k r end.
Fixpoint assoc_set {A} (k:string) (v:A) (l:list (string * A)) : list (string * A) :=
  match l with
  | [] => [(k, v)]
  | (k', v') :: r => if String.eqb k k' then (k, v) :: r else (k', v') :: assoc_set k v r end.

Definition set_code (f:frame) c := {| f_code := c; f_pos := f_pos f; f_exit := f_exit f; f_err := f_err f; f_vars := f_vars f;
  f_ns := f_ns f; f_bubble := f_bubble f; f_die := f_die f; f_base := f_base f; f_scope := f_scope f |}.
Definition set_pos (f:frame) p := {| f_code := f_code f; f_pos := p; f_exit := f_exit f; f_err := f_err f; f_vars := f_vars f;
  f_ns := f_ns f; f_bubble := f_bubble f; f_die := f_die f; f_base := f_base f; f_scope := f_scope f |}.
Definition set_exit (f:frame) b := {| f_code := f_code f; f_pos := f_pos f; f_exit := b; f_err := f_err f; f_vars := f_vars f;
  f_ns := f_ns f; f_bubble := f_bubble f; f_die := f_die f; f_base := f_base f; f_scope := f_scope f |}.
Definition set_err (f:frame) e := {| f_code := f_code f; f_pos := f_pos f; f_exit := f_exit f; f_err := e; f_vars := f_vars f;
  f_ns := f_ns f; f_bubble := f_bubble f; f_die := f_die f; f_base := f_base f; f_scope := f_scope f |}.
Definition set_vars (f:frame) vs := {| f_code := f_code f; f_pos := f_pos f; f_exit := f_exit f; f_err := f_err f; f_vars := vs;
  f_ns := f_ns f; f_bubble := f_bubble f; f_die := f_die f; f_base := f_base f; f_scope := f_scope f |}.
Definition set_die (f:frame) d := {| f_code := f_code f; f_pos := f_pos f; f_exit := f_exit f; f_err := f_err f; f_vars := f_vars f;
  f_ns := f_ns f; f_bubble := f_bubble f; f_die := d; f_base := f_base f; f_scope := f_scope f |}.
Definition set_base (f:frame) b := {| f_code := f_code f; f_pos := f_pos f; f_exit := f_exit f; f_err := f_err f; f_vars := f_vars f;
  f_ns := f_ns f; f_bubble := f_bubble f; f_die := f_die f; f_base := b; f_scope := f_scope f |}.
Definition set_scope (f:frame) s := {| f_code := f_code f; f_pos := f_pos f; f_exit := f_exit f; f_err := f_err f; f_vars := f_vars f;
  f_ns := f_ns f; f_bubble := f_bubble f; f_die := f_die f; f_base := f_base f; f_scope := s |}.
Definition set_bubble (f:frame) b := {| f_code := f_code f; f_pos := f_pos f; f_exit := f_exit f; f_err := f_err f; f_vars := f_vars f;
  f_ns := f_ns f; f_bubble := b; f_die := f_die f; f_base := f_base f; f_scope := f_scope f |}.

Definition mk_frame (ns:string) (c:code) (ex:option behavior) (er:option ebehavior) (vars:list (string*value)) : frame :=
  {| f_code := c; f_pos := 0; f_exit := ex; f_err := er; f_vars := vars; f_ns := ns; f_bubble := true;
     f_die := false; f_base := 0; f_scope := "" |}.

Definition set_frames (c:context) fs := {| c_frames := fs; c_values := c_values c; c_can_suspend := c_can_suspend c;
  c_suspended := c_suspended c; c_wakeup := c_wakeup c; c_weak := c_weak c; c_terminate := c_terminate c; c_id := c_id c |}.
Definition set_values (c:context) vs := {| c_frames := c_frames c; c_values := vs; c_can_suspend := c_can_suspend c;
  c_suspended := c_suspended c; c_wakeup := c_wakeup c; c_weak := c_weak c; c_terminate := c_terminate c; c_id := c_id c |}.
Definition set_suspended (c:context) b w := {| c_frames := c_frames c; c_values := c_values c; c_can_suspend := c_can_suspend c;
  c_suspended := b; c_wakeup := w; c_weak := c_weak c; c_terminate := c_terminate c; c_id := c_id c |}.
Definition set_terminate (c:context) b := {| c_frames := c_frames c; c_values := c_values c; c_can_suspend := c_can_suspend c;
  c_suspended := c_suspended c; c_wakeup := c_wakeup c; c_weak := c_weak c; c_terminate := b; c_id := c_id c |}.
Definition new_context (id:nat) (sched:bool) : context :=
  {| c_frames := []; c_values := []; c_can_suspend := sched; c_suspended := false; c_wakeup := 0; c_weak := sched;
     c_terminate := false; c_id := id |}.

(* context.h:72 push_frame: the new frame's base is the current height *)
Definition push_frame (c:context) (f:frame) : context :=
  set_frames c (set_base f (length (c_values c)) :: c_frames c).
Definition push_value (c:context) (v:value) : context := set_values c (v :: c_values c).
(* context.h:114 pop_value(false): refuses to go below the current frame's base *)
Definition pop_value (c:context) : option (value * context) :=
  match c_values c, c_frames c with
  | v :: vs, f :: _ => if Nat.leb (length (c_values c)) (f_base f) then None else Some (v, set_values c vs)
  | _, _ => None end.
(* context.h:59 clear_values(false) *)
Definition clear_values (c:context) : context :=
  match c_frames c with
  | f :: _ => set_values c (skipn (length (c_values c) - f_base f) (c_values c))
  | [] => c end.
Definition pop_frame (c:context) : context := set_frames c (tl (c_frames c)).
Definition upd_top (c:context) (g:frame -> frame) : context :=
  match c_frames c with f :: r => set_frames c (g f :: r) | [] => c end.

(* context.h:144 get_variable: innermost frame first, stopping at a non-bubbling frame *)
Fixpoint lookup_frames (n:string) (fs:list frame) : option value :=
  match fs with
  | [] => None
  | f :: r => match assoc n (f_vars f) with
              | Some v => Some v
              | None => if f_bubble f then lookup_frames n r else None end
  end.
Definition get_variable (c:context) (n:string) : option value := lookup_frames (lower n) (c_frames c).
(* assign_to.h:47-56: every frame is scanned (bubble flag not consulted), first holder updated, else current *)
Fixpoint assign_frames (n:string) (v:value) (fs:list frame) : option (list frame) :=
  match fs with
  | [] => None
  | f :: r => match assoc n (f_vars f) with
              | Some _ => Some (set_vars f (assoc_set n v (f_vars f)) :: r)
              | None => match assign_frames n v r with Some r' => Some (f :: r') | None => None end end
  end.
Definition assign_local_var (c:context) (n:string) (v:value) : context :=
  match assign_frames (lower n) v (c_frames c) with
  | Some fs => set_frames c fs
  | None => upd_top c (fun f => set_vars f (assoc_set (lower n) v (f_vars f))) end.
Definition set_top_var (c:context) (n:string) (v:value) : context :=
  upd_top c (fun f => set_vars f (assoc_set (lower n) v (f_vars f))).
Definition declare_top_var (c:context) (n:string) : context :=
  upd_top c (fun f => match assoc (lower n) (f_vars f) with
                      | Some _ => f
                      | None => set_vars f (assoc_set (lower n) VNil (f_vars f)) end).

(* ------------------------------------------------------------------ runtime record updates *)
Definition rt_with (r:rt) (ctxs:list context) (active:option nat) (st:rstate) (ex ha ru er:bool) (msgs:list (Z*Z))
  (out:list event) (nss:list (string * list (string*value))) (clock ts:Z) (nid:nat) : rt :=
  {| r_ctxs := ctxs; r_active := active; r_state := st; r_exit_req := ex; r_halt_req := ha; r_run := ru; r_err := er;
     r_msgs := msgs; r_out := out; r_nss := nss; r_clock := clock; r_tick := r_tick r; r_timestamp := ts; r_run_ts := r_run_ts r;
     r_max_runtime := r_max_runtime r; r_max_loop := r_max_loop r; r_slice := r_slice r; r_next_id := nid;
     r_defects := r_defects r |}.
Definition set_ctxs r x := rt_with r x (r_active r) (r_state r) (r_exit_req r) (r_halt_req r) (r_run r) (r_err r) (r_msgs r) (r_out r) (r_nss r) (r_clock r) (r_timestamp r) (r_next_id r).
Definition set_active r x := rt_with r (r_ctxs r) x (r_state r) (r_exit_req r) (r_halt_req r) (r_run r) (r_err r) (r_msgs r) (r_out r) (r_nss r) (r_clock r) (r_timestamp r) (r_next_id r).
Definition set_state r x := rt_with r (r_ctxs r) (r_active r) x (r_exit_req r) (r_halt_req r) (r_run r) (r_err r) (r_msgs r) (r_out r) (r_nss r) (r_clock r) (r_timestamp r) (r_next_id r).
Definition set_exit_req r x := rt_with r (r_ctxs r) (r_active r) (r_state r) x (r_halt_req r) (r_run r) (r_err r) (r_msgs r) (r_out r) (r_nss r) (r_clock r) (r_timestamp r) (r_next_id r).
Definition set_halt_req r x := rt_with r (r_ctxs r) (r_active r) (r_state r) (r_exit_req r) x (r_run r) (r_err r) (r_msgs r) (r_out r) (r_nss r) (r_clock r) (r_timestamp r) (r_next_id r).
Definition set_run r x := rt_with r (r_ctxs r) (r_active r) (r_state r) (r_exit_req r) (r_halt_req r) x (r_err r) (r_msgs r) (r_out r) (r_nss r) (r_clock r) (r_timestamp r) (r_next_id r).
Definition set_errflag r x := rt_with r (r_ctxs r) (r_active r) (r_state r) (r_exit_req r) (r_halt_req r) (r_run r) x (r_msgs r) (r_out r) (r_nss r) (r_clock r) (r_timestamp r) (r_next_id r).
Definition set_msgs r x := rt_with r (r_ctxs r) (r_active r) (r_state r) (r_exit_req r) (r_halt_req r) (r_run r) (r_err r) x (r_out r) (r_nss r) (r_clock r) (r_timestamp r) (r_next_id r).
Definition set_out r x := rt_with r (r_ctxs r) (r_active r) (r_state r) (r_exit_req r) (r_halt_req r) (r_run r) (r_err r) (r_msgs r) x (r_nss r) (r_clock r) (r_timestamp r) (r_next_id r).
Definition set_nss r x := rt_with r (r_ctxs r) (r_active r) (r_state r) (r_exit_req r) (r_halt_req r) (r_run r) (r_err r) (r_msgs r) (r_out r) x (r_clock r) (r_timestamp r) (r_next_id r).
Definition set_clock r x := rt_with r (r_ctxs r) (r_active r) (r_state r) (r_exit_req r) (r_halt_req r) (r_run r) (r_err r) (r_msgs r) (r_out r) (r_nss r) x (r_timestamp r) (r_next_id r).
Definition set_timestamp r x := rt_with r (r_ctxs r) (r_active r) (r_state r) (r_exit_req r) (r_halt_req r) (r_run r) (r_err r) (r_msgs r) (r_out r) (r_nss r) (r_clock r) x (r_next_id r).
Definition set_next_id r x := rt_with r (r_ctxs r) (r_active r) (r_state r) (r_exit_req r) (r_halt_req r) (r_run r) (r_err r) (r_msgs r) (r_out r) (r_nss r) (r_clock r) (r_timestamp r) x.

Definition set_run_ts (r:rt) (x:Z) : rt :=
  {| r_ctxs := r_ctxs r; r_active := r_active r; r_state := r_state r; r_exit_req := r_exit_req r; r_halt_req := r_halt_req r;
     r_run := r_run r; r_err := r_err r; r_msgs := r_msgs r; r_out := r_out r; r_nss := r_nss r; r_clock := r_clock r;
     r_tick := r_tick r; r_timestamp := r_timestamp r; r_run_ts := x; r_max_runtime := r_max_runtime r; r_max_loop := r_max_loop r;
     r_slice := r_slice r; r_next_id := r_next_id r; r_defects := r_defects r |}.

Definition defect (r:rt) (d:string) : bool := existsb (String.eqb d) (r_defects r).

(* std::chrono::system_clock::now(): the virtual clock advances by r_tick per query *)
Definition now (r:rt) : Z * rt := let t := (r_clock r + r_tick r)%Z in (t, set_clock r t).

(* runtime.h:375 __logmsg: every message is logged; error level or worse raises the flag *)
Definition logmsg (r:rt) (d:Z*Z) : rt :=
  let r1 := set_out r (EDiag (fst d) (snd d) :: r_out r) in
  if Z.leb (fst d) 1 then set_msgs (set_errflag r1 true) (r_msgs r1 ++ [d]) else r1.
Definition mark (r:rt) (s:string) : rt := set_out r (EMark s :: r_out r).

Fixpoint list_upd {A} (l:list A) (i:nat) (x:A) : list A :=
  match l, i with
  | [], _ => []
  | _ :: r, O => x :: r
  | a :: r, S i' => a :: list_upd r i' x end.

Definition cur (r:rt) : option context :=
  match r_active r with Some i => nth_error (r_ctxs r) i | None => None end.
Definition upd_cur (r:rt) (c:context) : rt :=
  match r_active r with Some i => set_ctxs r (list_upd (r_ctxs r) i c) | None => r end.

Definition ns_get (r:rt) (ns n:string) : option value :=
  match assoc ns (r_nss r) with Some m => assoc (lower n) m | None => None end.
Definition ns_set (r:rt) (ns n:string) (v:value) : rt :=
  let m := match assoc ns (r_nss r) with Some m => m | None => [] end in
  set_nss r (assoc_set ns (assoc_set (lower n) v m) (r_nss r)).

(* ------------------------------------------------------------------ outcomes *)
(* What one operator / instruction does to the machine.  Unsupported = the program left the
   modelled fragment (the generators never do); Hang = the C++ would loop without returning. *)
Inductive res (A:Type) := Ok (a:A) | Unsupported (why:string) | Hang (why:string) | UB (why:string).
Arguments Ok {A}. Arguments Unsupported {A}. Arguments Hang {A}. Arguments UB {A}.

Definition bindr {A B} (x:res A) (f:A -> res B) : res B :=
  match x with Ok a => f a | Unsupported w => Unsupported w | Hang w => Hang w | UB w => UB w end.

(* ------------------------------------------------------------------ operators *)
(* An operator sees the runtime with the current context c (already without its operands) and
   returns the new runtime/context and the value the call instruction then pushes. *)
Definition opres := res (rt * context * value).

Definition is_int_in_range (n:Z) : bool := andb (Z.ltb (-16777216) n) (Z.ltb n 16777216).
Definition num (n:Z) : res value := if is_int_in_range n then Ok (VNum n) else Unsupported "number leaves the exact integer range".

Definition nth_val (l:list value) (i:nat) : value := nth i l VNil.

Definition op_nular (n:string) (r:rt) (c:context) : opres :=
  if String.eqb n "nil" then Ok (r, c, VNil)
  else if String.eqb n "missionnamespace" then Ok (r, c, VNs "missionNamespace")
  else if String.eqb n "uinamespace" then Ok (r, c, VNs "uiNamespace")
  else if String.eqb n "parsingnamespace" then Ok (r, c, VNs "parsingNamespace")
  else if String.eqb n "profilenamespace" then Ok (r, c, VNs "profileNamespace")
  else if String.eqb n "currentnamespace" then
    match c_frames c with f :: _ => Ok (r, c, VNs (f_ns f)) | [] => UB "currentNamespace without a frame" end
  else if String.eqb n "cansuspend" then Ok (r, c, VBool (c_can_suspend c))
  else Unsupported (append "nular " n).

(* ops_generic.cpp:2094 breakout_any_string: frames are popped, their operand regions are not cleared *)
Fixpoint find_scope (name:string) (fs:list frame) (k:nat) : option nat :=
  match fs with
  | [] => None
  | f :: r => if String.eqb (f_scope f) name then Some (S k) else find_scope name r (S k) end.
Fixpoint pop_clearing (k:nat) (c:context) : context :=
  match k with O => c | S k' => pop_clearing k' (pop_frame (clear_values c)) end.
Definition op_breakout (r:rt) (c:context) (v:value) (target:string) : opres :=
  match c_frames c with
  | [] => UB "breakOut without a frame"
  | _ :: _ =>
    (* switch on = the code before the repair: frames popped, regions left behind *)
    let leave := fun k => if defect r "breakout_leaks_regions" then set_frames c (skipn k (c_frames c)) else pop_clearing k c in
    if String.eqb target "" then Ok (r, leave 1%nat, v)
    else match find_scope target (c_frames c) 0 with
         | Some k => Ok (r, leave k, v)
         | None => Ok (logmsg r d_ScopeNameNotFound, c, VNil) end
  end.

(* ops_generic.cpp:1961 throw_any *)
Definition err_enact (r:rt) (c:context) (k:nat) : res (bool * rt * context) :=
  (* recover_runtime_error of the frame at depth k (frame.h:132); returns (failed?, ..) *)
  match nth_error (c_frames c) k with
  | None => UB "recover on a missing frame"
  | Some f =>
    match f_err f with
    | None => Ok (true, r, c)
    | Some (ECatch h) =>
        (* behavior_catch_exit::enact ops_generic.cpp:2017 *)
        if r_err r then Ok (true, r, c)
        else
          let (val, c1) := match pop_value c with Some (v, c') => (Some v, c') | None => (None, c) end in
          let c2 := clear_values c1 in
          let exc := match val with Some (VTrace v) => v | _ => VNil end in
          let f' := set_err (set_pos (set_code (set_vars f [("_exception", exc)]) h) 0) None in
          Ok (false, r, set_frames c2 (list_upd (c_frames c2) k f'))
    | Some (EExcept h exchanged) =>
        (* behavior_except::enact ops_sqfvm.cpp:427 *)
        if exchanged then Ok (true, r, c)
        else
          let (val, c1) := match pop_value c with Some (v, c') => (Some v, c') | None => (None, c) end in
          let c2 := clear_values c1 in
          let exc := match val with Some v => v | None => VNil end in
          let f' := set_err (set_pos (set_code (set_vars f [("_exception", exc)]) h) 0) None in
          Ok (false, r, set_frames c2 (list_upd (c_frames c2) k f'))
    end
  end.

Fixpoint find_handler (fs:list frame) (k:nat) : option nat :=
  match fs with
  | [] => None
  | f :: r => match f_err f with Some _ => Some k | None => find_handler r (S k) end end.

Definition op_throw (r:rt) (c:context) (v:value) : opres :=
  match find_handler (c_frames c) 0 with
  | None => Ok (logmsg r d_ErrorMessage, c, VNil)
  | Some k =>
      let valpos := length (c_values c) in
      let c1 := push_value c (VTrace v) in
      bindr (err_enact r c1 k) (fun '(failed, r2, c2) =>
        if failed then
          let c3 := if Nat.ltb 0 valpos then match pop_value c2 with Some (_, c') => c' | None => c2 end else c2 in
          Ok (logmsg r2 d_ErrorMessage, c3, VNil)
        else Ok (r2, set_frames c2 (skipn k (c_frames c2)), VNil))
  end.

Definition arr_all_strings (l:list value) : bool := forallb (fun v => match v with VStr _ => true | _ => false end) l.

(* runtime.h current_value_scope(): nested scopes run in the namespace of the innermost executing scope *)
Definition cur_ns (c:context) : string := match c_frames c with f :: _ => f_ns f | [] => default_ns end.

Definition op_unary (n:string) (v:value) (r:rt) (c:context) : opres :=
  let ns := cur_ns c in
  if String.eqb n "call" then
    match v with
    | VCode code =>   (* ops_generic.cpp:76 call_code *)
        let this := match get_variable c "_this" with Some t => t | None => VNil end in
        Ok (r, push_frame c (mk_frame ns code None None [("_this", this)]), VNil)
    | _ => Unsupported "call" end
  else if String.eqb n "count" then
    match v with VArr l => Ok (r, c, VNum (Z.of_nat (length l))) | _ => Unsupported "count" end
  else if String.eqb n "if" then
    match v with VBool b => Ok (r, c, VIf b) | _ => Unsupported "if" end
  else if String.eqb n "while" then
    match v with VCode code => Ok (r, c, VWhile code) | _ => Unsupported "while" end
  else if String.eqb n "for" then
    match v with VStr s => Ok (r, c, VFor s 0 0 1) | _ => Unsupported "for" end
  else if String.eqb n "switch" then Ok (r, c, VSwitch v [] false false)
  else if String.eqb n "case" then
    (* ops_generic.cpp:1058 case_any *)
    match get_variable c "___switch" with
    | Some (VSwitch sv tgt nw hs) =>
        let nw' := if veqb true v sv then true else nw in
        let sw := VSwitch sv tgt nw' hs in
        Ok (r, assign_local_var c "___switch" sw, sw)
    | Some _ => Ok (logmsg r d_MagicVariableTypeMissmatch, c, VNil)
    | None => UB "case outside switch dereferences an empty optional (ops_generic.cpp:1063)" end
  else if String.eqb n "default" then
    match v with
    | VCode code =>
      match get_variable c "___switch" with
      | Some (VSwitch sv tgt nw hs) =>
          let sw := VSwitch sv (if hs then tgt else code) nw hs in
          Ok (r, assign_local_var c "___switch" sw, VNil)
      | Some _ => Ok (logmsg r d_MagicVariableTypeMissmatch, c, VNil)
      | None => UB "default outside switch dereferences an empty optional (ops_generic.cpp:1079)" end
    | _ => Unsupported "default" end
  else if String.eqb n "try" then
    match v with VCode code => Ok (r, c, VExc code) | _ => Unsupported "try" end
  else if String.eqb n "throw" then op_throw r c v
  else if String.eqb n "scopename" then
    match v, c_frames c with
    | VStr s, f :: _ =>
        if String.eqb (f_scope f) "" then Ok (r, upd_top c (fun f => set_scope f s), VNil)
        else Ok (logmsg r d_ScopeNameAlreadySet, c, VNil)
    | VStr _, [] => UB "scopeName without a frame"
    | _, _ => Unsupported "scopeName" end
  else if String.eqb n "breakout" then
    match v with VStr s => op_breakout r c VNil s | _ => Unsupported "breakOut" end
  else if String.eqb n "isnil" then
    match v with
    | VStr s =>  (* ops_generic.cpp:964 *)
        let val := match get_variable c s with
                   | Some x => Some x
                   | None => match c_frames c with f :: _ => ns_get r (f_ns f) s | [] => None end end in
        Ok (r, c, VBool (match val with Some VNil => true | Some _ => false | None => true end))
    | VCode code => Ok (r, push_frame c (mk_frame ns code (Some BIsNil) None []), VNil)
    | _ => Unsupported "isNil" end
  else if String.eqb n "private" then
    match v with
    | VStr s =>   (* ops_generic.cpp:936: at() creates an empty entry in the current frame, keeps an existing one *)
        Ok (r, declare_top_var c s, VNil)
    | VArr l =>
        if arr_all_strings l then
          Ok (r, fold_left (fun c' x => match x with VStr s => declare_top_var c' s | _ => c' end) l c, VNil)
        else Unsupported "private with non-strings"
    | _ => Unsupported "private" end
  else if String.eqb n "sleep" then
    match v with
    | VNum d =>   (* ops_generic.cpp:1864; d in seconds *)
        if negb (c_can_suspend c) then Ok (logmsg r d_SuspensionInUnscheduledEnvironment, c, VNil)
        else let (t, r1) := now r in Ok (r1, set_suspended c true (t + d * 1000000)%Z, VNil)
    | _ => Unsupported "sleep" end
  else if String.eqb n "scriptdone" then
    match v with
    | VScript id => Ok (r, c, VBool (negb (existsb (fun x => Nat.eqb (c_id x) id) (r_ctxs r))))
    | _ => Unsupported "scriptDone" end
  else if String.eqb n "terminate" then
    match v with
    | VScript id =>   (* ops_generic.cpp:1188: sets a flag *)
        if negb (existsb (fun x => Nat.eqb (c_id x) id) (r_ctxs r)) then Ok (logmsg r d_ScriptHandleAlreadyFinished, c, VNil)
        else if Nat.eqb id (c_id c) then
          if c_terminate c then Ok (logmsg r d_ScriptHandleAlreadyTerminated, c, VNil) else Ok (r, set_terminate c true, VNil)
        else
          match find (fun x => Nat.eqb (c_id x) id) (r_ctxs r) with
          | Some x => if c_terminate x then Ok (logmsg r d_ScriptHandleAlreadyTerminated, c, VNil)
                      else Ok (set_ctxs r (map (fun y => if Nat.eqb (c_id y) id then set_terminate y true else y) (r_ctxs r)), c, VNil)
          | None => Ok (r, c, VNil) end
    | _ => Unsupported "terminate" end
  else if String.eqb n "waituntil" then
    match v with
    | VCode code => Ok (r, push_frame c (mk_frame ns code (Some (BWaitUntil 0)) None []), VNil)
    | _ => Unsupported "waitUntil" end
  else if String.eqb n "with" then
    match v with VNs s => Ok (r, c, VWith s) | _ => Unsupported "with" end
  else if String.eqb n "diag_log" then
    match show false v with Some s => Ok (mark (logmsg r d_InfoMessage) s, c, VNil) | None => Unsupported "diag_log of an unprintable value" end
  else if String.eqb n "str" then
    match show true v with Some s => Ok (r, c, VStr s) | None => Unsupported "str of an unprintable value" end
  else if String.eqb n "!" then
    match v with VBool b => Ok (r, c, VBool (negb b)) | _ => Unsupported "!" end
  else if String.eqb n "-" then
    match v with VNum x => if Z.eqb x 0 then Unsupported "negative zero" else bindr (num (- x)) (fun y => Ok (r, c, y)) | _ => Unsupported "unary -" end
  else if String.eqb n "+" then
    match v with VNum x => Ok (r, c, VNum x) | VArr l => Ok (r, c, VArr l) | _ => Unsupported "unary +" end
  else Unsupported (append "unary " n).

Definition cmp_op (n:string) (x y:Z) : option bool :=
  if String.eqb n "<" then Some (Z.ltb x y) else if String.eqb n ">" then Some (Z.gtb x y)
  else if String.eqb n "<=" then Some (Z.leb x y) else if String.eqb n ">=" then Some (Z.geb x y) else None.

Definition ns_default (r:rt) := default_ns.

Definition op_binary (n:string) (l v:value) (r:rt) (c:context) : opres :=
  let ns := cur_ns c in
  if String.eqb n "call" then
    match v with
    | VCode code => Ok (r, push_frame c (mk_frame ns code None None [("_this", l)]), VNil)   (* ops_generic.cpp:84 *)
    | _ => Unsupported "call" end
  else if String.eqb n "then" then
    match l, v with
    | VIf b, VCode code =>    (* ops_generic.cpp:240 *)
        if b then Ok (r, push_frame c (mk_frame ns code None None []), VNil) else Ok (r, c, VNil)
    | VIf b, VArr [VCode a; VCode e] =>   (* ops_generic.cpp:186 *)
        Ok (r, push_frame c (mk_frame ns (if b then a else e) None None []), VNil)
    | _, _ => Unsupported "then" end
  else if String.eqb n "else" then
    match l, v with VCode a, VCode e => Ok (r, c, VArr [VCode a; VCode e]) | _, _ => Unsupported "else" end
  else if String.eqb n "exitwith" then
    match l, v with
    | VIf b, VCode code =>   (* ops_generic.cpp:254: current frame dies, handler frame pushed *)
        if b then Ok (r, push_frame (upd_top c (fun f => set_die (set_pos f (S (length (f_code f)))) true))
                                    (mk_frame ns code None None []), VNil)
        else Ok (r, c, VNil)
    | _, _ => Unsupported "exitWith" end
  else if String.eqb n "do" then
    match l, v with
    | VWhile cond, VCode body =>   (* ops_generic.cpp:428 *)
        match cond with
        | [] => Ok (logmsg r d_ConditionEmpty, c, VNil)
        | _ => Ok (r, push_frame c (mk_frame ns cond (Some (BWhile 0 WCond cond body)) None []), VNil) end
    | VFor var from to step, VCode body =>   (* ops_generic.cpp:486 *)
        if andb (negb (Z.eqb step 0)) (if Z.ltb 0 step then Z.ltb to from else Z.ltb from to) then Ok (r, c, VNil)
        else Ok (r, push_frame c (mk_frame ns body (Some (BFor var to step)) None [(lower var, VNum from)]), VNil)
    | VSwitch sv tgt nw hs, VCode body =>   (* ops_generic.cpp:1051 *)
        Ok (r, push_frame c (mk_frame ns body (Some (BSwitch false)) None [("___switch", VSwitch sv tgt nw hs)]), VNil)
    | VWith s, VCode body =>   (* ops_namespace.cpp:39 *)
        Ok (r, push_frame c (mk_frame s body None None []), VNil)
    | _, _ => Unsupported "do" end
  else if String.eqb n "from" then
    match l, v with VFor var _ to step, VNum x => Ok (r, c, VFor var x to step) | _, _ => Unsupported "from" end
  else if String.eqb n "to" then
    match l, v with VFor var from _ step, VNum x => Ok (r, c, VFor var from x step) | _, _ => Unsupported "to" end
  else if String.eqb n "step" then
    match l, v with VFor var from to _, VNum x => Ok (r, c, VFor var from to x) | _, _ => Unsupported "step" end
  else if String.eqb n "foreach" then
    match l, v with
    | VCode body, VArr arr =>   (* ops_generic.cpp:547 *)
        match arr with
        | [] => Ok (r, c, VNil)
        | x :: _ => Ok (r, push_frame c (mk_frame ns body (Some (BForEach arr 0)) None
                                            [("_x", x); ("_foreachindex", VNum 0)]), VNil) end
    | _, _ => Unsupported "forEach" end
  else if String.eqb n "count" then
    match l, v with
    | VCode body, VArr arr =>   (* ops_generic.cpp:141 *)
        match arr with
        | [] => Ok (r, c, VNum 0)
        | x :: _ => Ok (r, push_frame c (mk_frame ns body (Some (BCount arr 0 0)) None [("_x", x)]), VNil) end
    | _, _ => Unsupported "count" end
  else if String.eqb n "select" then
    match l, v with
    | VArr arr, VNum i =>   (* ops_generic.cpp:562 *)
        if orb (Z.ltb (Z.of_nat (length arr)) i) (Z.ltb i 0) then Ok (logmsg r d_IndexOutOfRange, c, VNil)
        else if Z.eqb (Z.of_nat (length arr)) i then Ok (logmsg r d_IndexEqualsRange, c, VNil)
        else Ok (r, c, nth_val arr (Z.to_nat i))
    | VArr arr, VCode body =>   (* ops_generic.cpp:710 *)
        match arr with
        | [] => Ok (r, c, VArr [])
        | x :: _ => Ok (r, push_frame c (mk_frame ns body (Some (BSelect arr [] 0)) None [("_x", x)]), VNil) end
    | _, _ => Unsupported "select" end
  else if String.eqb n "apply" then
    match l, v with
    | VArr arr, VCode body =>
        match arr with
        | [] => Ok (r, c, VArr [])
        | x :: _ => Ok (r, push_frame c (mk_frame ns body (Some (BApply arr [] 0)) None [("_x", x)]), VNil) end
    | _, _ => Unsupported "apply" end
  else if String.eqb n "findif" then
    match l, v with
    | VArr arr, VCode body =>
        match arr with
        | [] => Ok (r, c, VNum (-1))
        | x :: _ => Ok (r, push_frame c (mk_frame ns body (Some (BFindIf arr 0)) None [("_x", x)]), VNil) end
    | _, _ => Unsupported "findIf" end
  else if String.eqb n ":" then
    match l, v with
    | VSwitch _ _ _ _, VCode body =>   (* ops_generic.cpp:1089 colon_switch_code *)
      match get_variable c "___switch" with
      | Some (VSwitch sv tgt nw hs) =>
          if andb (negb hs) nw then
            let c1 := assign_local_var c "___switch" (VSwitch sv body false true) in
            Ok (r, upd_top c1 (fun f => set_pos f (S (length (f_code f)))), VNil)
          else Ok (r, c, VNil)
      | Some _ => Ok (logmsg r d_MagicVariableTypeMissmatch, c, VNil)
      | None => UB "':' outside switch dereferences an empty optional" end
    | _, _ => Unsupported ":" end
  else if String.eqb n "catch" then
    match l, v with
    | VExc body, VCode handler => Ok (r, push_frame c (mk_frame ns body None (Some (ECatch handler)) []), VNil)
    | _, _ => Unsupported "catch" end
  else if String.eqb n "except__" then
    match l, v with
    | VCode body, VCode handler => Ok (r, push_frame c (mk_frame ns body None (Some (EExcept handler false)) []), VNil)
    | _, _ => Unsupported "except__" end
  else if String.eqb n "breakout" then
    match v with VStr s => op_breakout r c l s | _ => Unsupported "breakOut" end
  else if String.eqb n "throw" then
    match l with VIf b => if b then op_throw r c v else Ok (r, c, VNil) | _ => Unsupported "throw" end
  else if String.eqb n "spawn" then
    match v with
    | VCode body =>   (* ops_generic.cpp:1160 *)
        let id := r_next_id r in
        let nc := push_frame (new_context id true) (mk_frame default_ns body None None [("_thisscript", VScript id); ("_this", l)]) in
        Ok (set_next_id (set_ctxs r (r_ctxs r ++ [nc])) (S id), c, VScript id)
    | _ => Unsupported "spawn" end
  else if String.eqb n "getvariable" then
    match l, v with
    | VNs s, VStr name => Ok (r, c, match ns_get r s name with Some x => x | None => VNil end)
    | VNs s, VArr [VStr name; d] => Ok (r, c, match ns_get r s name with Some x => x | None => d end)
    | _, _ => Unsupported "getVariable" end
  else if String.eqb n "setvariable" then
    match l, v with
    | VNs s, VArr [VStr name; x] => Ok (ns_set r s name x, c, VNil)
    | _, _ => Unsupported "setVariable" end
  else if String.eqb n "+" then
    match l, v with
    | VNum x, VNum y => bindr (num (x + y)) (fun z => Ok (r, c, z))
    | VArr x, VArr y => Ok (r, c, VArr (x ++ y))
    | VStr x, VStr y => Ok (r, c, VStr (append x y))
    | _, _ => Unsupported "+" end
  else if String.eqb n "-" then
    match l, v with VNum x, VNum y => bindr (num (x - y)) (fun z => Ok (r, c, z)) | _, _ => Unsupported "-" end
  else if String.eqb n "*" then
    match l, v with
    | VNum x, VNum y => if andb (Z.eqb (x * y) 0) (orb (Z.ltb x 0) (Z.ltb y 0)) then Unsupported "negative zero"
                        else bindr (num (x * y)) (fun z => Ok (r, c, z))
    | _, _ => Unsupported "*" end
  else if orb (String.eqb n "==") (String.eqb n "!=") then
    match l, v with
    | VNum _, VNum _ | VBool _, VBool _ | VStr _, VStr _ =>
        let e := veqb false l v in Ok (r, c, VBool (if String.eqb n "==" then e else negb e))
    | _, _ => Unsupported "==" end
  else if String.eqb n "isequalto" then
    match show true l, show true v with
    | Some _, Some _ => Ok (r, c, VBool (veqb true l v))
    | _, _ => Unsupported "isEqualTo on an unprintable value" end
  else if orb (String.eqb n "&&") (String.eqb n "and") then
    match l, v with
    | VBool a, VBool b => Ok (r, c, VBool (andb a b))
    | VBool a, VCode body =>   (* ops_logic.cpp:32 *)
        if a then Ok (r, push_frame c (mk_frame ns body None None []), VNil) else Ok (r, c, VBool false)
    | _, _ => Unsupported "&&" end
  else if orb (String.eqb n "||") (String.eqb n "or") then
    match l, v with
    | VBool a, VBool b => Ok (r, c, VBool (orb a b))
    | VBool a, VCode body =>
        if a then Ok (r, c, VBool true) else Ok (r, push_frame c (mk_frame ns body None None []), VNil)
    | _, _ => Unsupported "||" end
  else match cmp_op n 0 0, l, v with
       | Some _, VNum x, VNum y => match cmp_op n x y with Some b => Ok (r, c, VBool b) | None => Unsupported n end
       | _, _, _ => Unsupported (append "binary " n) end.

(* ------------------------------------------------------------------ dispatch (call_unary.h:44, call_binary.h:72) *)
Definition ty_name (t:ty) : string :=
  match t with
  | TNothing => "NOTHING" | TScalar => "SCALAR" | TBool => "BOOL" | TString => "STRING" | TArray => "ARRAY" | TCode => "CODE"
  | TIf => "IF" | TWhile => "WHILE" | TFor => "FOR" | TSwitch => "SWITCH" | TExc => "EXCEPTION" | TNamespace => "NAMESPACE"
  | TWith => "WITH" | TScript => "SCRIPT" | TTrace => "STACKTRACE" end.
(* exact type, then the ANY fallbacks, over the registry of the built runtime (Gen/Overloads.v) *)
Definition has_unary (n:string) (t:ty) : bool :=
  existsb (fun p => andb (String.eqb (fst p) n) (orb (String.eqb (snd p) (ty_name t)) (String.eqb (snd p) "ANY"))) reg_unary.
Definition has_binary (n:string) (tl tr:ty) : bool :=
  existsb (fun p => andb (String.eqb (fst p) n)
                         (andb (orb (String.eqb (fst (snd p)) (ty_name tl)) (String.eqb (fst (snd p)) "ANY"))
                               (orb (String.eqb (snd (snd p)) (ty_name tr)) (String.eqb (snd (snd p)) "ANY")))) reg_binary.
Definition has_nular (n:string) : bool := existsb (String.eqb n) reg_nular.

(* ------------------------------------------------------------------ instructions (src/opcodes/*.h) *)
Definition no_value_diag (c:context) (strong weak:Z*Z) : Z*Z := if c_weak c then weak else strong.

Fixpoint pop_args (k:nat) (c:context) (acc:list value) : (list value * context * bool) :=
  match k with
  | O => (acc, c, true)
  | S k' => match pop_value c with
            | Some (v, c') => pop_args k' c' (v :: acc)
            | None => (repeat VNil (S k') ++ acc, c, false) end end.

Definition exec_instr (i:instr) (r:rt) (c:context) : res (rt * context) :=
  match i with
  | IPush v => Ok (r, push_value c v)
  | IEnd => Ok (r, clear_values c)
  | IGet n =>      (* get_variable.h:28 *)
      if is_local n then
        match get_variable c n with
        | Some v => Ok (r, push_value c v)
        | None => Ok (logmsg r d_VariableNotFound, push_value c VNil) end
      else
        match c_frames c with
        | [] => UB "GETVARIABLE without a frame"
        | f :: _ => match ns_get r (f_ns f) n with
                    | Some v => Ok (r, push_value c v)
                    | None => Ok (logmsg r d_VariableNotFound, push_value c VNil) end end
  | IAssign n =>   (* assign_to.h:24 *)
      match pop_value c with
      | None => Ok (logmsg r (no_value_diag c d_FoundNoValue d_FoundNoValueWeak), c)
      | Some (v, c1) =>
          let r1 := match v with VNil => logmsg r d_AssigningNilValue | _ => r end in
          if String.eqb n "" then Ok (r1, c1)
          else if is_local n then Ok (r1, assign_local_var c1 n v)
          else match c_frames c1 with
               | [] => UB "ASSIGNTO without a frame"
               | f :: _ => Ok (ns_set r1 (f_ns f) n v, c1) end end
  | IAssignLocal n =>   (* assign_to_local.h:24 *)
      let popped := pop_value c in
      let c0 := match popped with Some (_, c1) => c1 | None => c end in
      if String.eqb n "" then Ok (r, c0)
      else match popped with
           | None => Ok (logmsg r (no_value_diag c d_FoundNoValue d_FoundNoValueWeak), c)
           | Some (v, c1) =>
               let r1 := match v with VNil => logmsg r d_AssigningNilValue | _ => r end in
               Ok (r1, set_top_var c1 n v) end
  | IMakeArray n =>     (* make_array.h:28: pops right to left, stops at the first missing value *)
      let '(vals, c1, ok) := pop_args n c [] in
      let r1 := if ok then r else logmsg r d_StackCorruptionMissingValues in
      Ok (r1, push_value c1 (VArr vals))
  | INular n =>
      match op_nular (lower n) r c with
      | Unsupported w => if has_nular (lower n) then Unsupported w else Unsupported (append "unknown nular " n)
      | x => bindr x (fun '(r1, c1, v) => Ok (r1, push_value c1 v)) end
  | IUnary n =>         (* call_unary.h:22 *)
      match pop_value c with
      | None => Ok (logmsg r (no_value_diag c d_NoValueFoundForRightArgument d_NoValueFoundForRightArgumentWeak), c)
      | Some (VNil, c1) => Ok (logmsg r d_NilValueFoundForRightArgumentWeak, c1)
      | Some (v, c1) =>
          match op_unary (lower n) v r c1 with
          | Unsupported w => if has_unary (lower n) (type_of v) then Unsupported w
                             else Ok (logmsg r d_UnknownInputTypeCombinationUnary, c1)
          | x => bindr x (fun '(r1, c2, y) => Ok (r1, push_value c2 y)) end end
  | IBinary n =>        (* call_binary.h:24 *)
      match pop_value c with
      | None => Ok (logmsg r (no_value_diag c d_NoValueFoundForRightArgument d_NoValueFoundForRightArgumentWeak), c)
      | Some (VNil, c1) => Ok (logmsg r d_NilValueFoundForRightArgumentWeak, c1)
      | Some (v, c1) =>
          match pop_value c1 with
          | None => Ok (logmsg r (no_value_diag c d_NoValueFoundForRightArgument d_NoValueFoundForRightArgumentWeak), c1)
          | Some (VNil, c2) => Ok (logmsg r d_NilValueFoundForRightArgumentWeak, c2)
          | Some (l, c2) =>
              match op_binary (lower n) l v r c2 with
              | Unsupported w => if has_binary (lower n) (type_of l) (type_of v) then Unsupported w
                                 else Ok (logmsg r d_UnknownInputTypeCombinationBinary, c2)
              | x => bindr x (fun '(r1, c3, y) => Ok (r1, push_value c3 y)) end end end
  end.

(* ------------------------------------------------------------------ exit behaviours *)
Inductive bresult := BrOk | BrSeekStart | BrSeekEnd | BrExchange (c:code) | BrFail.

(* ops_generic.cpp:293 the waitUntil iteration cap *)
Definition waituntil_cap : nat := 300 * 100.

Definition bool_result_diag (v:value) : option (Z*Z) :=
  match v with VBool _ => None | VNil => Some d_TypeMissmatchWeak | _ => Some d_TypeMissmatch end.

(* enact of the top frame's exit behaviour; returns the frame-level request, the updated behaviour
   and the machine.  The frame's variables are updated in the top frame of c. *)
Definition restart_with (c:context) (vars:list (string*value)) : context :=
  upd_top (clear_values c) (fun f => set_vars f vars).

(* Repair C05 exit-behaviour-no-value (context.h pop_value_or_nil, used by the exit behaviours of count / select / apply /
   findIf / isNil / while / waitUntil in ops_generic.cpp and configClasses / configProperties in ops_config.cpp): a finished scope
   yields exactly one value to the behaviour that ends it - the top of its part of the operand stack, nil when that part is empty
   (the last statement left nothing and a separator or a restart had removed the placeholder).  Every `None` branch below therefore
   does what the `Some (VNil, c)` branch does, on the unchanged stack.  Before the repair (switch `exit_value_missing`) the behaviour
   logged the error-level CallstackFoundNoValue instead, which ended the script.  The behaviours that take no value (forEach, for,
   switch, the body round of while) are untouched, in the code and here. *)
Definition exit_value_missing (r:rt) : bool := defect r "exit_value_missing".

Definition enact (b:behavior) (r:rt) (c:context) : res (bresult * behavior * rt * context) :=
  match b with
  | BCount arr idx cnt =>
      let '(r1, c1, cnt1) :=
        match pop_value c with
        | Some (v, c') => match v with
                          | VBool t => (r, c', if t then (cnt + 1)%Z else cnt)
                          | _ => (match bool_result_diag v with Some d => logmsg r d | None => r end, c', cnt) end
        | None => if exit_value_missing r then (logmsg r d_CallstackFoundNoValue, c, cnt)
                  else (logmsg r d_TypeMissmatchWeak, c, cnt) end in
      if Nat.eqb (S idx) (length arr) then Ok (BrOk, BCount arr (S idx) cnt1, r1, push_value c1 (VNum cnt1))
      else Ok (BrSeekStart, BCount arr (S idx) cnt1, r1, restart_with c1 [("_x", nth_val arr (S idx))])
  | BSelect arr out idx =>
      let '(r1, c1, out1) :=
        match pop_value c with
        | Some (v, c') => match v with
                          | VBool t => (r, c', if t then out ++ [nth_val arr idx] else out)
                          | _ => (match bool_result_diag v with Some d => logmsg r d | None => r end, c', out) end
        | None => if exit_value_missing r then (logmsg r d_CallstackFoundNoValue, c, out)
                  else (logmsg r d_TypeMissmatchWeak, c, out) end in
      if Nat.eqb (S idx) (length arr) then Ok (BrOk, BSelect arr out1 (S idx), r1, push_value c1 (VArr out1))
      else Ok (BrSeekStart, BSelect arr out1 (S idx), r1, restart_with c1 [("_x", nth_val arr (S idx))])
  | BApply arr out idx =>
      let '(r1, c1, out1) :=
        match pop_value c with
        | Some (v, c') => (r, c', out ++ [v])
        | None => if exit_value_missing r then (logmsg r d_CallstackFoundNoValue, c, out)
                  else (r, c, out ++ [VNil]) end in
      if Nat.eqb (S idx) (length arr) then Ok (BrOk, BApply arr out1 (S idx), r1, push_value c1 (VArr out1))
      else Ok (BrSeekStart, BApply arr out1 (S idx), r1, restart_with c1 [("_x", nth_val arr (S idx))])
  | BFindIf arr idx =>
      let '(r1, c1, found) :=
        match pop_value c with
        | Some (v, c') => match v with
                          | VBool t => (r, c', t)
                          | _ => (logmsg r d_TypeMissmatch, c', false) end
        | None => if exit_value_missing r then (logmsg r d_CallstackFoundNoValue, c, false)
                  else (logmsg r d_TypeMissmatch, c, false) end in
      if found then Ok (BrOk, b, r1, push_value c1 (VNum (Z.of_nat idx)))
      else if Nat.eqb (S idx) (length arr) then Ok (BrOk, BFindIf arr (S idx), r1, push_value c1 (VNum (-1)))
      else Ok (BrSeekStart, BFindIf arr (S idx), r1, restart_with c1 [("_x", nth_val arr (S idx))])
  | BForEach arr idx =>
      if Nat.eqb (S idx) (length arr) then Ok (BrOk, BForEach arr (S idx), r, c)
      else Ok (BrSeekStart, BForEach arr (S idx), r,
               restart_with c [("_foreachindex", VNum (Z.of_nat (S idx))); ("_x", nth_val arr (S idx))])
  | BFor var to step =>
      match c_frames c with
      | [] => UB "for behaviour without a frame"
      | f :: _ =>
        match assoc (lower var) (f_vars f) with
        | Some (VNum x) =>
            let u := (x + step)%Z in
            if (if Z.leb 0 step then Z.ltb to u else Z.ltb u to) then Ok (BrOk, b, r, c)
            else Ok (BrSeekStart, b, r, restart_with c [(lower var, VNum u)])
        | _ => Ok (BrOk, b, logmsg r d_ForStepVariableTypeMissmatch, c) end end
  | BIsNil =>
      match pop_value c with
      | Some (v, c') => Ok (BrOk, b, r, push_value c' (VBool (match v with VNil => true | _ => false end)))
      | None => if exit_value_missing r then Ok (BrOk, b, logmsg r d_CallstackFoundNoValue, c)
                else Ok (BrOk, b, r, push_value c (VBool true)) end
  | BSwitch switched =>
      if switched then Ok (BrOk, b, r, c)
      else match c_frames c with
           | [] => UB "switch behaviour without a frame"
           | f :: _ => match assoc "___switch" (f_vars f) with
                       | Some (VSwitch _ tgt _ _) =>
                           match tgt with [] => Ok (BrOk, BSwitch true, r, c) | _ => Ok (BrExchange tgt, BSwitch true, r, c) end
                       | _ => Ok (BrFail, BSwitch true, r, c) end end
  | BWhile loops m cond body =>
      match m with
      | WCond =>
          match pop_value c with
          | Some (VBool true, c') =>
              let c1 := restart_with c' [] in
              (* ops_generic.cpp:370: an empty body re-runs the condition without touching the counter *)
              match body with
              | [] =>
                  if defect r "while_empty_body_uncapped" then Ok (BrSeekStart, b, r, c1)
                  else
                    let loops' := if c_can_suspend c then loops else S loops in
                    if andb (negb (c_can_suspend c)) (andb (Nat.ltb 0 (r_max_loop r)) (Nat.leb (r_max_loop r) loops'))
                    then Ok (BrOk, BWhile loops' m cond body, r, c1)
                    else Ok (BrSeekStart, BWhile loops' m cond body, r, c1)
              | _ => Ok (BrExchange body, BWhile loops WCode cond body, r, c1) end
          | Some (VBool false, c') => Ok (BrOk, b, r, c')
          | Some (v, c') => Ok (BrOk, b, match bool_result_diag v with Some d => logmsg r d | None => r end, c')
          | None => if exit_value_missing r then Ok (BrOk, b, logmsg r d_CallstackFoundNoValue, c)
                    else Ok (BrOk, b, logmsg r d_TypeMissmatchWeak, c) end
      | WCode =>
          let loops' := if c_can_suspend c then loops else S loops in
          if andb (negb (c_can_suspend c)) (andb (Nat.ltb 0 (r_max_loop r)) (Nat.leb (r_max_loop r) loops'))
          then Ok (BrOk, BWhile loops' m cond body, r, c)
          else Ok (BrExchange cond, BWhile loops' WCond cond body, r, restart_with c []) end
  | BWaitUntil cnt =>
      let cnt' := S cnt in
      match pop_value c with
      | Some (VBool _, c') => Ok (BrOk, BWaitUntil cnt', r, c')
      | popped =>
          let c0 := match popped with Some (_, c') => c' | None => c end in
          match popped with
          | None => if exit_value_missing r then
                      if andb (Nat.ltb waituntil_cap cnt') (c_can_suspend c) then Ok (BrOk, BWaitUntil cnt', logmsg r d_WaitUntilMaxLoopReached, c0)
                      else let r1 := logmsg r d_CallstackFoundNoValue in
                           let (t, r2) := now r1 in
                           Ok (BrSeekStart, BWaitUntil cnt', r2, restart_with (set_suspended c0 true (t + 10000)%Z) [])
                    else (* nil is not a boolean: the cap of ops_generic.cpp:293 sits in the branch that is dead now *)
                      let r1 := logmsg r d_TypeMissmatch in
                      let (t, r2) := now r1 in
                      Ok (BrSeekStart, BWaitUntil cnt', r2, restart_with (set_suspended c0 true (t + 10000)%Z) [])
          | Some _ => let r1 := logmsg r d_TypeMissmatch in
                      let (t, r2) := now r1 in
                      Ok (BrSeekStart, BWaitUntil cnt', r2, restart_with (set_suspended c0 true (t + 10000)%Z) []) end
      end
  end.

(* ------------------------------------------------------------------ frame::next(runtime)  (frame.h:256) *)
Inductive fres := FDone | FOk | FRestarted.
(* frame.h next(): a restarted scope without instructions cannot execute anything: control goes back to execute_do *)
Definition top_code_empty (c:context) : bool :=
  match c_frames c with f :: _ => match f_code f with [] => true | _ => false end | [] => false end.
Definition at_end (f:frame) : bool := Nat.eqb (f_pos f) (S (length (f_code f))).

Fixpoint frame_next (fuel:nat) (r:rt) (c:context) : res (fres * rt * context) :=
  match fuel with O => Hang "frame::next does not return" | S fuel' =>
  match c_frames c with
  | [] => UB "frame::next without a frame"
  | f :: rest =>
    (* next(): frame.h:242 *)
    let '(res0, f1) := if at_end f then (FDone, f) else
                         let f' := set_pos f (S (f_pos f)) in ((if at_end f' then FDone else FOk), f') in
    let c1 := set_frames c (f1 :: rest) in
    match f_exit f1 with
    | Some b =>
      if andb (at_end f1) (negb (f_die f1)) then
        bindr (enact b r c1) (fun '(br, b', r2, c2) =>
          let c3 := upd_top c2 (fun f => set_exit f (Some b')) in
          match br with
          | BrSeekEnd => Ok (FDone, r2, upd_top c3 (fun f => set_pos f (S (length (f_code f)))))
          | BrSeekStart =>
              (* a frame that starts over is a new scope: its name goes too (frame.h, repair C02-scopename) *)
              let c4 := clear_values (upd_top c3 (fun f => set_scope (set_pos f 0) "")) in
              if top_code_empty c4 then Ok (FRestarted, r2, c4) else frame_next fuel' r2 c4
          | BrExchange code' =>
              (* while: the body has run, the condition comes back - the next round is a new scope (behavior_while_exit::enact clears
                 the name together with the variables; modelled here, where the frame is rewritten, so that enact only speaks about
                 variables) *)
              let rename := fun f => match b' with BWhile _ WCond _ _ => set_scope f "" | _ => f end in
              frame_next fuel' r2 (upd_top c3 (fun f => set_pos (set_code (rename f) code') 0))
          | BrOk | BrFail => Ok (res0, r2, c3) end)
      else Ok (res0, r, c1)
    | None => Ok (res0, r, c1) end
  end end.

(* ------------------------------------------------------------------ execute_do (runtime.cpp:15) *)
Inductive iter := Continue (r:rt) | Executed (r:rt) | Return (x:rresult) (r:rt).

Definition frame_fuel : nat := 1000 * 100.

Definition current_instr (c:context) : option instr :=
  match c_frames c with f :: _ => nth_error (f_code f) (f_pos f - 1) | [] => None end.

(* runtime.cpp handle_runtime_error: offer the error to the nearest frame with an error behaviour;
   a frame that declines (try-catch for a runtime error) is skipped and the search goes outwards *)
Fixpoint handle_error (fuel:nat) (r:rt) (c:context) (msgs:list (Z*Z)) (skip:nat) : res (bool * rt * context) :=
  match fuel with O => Hang "handle_runtime_error" | S fuel' =>
    match find_handler (skipn skip (c_frames c)) skip with
    | None => Ok (false, r, c)
    | Some k =>
        let c1 := push_value c (VTrace (VArr (map (fun d => VNum (snd d)) msgs))) in
        let c2 := set_frames c1 (skipn k (c_frames c1)) in
        bindr (err_enact r c2 0) (fun '(failed, r3, c3) =>
          if failed then
            let c4 := match pop_value c3 with Some (_, c') => c' | None => c3 end in
            handle_error fuel' r3 c4 msgs 1
          else Ok (true, r3, c3))
    end end.

(* returns (recovered?, machine) with the error flag cleared either way *)
Definition on_error (r:rt) : res (bool * rt) :=
  let msgs := r_msgs r in
  let r1 := set_msgs r [] in
  match cur r1 with
  | None => UB "active context vanished"
  | Some c =>
      bindr (handle_error (S (S (length (c_frames c)))) r1 c msgs 0) (fun '(recovered, r2, c2) =>
        let r3 := upd_cur r2 c2 in
        if recovered then Ok (true, set_errflag r3 false)
        else Ok (false, set_errflag (logmsg r3 d_Stacktrace) false)) end.

(* one pass through the body of the while(true) loop; exit_after = 0 is tested by the caller *)
Definition do_iter (r:rt) : res iter :=
  if r_exit_req r then Ok (Return ROk r) else
  match cur r with
  | None => UB "execute_do on a null active context"
  | Some c =>
    if c_suspended c then Ok (Return ROk r)
    else match c_frames c with
    | [] => Ok (Return REmpty r)
    | _ =>
      match r_state r with
      | StRunning =>
        let frame_count := length (c_frames c) in
        bindr (frame_next frame_fuel r c) (fun '(fr, r1, c1) =>
          if r_err r1 then
            (* an exit behaviour raised an error: handled here, at the scope that raised it *)
            bindr (on_error (upd_cur r1 c1)) (fun '(recovered, r2) =>
              if recovered then Ok (Continue r2) else Ok (Return RRuntimeError r2))
          else
          match fr with
          | FRestarted =>
              (* an empty loop body went round once: the deadline is tested, the round counts against the slice *)
              let '(expired, r2) :=
                if Z.eqb (r_max_runtime r1) 0 then (false, r1)
                else let (t, r') := now r1 in (Z.ltb (r_max_runtime r1 + r_run_ts r1) t, r') in
              if expired then
                Ok (Return RRuntimeError
                      (set_msgs (set_errflag (set_exit_req (logmsg (upd_cur r2 c1) d_MaximumRuntimeReached) true) false) []))
              else Ok (Executed (upd_cur r2 c1))
          | _ =>
          match fr, Nat.eqb (length (c_frames c1)) frame_count with
          | FDone, true =>
              (* frame completion: the scope hands exactly one value to its caller *)
              let popped := pop_value c1 in
              let c2 := match popped with Some (_, c') => c' | None => c1 end in
              let c3 := pop_frame (clear_values c2) in
              let c4 := match popped with
                        | Some (v, _) => push_value c3 v
                        | None => if defect r "block_value_dropped" then c3
                                  else match c_frames c3 with [] => c3 | _ => push_value c3 VNil end end in
              Ok (Continue (upd_cur r1 c4))
          | _, _ =>
              match current_instr c1 with
              | None => UB "frame.current() dereferenced at the end of the instruction set"
              | Some i =>
                (* deadline test: measured from the start of the run *)
                let '(expired, r2) :=
                  if Z.eqb (r_max_runtime r1) 0 then (false, r1)
                  else let (t, r') := now r1 in (Z.ltb (r_max_runtime r1 + r_run_ts r1) t, r') in
                if expired then
                  Ok (Return RRuntimeError
                        (set_msgs (set_errflag (set_exit_req (logmsg (upd_cur r2 c1) d_MaximumRuntimeReached) true) false) []))
                else
                bindr (exec_instr i r2 c1) (fun '(r3, c5) =>
                  let r4 := upd_cur r3 c5 in
                  if negb (r_err r4) then Ok (Executed (set_msgs r4 []))
                  else bindr (on_error r4) (fun '(recovered, r5) =>
                         if recovered then Ok (Executed r5) else Ok (Return RRuntimeError r5))) end end end)
      | _ => Ok (Return ROk r) end end end.

Fixpoint execute_do (fuel:nat) (r:rt) (exit_after:nat) : res (rresult * rt) :=
  match fuel with O => Hang "execute_do fuel" | S fuel' =>
    if r_exit_req r then Ok (ROk, r)
    else match exit_after with
    | O => Ok (ROk, r)
    | S ea =>
      bindr (do_iter r) (fun it =>
        match it with
        | Continue r1 => execute_do fuel' r1 exit_after
        | Executed r1 => execute_do fuel' r1 ea
        | Return x r1 => Ok (x, r1) end) end end.
