(* C02 - the machine side of breakOut: one pass of execute_do that executes `breakOut "t"` / `v breakOut "t"` finds the innermost
   frame whose scope is named t, pops it and every frame above it - each one's part of the operand stack is cleared first - and
   leaves the value on what lay below the named frame (ops_generic.cpp breakout_any_string, after repair C05-03). *)
From Coq Require Import String Ascii.
From Coq Require Import ZArith List Bool Lia.
From SqfVerif Require Import Gen.DiagCodes Gen.Overloads VM.VmDefs VM.VmExec VM.RefSem VM.SimDefs VM.SimProofs VM.SimBlock VM.SimCtl.
Import ListNotations.
Local Open Scope string_scope.
Local Open Scope list_scope.

Lemma skipn_skipn_add {A} : forall a b (l:list A), skipn a (skipn b l) = skipn (a + b) l.
Proof.
  intros a b. revert a. induction b as [|b IH]; intros a l; [rewrite Nat.add_0_r; reflexivity|].
  destruct l as [|x l]; [rewrite !skipn_nil; reflexivity|]. rewrite Nat.add_succ_r. cbn [skipn]. apply IH.
Qed.

(* the first frame (from the top) that carries the name *)
Lemma find_scope_app : forall top fn rest t k, Forall (fun m => f_scope m <> t) top -> f_scope fn = t ->
  find_scope t (top ++ fn :: rest) k = Some (S (k + length top)).
Proof.
  induction top as [|m top IH]; intros fn rest t k HF HE; cbn [app find_scope length].
  - rewrite HE, String.eqb_refl. f_equal. lia.
  - inversion HF as [|? ? HM HF']; subst. destruct (String.eqb_spec (f_scope m) (f_scope fn)) as [E|_]; [contradiction|].
    rewrite (IH fn rest (f_scope fn) (S k) HF' eq_refl). f_equal. lia.
Qed.

(* the frames are popped from the top, each one's part of the operand stack goes with it: what is left is what lay below the base of
   the last one (the bases do not grow towards the bottom of the stack) *)
Lemma pop_clearing_chain : forall top c fn rest,
  c_frames c = top ++ fn :: rest -> Forall (fun m => f_base fn <= f_base m) top -> f_base fn <= length (c_values c) ->
  pop_clearing (S (length top)) c =
  set_values (set_frames c rest) (skipn (length (c_values c) - f_base fn) (c_values c)).
Proof.
  induction top as [|m top IH]; intros c fn rest EF HB HL.
  - cbn [length pop_clearing app] in *. unfold clear_values, pop_frame. rewrite EF. cbn [c_frames set_values c_values tl set_frames]. rewrite EF. reflexivity.
  - cbn [length app] in *. change (pop_clearing (S (S (length top))) c) with (pop_clearing (S (length top)) (pop_frame (clear_values c))).
    inversion HB as [|? ? HM HB']; subst.
    set (c1 := pop_frame (clear_values c)).
    assert (F1 : c_frames c1 = top ++ fn :: rest) by (unfold c1, pop_frame, clear_values; rewrite EF; cbn [c_frames set_values c_values tl set_frames]; rewrite EF; reflexivity).
    assert (V1 : c_values c1 = skipn (length (c_values c) - f_base m) (c_values c)) by (unfold c1, pop_frame, clear_values; rewrite EF; reflexivity).
    assert (L1 : f_base fn <= length (c_values c1)) by (rewrite V1, skipn_length; lia).
    rewrite (IH c1 fn rest F1 HB' L1). rewrite V1, skipn_length, skipn_skipn_add.
    replace (length (c_values c) - (length (c_values c) - f_base m) - f_base fn + (length (c_values c) - f_base m))
      with (length (c_values c) - f_base fn) by lia.
    unfold c1, pop_frame, clear_values. rewrite EF. cbn [c_frames set_values c_values tl set_frames]. rewrite EF. reflexivity.
Qed.

Lemma no_defects r d : r_defects r = [] -> defect r d = false.
Proof. intros E. unfold defect. rewrite E. reflexivity. Qed.

(* what breakOut does to the context when the named scope is found *)
Lemma op_breakout_found r c v t top fn rest :
  r_defects r = [] -> t <> "" -> c_frames c = top ++ fn :: rest ->
  Forall (fun m => f_scope m <> t) top -> f_scope fn = t ->
  Forall (fun m => f_base fn <= f_base m) top -> f_base fn <= length (c_values c) ->
  op_breakout r c v t = Ok (r, set_values (set_frames c rest) (skipn (length (c_values c) - f_base fn) (c_values c)), v).
Proof.
  intros D NT EF HN HE HB HL. unfold op_breakout.
  assert (NE : exists f0 fs, c_frames c = f0 :: fs) by (rewrite EF; destruct top; cbn; eauto).
  destruct NE as (f0 & fs & E0). rewrite E0. rewrite <- E0, EF.
  rewrite (no_defects r _ D). destruct (String.eqb_spec t "") as [E|_]; [contradiction|].
  rewrite (find_scope_app top fn rest t 0 HN HE). cbn [Nat.add].
  rewrite (pop_clearing_chain top c fn rest EF HB HL). reflexivity.
Qed.

Lemma op_unary_breakout t r c : op_unary "breakout" (VStr t) r c = op_breakout r c VNil t.
Proof. reflexivity. Qed.
Lemma op_binary_breakout l t r c : op_binary "breakout" l (VStr t) r c = op_breakout r c l t.
Proof. reflexivity. Qed.

(* the frames as the instruction sees them: the running frame has moved on, names and bases are where they were *)
Lemma chain_pos f restf top fn rest p t :
  f :: restf = top ++ fn :: rest -> Forall (fun m => f_scope m <> t) top -> f_scope fn = t ->
  Forall (fun m => f_base fn <= f_base m) top ->
  exists top' fn', set_pos f p :: restf = top' ++ fn' :: rest /\ Forall (fun m => f_scope m <> t) top' /\ f_scope fn' = t /\
    Forall (fun m => f_base fn' <= f_base m) top' /\ f_base fn' = f_base fn /\ length top' = length top /\ hd fn' top' = set_pos f p.
Proof.
  intros CH HN HE HB. destruct top as [|m top]; cbn [app] in CH.
  - inversion CH; subst. exists [], (set_pos fn p).
    split; [reflexivity|]. split; [constructor|]. split; [reflexivity|]. split; [constructor|]. split; [reflexivity|]. split; reflexivity.
  - inversion CH; subst. inversion HN as [|? ? HM HN']; subst. inversion HB as [|? ? HBm HB']; subst.
    exists (set_pos m p :: top), fn.
    split; [reflexivity|]. split; [constructor; [exact HM|exact HN']|]. split; [reflexivity|]. split; [constructor; [exact HBm|exact HB']|].
    split; [reflexivity|]. split; reflexivity.
Qed.

(* one pass of execute_do at `breakOut "t"` *)
Lemma breakout_run r c f restf pre post n' t vals top fn rest :
  Good r c -> r_defects r = [] -> c_frames c = f :: restf -> f_code f = pre ++ IUnary n' :: post -> f_pos f = length pre ->
  lower n' = "breakout" -> t <> "" -> c_values c = VStr t :: vals -> f_base f <= length vals ->
  f :: restf = top ++ fn :: rest -> Forall (fun m => f_scope m <> t) top -> f_scope fn = t ->
  Forall (fun m => f_base fn <= f_base m) top -> f_base fn <= length vals ->
  let c' := push_value (set_values (set_frames c rest) (skipn (length vals - f_base fn) vals)) VNil in
  Steps r (upd_cur r c') /\ Good (upd_cur r c') c'.
Proof.
  intros G D EF EC EP HN NT EV B CH HS HE HB HL c'.
  assert (N : nth_error (f_code f) (f_pos f) = Some (IUnary n')) by (rewrite EC, EP; apply nth_error_mid).
  destruct (chain_pos f restf top fn rest (S (f_pos f)) t CH HS HE HB) as (top' & fn' & CH' & HS' & HE' & HB' & FB & LEN & HD).
  apply (run_one r c f restf (IUnary n') c' G EF N).
  - eapply (exec_unary_nonnil n' (VStr t)); [|discriminate|].
    + apply (pop_value_top _ (set_pos f (S (f_pos f))) restf); [reflexivity|exact EV|exact B].
    + rewrite HN, op_unary_breakout.
      rewrite (op_breakout_found r (set_values (set_frames c (set_pos f (S (f_pos f)) :: restf)) vals) VNil t top' fn' rest D NT CH' HS' HE' HB'); [|cbn; rewrite FB; exact HL].
      cbn [c_values set_values set_frames]. rewrite FB. reflexivity.
  - destruct G as (_ & _ & _ & _ & _ & _ & SU). exact SU.
Qed.

(* ... and at `v breakOut "t"` *)
Lemma breakout_value_run r c f restf pre post n' t w vals top fn rest :
  Good r c -> r_defects r = [] -> c_frames c = f :: restf -> f_code f = pre ++ IBinary n' :: post -> f_pos f = length pre ->
  lower n' = "breakout" -> t <> "" -> c_values c = VStr t :: w :: vals -> w <> VNil -> f_base f <= length vals ->
  f :: restf = top ++ fn :: rest -> Forall (fun m => f_scope m <> t) top -> f_scope fn = t ->
  Forall (fun m => f_base fn <= f_base m) top -> f_base fn <= length vals ->
  let c' := push_value (set_values (set_frames c rest) (skipn (length vals - f_base fn) vals)) w in
  Steps r (upd_cur r c') /\ Good (upd_cur r c') c'.
Proof.
  intros G D EF EC EP HN NT EV NW B CH HS HE HB HL c'.
  destruct (chain_pos f restf top fn rest (S (f_pos f)) t CH HS HE HB) as (top' & fn' & CH' & HS' & HE' & HB' & FB & LEN & HD).
  apply (binary_run r c f restf pre post n' w (VStr t) vals _ w G EF EC EP EV B); [discriminate|exact NW| |destruct G as (_ & _ & _ & _ & _ & _ & SU); exact SU].
  rewrite HN, op_binary_breakout.
  rewrite (op_breakout_found r (set_values (set_frames c (set_pos f (S (f_pos f)) :: restf)) vals) w t top' fn' rest D NT CH' HS' HE' HB'); [|cbn; rewrite FB; exact HL].
  cbn [c_values set_values set_frames]. rewrite FB. reflexivity.
Qed.
