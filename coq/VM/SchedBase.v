(* Shape lemmas about the VM model shared by the C11 and C12 proofs (part 2): instructions, exit
   behaviours, frame::next, error handling, one execute_do iteration, a slice, a scheduler visit. *)
From Coq Require Import String Ascii ZArith List Bool Lia Arith.
From SqfVerif Require Import Gen.DiagCodes Gen.Overloads VM.VmDefs VM.VmExec VM.SchedDefs VM.SchedOps.
Import ListNotations.
Local Open Scope list_scope.

Opaque frame_fuel exec_fuel.

Lemma pop_args_ok k : forall c0 acc, ctx_ok c0 (snd (fst (pop_args k c0 acc))).
Proof.
  induction k; intros c0 acc; cbn.
  - apply ctx_ok_refl.
  - destruct (pop_value c0) as [[v c1]|] eqn:P; [|apply ctx_ok_refl].
    eapply ctx_ok_trans; [|apply IHk]. apply pop_value_ok in P; auto.
Qed.

Lemma exec_instr_shape i r c r' c' : exec_instr i r c = Ok (r', c') -> reach r r' /\ ctx_ok c c'.
Proof.
  destruct i; cbn [exec_instr]; intro H.
  - leaf H.
  - repeat (break_hyp H; try discriminate; try (leaf H; fail)).
  - repeat (break_hyp H; try discriminate; try (leaf H; fail)).
  - repeat (break_hyp H; try discriminate; try (leaf H; fail)).
  - (* nular *)
    destruct (op_nular (lower n) r c) as [[[r1 c1] v1]| | |] eqn:E; cbn [bindr] in H; try discriminate.
    + apply op_nular_shape in E. destruct E. leaf H.
    + destruct (has_nular _); discriminate.
  - (* unary *)
    destruct (pop_value c) as [[vv cc1]|] eqn:P; [|leaf H].
    destruct vv; try (leaf H; fail);
    match type of H with context [op_unary ?a ?b ?c ?d] =>
      destruct (op_unary a b c d) as [[[rr1 cc2] vv1]| | |] eqn:E; cbn [bindr] in H; try discriminate;
      [ apply op_unary_shape in E; destruct E; leaf H
      | destruct (has_unary _ _); [discriminate | leaf H] ] end.
  - (* binary *)
    destruct (pop_value c) as [[vv cc1]|] eqn:P; [|leaf H].
    destruct vv; try (leaf H; fail);
    (destruct (pop_value cc1) as [[lft cc2]|] eqn:P2; [|leaf H]);
    destruct lft; try (leaf H; fail);
    match type of H with context [op_binary ?a ?b ?c ?d ?e] =>
      destruct (op_binary a b c d e) as [[[rr1 cc3] vv1]| | |] eqn:E; cbn [bindr] in H; try discriminate;
      [ apply op_binary_shape in E; destruct E; leaf H
      | destruct (has_binary _ _ _); [discriminate | leaf H] ] end.
  - (* make array *)
    pose proof (pop_args_ok n c []) as G. destruct (pop_args n c []) as [[vals c1] ok]. cbn in G.
    destruct ok; leaf H.
  - leaf H.
Qed.

Lemma enact_shape b r c br b' r' c' : enact b r c = Ok (br, b', r', c') -> reach r r' /\ ctx_ok c c'.
Proof.
  destruct b; cbn [enact]; unfold now; intro H;
  try (leaf H; fail);
  repeat (break_hyp H; try discriminate; try (leaf H; fail)).
Qed.

Lemma handle_error_shape fuel : forall r c msgs skip recovered r' c',
  handle_error fuel r c msgs skip = Ok (recovered, r', c') -> r' = r /\ ctx_ok c c'.
Proof.
  induction fuel; intros r c msgs skip recovered r' c' H; cbn [handle_error] in H; [discriminate|].
  destruct (find_handler _ _); [|inversion H; subst; split; auto using ctx_ok_refl].
  unfold bindr in H.
  match type of H with context [err_enact ?a ?b ?k] => destruct (err_enact a b k) as [[[failed r3] c3]| | |] eqn:E end; try discriminate.
  apply err_enact_shape in E. destruct E as [-> E].
  destruct failed.
  - apply IHfuel in H. destruct H as [-> H]. split; auto.
    eapply ctx_ok_trans; [|exact H]. eapply ctx_ok_trans; [|eapply ctx_ok_trans; [exact E|]].
    + ctx_solve.
    + destruct (pop_value c3) as [[? ?]|] eqn:P; [ctx_solve|apply ctx_ok_refl].
  - inversion H; subst. split; auto.
Qed.

(* ------------------------------------------------------------------ one execute_do iteration *)
(* the context list as seen from the executing context i: everybody keeps identity and kind and flags are
   only raised; everybody but i is otherwise untouched; new contexts are appended with fresh ids *)
Definition evolves (i:nat) (l:list context) (n:nat) (l':list context) (n':nat) : Prop :=
  exists l1 sp, l' = l1 ++ sp /\ Forall2 ctx_ok l l1 /\ fresh_from n n' sp /\
    (forall j c c1, j <> i -> nth_error l j = Some c -> nth_error l1 j = Some c1 -> term_le c c1).

Lemma Forall2_ctx_ok_refl l : Forall2 ctx_ok l l.
Proof. induction l; constructor; auto using ctx_ok_refl. Qed.
Lemma Forall2_ctx_ok_trans a b c : Forall2 ctx_ok a b -> Forall2 ctx_ok b c -> Forall2 ctx_ok a c.
Proof. intros H; revert c; induction H; intros c0 H2; inversion H2; subst; constructor; eauto using ctx_ok_trans. Qed.
Lemma Forall2_ctx_ok_ids a b : Forall2 ctx_ok a b -> map c_id b = map c_id a.
Proof. induction 1; cbn; auto. rewrite IHForall2. f_equal. apply ctx_ok_id; auto. Qed.
Lemma Forall2_term_le_ok a b : Forall2 term_le a b -> Forall2 ctx_ok a b.
Proof. induction 1; constructor; auto using term_le_ok. Qed.
Lemma Forall2_nth {A B} (R:A->B->Prop) l l' j a b : Forall2 R l l' -> nth_error l j = Some a -> nth_error l' j = Some b -> R a b.
Proof.
  intro H; revert j; induction H; intros [|j] Ha Hb; cbn in *; try discriminate.
  - inversion Ha; inversion Hb; subst; auto.
  - eauto.
Qed.
Lemma Forall2_nth_ex {A B} (R:A->B->Prop) l l' j a : Forall2 R l l' -> nth_error l j = Some a -> exists b, nth_error l' j = Some b /\ R a b.
Proof.
  intro H; revert j; induction H; intros [|j] Ha; cbn in *; try discriminate.
  - inversion Ha; subst; eauto.
  - eauto.
Qed.

Lemma Forall2_len {A B} (R:A->B->Prop) l l' : Forall2 R l l' -> length l = length l'.
Proof. induction 1; cbn; auto. Qed.
Lemma evolves_refl i l n : evolves i l n l n.
Proof.
  exists l, []. rewrite app_nil_r. split; [reflexivity|]. split; [apply Forall2_ctx_ok_refl|]. split.
  - split; [lia|]. split; constructor.
  - intros j c c1 _ H1 H2. rewrite H1 in H2. inversion H2. apply term_le_refl.
Qed.
Lemma evolves_trans i l n l' n' l'' n'' : evolves i l n l' n' -> evolves i l' n' l'' n'' -> evolves i l n l'' n''.
Proof.
  intros (l1 & sp & -> & F1 & Fr1 & O1) (l2 & sp2 & -> & F2 & Fr2 & O2).
  apply Forall2_app_inv_l in F2. destruct F2 as (a & b & Fa & Fb & ->).
  exists a, (b ++ sp2). rewrite app_assoc. split; auto. split; [eauto using Forall2_ctx_ok_trans|]. split.
  - eapply fresh_from_app; [|eassumption]. eapply fresh_from_relabel; [eassumption|]. apply Forall2_ctx_ok_ids; auto.
  - intros j c c2 Hj Hc Hc2.
    destruct (Forall2_nth_ex _ _ _ _ _ F1 Hc) as (c1 & Hc1 & _).
    eapply term_le_trans; [eapply O1; eauto|].
    eapply (O2 j); eauto.
    + rewrite nth_error_app1; auto. apply nth_error_Some. congruence.
    + rewrite nth_error_app1; auto. apply nth_error_Some. congruence.
Qed.
Lemma ctxs_ext_evolves i l n l' n' : ctxs_ext l n l' n' -> evolves i l n l' n'.
Proof.
  intros (l1 & sp & -> & F & Fr). exists l1, sp. split; [reflexivity|]. split; [apply Forall2_term_le_ok; auto|]. split; auto.
  intros j c c1 _ H1 H2. eapply Forall2_nth; eauto.
Qed.

Lemma list_upd_length {A} (l:list A) i x : length (list_upd l i x) = length l.
Proof. revert i; induction l; intros [|i]; cbn; auto. Qed.
Lemma list_upd_nth_same {A} (l:list A) i x : i < length l -> nth_error (list_upd l i x) i = Some x.
Proof. revert i; induction l; intros [|i] H; cbn in *; try lia; auto. apply IHl. lia. Qed.
Lemma list_upd_nth_other {A} (l:list A) i j x : j <> i -> nth_error (list_upd l i x) j = nth_error l j.
Proof. revert i j; induction l; intros [|i] [|j] H; cbn; auto; try congruence. Qed.
Lemma list_upd_app {A} (l1 l2:list A) i x : i < length l1 -> list_upd (l1 ++ l2) i x = list_upd l1 i x ++ l2.
Proof. revert i; induction l1; intros [|i] H; cbn in *; try lia; auto. f_equal. apply IHl1. lia. Qed.
Lemma Forall2_list_upd {A B} (R:A->B->Prop) l l' i a b :
  Forall2 R l l' -> nth_error l i = Some a -> R a b -> Forall2 R l (list_upd l' i b).
Proof.
  intro H; revert i; induction H; intros [|i] Ha Hr; cbn in *; try discriminate.
  - inversion Ha; subst. constructor; auto.
  - constructor; eauto.
Qed.

(* replacing the executing context by a ctx_ok successor *)
Lemma evolves_upd i l n l' n' c c' :
  evolves i l n l' n' -> nth_error l i = Some c -> ctx_ok c c' -> evolves i l n (list_upd l' i c') n'.
Proof.
  intros (l1 & sp & -> & F & Fr & O) Hc Hok.
  assert (Hi : i < length l1). { rewrite <- (Forall2_len _ _ _ F). apply nth_error_Some. congruence. }
  exists (list_upd l1 i c'), sp. rewrite list_upd_app by auto. split; [reflexivity|]. split; [|split; auto].
  - eapply Forall2_list_upd; eauto.
  - intros j c0 c1 Hj H0 H1. rewrite list_upd_nth_other in H1 by auto. eauto.
Qed.

Record dstep (i:nat) (r r':rt) : Prop := {
  ds_cfg : rcfg r' = rcfg r;
  ds_halt : r_halt_req r' = r_halt_req r;
  ds_run : r_run r' = r_run r;
  ds_state : r_state r' = r_state r;
  ds_active : r_active r' = r_active r;
  ds_clock : exists k:nat, r_clock r' = (r_clock r + Z.of_nat k * r_tick r)%Z;
  ds_ctxs : evolves i (r_ctxs r) (r_next_id r) (r_ctxs r') (r_next_id r') }.

Lemma dstep_refl i r : dstep i r r.
Proof. constructor; auto using evolves_refl. exists O. cbn. lia. Qed.
Lemma dstep_trans i r r1 r2 : dstep i r r1 -> dstep i r1 r2 -> dstep i r r2.
Proof.
  intros [A1 A2 A3 A4 A5 [k1 A6] A7] [B1 B2 B3 B4 B5 [k2 B6] B7]. constructor; try congruence.
  - exists (k1 + k2). assert (E : r_tick r1 = r_tick r) by (unfold rcfg in A1; congruence).
    rewrite B6, A6, E. lia.
  - eauto using evolves_trans.
Qed.
Lemma reach_dstep i r r' : reach r r' -> dstep i r r'.
Proof.
  intro H. pose proof (reach_ctl _ _ H) as C. unfold rctl in C. inversion C.
  constructor; auto using reach_cfg, reach_clock_reads. apply ctxs_ext_evolves, reach_ctxs; auto.
Qed.
Lemma dstep_upd_cur i r r' c c' :
  dstep i r r' -> r_active r = Some i -> nth_error (r_ctxs r) i = Some c -> ctx_ok c c' -> dstep i r (upd_cur r' c').
Proof.
  intros [A1 A2 A3 A4 A5 A6 A7] Ha Hc Hok. unfold upd_cur. rewrite A5, Ha.
  constructor; auto. cbn. eapply evolves_upd; eauto.
Qed.
(* field updates that are invisible to dstep *)
Lemma dstep_exit_req i r r' b : dstep i r r' -> dstep i r (set_exit_req r' b).
Proof. intros [A1 A2 A3 A4 A5 A6 A7]. constructor; auto. Qed.
Lemma dstep_reach i r r1 r2 : dstep i r r1 -> reach r1 r2 -> dstep i r r2.
Proof. intros H1 H2. eapply dstep_trans; [exact H1|apply reach_dstep; auto]. Qed.

Lemma upd_cur_active r c : r_active (upd_cur r c) = r_active r.
Proof. unfold upd_cur. destruct (r_active r) eqn:E; cbn; auto. Qed.
Lemma upd_cur_clock r c : r_clock (upd_cur r c) = r_clock r.
Proof. unfold upd_cur. destruct (r_active r) eqn:E; cbn; auto. Qed.
Lemma upd_cur_exit r c : r_exit_req (upd_cur r c) = r_exit_req r.
Proof. unfold upd_cur. destruct (r_active r) eqn:E; cbn; auto. Qed.
Lemma upd_cur_err r c : r_err (upd_cur r c) = r_err r.
Proof. unfold upd_cur. destruct (r_active r) eqn:E; cbn; auto. Qed.
Lemma upd_cur_cfg r c : rcfg (upd_cur r c) = rcfg r.
Proof. unfold upd_cur. destruct (r_active r) eqn:E; cbn; auto. Qed.
Lemma upd_cur_nth r c i : r_active r = Some i -> i < length (r_ctxs r) -> nth_error (r_ctxs (upd_cur r c)) i = Some c.
Proof. intros Ha Hi. unfold upd_cur. rewrite Ha. cbn. apply list_upd_nth_same; auto. Qed.
Lemma upd_cur_cur r c i : r_active r = Some i -> i < length (r_ctxs r) -> cur (upd_cur r c) = Some c.
Proof. intros Ha Hi. unfold cur. rewrite upd_cur_active, Ha. apply upd_cur_nth; auto. Qed.

Lemma reach_exit r r' : reach r r' -> r_exit_req r' = r_exit_req r.
Proof. intro H. apply reach_ctl in H. unfold rctl in H. congruence. Qed.
Lemma reach_active r r' : reach r r' -> r_active r' = r_active r.
Proof. intro H. apply reach_ctl in H. unfold rctl in H. congruence. Qed.
Lemma reach_state r r' : reach r r' -> r_state r' = r_state r.
Proof. intro H. apply reach_ctl in H. unfold rctl in H. congruence. Qed.
Lemma reach_len r r' : reach r r' -> length (r_ctxs r) <= length (r_ctxs r').
Proof.
  intro H. apply reach_ctxs in H. destruct H as (l1 & sp & -> & F & _). rewrite app_length, <- (Forall2_len _ _ _ F). lia.
Qed.

(* error handling of the executing context *)
Lemma on_error_shape i r b r' c :
  on_error r = Ok (b, r') -> r_active r = Some i -> nth_error (r_ctxs r) i = Some c ->
  dstep i r r' /\ r_exit_req r' = r_exit_req r /\ r_clock r' = r_clock r /\ r_err r' = false.
Proof.
  unfold on_error. intros H Ha Hc.
  assert (Hcur : cur (set_msgs r []) = Some c) by (unfold cur; cbn; rewrite Ha; auto).
  rewrite Hcur in H. unfold bindr in H.
  match type of H with context [handle_error ?f ?a ?b ?m ?s] =>
    destruct (handle_error f a b m s) as [[[rec r2] c2]| | |] eqn:E end; try discriminate.
  apply handle_error_shape in E. destruct E as [-> E].
  assert (D : dstep i r (upd_cur (set_msgs r []) c2)).
  { eapply dstep_upd_cur; eauto. apply reach_dstep. apply reach_msgs, reach_refl. }
  destruct rec; inversion H; subst; clear H.
  - split; [eapply dstep_reach; [exact D|apply reach_errflag, reach_refl]|].
    cbn. rewrite upd_cur_exit, upd_cur_clock. auto.
  - split; [eapply dstep_reach; [exact D|apply reach_errflag, reach_log, reach_refl]|].
    cbn. rewrite upd_cur_exit, upd_cur_clock. auto.
Qed.

Lemma frame_next2_shape b fuel : forall r c fr r' c',
  frame_next2 b fuel r c = Ok (fr, r', c') -> reach r r' /\ ctx_ok c c'.
Proof.
  induction fuel; intros r c fr r' c' H; cbn [frame_next2] in H; [discriminate|].
  destruct (c_frames c) as [|f rest] eqn:Fr; [discriminate|].
  destruct (if at_end f then (F2Done, f) else (if at_end (set_pos f (S (f_pos f))) then F2Done else F2Ok, set_pos f (S (f_pos f)))) as [res0 f1].
  destruct (f_exit f1) as [bh|]; [|leaf H].
  destruct (at_end f1 && negb (f_die f1))%bool; [|leaf H].
  unfold bindr in H.
  destruct (enact bh r (set_frames c (f1 :: rest))) as [[[[br b'] r2] c2]| | |] eqn:E; try discriminate.
  apply enact_shape in E. destruct E as [E1 E2].
  assert (E3 : ctx_ok c c2) by (eapply ctx_ok_trans; [|exact E2]; ctx_solve).
  destruct br.
  - leaf H.
  - destruct (negb b && top_code_empty _)%bool.
    + leaf H.
    + apply IHfuel in H. destruct H as [H1 H2]. split; [eapply reach_trans; eauto|].
      eapply ctx_ok_trans; [|exact H2]. ctx_solve.
  - leaf H.
  - apply IHfuel in H. destruct H as [H1 H2]. split; [eapply reach_trans; eauto|].
    eapply ctx_ok_trans; [|exact H2]. ctx_solve.
  - leaf H.
Qed.
