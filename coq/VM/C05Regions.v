(* C05 - a scope can only consume operands it produced itself: nothing below the protected height
   (the base of the current scope before or after a step) changes; a finished scope hands exactly
   one value to its caller; a statement separator empties the scope's region. *)
From Coq Require Import String Ascii.
From Coq Require Import ZArith List Bool Lia.
From SqfVerif Require Import Gen.DiagCodes Gen.Overloads VM.VmDefs VM.VmExec VM.C05Proofs.
Import ListNotations.
Local Open Scope list_scope.

Opaque frame_fuel exec_fuel waituntil_cap.

Definition top_base (c:context) : nat := match c_frames c with f :: _ => f_base f | [] => 0 end.
(* the bottom n operands (values are kept top first) *)
Definition below (c:context) (n:nat) : list value := skipn (length (c_values c) - n) (c_values c).
Definition height (c:context) : nat := length (c_values c).

(* the bottom n operands survive from c to c' *)
Definition keep (n:nat) (c c':context) : Prop := n <= height c -> n <= height c' /\ below c' n = below c n.

Lemma keep_refl n c : keep n c c. Proof. unfold keep; auto. Qed.
Lemma keep_trans n a b c : keep n a b -> keep n b c -> keep n a c.
Proof. unfold keep. intros H1 H2 L. destruct (H1 L) as [L1 E1]. destruct (H2 L1) as [L2 E2]. split; [exact L2|congruence]. Qed.
Lemma keep_same_values n c c' : c_values c' = c_values c -> keep n c c'.
Proof. unfold keep, below, height. intros ->. auto. Qed.

Lemma skipn_cons_below {A} (v:A) vs n : n <= length vs -> skipn (length (v :: vs) - n) (v :: vs) = skipn (length vs - n) vs.
Proof. intros L. cbn [length]. replace (S (length vs) - n) with (S (length vs - n)) by lia. reflexivity. Qed.

Lemma keep_push_value n c v : keep n c (push_value c v).
Proof.
  unfold keep, below, height, push_value. cbn [c_values set_values]. intros L. split; [cbn; lia|]. apply skipn_cons_below; exact L.
Qed.

Lemma keep_pop_value n c v c' : pop_value c = Some (v, c') -> n <= top_base c -> keep n c c'.
Proof.
  intros P B. apply pop_value_spec in P. destruct P as (F & V & G & _). unfold keep, below, height, top_base in *.
  destruct (c_frames c) as [|f fs]; [contradiction|]. intros L. rewrite V. split; [lia|]. symmetry. apply skipn_cons_below. lia.
Qed.

Lemma skipn_skipn_eq {A} (l:list A) a b : skipn a (skipn b l) = skipn (a + b) l.
Proof. revert l; induction b as [|b IH]; intros l; [now rewrite Nat.add_0_r|]. destruct l; [now rewrite !skipn_nil|]. rewrite Nat.add_succ_r. cbn. apply IH. Qed.

Lemma keep_clear_values n c : Inv c -> n <= top_base c -> keep n c (clear_values c).
Proof.
  intros I B. unfold keep, below, height, top_base, clear_values in *. unfold Inv in I.
  destruct (c_frames c) as [|f fs]; [auto|]. cbn in I. destruct I as [L0 _]. intros L.
  cbn [c_values set_values]. rewrite skipn_length. split; [lia|]. rewrite skipn_skipn_eq. f_equal. lia.
Qed.

Lemma keep_zero c c' : keep 0 c c'.
Proof. unfold keep, below, height. intros _. split; [lia|]. rewrite !Nat.sub_0_r, !skipn_all. reflexivity. Qed.

(* value-preserving context operations *)
Lemma vals_push_frame c f : c_values (push_frame c f) = c_values c. Proof. reflexivity. Qed.
Lemma vals_pop_frame c : c_values (pop_frame c) = c_values c. Proof. reflexivity. Qed.
Lemma vals_upd_top c g : c_values (upd_top c g) = c_values c. Proof. unfold upd_top. destruct (c_frames c); reflexivity. Qed.
Lemma vals_set_frames c fs : c_values (set_frames c fs) = c_values c. Proof. reflexivity. Qed.
Lemma vals_assign_local_var c n v : c_values (assign_local_var c n v) = c_values c.
Proof. unfold assign_local_var. destruct (assign_frames _ _ _); [reflexivity|apply vals_upd_top]. Qed.
Lemma vals_set_top_var c n v : c_values (set_top_var c n v) = c_values c. Proof. apply vals_upd_top. Qed.
Lemma vals_declare_top_var c n : c_values (declare_top_var c n) = c_values c. Proof. apply vals_upd_top. Qed.
Lemma vals_fold_declare l : forall c,
  c_values (fold_left (fun c' x => match x with VStr s => declare_top_var c' s | _ => c' end) l c) = c_values c.
Proof. induction l as [|x l IH]; cbn; intros c; [reflexivity|]. rewrite IH. destruct x; auto using vals_declare_top_var. Qed.

(* frames of value-only operations *)
Lemma frames_push_value c v : c_frames (push_value c v) = c_frames c. Proof. reflexivity. Qed.
Lemma top_base_push_value c v : top_base (push_value c v) = top_base c. Proof. unfold top_base, push_value. cbn. reflexivity. Qed.
Lemma top_base_pop_value c v c' : pop_value c = Some (v, c') -> top_base c' = top_base c.
Proof. intros P. apply pop_value_spec in P. destruct P as (F & _). unfold top_base. now rewrite F. Qed.
Lemma top_base_clear_values c : top_base (clear_values c) = top_base c.
Proof. unfold top_base, clear_values. destruct (c_frames c) eqn:E; cbn; rewrite ?E; reflexivity. Qed.
Lemma top_base_same_bases c c' : same_bases (c_frames c) (c_frames c') -> top_base c' = top_base c.
Proof. unfold same_bases, top_base. destruct (c_frames c), (c_frames c'); cbn; intros H; try discriminate; auto. now inversion H. Qed.

(* popping frames can only lower the protected height *)
Lemma top_base_skipn c k : Inv c -> top_base (set_frames c (skipn k (c_frames c))) <= top_base c.
Proof.
  unfold Inv, top_base. cbn [c_frames set_frames]. generalize (length (c_values c)) as h. generalize (c_frames c) as fs.
  induction k as [|k IH]; intros fs h B; [cbn; lia|]. destruct fs as [|f fs]; [cbn; lia|]. cbn [skipn].
  destruct B as [L B]. specialize (IH fs _ B). destruct fs as [|g fs]; [destruct k; cbn in *; lia|]. cbn in B. cbn [top_base] in *. cbn in IH |- *. lia.
Qed.

Lemma tb_pop c : Inv c -> top_base (pop_frame (clear_values c)) <= top_base c.
Proof.
  unfold Inv, top_base, pop_frame, clear_values. destruct (c_frames c) as [|f fs] eqn:E; cbn; rewrite ?E; cbn; [lia|].
  intros [_ B]. destruct fs as [|g fs]; cbn in *; lia.
Qed.
Lemma tb_pop_clearing : forall k c, Inv c -> top_base (pop_clearing k c) <= top_base c.
Proof.
  induction k as [|k IH]; intros c I; cbn [pop_clearing]; [lia|].
  eapply Nat.le_trans; [apply IH; auto with inv|apply tb_pop; exact I].
Qed.
Lemma keep_pop_clearing n : forall k c, Inv c -> n <= top_base (pop_clearing k c) -> keep n c (pop_clearing k c).
Proof.
  induction k as [|k IH]; intros c I B; cbn [pop_clearing] in *; [apply keep_refl|].
  assert (I1 : Inv (pop_frame (clear_values c))) by auto with inv.
  pose proof (tb_pop_clearing k _ I1) as T1. pose proof (tb_pop c I) as T0.
  eapply keep_trans; [apply keep_clear_values; [assumption|lia]|].
  eapply keep_trans; [apply keep_same_values; apply vals_pop_frame|].
  apply IH; assumption.
Qed.

Global Hint Rewrite vals_push_frame vals_pop_frame vals_upd_top vals_set_frames vals_assign_local_var vals_set_top_var
  vals_declare_top_var vals_fold_declare : vals.

Ltac same_vals := apply keep_same_values; cbn [set_suspended set_terminate c_values]; autorewrite with vals; reflexivity.

(* ---------------------------------------------------------------- error behaviours, throw, breakOut *)
Lemma err_enact_keep r c k failed r' c' m : err_enact r c k = Ok (failed, r', c') -> Inv c -> m <= top_base c ->
  keep m c c' /\ same_bases (c_frames c) (c_frames c').
Proof.
  unfold err_enact. intros H I B.
  destruct (nth_error (c_frames c) k) as [f|] eqn:N; [|discriminate].
  assert (SB : forall d f', c_frames d = c_frames c -> f_base f' = f_base f ->
               same_bases (c_frames c) (c_frames (set_frames d (list_upd (c_frames d) k f')))).
  { intros d f' Fd Bf. cbn. rewrite Fd. eapply same_bases_list_upd; eauto. }
  assert (common : (let (val, c1) := match pop_value c with Some (v, c'0) => (Some v, c'0) | None => (None, c) end in
                     let c2 := clear_values c1 in keep m c c2 /\ c_frames c2 = c_frames c) ).
  { destruct (pop_value c) as [[v c1]|] eqn:P.
    - assert (I1 : Inv c1) by (eapply inv_pop_value; eauto). pose proof (top_base_pop_value _ _ _ P) as T.
      destruct (clear_values_spec c1 I1) as (F2 & _). apply pop_value_spec in P as PS. destruct PS as (F & _).
      split; [|congruence]. eapply keep_trans; [eapply keep_pop_value; eauto|apply keep_clear_values; [assumption|lia]].
    - destruct (clear_values_spec c I) as (F2 & _). split; [apply keep_clear_values; assumption|assumption]. }
  destruct (f_err f) as [[h|h ex]|]; [| |inversion H; subst; split; [apply keep_refl|reflexivity]].
  - destruct (r_err r); [inversion H; subst; split; [apply keep_refl|reflexivity]|].
    destruct (match pop_value c with Some (v, c'0) => (Some v, c'0) | None => (None, c) end) as [val c1].
    cbv zeta in common. destruct common as [K F]. inversion H; subst; clear H. split.
    + eapply keep_trans; [exact K|same_vals].
    + apply SB; [exact F|reflexivity].
  - destruct ex; [inversion H; subst; split; [apply keep_refl|reflexivity]|].
    destruct (match pop_value c with Some (v, c'0) => (Some v, c'0) | None => (None, c) end) as [val c1].
    cbv zeta in common. destruct common as [K F]. inversion H; subst; clear H. split.
    + eapply keep_trans; [exact K|same_vals].
    + apply SB; [exact F|reflexivity].
Qed.

Lemma op_throw_keep r c v r' c' x m : op_throw r c v = Ok (r', c', x) -> Inv c -> m <= top_base c -> keep m c c'.
Proof.
  unfold op_throw. intros H I B.
  destruct (find_handler (c_frames c) 0) as [k|]; [|inversion H; subst; apply keep_refl].
  unfold bindr in H. destruct (err_enact r (push_value c (VTrace v)) k) as [[[failed r2] c2]| | |] eqn:E; try discriminate.
  destruct (err_enact_keep _ _ _ _ _ _ m E) as [K SB]; [auto with inv|rewrite top_base_push_value; exact B|].
  assert (K0 : keep m c c2) by (eapply keep_trans; [apply keep_push_value|exact K]).
  assert (T2 : top_base c2 = top_base c) by (rewrite (top_base_same_bases _ _ SB); apply top_base_push_value).
  destruct failed.
  - destruct (Nat.ltb 0 (length (c_values c))); [|inversion H; subst; exact K0].
    destruct (pop_value c2) as [[y c3]|] eqn:P; inversion H; subst; [|exact K0].
    eapply keep_trans; [exact K0|eapply keep_pop_value; eauto; lia].
  - inversion H; subst. eapply keep_trans; [exact K0|same_vals].
Qed.

Lemma op_breakout_keep r c v t r' c' x m : op_breakout r c v t = Ok (r', c', x) -> Inv c -> m <= top_base c' -> keep m c c'.
Proof.
  unfold op_breakout. intros H I B. destruct (c_frames c) as [|f fs] eqn:EF; [discriminate|].
  destruct (String.eqb t "").
  - destruct (defect r "breakout_leaks_regions"); inversion H; subst; [same_vals|exact (keep_pop_clearing m 1 c I B)].
  - destruct (find_scope t (f :: fs) 0) as [k|]; [|inversion H; subst; apply keep_refl].
    destruct (defect r "breakout_leaks_regions"); inversion H; subst; [same_vals|exact (keep_pop_clearing m k c I B)].
Qed.

(* ---------------------------------------------------------------- operators *)
Ltac kcrunch :=
  repeat match goal with
  | H : Ok _ = Ok _ |- _ => inversion H; subst; try clear H
  | H : Unsupported _ = Ok _ |- _ => discriminate H
  | H : Hang _ = Ok _ |- _ => discriminate H
  | H : UB _ = Ok _ |- _ => discriminate H
  | H : context [bindr _ _] |- _ => unfold bindr in H
  | H : context [now _] |- _ => unfold now in H
  | H : (match (_, _) with _ => _ end) = Ok _ |- _ => cbv beta iota in H
  | H : (match ?x with _ => _ end) = Ok _ |- _ => destruct x eqn:?
  end.

Ltac kleaf := first [ apply keep_refl | same_vals
                    | eapply op_throw_keep; eassumption | eapply op_breakout_keep; eassumption ].

Lemma op_nular_keep n r c r' c' x m : op_nular n r c = Ok (r', c', x) -> keep m c c'.
Proof. unfold op_nular. intros H. kcrunch; apply keep_refl. Qed.

Lemma op_unary_keep n v r c r' c' x m : op_unary n v r c = Ok (r', c', x) -> Inv c ->
  m <= top_base c -> m <= top_base c' -> keep m c c'.
Proof. unfold op_unary. intros H I B B'. kcrunch; kleaf. Qed.

Lemma op_binary_keep n l v r c r' c' x m : op_binary n l v r c = Ok (r', c', x) -> Inv c ->
  m <= top_base c -> m <= top_base c' -> keep m c c'.
Proof. unfold op_binary. intros H I B B'. kcrunch; kleaf. Qed.

(* ---------------------------------------------------------------- instructions *)
Lemma pop_args_keep m : forall k c acc vals c' ok, pop_args k c acc = (vals, c', ok) -> m <= top_base c ->
  keep m c c' /\ top_base c' = top_base c.
Proof.
  induction k as [|k IH]; cbn; intros c acc vals c' ok H B; [inversion H; subst; split; [apply keep_refl|reflexivity]|].
  destruct (pop_value c) as [[v c1]|] eqn:P; [|inversion H; subst; split; [apply keep_refl|reflexivity]].
  pose proof (top_base_pop_value _ _ _ P) as T. destruct (IH _ _ _ _ _ H) as [K T2]; [lia|].
  split; [eapply keep_trans; [eapply keep_pop_value; eauto|exact K]|congruence].
Qed.

Lemma exec_instr_keep i r c r' c' m : exec_instr i r c = Ok (r', c') -> Inv c ->
  m <= top_base c -> m <= top_base c' -> keep m c c'.
Proof.
  intros H I B B'. destruct i; cbn [exec_instr] in H.
  - inversion H; subst. apply keep_push_value.
  - kcrunch; apply keep_push_value.
  - destruct (pop_value c) as [[v c1]|] eqn:P; [|inversion H; subst; apply keep_refl].
    eapply keep_trans; [eapply keep_pop_value; eauto|]. kcrunch; kleaf.
  - destruct (pop_value c) as [[v c1]|] eqn:P.
    + eapply keep_trans; [eapply keep_pop_value; eauto|]. kcrunch; kleaf.
    + kcrunch; kleaf.
  - destruct (op_nular (lower n) r c) as [[[r1 c1] x]| | |] eqn:E; try discriminate.
    + cbn in H. inversion H; subst. eapply keep_trans; [eapply op_nular_keep; eauto|apply keep_push_value].
    + destruct (has_nular (lower n)); discriminate.
  - destruct (pop_value c) as [[v c1]|] eqn:P; [|inversion H; subst; apply keep_refl].
    assert (I1 : Inv c1) by (eapply inv_pop_value; eauto). pose proof (top_base_pop_value _ _ _ P) as T.
    eapply keep_trans; [eapply keep_pop_value; eauto|].
    assert (D : forall v, (match op_unary (lower n) v r c1 with
                | Unsupported w => if has_unary (lower n) (type_of v) then Unsupported w
                                   else Ok (logmsg r d_UnknownInputTypeCombinationUnary, c1)
                | x => bindr x (fun '(r1, c2, y) => Ok (r1, push_value c2 y)) end) = Ok (r', c') -> keep m c1 c').
    { intros v0 HH. destruct (op_unary (lower n) v0 r c1) as [[[r1 c2] y]|w|w|w] eqn:E; cbn [bindr] in HH; try discriminate.
      - inversion HH; subst. rewrite top_base_push_value in B'.
        eapply keep_trans; [eapply op_unary_keep; eauto; lia|apply keep_push_value].
      - destruct (has_unary (lower n) (type_of v0)); [discriminate|]. inversion HH; subst. apply keep_refl. }
    destruct v; cbv beta iota in H; try (apply (D _ H)). inversion H; subst. apply keep_refl.
  - destruct (pop_value c) as [[v c1]|] eqn:P; [|inversion H; subst; apply keep_refl].
    assert (I1 : Inv c1) by (eapply inv_pop_value; eauto). pose proof (top_base_pop_value _ _ _ P) as T.
    eapply keep_trans; [eapply keep_pop_value; eauto|].
    assert (D : forall l v c2, Inv c2 -> top_base c2 = top_base c -> (match op_binary (lower n) l v r c2 with
                | Unsupported w => if has_binary (lower n) (type_of l) (type_of v) then Unsupported w
                                   else Ok (logmsg r d_UnknownInputTypeCombinationBinary, c2)
                | x => bindr x (fun '(r1, c3, y) => Ok (r1, push_value c3 y)) end) = Ok (r', c') -> keep m c2 c').
    { intros l0 v0 c2 I2 T2 HH. destruct (op_binary (lower n) l0 v0 r c2) as [[[r1 c3] y]|w|w|w] eqn:E; cbn [bindr] in HH; try discriminate.
      - inversion HH; subst. rewrite top_base_push_value in B'.
        eapply keep_trans; [eapply op_binary_keep; eauto; lia|apply keep_push_value].
      - destruct (has_binary (lower n) (type_of l0) (type_of v0)); [discriminate|]. inversion HH; subst. apply keep_refl. }
    assert (E2 : forall v, (match pop_value c1 with
                | Some (VNil, c2) => Ok (logmsg r d_NilValueFoundForRightArgumentWeak, c2)
                | Some (l, c2) => match op_binary (lower n) l v r c2 with
                                  | Unsupported w => if has_binary (lower n) (type_of l) (type_of v) then Unsupported w
                                                     else Ok (logmsg r d_UnknownInputTypeCombinationBinary, c2)
                                  | x => bindr x (fun '(r1, c3, y) => Ok (r1, push_value c3 y)) end
                | None => Ok (logmsg r (no_value_diag c d_NoValueFoundForRightArgument d_NoValueFoundForRightArgumentWeak), c1)
                end) = Ok (r', c') -> keep m c1 c').
    { intros v0 HH. destruct (pop_value c1) as [[l c2]|] eqn:P2; [|inversion HH; subst; apply keep_refl].
      assert (I2 : Inv c2) by (eapply inv_pop_value; eauto). pose proof (top_base_pop_value _ _ _ P2) as T2.
      eapply keep_trans; [eapply keep_pop_value; eauto; lia|].
      destruct l; cbv beta iota in HH; try (eapply D; [exact I2|congruence|exact HH]). inversion HH; subst. apply keep_refl. }
    destruct v; cbv beta iota in H; try (apply (E2 _ H)). inversion H; subst. apply keep_refl.
  - destruct (pop_args n c []) as [[vals c1] ok] eqn:E. inversion H; subst.
    destruct (pop_args_keep m _ _ _ _ _ _ E B) as [K _]. eapply keep_trans; [exact K|apply keep_push_value].
  - inversion H; subst. apply keep_clear_values; assumption.
Qed.

(* ---------------------------------------------------------------- behaviours, frame::next *)
Lemma top_base_upd_top c g : (forall f, f_base (g f) = f_base f) -> top_base (upd_top c g) = top_base c.
Proof. intros G. unfold top_base, upd_top. destruct (c_frames c) eqn:E; cbn; rewrite ?E; auto. Qed.
Lemma top_base_restart_with c vars : top_base (restart_with c vars) = top_base c.
Proof. unfold restart_with. rewrite top_base_upd_top by reflexivity. apply top_base_clear_values. Qed.
Lemma keep_restart_with m c vars : Inv c -> m <= top_base c -> keep m c (restart_with c vars).
Proof. intros I B. unfold restart_with. eapply keep_trans; [apply keep_clear_values; assumption|same_vals]. Qed.
Lemma top_base_set_suspended c b w : top_base (set_suspended c b w) = top_base c. Proof. reflexivity. Qed.

Lemma enact_keep b r c br b' r' c' m : enact b r c = Ok (br, b', r', c') -> Inv c -> m <= top_base c ->
  keep m c c' /\ top_base c' = top_base c.
Proof.
  intros H I B. destruct b; cbn [enact] in H.
  all: try (destruct (pop_value c) as [[v c1]|] eqn:P;
            [assert (I1 : Inv c1) by (eapply inv_pop_value; eauto);
             pose proof (top_base_pop_value _ _ _ P) as T1;
             assert (K1 : keep m c c1) by (eapply keep_pop_value; eauto)|]).
  all: kcrunch.
  all: repeat match goal with
       | H : (_, _) = (_, _) |- _ => inversion H; subst; try clear H
       | H : (match ?x with _ => _ end) = (_, _) |- _ => destruct x eqn:?
       end.
  all: split; [|rewrite ?top_base_restart_with, ?top_base_push_value, ?top_base_set_suspended; auto].
  all: match goal with
       | |- keep _ ?c ?c => apply keep_refl
       | K : keep ?m ?c ?d |- keep ?m ?c ?d => exact K
       | K : keep ?m ?c ?d |- keep ?m ?c (push_value ?d _) => eapply keep_trans; [exact K|apply keep_push_value]
       | K : keep ?m ?c ?d |- keep ?m ?c (restart_with (set_suspended ?d ?b0 ?w0) _) =>
           eapply keep_trans; [exact K|]; apply (keep_trans _ _ (set_suspended d b0 w0)); [same_vals|apply keep_restart_with; [auto with inv|rewrite ?top_base_set_suspended; lia]]
       | K : keep ?m ?c ?d |- keep ?m ?c (restart_with ?d _) => eapply keep_trans; [exact K|apply keep_restart_with; [assumption|lia]]
       | |- keep ?m ?c (push_value ?c _) => apply keep_push_value
       | |- keep ?m ?c (restart_with (set_suspended ?c ?b0 ?w0) _) =>
           apply (keep_trans _ _ (set_suspended c b0 w0)); [same_vals|apply keep_restart_with; [auto with inv|rewrite ?top_base_set_suspended; lia]]
       | |- keep ?m ?c (restart_with ?c _) => apply keep_restart_with; [assumption|lia]
       end.
Qed.

Lemma top_base_set_frames_top c f1 rest f : c_frames c = f :: rest -> f_base f1 = f_base f ->
  top_base (set_frames c (f1 :: rest)) = top_base c.
Proof. intros E B. unfold top_base. cbn. rewrite E. exact B. Qed.

Lemma frame_next_keep m : forall fuel r c fr r' c', frame_next fuel r c = Ok (fr, r', c') -> RInv r -> Inv c -> m <= top_base c ->
  keep m c c' /\ top_base c' = top_base c.
Proof.
  induction fuel as [|fuel IH]; intros r c fr r' c' H R I B; cbn [frame_next] in H; [discriminate|].
  destruct (c_frames c) as [|f rest] eqn:EF; [discriminate|].
  set (p := if at_end f then (FDone, f) else (if at_end (set_pos f (S (f_pos f))) then FDone else FOk, set_pos f (S (f_pos f)))) in H.
  assert (PB : f_base (snd p) = f_base f) by (unfold p; destruct (at_end f); reflexivity).
  destruct p as [res0 f1] eqn:EP. cbn [snd] in PB.
  set (c1 := set_frames c (f1 :: rest)) in *.
  assert (I1 : Inv c1).
  { apply inv_set_frames_same; [exact I|]. rewrite EF. unfold same_bases. cbn. now rewrite PB. }
  assert (T1 : top_base c1 = top_base c) by (apply (top_base_set_frames_top c f1 rest f EF PB)).
  assert (K1 : keep m c c1) by (unfold c1; same_vals).
  destruct (f_exit f1) as [b|]; [|inversion H; subst; auto].
  destruct (andb (at_end f1) (negb (f_die f1))); [|inversion H; subst; auto].
  unfold bindr in H. destruct (enact b r c1) as [[[[br b'] r2] c2]| | |] eqn:E; try discriminate.
  destruct (enact_inv _ _ _ _ _ _ _ E R I1) as [R2 I2].
  destruct (enact_keep _ _ _ _ _ _ _ m E I1) as [K2 T2]; [lia|].
  set (c3 := upd_top c2 (fun f => set_exit f (Some b'))) in *.
  assert (I3 : Inv c3) by (unfold c3; auto with inv).
  assert (T3 : top_base c3 = top_base c) by (unfold c3; rewrite top_base_upd_top by reflexivity; congruence).
  assert (K3 : keep m c c3) by (eapply keep_trans; [exact K1|]; eapply keep_trans; [exact K2|unfold c3; same_vals]).
  destruct br.
  - inversion H; subst; auto.
  - destruct (top_code_empty _).
    { inversion H; subst. split.
      - eapply keep_trans; [exact K3|].
        apply (keep_trans _ _ (upd_top c3 (fun f0 => set_scope (set_pos f0 0) ""))); [same_vals|apply keep_clear_values; [auto with inv|rewrite top_base_upd_top by reflexivity; lia]].
      - rewrite top_base_clear_values, top_base_upd_top by reflexivity. exact T3. }
    destruct (IH _ _ _ _ _ H R2) as [K T]; [auto with inv| rewrite top_base_clear_values, top_base_upd_top by reflexivity; lia |].
    rewrite top_base_clear_values, top_base_upd_top in T by reflexivity.
    split; [|congruence].
    eapply keep_trans; [exact K3|]. eapply keep_trans; [|exact K].
    apply (keep_trans _ _ (upd_top c3 (fun f0 => set_scope (set_pos f0 0) ""))); [same_vals|apply keep_clear_values; [auto with inv|rewrite top_base_upd_top by reflexivity; lia]].
  - inversion H; subst. split; [eapply keep_trans; [exact K3|same_vals]|rewrite top_base_upd_top by reflexivity; exact T3].
  - assert (RB : forall f0, f_base (set_pos (set_code (match b' with BWhile _ WCond _ _ => set_scope f0 "" | _ => f0 end) c0) 0) = f_base f0)
      by (intros f0; destruct b' as [|? [|] ? ?| | | | | | | |]; reflexivity).
    destruct (IH _ _ _ _ _ H R2) as [K T]; [apply inv_upd_top; [exact RB|exact I3]| rewrite top_base_upd_top by exact RB; lia |].
    rewrite top_base_upd_top in T by exact RB.
    split; [|congruence]. eapply keep_trans; [exact K3|].
    match type of K with keep _ ?x _ => apply (keep_trans _ _ x); [same_vals|exact K] end.
  - inversion H; subst; auto.
Qed.

(* error unwinding only pops frames: it can only lower the protected height *)
Lemma handle_error_keep m : forall fuel r c msgs skip b r' c',
  handle_error fuel r c msgs skip = Ok (b, r', c') -> Inv c -> top_base c' <= top_base c /\ (m <= top_base c' -> keep m c c').
Proof.
  induction fuel as [|fuel IH]; intros r c msgs skip b r' c' H I; cbn [handle_error] in H; [discriminate|].
  destruct (find_handler (skipn skip (c_frames c)) skip) as [k|]; [|inversion H; subst; split; [lia|intros; apply keep_refl]].
  unfold bindr in H.
  set (c1 := push_value c (VTrace (VArr (map (fun d => VNum (snd d)) msgs)))) in *.
  set (c2 := set_frames c1 (skipn k (c_frames c1))) in *.
  assert (I1 : Inv c1) by (unfold c1; auto with inv).
  assert (I2 : Inv c2) by (unfold c2; auto with inv).
  assert (T2 : top_base c2 <= top_base c) by (unfold c2; eapply Nat.le_trans; [apply top_base_skipn; exact I1|unfold c1; rewrite top_base_push_value; lia]).
  destruct (err_enact r c2 0) as [[[failed r3] c3]| | |] eqn:E; try discriminate.
  assert (I3 : Inv c3) by (eapply inv_err_enact; eauto).
  assert (SB : same_bases (c_frames c2) (c_frames c3)) by (destruct (err_enact_keep _ _ _ _ _ _ 0 E I2 (Nat.le_0_l _)) as [_ S]; exact S).
  pose proof (top_base_same_bases _ _ SB) as T3.
  assert (K3 : m <= top_base c3 -> keep m c c3).
  { intros B. destruct (err_enact_keep _ _ _ _ _ _ m E I2) as [K _]; [lia|].
    eapply keep_trans; [apply keep_push_value|]. fold c1. eapply keep_trans; [|exact K]. unfold c2; same_vals. }
  destruct failed; [|inversion H; subst; split; [lia|exact K3]].
  destruct (pop_value c3) as [[y c4]|] eqn:P.
  - assert (I4 : Inv c4) by (eapply inv_pop_value; eauto). pose proof (top_base_pop_value _ _ _ P) as T4.
    destruct (IH _ _ _ _ _ _ _ H I4) as [L K]. split; [lia|]. intros B.
    eapply keep_trans; [apply K3; lia|]. eapply keep_trans; [eapply keep_pop_value; eauto; lia|apply K; exact B].
  - destruct (IH _ _ _ _ _ _ _ H I3) as [L K]. split; [lia|]. intros B.
    eapply keep_trans; [apply K3; lia|apply K; exact B].
Qed.

(* ---------------------------------------------------------------- which context is the current one *)
Definition Ext (r r':rt) : Prop := r_active r' = r_active r /\ length (r_ctxs r) <= length (r_ctxs r').
Lemma ext_refl r : Ext r r. Proof. split; auto. Qed.
Lemma ext_trans a b c : Ext a b -> Ext b c -> Ext a c. Proof. unfold Ext. intros [A1 L1] [A2 L2]. split; [congruence|lia]. Qed.
Lemma ext_same r r' : r_active r' = r_active r -> r_ctxs r' = r_ctxs r -> Ext r r'.
Proof. unfold Ext. intros -> ->. auto. Qed.
Lemma ext_logmsg r d : Ext r (logmsg r d). Proof. apply ext_same; unfold logmsg; destruct (Z.leb (fst d) 1); reflexivity. Qed.
Lemma ext_mark r s : Ext r (mark r s). Proof. apply ext_same; reflexivity. Qed.
Lemma ext_ns_set r a b v : Ext r (ns_set r a b v). Proof. apply ext_same; reflexivity. Qed.
Lemma ext_set_msgs r x : Ext r (set_msgs r x). Proof. apply ext_same; reflexivity. Qed.
Lemma ext_set_errflag r x : Ext r (set_errflag r x). Proof. apply ext_same; reflexivity. Qed.
Lemma ext_set_exit_req r x : Ext r (set_exit_req r x). Proof. apply ext_same; reflexivity. Qed.
Lemma ext_set_clock r x : Ext r (set_clock r x). Proof. apply ext_same; reflexivity. Qed.
Lemma ext_set_next_id r x : Ext r (set_next_id r x). Proof. apply ext_same; reflexivity. Qed.
Lemma ext_spawn r nc : Ext r (set_ctxs r (r_ctxs r ++ [nc])).
Proof. split; [reflexivity|]. cbn. rewrite app_length. lia. Qed.
Lemma ext_map r (g:context -> context) : Ext r (set_ctxs r (map g (r_ctxs r))).
Proof. split; [reflexivity|]. cbn. rewrite map_length. lia. Qed.
Lemma list_upd_length {A} (l:list A) i x : length (list_upd l i x) = length l.
Proof. revert i; induction l as [|a l IH]; intros [|i]; cbn; auto. Qed.
Lemma ext_upd_cur r c : Ext r (upd_cur r c).
Proof. unfold upd_cur. destruct (r_active r); [|apply ext_refl]. split; [reflexivity|]. cbn. rewrite list_upd_length. lia. Qed.
Global Hint Resolve ext_refl ext_logmsg ext_mark ext_ns_set ext_set_msgs ext_set_errflag ext_set_exit_req ext_set_clock
  ext_set_next_id ext_spawn ext_map ext_upd_cur : ext.

Ltac ext_leaf := repeat (first [ apply ext_refl | assumption
                               | eapply ext_trans; [|solve [auto with ext]] ]).

Lemma ext_err_enact r c k failed r' c' : err_enact r c k = Ok (failed, r', c') -> Ext r r'.
Proof. unfold err_enact. intros H. kcrunch; apply ext_refl. Qed.
Lemma ext_op_throw r c v r' c' x : op_throw r c v = Ok (r', c', x) -> Ext r r'.
Proof.
  unfold op_throw. intros H. kcrunch; auto with ext.
  all: match goal with E : err_enact _ _ _ = Ok _ |- _ => apply ext_err_enact in E end.
  all: try assumption. all: eapply ext_trans; [eassumption|auto with ext].
Qed.
Lemma ext_op_breakout r c v t r' c' x : op_breakout r c v t = Ok (r', c', x) -> Ext r r'.
Proof. unfold op_breakout. intros H. kcrunch; auto with ext. Qed.
Lemma ext_op_nular n r c r' c' x : op_nular n r c = Ok (r', c', x) -> Ext r r'.
Proof. unfold op_nular. intros H. kcrunch; auto with ext. Qed.
Lemma ext_op_unary n v r c r' c' x : op_unary n v r c = Ok (r', c', x) -> Ext r r'.
Proof.
  unfold op_unary. intros H. kcrunch.
  all: first [ solve [auto with ext] | eapply ext_op_throw; eassumption | eapply ext_op_breakout; eassumption
             | solve [eapply ext_trans; [|solve [auto with ext]]; auto with ext]
             | solve [eapply ext_trans; [|solve [auto with ext]]; eapply ext_trans; [|solve [auto with ext]]; auto with ext] ].
Qed.
Lemma ext_op_binary n l v r c r' c' x : op_binary n l v r c = Ok (r', c', x) -> Ext r r'.
Proof.
  unfold op_binary. intros H. kcrunch.
  all: first [ solve [auto with ext] | eapply ext_op_throw; eassumption | eapply ext_op_breakout; eassumption
             | solve [eapply ext_trans; [|solve [auto with ext]]; auto with ext]
             | solve [eapply ext_trans; [|solve [auto with ext]]; eapply ext_trans; [|solve [auto with ext]]; auto with ext] ].
Qed.

Lemma ext_exec_instr i r c r' c' : exec_instr i r c = Ok (r', c') -> Ext r r'.
Proof.
  intros H. destruct i; cbn [exec_instr] in H.
  - inversion H; subst; auto with ext.
  - kcrunch; auto with ext.
  - kcrunch; repeat match goal with |- context [match ?x with _ => _ end] => destruct x end; auto with ext;
      eapply ext_trans; [|solve [auto with ext]]; auto with ext.
  - kcrunch; repeat match goal with |- context [match ?x with _ => _ end] => destruct x end; auto with ext.
  - destruct (op_nular (lower n) r c) as [[[r1 c1] x]| | |] eqn:E; try discriminate.
    + cbn in H. inversion H; subst. eapply ext_op_nular; eauto.
    + destruct (has_nular (lower n)); discriminate.
  - destruct (pop_value c) as [[v c1]|]; [|inversion H; subst; auto with ext].
    assert (D : forall v, (match op_unary (lower n) v r c1 with
                | Unsupported w => if has_unary (lower n) (type_of v) then Unsupported w
                                   else Ok (logmsg r d_UnknownInputTypeCombinationUnary, c1)
                | x => bindr x (fun '(r1, c2, y) => Ok (r1, push_value c2 y)) end) = Ok (r', c') -> Ext r r').
    { intros v0 HH. destruct (op_unary (lower n) v0 r c1) as [[[r1 c2] y]|w|w|w] eqn:E; cbn [bindr] in HH; try discriminate.
      - inversion HH; subst. eapply ext_op_unary; eauto.
      - destruct (has_unary (lower n) (type_of v0)); [discriminate|]. inversion HH; subst. auto with ext. }
    destruct v; cbv beta iota in H; try (apply (D _ H)). inversion H; subst. auto with ext.
  - destruct (pop_value c) as [[v c1]|]; [|inversion H; subst; auto with ext].
    assert (D : forall l v c2, (match op_binary (lower n) l v r c2 with
                | Unsupported w => if has_binary (lower n) (type_of l) (type_of v) then Unsupported w
                                   else Ok (logmsg r d_UnknownInputTypeCombinationBinary, c2)
                | x => bindr x (fun '(r1, c3, y) => Ok (r1, push_value c3 y)) end) = Ok (r', c') -> Ext r r').
    { intros l0 v0 c2 HH. destruct (op_binary (lower n) l0 v0 r c2) as [[[r1 c3] y]|w|w|w] eqn:E; cbn [bindr] in HH; try discriminate.
      - inversion HH; subst. eapply ext_op_binary; eauto.
      - destruct (has_binary (lower n) (type_of l0) (type_of v0)); [discriminate|]. inversion HH; subst. auto with ext. }
    assert (E2 : forall v, (match pop_value c1 with
                | Some (VNil, c2) => Ok (logmsg r d_NilValueFoundForRightArgumentWeak, c2)
                | Some (l, c2) => match op_binary (lower n) l v r c2 with
                                  | Unsupported w => if has_binary (lower n) (type_of l) (type_of v) then Unsupported w
                                                     else Ok (logmsg r d_UnknownInputTypeCombinationBinary, c2)
                                  | x => bindr x (fun '(r1, c3, y) => Ok (r1, push_value c3 y)) end
                | None => Ok (logmsg r (no_value_diag c d_NoValueFoundForRightArgument d_NoValueFoundForRightArgumentWeak), c1)
                end) = Ok (r', c') -> Ext r r').
    { intros v0 HH. destruct (pop_value c1) as [[l c2]|]; [|inversion HH; subst; auto with ext].
      destruct l; cbv beta iota in HH; try (eapply D; exact HH). inversion HH; subst. auto with ext. }
    destruct v; cbv beta iota in H; try (apply (E2 _ H)). inversion H; subst. auto with ext.
  - destruct (pop_args n c []) as [[vals c1] ok]. inversion H; subst. destruct ok; auto with ext.
  - inversion H; subst; auto with ext.
Qed.

Lemma ext_enact b r c br b' r' c' : enact b r c = Ok (br, b', r', c') -> Ext r r'.
Proof.
  intros H. destruct b; cbn [enact] in H.
  all: kcrunch.
  all: repeat match goal with
       | H : (_, _) = (_, _) |- _ => inversion H; subst; try clear H
       | H : (match ?x with _ => _ end) = (_, _) |- _ => destruct x eqn:?
       end.
  all: repeat match goal with |- context [match ?x with _ => _ end] => destruct x end.
  all: first [ solve [auto with ext] | solve [eapply ext_trans; [|solve [auto with ext]]; auto with ext] ].
Qed.

Lemma ext_frame_next : forall fuel r c fr r' c', frame_next fuel r c = Ok (fr, r', c') -> Ext r r'.
Proof.
  induction fuel as [|fuel IH]; intros r c fr r' c' H; cbn [frame_next] in H; [discriminate|].
  destruct (c_frames c) as [|f rest]; [discriminate|].
  match type of H with context [let '(_, _) := ?p in _] => destruct p as [res0 f1] end.
  destruct (f_exit f1) as [b|]; [|inversion H; subst; auto with ext].
  destruct (andb (at_end f1) (negb (f_die f1))); [|inversion H; subst; auto with ext].
  unfold bindr in H.
  match type of H with context [enact b r ?x] => destruct (enact b r x) as [p| | |] eqn:E end; try discriminate.
  destruct p as [[[br b'] r2] c2].
  apply ext_enact in E. destruct br; try (inversion H; subst; exact E);
    try (destruct (top_code_empty _); [inversion H; subst; exact E|]); (eapply ext_trans; [exact E|eapply IH; eauto]).
Qed.

Lemma ext_handle_error : forall fuel r c msgs skip b r' c', handle_error fuel r c msgs skip = Ok (b, r', c') -> Ext r r'.
Proof.
  induction fuel as [|fuel IH]; intros r c msgs skip b r' c' H; cbn [handle_error] in H; [discriminate|].
  destruct (find_handler (skipn skip (c_frames c)) skip) as [k|]; [|inversion H; subst; auto with ext].
  unfold bindr in H. match type of H with context [err_enact r ?x 0] => destruct (err_enact r x 0) as [[[failed r3] c3]| | |] eqn:E; try discriminate end.
  apply ext_err_enact in E. destruct failed; [|inversion H; subst; exact E]. eapply ext_trans; [exact E|eapply IH; eauto].
Qed.

Lemma nth_error_list_upd {A} : forall (l:list A) i x, i < length l -> nth_error (list_upd l i x) i = Some x.
Proof. induction l as [|a l IH]; intros [|i] x L; cbn in *; try lia; auto. apply IH. lia. Qed.

Lemma cur_valid r c : cur r = Some c -> exists i, r_active r = Some i /\ i < length (r_ctxs r).
Proof. unfold cur. destruct (r_active r) as [i|]; [|discriminate]. intros H. exists i. split; [reflexivity|]. apply nth_error_Some. congruence. Qed.

Lemma cur_upd_ext r0 c0 r1 x : cur r0 = Some c0 -> Ext r0 r1 -> cur (upd_cur r1 x) = Some x.
Proof.
  intros C [A L]. destruct (cur_valid _ _ C) as (i & Ai & Li). unfold upd_cur. rewrite A, Ai. unfold cur. cbn.
  rewrite A, Ai. apply nth_error_list_upd. lia.
Qed.

(* what error handling does to the current context *)
Lemma on_error_ctx r b r' c : on_error r = Ok (b, r') -> RInv r -> cur r = Some c ->
  exists c', cur r' = Some c' /\ top_base c' <= top_base c /\ (forall m, m <= top_base c' -> keep m c c') /\ Ext r r'.
Proof.
  unfold on_error. intros H R C.
  assert (C1 : cur (set_msgs r []) = Some c) by exact C. rewrite C1 in H.
  assert (I : Inv c) by (eapply inv_cur; eauto).
  unfold bindr in H.
  match type of H with context [handle_error ?f ?rr c ?ms 0] => destruct (handle_error f rr c ms 0) as [[[rec r2] c2]| | |] eqn:E; try discriminate end.
  destruct (handle_error_keep 0 _ _ _ _ _ _ _ _ E I) as [L _].
  pose proof (ext_handle_error _ _ _ _ _ _ _ _ E) as X.
  assert (X0 : Ext r r2) by (eapply ext_trans; [apply ext_set_msgs|exact X]).
  exists c2. destruct rec; inversion H; subst; (split; [|split; [exact L|split]]).
  - cbn. eapply (cur_upd_ext (set_msgs r [])); eauto.
  - intros m B. destruct (handle_error_keep m _ _ _ _ _ _ _ _ E I) as [_ K]. auto.
  - eapply ext_trans; [exact X0|]. eapply ext_trans; [apply ext_upd_cur|auto with ext].
  - assert (CC : cur (upd_cur r2 c2) = Some c2) by (eapply (cur_upd_ext (set_msgs r [])); eauto).
    unfold logmsg. destruct (Z.leb (fst d_Stacktrace) 1); exact CC.
  - intros m B. destruct (handle_error_keep m _ _ _ _ _ _ _ _ E I) as [_ K]. auto.
  - eapply ext_trans; [exact X0|]. eapply ext_trans; [apply ext_upd_cur|]. eapply ext_trans; [apply ext_logmsg|auto with ext].
Qed.

(* ---------------------------------------------------------------- the step theorem *)
Lemma cur_logmsg r d : cur (logmsg r d) = cur r.
Proof. unfold logmsg. destruct (Z.leb (fst d) 1); reflexivity. Qed.

Lemma cur_set_wrappers r c : cur r = Some c ->
  cur (set_msgs r []) = Some c /\ cur (set_errflag r false) = Some c.
Proof. intros C. split; exact C. Qed.

(* One pass of execute_do's loop (frame completion, an exit behaviour, one instruction, error
   unwinding - whatever happens): every operand below the protected height survives, where the
   protected height is the base of the current scope before the pass and after it. *)
Theorem do_iter_regions r c it c' m : RInv r -> cur r = Some c -> do_iter r = Ok it -> cur (rt_of it) = Some c' ->
  m <= top_base c -> m <= top_base c' -> keep m c c'.
Proof.
  intros R C H C' B B'. unfold do_iter in H.
  assert (I : Inv c) by (eapply inv_cur; eauto).
  destruct (r_exit_req r); [inversion H; subst; cbn in C'; rewrite C in C'; inversion C'; subst; apply keep_refl|].
  rewrite C in H.
  destruct (c_suspended c); [inversion H; subst; cbn in C'; rewrite C in C'; inversion C'; subst; apply keep_refl|].
  destruct (c_frames c) as [|f0 fs0] eqn:EF; [inversion H; subst; cbn in C'; rewrite C in C'; inversion C'; subst; apply keep_refl|].
  destruct (r_state r); try (inversion H; subst; cbn in C'; rewrite C in C'; inversion C'; subst; apply keep_refl).
  unfold bindr in H. destruct (frame_next frame_fuel r c) as [[[fr r1] c1]| | |] eqn:E; try discriminate.
  destruct (frame_next_inv _ _ _ _ _ _ E R I) as [R1 I1].
  destruct (frame_next_keep m _ _ _ _ _ _ E R I B) as [K1 T1].
  pose proof (ext_frame_next _ _ _ _ _ _ E) as X1.
  assert (CU : forall x, cur (upd_cur r1 x) = Some x) by (intros x; exact (cur_upd_ext r c r1 x C X1)).
  (* a common tail: run an instruction from (r2, c1) where r2 extends r1 *)
  assert (TAIL : forall r2 i, Ext r1 r2 -> RInv r2 ->
            (match exec_instr i r2 c1 with
             | Ok (r3, c5) => let r4 := upd_cur r3 c5 in
                 if negb (r_err r4) then Ok (Executed (set_msgs r4 []))
                 else match on_error r4 with
                      | Ok (recovered, r5) => if recovered then Ok (Executed r5) else Ok (Return RRuntimeError r5)
                      | Unsupported w => Unsupported w | Hang w => Hang w | UB w => UB w end
             | Unsupported w => Unsupported w | Hang w => Hang w | UB w => UB w end) = Ok it -> keep m c c').
  { intros r2 i X2 R2 HH. destruct (exec_instr i r2 c1) as [[r3 c5]| | |] eqn:E3; try discriminate.
    destruct (exec_instr_inv _ _ _ _ _ E3 R2 I1) as [R3 I5]. pose proof (ext_exec_instr _ _ _ _ _ E3) as X3.
    assert (C4 : cur (upd_cur r3 c5) = Some c5) by (eapply cur_upd_ext; [exact C|]; eapply ext_trans; [exact X1|]; eapply ext_trans; eauto).
    cbv zeta in HH. destruct (negb (r_err (upd_cur r3 c5))).
    - inversion HH; subst. cbn [rt_of] in C'. assert (c' = c5) by (change (cur (upd_cur r3 c5) = Some c') in C'; congruence). subst c'.
      eapply keep_trans; [exact K1|]. eapply exec_instr_keep; eauto; lia.
    - destruct (on_error (upd_cur r3 c5)) as [[rec r5]| | |] eqn:E4; try discriminate.
      destruct (on_error_ctx _ _ _ _ E4 (rinv_upd_cur _ _ R3 I5) C4) as (c6 & C6 & L6 & K6 & _).
      assert (c' = c6) by (destruct rec; inversion HH; subst; cbn [rt_of] in C'; congruence). subst c6.
      eapply keep_trans; [exact K1|]. eapply keep_trans; [eapply exec_instr_keep; eauto; lia|]. apply K6; exact B'. }
  destruct (r_err r1).
  - destruct (on_error (upd_cur r1 c1)) as [[rec r2]| | |] eqn:E2; try discriminate.
    destruct (on_error_ctx _ _ _ _ E2 (rinv_upd_cur _ _ R1 I1) (CU c1)) as (c6 & C6 & L6 & K6 & _).
    assert (c' = c6) by (destruct rec; inversion H; subst; cbn [rt_of] in C'; congruence). subst c6.
    eapply keep_trans; [exact K1|apply K6; exact B'].
  - destruct fr; [destruct (Nat.eqb (length (c_frames c1)) (length (f0 :: fs0)))| |].
    4: { (* an empty scope restarted: only the deadline is looked at *)
      match type of H with context [if ?b then _ else _] => destruct b eqn:EZ end.
      - cbv beta iota zeta in H. inversion H; subst. cbn [rt_of] in C'. rewrite CU in C'. inversion C'; subst c'. exact K1.
      - unfold now in H. cbv beta iota zeta in H.
        assert (CC : cur (upd_cur (set_clock r1 (r_clock r1 + r_tick r1)) c1) = Some c1)
          by (eapply cur_upd_ext; [exact C|eapply ext_trans; [exact X1|auto with ext]]).
        match type of H with context [if ?b then _ else _] => destruct b eqn:EX end.
        + inversion H; subst. cbn [rt_of] in C'.
          assert (c' = c1).
          { change (cur (logmsg (upd_cur (set_clock r1 (r_clock r1 + r_tick r1)) c1) d_MaximumRuntimeReached) = Some c') in C'.
            rewrite cur_logmsg in C'. congruence. }
          subst c'. exact K1.
        + inversion H; subst. cbn [rt_of] in C'. assert (c' = c1) by congruence. subst c'. exact K1. }
    + (* completion *)
      inversion H; subst. cbn [rt_of] in C'. rewrite CU in C'. inversion C'; subst c'. clear C'.
      eapply keep_trans; [exact K1|].
      destruct (pop_value c1) as [[v c2]|] eqn:P.
      * assert (I2 : Inv c2) by (eapply inv_pop_value; eauto). pose proof (top_base_pop_value _ _ _ P) as T2.
        eapply keep_trans; [eapply keep_pop_value; eauto; lia|].
        eapply keep_trans; [apply keep_clear_values; [assumption|lia]|].
        eapply keep_trans; [apply keep_same_values; apply vals_pop_frame|apply keep_push_value].
      * eapply keep_trans; [apply keep_clear_values; [assumption|lia]|].
        eapply keep_trans; [apply keep_same_values; apply vals_pop_frame|].
        destruct (defect r "block_value_dropped"); [apply keep_refl|].
        match goal with |- keep _ _ (match ?x with _ => _ end) => destruct x end; [apply keep_refl|apply keep_push_value].
    + destruct (current_instr c1) as [i|]; [|discriminate].
      match type of H with context [if ?b then _ else _] => destruct b eqn:EZ end.
      * cbv beta iota zeta in H. eapply (TAIL r1 i); [apply ext_refl|exact R1|exact H].
      * unfold now in H. cbv beta iota zeta in H.
        match type of H with context [if ?b then _ else _] => destruct b eqn:EX end.
        -- inversion H; subst. cbn [rt_of] in C'.
           assert (CC : cur (upd_cur (set_clock r1 (r_clock r1 + r_tick r1)) c1) = Some c1)
             by (eapply cur_upd_ext; [exact C|eapply ext_trans; [exact X1|auto with ext]]).
           assert (c' = c1).
           { change (cur (logmsg (upd_cur (set_clock r1 (r_clock r1 + r_tick r1)) c1) d_MaximumRuntimeReached) = Some c') in C'.
             rewrite cur_logmsg in C'. congruence. }
           subst c'. exact K1.
        -- eapply (TAIL _ i); [| |exact H]; auto with ext inv.
    + destruct (current_instr c1) as [i|]; [|discriminate].
      match type of H with context [if ?b then _ else _] => destruct b eqn:EZ end.
      * cbv beta iota zeta in H. eapply (TAIL r1 i); [apply ext_refl|exact R1|exact H].
      * unfold now in H. cbv beta iota zeta in H.
        match type of H with context [if ?b then _ else _] => destruct b eqn:EX end.
        -- inversion H; subst. cbn [rt_of] in C'.
           assert (CC : cur (upd_cur (set_clock r1 (r_clock r1 + r_tick r1)) c1) = Some c1)
             by (eapply cur_upd_ext; [exact C|eapply ext_trans; [exact X1|auto with ext]]).
           assert (c' = c1).
           { change (cur (logmsg (upd_cur (set_clock r1 (r_clock r1 + r_tick r1)) c1) d_MaximumRuntimeReached) = Some c') in C'.
             rewrite cur_logmsg in C'. congruence. }
           subst c'. exact K1.
        -- eapply (TAIL _ i); [| |exact H]; auto with ext inv.
Qed.

(* ---------------------------------------------------------------- a finished scope yields exactly one value *)
(* the completion branch of do_iter, as a function of the context *)
Definition complete (dropped:bool) (c1:context) : context :=
  let popped := pop_value c1 in
  let c2 := match popped with Some (_, c') => c' | None => c1 end in
  let c3 := pop_frame (clear_values c2) in
  match popped with
  | Some (v, _) => push_value c3 v
  | None => if dropped then c3 else match c_frames c3 with [] => c3 | _ => push_value c3 VNil end end.

Lemma complete_spec c1 f g rest : Inv c1 -> c_frames c1 = f :: g :: rest ->
  let c4 := complete false c1 in
  c_frames c4 = g :: rest /\
  height c4 = f_base f + 1 /\
  below c4 (f_base f) = below c1 (f_base f) /\
  (exists v, c_values c4 = v :: below c1 (f_base f) /\
             v = match pop_value c1 with Some (x, _) => x | None => VNil end).
Proof.
  intros I EF. unfold complete. unfold Inv in I. rewrite EF in I. cbn in I. destruct I as [L0 [L1 B]].
  destruct (pop_value c1) as [[v c2]|] eqn:P.
  - apply pop_value_spec in P as PS. destruct PS as (F & V & G & _). rewrite EF in G.
    assert (I2 : Inv c2) by (eapply inv_pop_value; eauto; unfold Inv; rewrite EF; cbn; auto).
    destruct (clear_values_spec c2 I2) as (F2 & L2 & _). rewrite F, EF in L2. cbn zeta.
    assert (CV : c_values (clear_values c2) = below c1 (f_base f)).
    { unfold clear_values, below. rewrite F, EF. cbn. rewrite V. cbn [length]. 
      replace (S (length (c_values c2)) - f_base f) with (S (length (c_values c2) - f_base f)) by lia. reflexivity. }
    repeat split.
    + cbn. rewrite F2, F, EF. reflexivity.
    + unfold height. cbn. rewrite L2. lia.
    + unfold below. cbn [push_value pop_frame set_values c_values set_frames]. rewrite CV.
      cbn [length]. unfold below. rewrite skipn_length.
      replace (S (length (c_values c1) - (length (c_values c1) - f_base f)) - f_base f) with 1 by lia. reflexivity.
    + exists v. cbn. rewrite CV. auto.
  - assert (I1 : Inv c1) by (unfold Inv; rewrite EF; cbn; auto).
    destruct (clear_values_spec c1 I1) as (F2 & L2 & _). rewrite EF in L2. cbn zeta.
    assert (CV : c_values (clear_values c1) = below c1 (f_base f)) by (unfold clear_values, below; rewrite EF; reflexivity).
    assert (FR : c_frames (pop_frame (clear_values c1)) = g :: rest) by (cbn; rewrite F2, EF; reflexivity).
    rewrite FR. repeat split.
    + cbn. rewrite F2, EF. reflexivity.
    + unfold height. cbn. rewrite L2. lia.
    + unfold below. cbn [push_value pop_frame set_values c_values set_frames]. rewrite CV.
      cbn [length]. unfold below. rewrite skipn_length.
      replace (S (length (c_values c1) - (length (c_values c1) - f_base f)) - f_base f) with 1 by lia. reflexivity.
    + exists VNil. cbn. rewrite CV. auto.
Qed.

(* do_iter really takes that branch when the scope is done *)
Lemma do_iter_completes r c r1 c1 : cur r = Some c -> r_exit_req r = false -> c_suspended c = false -> r_state r = StRunning ->
  c_frames c <> [] -> frame_next frame_fuel r c = Ok (FDone, r1, c1) -> r_err r1 = false ->
  length (c_frames c1) = length (c_frames c) ->
  do_iter r = Ok (Continue (upd_cur r1 (complete (defect r "block_value_dropped") c1))).
Proof.
  intros C X S St NE FN ER LEN. unfold do_iter. rewrite X, C, S, St.
  destruct (c_frames c) as [|f0 fs0] eqn:EF; [contradiction|]. rewrite FN. cbn [bindr]. rewrite ER.
  rewrite LEN, Nat.eqb_refl. unfold complete. reflexivity.
Qed.

(* ---------------------------------------------------------------- separators and loops *)
Lemma end_statement_empties r c : Inv c -> c_frames c <> [] ->
  exec_instr IEnd r c = Ok (r, clear_values c) /\ height (clear_values c) = top_base (clear_values c).
Proof.
  intros I NE. split; [reflexivity|]. destruct (clear_values_spec c I) as (F & L & _). unfold height, top_base. rewrite F, L.
  destruct (c_frames c); [contradiction|reflexivity].
Qed.

Lemma height_restart_with c vars : Inv c -> c_frames c <> [] -> height (restart_with c vars) = top_base (restart_with c vars).
Proof.
  intros I NE. rewrite top_base_restart_with. unfold restart_with, height. rewrite vals_upd_top.
  destruct (clear_values_spec c I) as (_ & L & _). rewrite L. unfold top_base. destruct (c_frames c); [contradiction|reflexivity].
Qed.

(* every restart of an iteration (seek_start, and the exchange of a while loop) begins with an empty region *)
Lemma restarts_start_empty b r c br b' r' c' : enact b r c = Ok (br, b', r', c') -> Inv c -> c_frames c <> [] ->
  (br = BrSeekStart \/ (exists code, br = BrExchange code /\ exists l m cd bd, b = BWhile l m cd bd)) ->
  height c' = top_base c'.
Proof.
  intros H I NE Hbr. destruct b; cbn [enact] in H.
  all: try (destruct (pop_value c) as [[v c1]|] eqn:P;
            [assert (I1 : Inv c1) by (eapply inv_pop_value; eauto);
             assert (NE1 : c_frames c1 <> []) by (apply pop_value_spec in P; destruct P as (F & _); rewrite F; exact NE)|]).
  all: kcrunch.
  all: repeat match goal with
       | H : (_, _) = (_, _) |- _ => inversion H; subst; try clear H
       | H : (match ?x with _ => _ end) = (_, _) |- _ => destruct x eqn:?
       end.
  all: try (destruct Hbr as [Hb|(? & Hb & _)]; discriminate Hb).
  all: try (destruct Hbr as [Hb|(? & Hb & ? & ? & ? & ? & Hw)]; [discriminate Hb|discriminate Hw]).
  all: try (apply height_restart_with; assumption).
  all: try (apply height_restart_with; [auto with inv|assumption]).
  all: try (apply height_restart_with; [assumption|intro HX; congruence]).
Qed.
