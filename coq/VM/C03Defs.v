(* C03 - variable scoping: the vocabulary of the statements in Properties_C03.v (no proofs here).
   Everything is phrased over the shared VM model (VmDefs.v): frames are listed top (innermost,
   current) first; a frame's variable map has lower-cased keys. *)
From Coq Require Import String Ascii.
From Coq Require Import ZArith List Bool.
From SqfVerif Require Import VM.VmDefs.
Import ListNotations.
Local Open Scope string_scope.
Local Open Scope list_scope.

(* ---------------------------------------------------------------- the machine outside the scopes *)
(* what an instruction that only reports may change of the machine: nothing a variable lives in *)
Definition same_store (r r':rt) : Prop :=
  r_nss r' = r_nss r /\ r_ctxs r' = r_ctxs r /\ r_active r' = r_active r.
(* the frame stacks of all scripts, as stored in the runtime *)
Definition ctx_frames (r:rt) : list (list frame) := map c_frames (r_ctxs r).

(* ---------------------------------------------------------------- lookup and assignment of a local *)
(* a frame the search of context::get_variable walks past: it does not hold the key and lets the search continue *)
Definition passes (k:string) (g:frame) : Prop := assoc k (f_vars g) = None /\ f_bubble g = true.
Definition lacks (k:string) (g:frame) : Prop := assoc k (f_vars g) = None.
Definition holds (k:string) (g:frame) : Prop := exists old, assoc k (f_vars g) = Some old.

(* the effect of a plain assignment  _k = v  on the frame list: the nearest frame holding the key gets the
   value; if none holds it, the current frame does.  Every other frame is the same frame, and the changed
   frame differs in its variable map only (set_vars). *)
Inductive assigned (k:string) (v:value) : list frame -> list frame -> Prop :=
| As_nearest pre f post : Forall (lacks k) pre -> holds k f ->
    assigned k v (pre ++ f :: post) (pre ++ set_vars f (assoc_set k v (f_vars f)) :: post)
| As_current f rest : Forall (lacks k) (f :: rest) ->
    assigned k v (f :: rest) (set_vars f (assoc_set k v (f_vars f)) :: rest).

(* private "a" / private ["a","b"]: value_scope::at creates an empty (nil) entry for each name the
   current frame does not hold and keeps an entry it holds *)
Definition declared (names:list string) (old new:list (string*value)) : Prop :=
  forall k, assoc k new = match assoc k old with
                          | Some x => Some x
                          | None => if existsb (String.eqb k) names then Some VNil else None end.
Definition names_of (l:list value) : list string :=
  flat_map (fun x => match x with VStr s => [lower s] | _ => [] end) l.

(* ---------------------------------------------------------------- iterating behaviours *)
(* does this answer of an exit behaviour run the scope's code again? *)
Definition restarts (br:bresult) (b:behavior) : bool :=
  match br, b with
  | BrSeekStart, _ => true
  | BrExchange _, BWhile _ _ _ _ => true
  | _, _ => false end.

(* the bindings a restarted scope holds, in terms of the behaviour as updated by the restart:
   the element / index of THIS iteration and nothing else *)
Definition fresh_scope (b:behavior) (vars:list (string*value)) : Prop :=
  match b with
  | BCount arr i _ | BSelect arr _ i | BApply arr _ i | BFindIf arr i => vars = [("_x", nth_val arr i)]
  | BForEach arr i => vars = [("_foreachindex", VNum (Z.of_nat i)); ("_x", nth_val arr i)]
  | BFor var _ _ => exists x, vars = [(lower var, VNum x)]
  | BWhile _ _ _ _ | BWaitUntil _ => vars = []
  | BIsNil | BSwitch _ => False
  end.
(* for: the loop variable is the previous one plus the step *)
Definition for_advances (b:behavior) (f:frame) (vars:list (string*value)) : Prop :=
  match b with
  | BFor var _ step => exists x, assoc (lower var) (f_vars f) = Some (VNum x) /\ vars = [(lower var, VNum (x + step))]
  | _ => True end.
(* the same loop (same array / variable / code), possibly at another index *)
Definition same_kind (b b':behavior) : Prop :=
  match b, b' with
  | BCount a _ _, BCount a' _ _ | BSelect a _ _, BSelect a' _ _ | BApply a _ _, BApply a' _ _
  | BFindIf a _, BFindIf a' _ | BForEach a _, BForEach a' _ => a = a'
  | BFor v t s, BFor v' t' s' => v = v' /\ t = t' /\ s = s'
  | BWhile _ _ c b, BWhile _ _ c' b' => c = c' /\ b = b'
  | BIsNil, BIsNil | BSwitch _, BSwitch _ | BWaitUntil _, BWaitUntil _ => True
  | _, _ => False end.

(* what frame::next keeps of the scope it works on *)
Definition same_scope_id (f f1:frame) : Prop :=
  f_ns f1 = f_ns f /\ f_base f1 = f_base f /\ f_bubble f1 = f_bubble f /\
  (f_scope f1 = f_scope f \/ f_scope f1 = ""%string).     (* a frame that starts over (a loop going round) is a new scope without a name *)
Definition vars_kept_or_fresh (f f1:frame) : Prop :=
  f_vars f1 = f_vars f \/
  exists b0 b1, f_exit f = Some b0 /\ same_kind b0 b1 /\ fresh_scope b1 (f_vars f1).

(* ---------------------------------------------------------------- namespaces *)
(* the namespaces of the scopes of a script, current scope first *)
Definition ns_of (c:context) : list string := map f_ns (c_frames c).

(* how that stack evolves in one operator call that is not with-do: nothing, a new scope that inherits
   the namespace of the current scope, or scopes dropped from the top.  The namespace of an existing
   scope never changes. *)
Inductive ns_step (c c':context) : Prop :=
| NsSame : ns_of c' = ns_of c -> ns_step c c'
| NsPush : ns_of c' = cur_ns c :: ns_of c -> ns_step c c'
| NsDrop k : ns_of c' = skipn k (ns_of c) -> ns_step c c'.

(* one pass of the execute_do loop (do_iter): the machine it leaves *)
Definition iter_rt (it:iter) : rt := match it with Continue r | Executed r | Return _ r => r end.
(* the with-do alternative of a pass: the instruction executed (on the context c1 that frame::next left) is
   (with s) do {..}, and the new scope runs in s *)
Definition with_do_pass (c c':context) : Prop :=
  exists c1 n s body vs, current_instr c1 = Some (IBinary n) /\ lower n = "do" /\
    c_values c1 = VCode body :: VWith s :: vs /\ ns_of c1 = ns_of c /\ ns_of c' = s :: ns_of c.

Definition is_nil (v:value) : bool := match v with VNil => true | _ => false end.
