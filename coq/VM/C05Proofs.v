(* C05 - the operand stack is partitioned per scope.  Invariants of the VM model (VmDefs.v). *)
From Coq Require Import String Ascii.
From Coq Require Import ZArith List Bool Lia.
From SqfVerif Require Import Gen.DiagCodes Gen.Overloads VM.VmDefs VM.VmExec.
Import ListNotations.
Local Open Scope list_scope.

Opaque frame_fuel exec_fuel waituntil_cap.

(* ---------------------------------------------------------------- the invariant *)
(* frames top first: every frame's base is at most the height above it; bases never increase downwards *)
Fixpoint bases_ok (fs:list frame) (h:nat) : Prop :=
  match fs with [] => True | f :: r => f_base f <= h /\ bases_ok r (f_base f) end.
Definition Inv (c:context) : Prop := bases_ok (c_frames c) (length (c_values c)).
Definition RInv (r:rt) : Prop := Forall Inv (r_ctxs r).

Lemma bases_ok_mono fs h h' : bases_ok fs h -> h <= h' -> bases_ok fs h'.
Proof. destruct fs as [|f r]; cbn; intros H L; [exact I|]. destruct H; split; [lia|assumption]. Qed.

Lemma bases_ok_skipn k : forall fs h, bases_ok fs h -> bases_ok (skipn k fs) h.
Proof.
  induction k as [|k IH]; intros fs h H; [exact H|]. destruct fs as [|f r]; [exact I|].
  cbn [skipn]. destruct H as [L B]. apply IH. eapply bases_ok_mono; eauto.
Qed.

(* same bases, frame by frame *)
Definition same_bases (a b:list frame) : Prop := map f_base a = map f_base b.
Lemma bases_ok_same a b h : same_bases a b -> bases_ok a h -> bases_ok b h.
Proof.
  unfold same_bases. revert b h. induction a as [|f a IH]; intros [|g b] h E H; cbn in *; try discriminate; auto.
  injection E as E1 E2. destruct H as [L B]. rewrite <- E1. split; [assumption|]. apply IH; assumption.
Qed.

(* ---------------------------------------------------------------- primitive operations *)
Lemma inv_push_value c v : Inv c -> Inv (push_value c v).
Proof. unfold Inv, push_value. cbn. intros H. eapply bases_ok_mono; eauto. Qed.

Lemma inv_push_frame c f : Inv c -> Inv (push_frame c f).
Proof. unfold Inv, push_frame. cbn. intros H. split; [lia|exact H]. Qed.

Lemma pop_value_spec c v c' : pop_value c = Some (v, c') ->
  c_frames c' = c_frames c /\ c_values c = v :: c_values c' /\
  (match c_frames c with f :: _ => f_base f <= length (c_values c') | [] => False end) /\
  c_can_suspend c' = c_can_suspend c /\ c_weak c' = c_weak c /\ c_id c' = c_id c /\ c_terminate c' = c_terminate c
  /\ c_suspended c' = c_suspended c /\ c_wakeup c' = c_wakeup c.
Proof.
  unfold pop_value. destruct (c_values c) as [|x vs] eqn:EV; [discriminate|].
  destruct (c_frames c) as [|f fs] eqn:EF; [discriminate|].
  destruct (Nat.leb_spec (length (x :: vs)) (f_base f)) as [Hle|Hgt]; [discriminate|].
  intros HH; inversion HH; subst. cbn. rewrite EF. cbn in *. repeat split; auto. lia.
Qed.

Lemma inv_pop_value c v c' : Inv c -> pop_value c = Some (v, c') -> Inv c'.
Proof.
  intros I H. apply pop_value_spec in H. destruct H as (F & V & B & _). unfold Inv in *. rewrite F.
  destruct (c_frames c) as [|f fs]; [contradiction|]. cbn in *. rewrite V in I. cbn in I. destruct I. split; [lia|assumption].
Qed.

Lemma clear_values_spec c : Inv c ->
  c_frames (clear_values c) = c_frames c /\
  length (c_values (clear_values c)) = (match c_frames c with f :: _ => f_base f | [] => length (c_values c) end) /\
  (exists top, c_values c = top ++ c_values (clear_values c)).
Proof.
  unfold Inv, clear_values. destruct (c_frames c) as [|f fs] eqn:EF; cbn; intros I.
  - rewrite EF. repeat split; auto. exists []. reflexivity.
  - rewrite EF. destruct I as [L _]. repeat split; auto.
    + rewrite skipn_length. lia.
    + exists (firstn (length (c_values c) - f_base f) (c_values c)). symmetry. apply firstn_skipn.
Qed.

Lemma inv_clear_values c : Inv c -> Inv (clear_values c).
Proof.
  intros I. destruct (clear_values_spec c I) as (F & L & _). unfold Inv in *. rewrite F, L.
  destruct (c_frames c) as [|f fs]; cbn in *; [exact I|]. destruct I; split; [lia|assumption].
Qed.

Lemma inv_pop_frame c : Inv c -> Inv (pop_frame c).
Proof.
  unfold Inv, pop_frame. cbn. destruct (c_frames c) as [|f fs]; cbn; [auto|]. intros [L B]. eapply bases_ok_mono; eauto.
Qed.

Lemma inv_set_frames_same c fs : Inv c -> same_bases (c_frames c) fs -> Inv (set_frames c fs).
Proof. unfold Inv. cbn. intros I S. eapply bases_ok_same; eauto. Qed.

Lemma inv_upd_top c g : (forall f, f_base (g f) = f_base f) -> Inv c -> Inv (upd_top c g).
Proof.
  intros G I. unfold upd_top. destruct (c_frames c) as [|f fs] eqn:EF; [exact I|].
  apply inv_set_frames_same; [exact I|]. rewrite EF. unfold same_bases. cbn. now rewrite G.
Qed.

Lemma inv_set_values_same_len c vs : Inv c -> length (c_values c) <= length vs -> Inv (set_values c vs).
Proof. unfold Inv. cbn. intros. eapply bases_ok_mono; eauto. Qed.

Lemma inv_drop_frames c k : Inv c -> Inv (set_frames c (skipn k (c_frames c))).
Proof. unfold Inv. cbn. apply bases_ok_skipn. Qed.

Lemma inv_set_suspended c b w : Inv c -> Inv (set_suspended c b w). Proof. exact (fun H => H). Qed.
Lemma inv_set_terminate c b : Inv c -> Inv (set_terminate c b). Proof. exact (fun H => H). Qed.

Lemma assign_frames_same n v : forall fs fs', assign_frames n v fs = Some fs' -> same_bases fs fs'.
Proof.
  induction fs as [|f fs IH]; cbn; intros fs' H; [discriminate|].
  destruct (assoc n (f_vars f)).
  - inversion H; subst. reflexivity.
  - destruct (assign_frames n v fs) as [r|] eqn:E; [|discriminate]. inversion H; subst.
    unfold same_bases in *. cbn. f_equal. apply IH. reflexivity.
Qed.

Lemma inv_assign_local_var c n v : Inv c -> Inv (assign_local_var c n v).
Proof.
  intros I. unfold assign_local_var. destruct (assign_frames (lower n) v (c_frames c)) eqn:E.
  - apply inv_set_frames_same; [exact I|]. eapply assign_frames_same; eauto.
  - apply inv_upd_top; auto.
Qed.
Lemma inv_set_top_var c n v : Inv c -> Inv (set_top_var c n v).
Proof. intros. apply inv_upd_top; auto. Qed.
Lemma inv_declare_top_var c n : Inv c -> Inv (declare_top_var c n).
Proof. intros. apply inv_upd_top; auto. intros f. destruct (assoc (lower n) (f_vars f)); reflexivity. Qed.

Lemma inv_fold_declare l : forall c, Inv c ->
  Inv (fold_left (fun c' x => match x with VStr s => declare_top_var c' s | _ => c' end) l c).
Proof.
  induction l as [|x l IH]; cbn; intros c I; [exact I|]. apply IH. destruct x; auto using inv_declare_top_var.
Qed.

Lemma inv_pop_clearing k : forall c, Inv c -> Inv (pop_clearing k c).
Proof. induction k as [|k IH]; cbn; intros c I; [exact I|]. apply IH. apply inv_pop_frame, inv_clear_values, I. Qed.

Lemma inv_restart_with c vars : Inv c -> Inv (restart_with c vars).
Proof. intros. unfold restart_with. apply inv_upd_top; auto. apply inv_clear_values; assumption. Qed.

Lemma inv_list_upd_top c f' : Inv c ->
  (match c_frames c with f :: _ => f_base f' = f_base f | [] => True end) ->
  Inv (set_frames c (list_upd (c_frames c) 0 f')).
Proof.
  intros I H. apply inv_set_frames_same; [exact I|]. destruct (c_frames c) as [|f fs]; cbn; [reflexivity|].
  unfold same_bases. cbn. now rewrite H.
Qed.

Global Hint Resolve inv_push_value inv_push_frame inv_clear_values inv_pop_frame inv_upd_top inv_drop_frames
  inv_set_suspended inv_set_terminate inv_assign_local_var inv_set_top_var inv_declare_top_var inv_fold_declare
  inv_pop_clearing inv_restart_with : inv.

(* ---------------------------------------------------------------- operators *)
Ltac crunch :=
  repeat match goal with
  | H : Ok _ = Ok _ |- _ => inversion H; subst; try clear H
  | H : Unsupported _ = Ok _ |- _ => discriminate H
  | H : Hang _ = Ok _ |- _ => discriminate H
  | H : UB _ = Ok _ |- _ => discriminate H
  | H : context [bindr _ _] |- _ => unfold bindr in H
  | H : (match ?x with _ => _ end) = Ok _ |- _ => destruct x eqn:?
  end.

Lemma same_bases_list_upd : forall fs k f f', nth_error fs k = Some f -> f_base f' = f_base f ->
  same_bases fs (list_upd fs k f').
Proof.
  unfold same_bases. induction fs as [|g fs IH]; intros k f f' N B; destruct k; cbn in *; try discriminate.
  - inversion N; subst. now rewrite B.
  - f_equal. eapply IH; eauto.
Qed.

Lemma inv_err_enact r c k failed r' c' : err_enact r c k = Ok (failed, r', c') -> Inv c -> Inv c'.
Proof.
  unfold err_enact. intros H I.
  destruct (nth_error (c_frames c) k) as [f|] eqn:N; [|discriminate].
  destruct (f_err f) as [[h|h ex]|]; [| |inversion H; subst; exact I].
  - destruct (r_err r); [inversion H; subst; exact I|].
    destruct (pop_value c) as [[v c1]|] eqn:P; inversion H; subst; clear H.
    + assert (I1 : Inv c1) by (eapply inv_pop_value; eauto).
      apply pop_value_spec in P. destruct P as (F & _).
      apply inv_set_frames_same; [auto with inv|].
      destruct (clear_values_spec c1 I1) as (F2 & _). rewrite F2, F. eapply same_bases_list_upd; eauto.
    + apply inv_set_frames_same; [auto with inv|].
      destruct (clear_values_spec c I) as (F2 & _). rewrite F2. eapply same_bases_list_upd; eauto.
  - destruct ex; [inversion H; subst; exact I|].
    destruct (pop_value c) as [[v c1]|] eqn:P; inversion H; subst; clear H.
    + assert (I1 : Inv c1) by (eapply inv_pop_value; eauto).
      apply pop_value_spec in P. destruct P as (F & _).
      apply inv_set_frames_same; [auto with inv|].
      destruct (clear_values_spec c1 I1) as (F2 & _). rewrite F2, F. eapply same_bases_list_upd; eauto.
    + apply inv_set_frames_same; [auto with inv|].
      destruct (clear_values_spec c I) as (F2 & _). rewrite F2. eapply same_bases_list_upd; eauto.
Qed.

Lemma inv_op_throw r c v r' c' x : op_throw r c v = Ok (r', c', x) -> Inv c -> Inv c'.
Proof.
  unfold op_throw. intros H I.
  destruct (find_handler (c_frames c) 0) as [k|]; [|inversion H; subst; exact I].
  unfold bindr in H. destruct (err_enact r (push_value c (VTrace v)) k) as [[[failed r2] c2]| | |] eqn:E; try discriminate.
  assert (I2 : Inv c2) by (eapply inv_err_enact; eauto with inv).
  destruct failed.
  - destruct (Nat.ltb 0 (length (c_values c))).
    + destruct (pop_value c2) as [[y c3]|] eqn:P; inversion H; subst; [eapply inv_pop_value; eauto|assumption].
    + inversion H; subst; assumption.
  - inversion H; subst. auto with inv.
Qed.

Lemma inv_op_breakout r c v t r' c' x : op_breakout r c v t = Ok (r', c', x) -> Inv c -> Inv c'.
Proof.
  unfold op_breakout. intros H I.
  assert (D : forall k, Inv (set_frames c (skipn k (c_frames c)))) by (intro; apply inv_drop_frames; exact I).
  destruct (c_frames c) as [|f fs] eqn:EF; [discriminate|].
  destruct (String.eqb t "").
  - destruct (defect r "breakout_leaks_regions"); inversion H; subst; [exact (D 1)|auto with inv].
  - destruct (find_scope t (f :: fs) 0) as [k|]; [|inversion H; subst; exact I].
    destruct (defect r "breakout_leaks_regions"); inversion H; subst; [exact (D k)|auto with inv].
Qed.

Lemma inv_op_nular n r c r' c' x : op_nular n r c = Ok (r', c', x) -> Inv c -> Inv c'.
Proof. unfold op_nular. intros H I. crunch; assumption. Qed.

Lemma num_ok n v : num n = Ok v -> True. Proof. auto. Qed.

Lemma inv_op_unary n v r c r' c' x : op_unary n v r c = Ok (r', c', x) -> Inv c -> Inv c'.
Proof.
  unfold op_unary. intros H I.
  crunch; eauto using inv_op_throw, inv_op_breakout with inv.
Qed.

Lemma inv_op_binary n l v r c r' c' x : op_binary n l v r c = Ok (r', c', x) -> Inv c -> Inv c'.
Proof.
  unfold op_binary. intros H I.
  crunch; eauto using inv_op_throw, inv_op_breakout with inv.
Qed.

(* ---------------------------------------------------------------- the runtime level *)
Lemma rinv_same_ctxs r r' : r_ctxs r' = r_ctxs r -> RInv r -> RInv r'.
Proof. unfold RInv. intros ->. auto. Qed.

Lemma rinv_logmsg r d : RInv r -> RInv (logmsg r d).
Proof. apply rinv_same_ctxs. unfold logmsg. destruct (Z.leb (fst d) 1); reflexivity. Qed.
Lemma rinv_mark r s : RInv r -> RInv (mark r s). Proof. apply rinv_same_ctxs. reflexivity. Qed.
Lemma rinv_ns_set r ns n v : RInv r -> RInv (ns_set r ns n v). Proof. apply rinv_same_ctxs. reflexivity. Qed.
Lemma rinv_now r t r1 : now r = (t, r1) -> RInv r -> RInv r1.
Proof. unfold now. intros H; inversion H; subst. apply rinv_same_ctxs. reflexivity. Qed.
Lemma rinv_set_msgs r m : RInv r -> RInv (set_msgs r m). Proof. apply rinv_same_ctxs. reflexivity. Qed.
Lemma rinv_set_errflag r b : RInv r -> RInv (set_errflag r b). Proof. apply rinv_same_ctxs. reflexivity. Qed.
Lemma rinv_set_exit_req r b : RInv r -> RInv (set_exit_req r b). Proof. apply rinv_same_ctxs. reflexivity. Qed.
Lemma rinv_set_next_id r b : RInv r -> RInv (set_next_id r b). Proof. apply rinv_same_ctxs. reflexivity. Qed.
Lemma rinv_set_state r b : RInv r -> RInv (set_state r b). Proof. apply rinv_same_ctxs. reflexivity. Qed.
Lemma rinv_set_active r b : RInv r -> RInv (set_active r b). Proof. apply rinv_same_ctxs. reflexivity. Qed.
Lemma rinv_set_run r b : RInv r -> RInv (set_run r b). Proof. apply rinv_same_ctxs. reflexivity. Qed.
Lemma rinv_set_halt_req r b : RInv r -> RInv (set_halt_req r b). Proof. apply rinv_same_ctxs. reflexivity. Qed.
Lemma rinv_set_run_ts r b : RInv r -> RInv (set_run_ts r b). Proof. apply rinv_same_ctxs. reflexivity. Qed.
Lemma rinv_set_ctxs r l : Forall Inv l -> RInv (set_ctxs r l). Proof. unfold RInv. cbn. auto. Qed.

Lemma inv_new_context id b : Inv (new_context id b). Proof. unfold Inv. cbn. exact I. Qed.

Lemma rinv_spawn r nc : RInv r -> Inv nc -> RInv (set_ctxs r (r_ctxs r ++ [nc])).
Proof. intros R I. apply rinv_set_ctxs. apply Forall_app. split; [exact R|]. constructor; [exact I|constructor]. Qed.

Lemma rinv_map_terminate r id : RInv r ->
  RInv (set_ctxs r (map (fun y => if Nat.eqb (c_id y) id then set_terminate y true else y) (r_ctxs r))).
Proof.
  intros R. apply rinv_set_ctxs. unfold RInv in R. induction R as [|c l I _ IH]; cbn; constructor; auto.
  destruct (Nat.eqb (c_id c) id); auto.
Qed.

Lemma forall_list_upd {A} (P:A->Prop) : forall l i x, Forall P l -> P x -> Forall P (list_upd l i x).
Proof.
  induction l as [|a l IH]; intros i x F Px; cbn; [constructor|]. inversion F; subst.
  destruct i; constructor; auto.
Qed.
Lemma rinv_upd_cur r c : RInv r -> Inv c -> RInv (upd_cur r c).
Proof.
  intros R I. unfold upd_cur. destruct (r_active r); [|exact R]. apply rinv_set_ctxs. apply forall_list_upd; assumption.
Qed.
Lemma inv_cur r c : RInv r -> cur r = Some c -> Inv c.
Proof.
  unfold cur, RInv. intros R H. destruct (r_active r) as [i|]; [|discriminate].
  apply nth_error_In in H. rewrite Forall_forall in R. auto.
Qed.

Global Hint Resolve rinv_logmsg rinv_mark rinv_ns_set rinv_set_msgs rinv_set_errflag rinv_set_exit_req rinv_set_next_id
  rinv_set_state rinv_set_active rinv_set_run rinv_set_halt_req rinv_set_run_ts rinv_spawn rinv_map_terminate rinv_upd_cur
  inv_new_context : inv.

Lemma rinv_set_clock r b : RInv r -> RInv (set_clock r b). Proof. apply rinv_same_ctxs. reflexivity. Qed.
Global Hint Resolve rinv_set_clock : inv.

Ltac crunch2 :=
  repeat match goal with
  | H : Ok _ = Ok _ |- _ => inversion H; subst; try clear H
  | H : Unsupported _ = Ok _ |- _ => discriminate H
  | H : Hang _ = Ok _ |- _ => discriminate H
  | H : UB _ = Ok _ |- _ => discriminate H
  | H : context [bindr _ _] |- _ => unfold bindr in H
  | H : context [now _] |- _ => unfold now in H
  | H : (match (_, _) with _ => _ end) = Ok _ |- _ => cbv beta iota in H
  | H : (match ?x with _ => _ end) = Ok _ |- _ => destruct x eqn:?
  end.

Lemma rinv_err_enact r c k failed r' c' : err_enact r c k = Ok (failed, r', c') -> RInv r -> RInv r'.
Proof. unfold err_enact. intros H R. crunch2; assumption. Qed.

Lemma rinv_op_throw r c v r' c' x : op_throw r c v = Ok (r', c', x) -> RInv r -> RInv r'.
Proof.
  unfold op_throw. intros H R. crunch2; auto with inv.
  all: match goal with E : err_enact _ _ _ = Ok _ |- _ => apply rinv_err_enact in E; auto with inv end.
Qed.
Lemma rinv_op_breakout r c v t r' c' x : op_breakout r c v t = Ok (r', c', x) -> RInv r -> RInv r'.
Proof. unfold op_breakout. intros H R. crunch2; auto with inv. Qed.
Lemma rinv_op_nular n r c r' c' x : op_nular n r c = Ok (r', c', x) -> RInv r -> RInv r'.
Proof. unfold op_nular. intros H R. crunch2; auto with inv. Qed.
Lemma rinv_op_unary n v r c r' c' x : op_unary n v r c = Ok (r', c', x) -> RInv r -> RInv r'.
Proof.
  unfold op_unary. intros H R.
  crunch2; eauto using rinv_op_throw, rinv_op_breakout with inv.
Qed.
Lemma rinv_op_binary n l v r c r' c' x : op_binary n l v r c = Ok (r', c', x) -> RInv r -> RInv r'.
Proof.
  unfold op_binary. intros H R.
  crunch2; eauto using rinv_op_throw, rinv_op_breakout with inv.
Qed.

(* ---------------------------------------------------------------- instructions *)
Lemma inv_pop_args k : forall c acc vals c' ok, pop_args k c acc = (vals, c', ok) -> Inv c -> Inv c'.
Proof.
  induction k as [|k IH]; cbn; intros c acc vals c' ok H I; [inversion H; subst; exact I|].
  destruct (pop_value c) as [[v c1]|] eqn:P; [|inversion H; subst; exact I].
  eapply IH; eauto. eapply inv_pop_value; eauto.
Qed.

Lemma exec_instr_inv i r c r' c' : exec_instr i r c = Ok (r', c') -> RInv r -> Inv c -> RInv r' /\ Inv c'.
Proof.
  intros H R I. destruct i; cbn [exec_instr] in H.
  - (* push *) inversion H; subst. auto with inv.
  - (* get *) crunch2; auto with inv.
  - (* assign *)
    destruct (pop_value c) as [[v c1]|] eqn:P; [|inversion H; subst; auto with inv].
    assert (I1 : Inv c1) by (eapply inv_pop_value; eauto).
    crunch2; repeat match goal with |- context [match ?x with _ => _ end] => destruct x end; auto 6 with inv.
  - (* assign local *)
    destruct (pop_value c) as [[v c1]|] eqn:P.
    + assert (I1 : Inv c1) by (eapply inv_pop_value; eauto).
      crunch2; repeat match goal with |- context [match ?x with _ => _ end] => destruct x end; auto 6 with inv.
    + crunch2; auto with inv.
  - (* nular *)
    destruct (op_nular (lower n) r c) as [[[r1 c1] x]| | |] eqn:E; try discriminate.
    + cbn in H. inversion H; subst. split; [eapply rinv_op_nular; eauto|]. apply inv_push_value. eapply inv_op_nular; eauto.
    + destruct (has_nular (lower n)); discriminate.
  - (* unary *)
    destruct (pop_value c) as [[v c1]|] eqn:P; [|inversion H; subst; auto with inv].
    assert (I1 : Inv c1) by (eapply inv_pop_value; eauto).
    assert (D : forall v, (match op_unary (lower n) v r c1 with
                | Unsupported w => if has_unary (lower n) (type_of v) then Unsupported w
                                   else Ok (logmsg r d_UnknownInputTypeCombinationUnary, c1)
                | x => bindr x (fun '(r1, c2, y) => Ok (r1, push_value c2 y)) end) = Ok (r', c') -> RInv r' /\ Inv c').
    { intros v0 HH. destruct (op_unary (lower n) v0 r c1) as [[[r1 c2] y]|w|w|w] eqn:E; cbn [bindr] in HH; try discriminate.
      - inversion HH; subst. split; [eapply rinv_op_unary; eauto|apply inv_push_value; eapply inv_op_unary; eauto].
      - destruct (has_unary (lower n) (type_of v0)); [discriminate|]. inversion HH; subst. auto with inv. }
    destruct v; cbv beta iota in H; try (apply (D _ H)). inversion H; subst; auto with inv.
  - (* binary *)
    destruct (pop_value c) as [[v c1]|] eqn:P; [|inversion H; subst; auto with inv].
    assert (I1 : Inv c1) by (eapply inv_pop_value; eauto).
    assert (D : forall l v c2, Inv c2 -> (match op_binary (lower n) l v r c2 with
                | Unsupported w => if has_binary (lower n) (type_of l) (type_of v) then Unsupported w
                                   else Ok (logmsg r d_UnknownInputTypeCombinationBinary, c2)
                | x => bindr x (fun '(r1, c3, y) => Ok (r1, push_value c3 y)) end) = Ok (r', c') -> RInv r' /\ Inv c').
    { intros l0 v0 c2 I2 HH. destruct (op_binary (lower n) l0 v0 r c2) as [[[r1 c3] y]|w|w|w] eqn:E; cbn [bindr] in HH; try discriminate.
      - inversion HH; subst. split; [eapply rinv_op_binary; eauto|apply inv_push_value; eapply inv_op_binary; eauto].
      - destruct (has_binary (lower n) (type_of l0) (type_of v0)); [discriminate|]. inversion HH; subst. auto with inv. }
    assert (E2 : forall v, (match pop_value c1 with
                | Some (VNil, c2) => Ok (logmsg r d_NilValueFoundForRightArgumentWeak, c2)
                | Some (l, c2) => match op_binary (lower n) l v r c2 with
                                  | Unsupported w => if has_binary (lower n) (type_of l) (type_of v) then Unsupported w
                                                     else Ok (logmsg r d_UnknownInputTypeCombinationBinary, c2)
                                  | x => bindr x (fun '(r1, c3, y) => Ok (r1, push_value c3 y)) end
                | None => Ok (logmsg r (no_value_diag c d_NoValueFoundForRightArgument d_NoValueFoundForRightArgumentWeak), c1)
                end) = Ok (r', c') -> RInv r' /\ Inv c').
    { intros v0 HH. destruct (pop_value c1) as [[l c2]|] eqn:P2; [|inversion HH; subst; auto with inv].
      assert (I2 : Inv c2) by (eapply inv_pop_value; eauto).
      destruct l; cbv beta iota in HH; try (eapply D; [exact I2|exact HH]). inversion HH; subst; auto with inv. }
    destruct v; cbv beta iota in H; try (apply (E2 _ H)). inversion H; subst; auto with inv.
  - (* make array *)
    destruct (pop_args n c []) as [[vals c1] ok] eqn:E. inversion H; subst.
    assert (I1 : Inv c1) by (eapply inv_pop_args; eauto).
    split; [destruct ok; auto with inv|auto with inv].
  - (* end statement *) inversion H; subst. auto with inv.
Qed.

(* ---------------------------------------------------------------- behaviours and frame::next *)
Lemma enact_inv b r c br b' r' c' : enact b r c = Ok (br, b', r', c') -> RInv r -> Inv c -> RInv r' /\ Inv c'.
Proof.
  intros H R I. destruct b; cbn [enact] in H.
  all: try (destruct (pop_value c) as [[v c1]|] eqn:P;
            [assert (I1 : Inv c1) by (eapply inv_pop_value; eauto)|]).
  all: crunch2.
  all: repeat match goal with
       | H : (_, _) = (_, _) |- _ => inversion H; subst; try clear H
       | H : (match ?x with _ => _ end) = (_, _) |- _ => destruct x eqn:?
       end.
  all: split; auto 7 with inv.
Qed.

Lemma frame_next_inv : forall fuel r c fr r' c', frame_next fuel r c = Ok (fr, r', c') -> RInv r -> Inv c -> RInv r' /\ Inv c'.
Proof.
  induction fuel as [|fuel IH]; intros r c fr r' c' H R I; cbn [frame_next] in H; [discriminate|].
  destruct (c_frames c) as [|f rest] eqn:EF; [discriminate|].
  set (p := if at_end f then (FDone, f) else (if at_end (set_pos f (S (f_pos f))) then FDone else FOk, set_pos f (S (f_pos f)))) in H.
  assert (PB : f_base (snd p) = f_base f) by (unfold p; destruct (at_end f); reflexivity).
  destruct p as [res0 f1] eqn:EP. cbn [snd] in PB.
  assert (I1 : Inv (set_frames c (f1 :: rest))).
  { apply inv_set_frames_same; [exact I|]. rewrite EF. unfold same_bases. cbn. now rewrite PB. }
  destruct (f_exit f1) as [b|]; [|inversion H; subst; auto].
  destruct (andb (at_end f1) (negb (f_die f1))); [|inversion H; subst; auto].
  unfold bindr in H. destruct (enact b r (set_frames c (f1 :: rest))) as [[[[br b'] r2] c2]| | |] eqn:E; try discriminate.
  destruct (enact_inv _ _ _ _ _ _ _ E R I1) as [R2 I2].
  assert (I3 : Inv (upd_top c2 (fun f => set_exit f (Some b')))) by auto with inv.
  destruct br.
  - inversion H; subst; auto.
  - assert (I4 : Inv (clear_values (upd_top (upd_top c2 (fun f => set_exit f (Some b'))) (fun f => set_scope (set_pos f 0) ""))))
      by (apply inv_clear_values, inv_upd_top; [intros f0; reflexivity|exact I3]).
    destruct (top_code_empty _); [inversion H; subst; split; auto with inv|eapply IH; eauto].
  - inversion H; subst. split; auto with inv.
  - eapply IH; eauto. apply inv_upd_top; [intros f0; destruct b' as [|? [|] ? ?| | | | | | | |]; reflexivity|exact I3].
  - inversion H; subst; auto.
Qed.

Lemma handle_error_inv : forall fuel r c msgs skip b r' c',
  handle_error fuel r c msgs skip = Ok (b, r', c') -> RInv r -> Inv c -> RInv r' /\ Inv c'.
Proof.
  induction fuel as [|fuel IH]; intros r c msgs skip b r' c' H R I; cbn [handle_error] in H; [discriminate|].
  destruct (find_handler (skipn skip (c_frames c)) skip) as [k|]; [|inversion H; subst; auto].
  unfold bindr in H.
  match type of H with context [err_enact r ?cc 0] => destruct (err_enact r cc 0) as [[[failed r3] c3]| | |] eqn:E; try discriminate;
    assert (I3 : Inv c3) by (eapply inv_err_enact; [exact E|]; apply inv_drop_frames with (c := push_value c (VTrace (VArr (map (fun d => VNum (snd d)) msgs)))); auto with inv);
    assert (R3 : RInv r3) by (eapply rinv_err_enact; eauto) end.
  destruct failed; [|inversion H; subst; auto].
  eapply IH; eauto. destruct (pop_value c3) as [[y c4]|] eqn:P; [eapply inv_pop_value; eauto|exact I3].
Qed.

Lemma on_error_inv r b r' : on_error r = Ok (b, r') -> RInv r -> RInv r'.
Proof.
  unfold on_error. intros H R. destruct (cur (set_msgs r [])) as [c|] eqn:EC; [|discriminate].
  assert (I : Inv c) by (eapply inv_cur; [|exact EC]; auto with inv).
  unfold bindr in H.
  match type of H with context [handle_error ?f ?rr c ?m 0] => destruct (handle_error f rr c m 0) as [[[rec r2] c2]| | |] eqn:E; try discriminate end.
  destruct (handle_error_inv _ _ _ _ _ _ _ _ E) as [R2 I2]; auto with inv.
  destruct rec; inversion H; subst; auto 6 with inv.
Qed.

Definition rt_of (it:iter) : rt := match it with Continue r | Executed r | Return _ r => r end.

Lemma do_iter_inv r it : do_iter r = Ok it -> RInv r -> RInv (rt_of it).
Proof.
  unfold do_iter. intros H R.
  destruct (r_exit_req r); [inversion H; subst; exact R|].
  destruct (cur r) as [c|] eqn:EC; [|discriminate].
  assert (I : Inv c) by (eapply inv_cur; eauto).
  destruct (c_suspended c); [inversion H; subst; exact R|].
  destruct (c_frames c) as [|f0 fs0] eqn:EF; [inversion H; subst; exact R|].
  destruct (r_state r); try (inversion H; subst; exact R).
  unfold bindr in H. destruct (frame_next frame_fuel r c) as [[[fr r1] c1]| | |] eqn:E; try discriminate.
  destruct (frame_next_inv _ _ _ _ _ _ E R I) as [R1 I1].
  destruct (r_err r1).
  - destruct (on_error (upd_cur r1 c1)) as [[rec r2]| | |] eqn:E2; try discriminate.
    assert (R2 : RInv r2) by (eapply on_error_inv; eauto with inv).
    destruct rec; inversion H; subst; exact R2.
  - destruct fr; [destruct (Nat.eqb (length (c_frames c1)) (length (f0 :: fs0)))| |].
    + (* completion *)
      inversion H; subst. cbn [rt_of]. apply rinv_upd_cur; [exact R1|].
      destruct (pop_value c1) as [[v c2]|] eqn:P.
      * apply inv_push_value, inv_pop_frame, inv_clear_values. eapply inv_pop_value; eauto.
      * destruct (defect r "block_value_dropped"); [auto with inv|].
        match goal with |- Inv (match ?x with _ => _ end) => destruct x end; auto with inv.
    + (* FDone but frame count changed: falls to the instruction branch *)
      destruct (current_instr c1) as [i|]; [|discriminate].
      match type of H with context [if ?b then _ else _] => destruct b eqn:EZ end.
      * cbv beta iota zeta in H. destruct (exec_instr i r1 c1) as [[r3 c5]| | |] eqn:E3; try discriminate.
        destruct (exec_instr_inv _ _ _ _ _ E3 R1 I1) as [R3 I5].
        destruct (negb (r_err (upd_cur r3 c5))); [inversion H; subst; cbn [rt_of]; auto with inv|].
        destruct (on_error (upd_cur r3 c5)) as [[rec r5]| | |] eqn:E4; try discriminate.
        assert (R5 : RInv r5) by (eapply on_error_inv; eauto with inv).
        destruct rec; inversion H; subst; exact R5.
      * unfold now in H. cbv beta iota zeta in H.
        match type of H with context [if ?b then _ else _] => destruct b eqn:EX end.
        -- inversion H; subst. cbn [rt_of]. auto 10 with inv.
        -- destruct (exec_instr i (set_clock r1 (r_clock r1 + r_tick r1)) c1) as [[r3 c5]| | |] eqn:E3; try discriminate.
           destruct (exec_instr_inv _ _ _ _ _ E3 (rinv_set_clock _ _ R1) I1) as [R3 I5].
           destruct (negb (r_err (upd_cur r3 c5))); [inversion H; subst; cbn [rt_of]; auto with inv|].
           destruct (on_error (upd_cur r3 c5)) as [[rec r5]| | |] eqn:E4; try discriminate.
           assert (R5 : RInv r5) by (eapply on_error_inv; eauto with inv).
           destruct rec; inversion H; subst; exact R5.
    + destruct (current_instr c1) as [i|]; [|discriminate].
      match type of H with context [if ?b then _ else _] => destruct b eqn:EZ end.
      * cbv beta iota zeta in H. destruct (exec_instr i r1 c1) as [[r3 c5]| | |] eqn:E3; try discriminate.
        destruct (exec_instr_inv _ _ _ _ _ E3 R1 I1) as [R3 I5].
        destruct (negb (r_err (upd_cur r3 c5))); [inversion H; subst; cbn [rt_of]; auto with inv|].
        destruct (on_error (upd_cur r3 c5)) as [[rec r5]| | |] eqn:E4; try discriminate.
        assert (R5 : RInv r5) by (eapply on_error_inv; eauto with inv).
        destruct rec; inversion H; subst; exact R5.
      * unfold now in H. cbv beta iota zeta in H.
        match type of H with context [if ?b then _ else _] => destruct b eqn:EX end.
        -- inversion H; subst. cbn [rt_of]. auto 10 with inv.
        -- destruct (exec_instr i (set_clock r1 (r_clock r1 + r_tick r1)) c1) as [[r3 c5]| | |] eqn:E3; try discriminate.
           destruct (exec_instr_inv _ _ _ _ _ E3 (rinv_set_clock _ _ R1) I1) as [R3 I5].
           destruct (negb (r_err (upd_cur r3 c5))); [inversion H; subst; cbn [rt_of]; auto with inv|].
           destruct (on_error (upd_cur r3 c5)) as [[rec r5]| | |] eqn:E4; try discriminate.
           assert (R5 : RInv r5) by (eapply on_error_inv; eauto with inv).
           destruct rec; inversion H; subst; exact R5.
    + (* an empty scope restarted: deadline test only *)
      match type of H with context [if ?b then _ else _] => destruct b eqn:EZ end.
      * cbv beta iota zeta in H. inversion H; subst. cbn [rt_of]. auto with inv.
      * unfold now in H. cbv beta iota zeta in H.
        match type of H with context [if ?b then _ else _] => destruct b eqn:EX end;
          inversion H; subst; cbn [rt_of]; auto 10 with inv.
Qed.

(* ---------------------------------------------------------------- execute_do, the scheduler, actions *)
Lemma execute_do_inv : forall fuel r n x r', execute_do fuel r n = Ok (x, r') -> RInv r -> RInv r'.
Proof.
  induction fuel as [|fuel IH]; intros r n x r' H R; cbn [execute_do] in H; [discriminate|].
  destruct (r_exit_req r); [inversion H; subst; exact R|].
  destruct n as [|n]; [inversion H; subst; exact R|].
  unfold bindr in H. destruct (do_iter r) as [it| | |] eqn:E; try discriminate.
  pose proof (do_iter_inv _ _ E R) as R1.
  destruct it; cbn [rt_of] in R1; [eapply IH; eauto|eapply IH; eauto|inversion H; subst; exact R1].
Qed.

Lemma forall_remove_nth {A} (P:A->Prop) : forall l i, Forall P l -> Forall P (remove_nth l i).
Proof.
  induction l as [|a l IH]; intros i F; cbn; [constructor|]. inversion F; subst. destruct i; [assumption|constructor; auto].
Qed.

Lemma start_pass_inv : forall fuel r i x p, start_pass fuel r i x = Ok p -> RInv r ->
  RInv (match p with PassDone _ r' | PassExit _ r' => r' end).
Proof.
  induction fuel as [|fuel IH]; intros r i x p H R; cbn [start_pass] in H; [discriminate|].
  destruct (Nat.leb (length (r_ctxs r)) i); [inversion H; subst; exact R|].
  destruct (cur (set_active r (Some i))) as [c00|] eqn:EC; [|discriminate].
  assert (I00 : Inv c00) by (eapply inv_cur; [|exact EC]; auto with inv).
  set (c := if c_terminate c00 then set_suspended (set_values (set_frames c00 []) []) false (c_wakeup c00) else c00) in H.
  assert (I : Inv c) by (unfold c; destruct (c_terminate c00); [exact Logic.I|exact I00]).
  set (r0 := upd_cur (set_active r (Some i)) c) in H.
  assert (R0 : RInv r0) by (unfold r0; auto with inv).
  unfold bindr in H.
  match type of H with context [match ?s with Ok _ => _ | _ => _ end] => destruct s as [[x1 r2]| | |] eqn:ES; try discriminate end.
  assert (R2 : RInv r2).
  { destruct (c_suspended c).
    - unfold now in ES. cbv beta iota zeta in ES.
      match type of ES with context [if ?b then _ else _] => destruct b end.
      + eapply execute_do_inv; [exact ES|]. auto with inv.
      + match type of ES with context [if Z.eqb ?a ?b then _ else _] => destruct (Z.eqb a b) end.
        * cbv beta iota zeta in ES. inversion ES; subst. auto with inv.
        * unfold now in ES. cbv beta iota zeta in ES.
          match type of ES with context [if ?b then _ else _] => destruct b end; inversion ES; subst; auto 10 with inv.
    - eapply execute_do_inv; eauto. }
  destruct (r_exit_req r2); [inversion H; subst; apply rinv_set_state, rinv_set_ctxs; constructor|].
  destruct x1; try (inversion H; subst; exact R2).
  - (* REmpty: erase *)
    match type of H with context [remove_nth (r_ctxs ?r3) i] => assert (R3 : RInv r3) end.
    { destruct (cur r2) as [c2|]; [|exact R2]. destruct (c_values c2); [exact R2|].
      destruct (show true v); auto with inv. }
    match type of H with context [set_ctxs ?r3 (remove_nth (r_ctxs ?r3) i)] =>
      assert (R4 : RInv (set_ctxs r3 (remove_nth (r_ctxs r3) i))) by (apply rinv_set_ctxs, forall_remove_nth; exact R3) end.
    match type of H with context [match r_ctxs ?r4 with [] => _ | _ => _ end] => destruct (r_ctxs r4) eqn:EL end.
    + inversion H; subst. auto with inv.
    + eapply IH; eauto.
  - (* ROk *) eapply IH; eauto.
Qed.

Lemma start_loop_inv : forall fuel r x y r', start_loop fuel r x = Ok (y, r') -> RInv r -> RInv r'.
Proof.
  induction fuel as [|fuel IH]; intros r x y r' H R; cbn [start_loop] in H; [discriminate|].
  destruct (r_ctxs r) eqn:EL; [inversion H; subst; exact R|].
  unfold bindr in H. destruct (start_pass exec_fuel r 0 x) as [p| | |] eqn:E; try discriminate.
  pose proof (start_pass_inv _ _ _ _ _ E R) as RP.
  destruct p; [eapply IH; eauto|inversion H; subst; exact RP].
Qed.

Lemma finish_action_inv x r : RInv r -> RInv (finish_action x r).
Proof.
  intros R. unfold finish_action. apply rinv_set_run.
  assert (RS : RInv (state_of_result x r)) by (destruct x; cbn; auto with inv).
  destruct (r_exit_req (state_of_result x r)); [|exact RS].
  apply rinv_set_state, rinv_set_active, rinv_set_ctxs. constructor.
Qed.

Lemma begin_run_inv r : RInv r -> RInv (begin_run_if_empty r).
Proof. intros R. unfold begin_run_if_empty, now. destruct (r_state r); cbv beta iota zeta; auto 6 with inv. Qed.

Lemma resolve_active_inv r : RInv r -> RInv (resolve_active r).
Proof.
  intros R. unfold resolve_active. destruct (r_active r); [exact R|]. destruct (r_ctxs r) eqn:E; [|auto with inv].
  apply rinv_set_active, rinv_set_next_id, rinv_set_ctxs. constructor; [apply inv_new_context|constructor].
Qed.

(* every action preserves the invariant *)
Theorem execute_inv a r x r' : execute a r = Ok (x, r') -> RInv r -> RInv r'.
Proof.
  intros H R. destruct a; cbn [execute] in H.
  - destruct (r_run r); [inversion H; subst; exact R|]. unfold bindr in H.
    match type of H with context [start_loop ?f ?r0 ?y] => destruct (start_loop f r0 y) as [[z r1]| | |] eqn:E; try discriminate;
      assert (R1 : RInv r1) by (eapply start_loop_inv; [exact E|]; auto 8 using begin_run_inv with inv) end.
    inversion H; subst. apply finish_action_inv; exact R1.
  - destruct (r_state r); try (inversion H; subst; exact R). destruct (r_run r); inversion H; subst; auto with inv.
  - destruct (r_state r); try (inversion H; subst; exact R); destruct (r_run r); inversion H; subst; auto with inv.
    all: try exact R. all: apply rinv_set_run, rinv_set_state, rinv_set_active, rinv_set_ctxs; constructor.
  - destruct (r_run r); [inversion H; subst; exact R|]. unfold bindr in H.
    match type of H with context [execute_do ?f ?r0 1] => destruct (execute_do f r0 1) as [[z r1]| | |] eqn:E; try discriminate;
      assert (R1 : RInv r1) by (eapply execute_do_inv; [exact E|]; apply resolve_active_inv; auto 8 using begin_run_inv with inv) end.
    inversion H; subst. apply finish_action_inv; exact R1.
  - discriminate.
  - discriminate.
Qed.

Lemma load_inv r c : RInv r -> RInv (load r c).
Proof.
  intros R. unfold load. apply rinv_set_next_id, rinv_spawn; [exact R|]. apply inv_push_frame, inv_new_context.
Qed.
Lemma create_inv d m t l s : RInv (create_rt d m t l s).
Proof. unfold RInv. cbn. constructor. Qed.
