#!/usr/bin/env python3
"""Development helper (not run by the checks): regenerates Syntax/ParseEqs.v, the unfolding equations of the
mutually recursive parser functions, by copying their bodies out of Syntax/SyntaxDefs.v.  Each equation is
proved by reflexivity, so a stale copy cannot go unnoticed."""
import re, os
here = os.path.dirname(os.path.abspath(__file__))
s = open(os.path.join(here, "SyntaxDefs.v")).read()
start = s.index("Fixpoint p_exp (f:nat)")
end_ = s.index("(* parser.y:158-163 start: the whole input *)")
parts = re.split(r"\n(?=with p_)", s[start:end_])
out = ["(* Unfolding equations of the mutually recursive parser functions (bodies copied from SyntaxDefs.v by\n"
       "   Syntax/mk_parse_eqs.py; each is checked by reflexivity). *)\nFrom Coq Require Import ZArith List Bool Arith Lia.\n"
       "Import ListNotations.\nFrom SqfVerif Require Import Syntax.SyntaxDefs.\n\nSection Eqs.\nVariable d : defects.\n"]
for p in parts:
    m = re.match(r"(?:Fixpoint|with) (p_\w+) \(f:nat\)(.*?)\{struct f\} : (.*?) :=\n  match f with\n  \| O => POut\n  \| S f =>\n(.*)\n  end\.?\s*$", p, re.S)
    assert m, p[:80]
    name, args, ty, b = m.groups()
    argnames = re.findall(r"\((\w+):", args)
    for fn in ["p_exp", "p_loop", "p_items", "p_stmts", "p_stmt"]:
        b = re.sub(r"\b%s f\b" % fn, "%s d f" % fn, b)
    out.append("Lemma %s_S (f:nat) %s :\n  %s d (S f) %s =\n%s.\nProof. reflexivity. Qed.\n" % (name, args.strip(), name, " ".join(argnames), b))
    out.append("Lemma %s_O %s : %s d O %s = POut.\nProof. reflexivity. Qed.\n" % (name, args.strip(), name, " ".join(argnames)))
out.append("End Eqs.\n")
open(os.path.join(here, "ParseEqs.v"), "w").write("\n".join(out))
