(* Fuel monotonicity of the parser model: once an answer is not "out of fuel", more fuel never changes it. *)
From Coq Require Import ZArith List Bool Arith Lia.
Import ListNotations.
From SqfVerif Require Import Syntax.SyntaxDefs Syntax.ParseEqs.

Section Mono.
Variable d : defects.

Ltac use E IHe IHl IHi IHss IHs f' Hle :=
  first [ rewrite (IHe _ _ ltac:(rewrite E; discriminate) f' Hle)
        | rewrite (IHl _ _ _ ltac:(rewrite E; discriminate) f' Hle)
        | rewrite (IHi _ ltac:(rewrite E; discriminate) f' Hle)
        | rewrite (IHss _ ltac:(rewrite E; discriminate) f' Hle)
        | rewrite (IHs _ ltac:(rewrite E; discriminate) f' Hle) ]; rewrite E.

Ltac crunch H IHe IHl IHi IHss IHs f' Hle :=
  repeat match goal with
  | |- ?a = ?a => reflexivity
  | |- _ = POut => exfalso; apply H; reflexivity
  | |- _ = match ?x with _ => _ end =>
    lazymatch type of x with
    | pres _ => let E := fresh "E" in destruct x as [[? ?]| |] eqn:E;
                [ use E IHe IHl IHi IHss IHs f' Hle | use E IHe IHl IHi IHss IHs f' Hle | exfalso; apply H; reflexivity ]
    | _ => destruct x eqn:?
    end
  end;
  try (first [apply IHe|apply IHl|apply IHi|apply IHss|apply IHs]; assumption).

Lemma mono_gen : forall f,
  (forall k ts, p_exp d f k ts <> POut -> forall f', (f <= f')%nat -> p_exp d f' k ts = p_exp d f k ts) /\
  (forall k acc ts, p_loop d f k acc ts <> POut -> forall f', (f <= f')%nat -> p_loop d f' k acc ts = p_loop d f k acc ts) /\
  (forall ts, p_items d f ts <> POut -> forall f', (f <= f')%nat -> p_items d f' ts = p_items d f ts) /\
  (forall ts, p_stmts d f ts <> POut -> forall f', (f <= f')%nat -> p_stmts d f' ts = p_stmts d f ts) /\
  (forall ts, p_stmt d f ts <> POut -> forall f', (f <= f')%nat -> p_stmt d f' ts = p_stmt d f ts).
Proof.
  induction f as [|f (IHe & IHl & IHi & IHss & IHs)].
  { repeat split; intros; exfalso; apply H; reflexivity. }
  repeat split; intros until ts; intros H f' Hf; (destruct f' as [|f']; [lia|]);
    assert (Hle: (f <= f')%nat) by lia; clear Hf.
  - rewrite !p_exp_S in *. cbv zeta in *. crunch H IHe IHl IHi IHss IHs f' Hle.
  - rewrite !p_loop_S in *. crunch H IHe IHl IHi IHss IHs f' Hle.
  - rewrite !p_items_S in *. crunch H IHe IHl IHi IHss IHs f' Hle.
  - rewrite !p_stmts_S in *. crunch H IHe IHl IHi IHss IHs f' Hle.
  - rewrite !p_stmt_S in *. crunch H IHe IHl IHi IHss IHs f' Hle.
Qed.

Lemma mono_e f f' k ts r : p_exp d f k ts = POk r -> (f <= f')%nat -> p_exp d f' k ts = POk r.
Proof. intros E H. rewrite (proj1 (mono_gen f) k ts ltac:(rewrite E; discriminate) f' H). exact E. Qed.
Lemma mono_l f f' k acc ts r : p_loop d f k acc ts = POk r -> (f <= f')%nat -> p_loop d f' k acc ts = POk r.
Proof. intros E H. rewrite (proj1 (proj2 (mono_gen f)) k acc ts ltac:(rewrite E; discriminate) f' H). exact E. Qed.
Lemma mono_i f f' ts r : p_items d f ts = POk r -> (f <= f')%nat -> p_items d f' ts = POk r.
Proof. intros E H. rewrite (proj1 (proj2 (proj2 (mono_gen f))) ts ltac:(rewrite E; discriminate) f' H). exact E. Qed.
Lemma mono_ss_gen f f' ts : p_stmts d f ts <> POut -> (f <= f')%nat -> p_stmts d f' ts = p_stmts d f ts.
Proof. intros E H. exact (proj1 (proj2 (proj2 (proj2 (mono_gen f)))) ts E f' H). Qed.
Lemma mono_ss f f' ts r : p_stmts d f ts = POk r -> (f <= f')%nat -> p_stmts d f' ts = POk r.
Proof. intros E H. rewrite (mono_ss_gen f f' ts ltac:(rewrite E; discriminate) H). exact E. Qed.
Lemma mono_s f f' ts r : p_stmt d f ts = POk r -> (f <= f')%nat -> p_stmt d f' ts = POk r.
Proof. intros E H. rewrite (proj2 (proj2 (proj2 (proj2 (mono_gen f)))) ts ltac:(rewrite E; discriminate) f' H). exact E. Qed.

(* the whole parse: an answer other than "out of fuel" is the answer for every larger fuel *)
Lemma mono_parse f f' ts : parse_toks d f ts <> POut -> (f <= f')%nat -> parse_toks d f' ts = parse_toks d f ts.
Proof.
  unfold parse_toks. intros H Hle.
  assert (Hne: p_stmts d f ts <> POut) by (intros E; rewrite E in H; apply H; reflexivity).
  rewrite (mono_ss_gen f f' ts Hne Hle). reflexivity.
Qed.
(* ... and for every fuel the answer is that one or "out of fuel" *)
Lemma parse_stable f0 ts : parse_toks d f0 ts <> POut -> forall f, parse_toks d f ts = parse_toks d f0 ts \/ parse_toks d f ts = POut.
Proof.
  intros H f. destruct (Nat.le_ge_cases f0 f) as [Hle|Hle]; [left; apply mono_parse; assumption|].
  destruct (parse_toks d f ts) eqn:E; [left| left |right; reflexivity].
  - rewrite <- E. symmetry. apply mono_parse; [rewrite E; discriminate|assumption].
  - rewrite <- E. symmetry. apply mono_parse; [rewrite E; discriminate|assumption].
Qed.
End Mono.
