(* Unfolding equations of the mutually recursive parser functions (bodies copied from SyntaxDefs.v by
   Syntax/mk_parse_eqs.py; each is checked by reflexivity). *)
From Coq Require Import ZArith List Bool Arith Lia.
Import ListNotations.
From SqfVerif Require Import Syntax.SyntaxDefs.

Section Eqs.
Variable d : defects.

Lemma p_exp_S (f:nat) (k:nat) (ts:list tok) :
  p_exp d (S f) k ts =
    if (NLEV <=? k)%nat then
      match ts with
      | [] => PErr
      | t :: r =>
        (* a thunk: the extracted code is strict, the operand must only be parsed when the token is unary *)
        let unary := fun (_:unit) => match p_exp d f NLEV r with
                                     | POk (a, r') => POk (Un (tok_name t) a, r')
                                     | PErr => PErr | POut => POut
                                     end in
        match t with
        | TRoundO => match p_exp d f 0%nat r with
                     | POk (e, TRoundC :: r') => POk (e, r')
                     | POk _ => PErr
                     | PErr => PErr | POut => POut
                     end
        | TSquareO => match r with
                      | TSquareC :: r' => POk (Arr [], r')
                      | _ => match p_items d f r with
                             | POk (es, r') => POk (Arr es, r')
                             | PErr => PErr | POut => POut
                             end
                      end
        | TCurlyO => match p_stmts d f r with
                     | POk (ss, TCurlyC :: r') => POk (Code ss, r')
                     | POk _ => PErr
                     | PErr => PErr | POut => POut
                     end
        | TPrivate _ => unary tt
        | TOp CU _ | TOp (CBU _) _ => unary tt
        | TOp (CBUN _) s => if next_starts_expu r then unary tt else POk (Nul s, r)
        | TOp CUN s => if next_starts_expu r then unary tt
                       else if d_un_no_operand d then PErr else POk (Nul s, r)
        | TOp CN s | TOp (CBN _) s => POk (Nul s, r)
        | TOp (CB _) _ => PErr
        | TIdent s => POk (Var s, r)
        | TNumber s => POk (Lit (LNum s), r)
        | THex s => POk (Lit (LHex s), r)
        | TString s => POk (Lit (LStr s), r)
        | TTrue s => POk (Lit (LTrue s), r)
        | TFalse s => POk (Lit (LFalse s), r)
        | _ => PErr
        end
      end
    else
      match p_exp d f (S k) ts with
      | POk (l, r) => p_loop d f k l r
      | PErr => PErr | POut => POut
      end.
Proof. reflexivity. Qed.

Lemma p_exp_O (k:nat) (ts:list tok) : p_exp d O k ts = POut.
Proof. reflexivity. Qed.

Lemma p_loop_S (f:nat) (k:nat) (acc:tree) (ts:list tok) :
  p_loop d (S f) k acc ts =
    match ts with
    | o :: r => match binlevel o with
                | Some j => if (j =? k)%nat then
                              match p_exp d f (S k) r with
                              | POk (x, r') => p_loop d f k (Bin k (tok_name o) acc x) r'
                              | PErr => PErr | POut => POut
                              end
                            else POk (acc, ts)
                | None => POk (acc, ts)
                end
    | [] => POk (acc, ts)
    end.
Proof. reflexivity. Qed.

Lemma p_loop_O (k:nat) (acc:tree) (ts:list tok) : p_loop d O k acc ts = POut.
Proof. reflexivity. Qed.

Lemma p_items_S (f:nat) (ts:list tok) :
  p_items d (S f) ts =
    match p_exp d f 0%nat ts with
    | POk (e, TComma :: r) => match p_items d f r with
                              | POk (es, r') => POk (e :: es, r')
                              | PErr => PErr | POut => POut
                              end
    | POk (e, TSquareC :: r) => POk ([e], r)
    | POk _ => PErr
    | PErr => PErr | POut => POut
    end.
Proof. reflexivity. Qed.

Lemma p_items_O (ts:list tok) : p_items d O ts = POut.
Proof. reflexivity. Qed.

Lemma p_stmts_S (f:nat) (ts:list tok) :
  p_stmts d (S f) ts =
    match skip_seps ts with
    | [] => POk ([], [])
    | TCurlyC :: r => POk ([], TCurlyC :: r)
    | ts' =>
      match p_stmt d f ts' with
      | POk (s, r) =>
        match r with
        | t :: _ => if is_sep t then
                      match p_stmts d f r with
                      | POk (ss, r') => POk (s :: ss, r')
                      | PErr => PErr | POut => POut
                      end
                    else POk ([s], r)
        | [] => POk ([s], r)
        end
      | PErr => PErr | POut => POut
      end
    end.
Proof. reflexivity. Qed.

Lemma p_stmts_O (ts:list tok) : p_stmts d O ts = POut.
Proof. reflexivity. Qed.

Lemma p_stmt_S (f:nat) (ts:list tok) :
  p_stmt d (S f) ts =
    match p_exp d f 0%nat ts with
    | POk (e, TEqual :: r) =>
      match ts with
      | TPrivate _ :: TIdent x :: TEqual :: _ =>            (* parser.y:225 "private" IDENT "=" expression *)
        match p_exp d f 0%nat r with
        | POk (e', r') => POk (SLocal x e', r')
        | PErr => PErr | POut => POut
        end
      | _ =>
        if is_value_tree e && negb (starts_paren ts) then   (* parser.y:226 value "=" expression *)
          match p_exp d f 0%nat r with
          | POk (e', r') => POk (SAssign e e', r')
          | PErr => PErr | POut => POut
          end
        else POk (SExpr e, TEqual :: r)
      end
    | POk (e, r) => POk (SExpr e, r)
    | PErr => PErr | POut => POut
    end.
Proof. reflexivity. Qed.

Lemma p_stmt_O (ts:list tok) : p_stmt d O ts = POut.
Proof. reflexivity. Qed.

End Eqs.
