(* Token-level idempotence of the lexer model: every token lex1 produces from ANY text lexes back as itself
   (LexProofs.tok_ok), for every token kind - names, keywords, operators, brackets and separators, hexadecimal
   numbers, terminated strings - under an explicit decidable condition `well_term` on the token that only bites for
   an unterminated string (tokenizer.hpp:271-338 runs to the end of the input) and for a number token (the
   dangling-`e` shape `1e` `+` of tokenizer.hpp:369-395; for numbers the condition is the computed re-lex of the
   token text, it is not characterised by shape here). *)
From Coq Require Import ZArith List Bool Arith Lia.
Import ListNotations.
From SqfVerif Require Import Syntax.SyntaxDefs Syntax.LexProofs Syntax.CompileProofs Syntax.CodeRoundtrip
  Syntax.PrettyRoundtrip Syntax.PrettySpelling Syntax.ParseSound.
Local Open Scope Z_scope.

Definition num_relex (n:text) : bool :=
  match lex1 n with L1Tok (RNum a) [] => text_eqb a n | _ => false end.
Definition well_term (t:rtok) : bool :=
  match t with
  | RStr s => str_closed s
  | RNum n => num_relex n
  | _ => true
  end.

Lemma num_relex_ok n : num_relex n = true -> tok_ok (RNum n).
Proof.
  unfold num_relex. intros H. split; [|exact I]. cbn [rtok_text].
  destruct (lex1 n) as [t rest| | |]; try discriminate. destruct t; try discriminate. destruct rest; try discriminate.
  apply text_eqb_eq in H. subst. reflexivity.
Qed.

(* ---------- spans ---------- *)
Lemma span_spec p s : s = fst (span p s) ++ snd (span p s) /\ forallb p (fst (span p s)) = true /\
  match snd (span p s) with [] => True | c :: _ => p c = false end.
Proof.
  induction s as [|c r IH]; cbn [span]; [repeat split|].
  destruct (p c) eqn:E; [|cbn; rewrite E; repeat split].
  destruct (span p r) as [a b]. cbn [fst snd] in *. destruct IH as (H1 & H2 & H3).
  cbn [app forallb]. rewrite E, H2, <- H1. repeat split. exact H3.
Qed.
Lemma span_all_id p a : forallb p a = true -> span p a = (a, []).
Proof.
  induction a as [|c a IH]; cbn [forallb span]; [reflexivity|]. intros H. apply andb_prop in H. destruct H as [Hc Ha].
  rewrite Hc, (IH Ha). reflexivity.
Qed.

(* ---------- operators: finitely many spellings ---------- *)
Lemma op_tok s n : op_len s = S n -> tok_ok (ROp (firstn (S n) s)).
Proof.
  destruct s as [|a [|b t]].
  - cbn. discriminate.
  - intros En. assert (Ha: In a one_char_ops) by (apply op_len_one; rewrite En; discriminate).
    replace (firstn (S n) [a]) with [a] by (destruct n; reflexivity).
    unfold one_char_ops in Ha. cbn [In] in Ha.
    repeat (destruct Ha as [<-|Ha]; [split; [reflexivity|exact I]|]). destruct Ha.
  - change (op_len (a :: b :: t)) with (op_len [a; b]). intros En.
    unfold op_len, starts2, starts1 in En.
    repeat match type of En with context[?x =? ?k] => destruct (Z.eqb_spec x k); [subst|] end;
      cbn in En; try congruence; try lia; injection En as <-; cbn [firstn]; (split; [reflexivity|exact I]).
Qed.
Lemma lex_op_tok_ok s t rest : lex_op s = L1Tok t rest -> tok_ok t.
Proof.
  unfold lex_op. destruct (op_len s) as [|n] eqn:En; [discriminate|]. intros H. injection H as <- _. apply op_tok. exact En.
Qed.

(* ---------- names and keywords ---------- *)
Lemma ident_start_char c : is_ident_start c = true -> is_ident_char c = true.
Proof. unfold is_ident_start, is_ident_char. destruct (is_alpha c), (c =? 95); cbn; try discriminate; intros _; rewrite ?orb_true_r; reflexivity. Qed.

Lemma kw_match_app kw : forall s a b, kw_match kw s = Some (a, b) -> s = a ++ b.
Proof.
  induction kw as [|k kw IH]; intros s a b H.
  - destruct s as [|c r]; cbn [kw_match] in H; [injection H as <- <-; reflexivity|].
    destruct (is_ident_char c); [discriminate|]. injection H as <- <-. reflexivity.
  - destruct s as [|c r]; cbn [kw_match] in H; [discriminate|].
    destruct (lowc c =? k); [|discriminate]. destruct (kw_match kw r) as [[a' b']|] eqn:E; [|discriminate].
    injection H as <- <-. cbn [app]. rewrite (IH _ _ _ E). reflexivity.
Qed.
Lemma kw_match_none_prefix kw : forall a b, kw_match kw (a ++ b) = None -> forallb is_ident_char a = true ->
  (match b with [] => True | c :: _ => is_ident_char c = false end) -> kw_match kw a = None.
Proof.
  induction kw as [|k kw IH]; intros a b H Ha Hb.
  - destruct a as [|c a'].
    + cbn [app] in H. destruct b as [|c b']; cbn [kw_match] in H; [discriminate|]. rewrite Hb in H. discriminate.
    + cbn [forallb] in Ha. apply andb_prop in Ha. destruct Ha as [Hc _]. cbn [kw_match]. rewrite Hc. reflexivity.
  - destruct a as [|c a']; [reflexivity|]. cbn [app kw_match] in *. cbn [forallb] in Ha. apply andb_prop in Ha. destruct Ha as [_ Ha].
    destruct (lowc c =? k); [|reflexivity].
    destruct (kw_match kw (a' ++ b)) as [[x y]|] eqn:E; [discriminate|]. rewrite (IH a' b E Ha Hb). reflexivity.
Qed.

Definition is_str (t:rtok) : bool := match t with RStr _ => true | _ => false end.

Lemma ident_idem c r t rest : is_ident_start c = true -> lex_ident (c :: r) = L1Tok t rest ->
  exists a', t = RIdent (c :: a') /\ lex_ident (c :: a') = L1Tok t [] /\
             c :: r = (c :: a') ++ rest /\ forallb is_ident_char (c :: a') = true /\
             match rest with [] => True | y :: _ => is_ident_char y = false end.
Proof.
  intros Hc H. unfold lex_ident in H. pose proof (span_spec is_ident_char (c :: r)) as (S1 & S2 & S3).
  destruct (span is_ident_char (c :: r)) as [a b] eqn:Es. cbn [fst snd] in *. injection H as <- <-.
  cbn [span] in Es. rewrite (ident_start_char c Hc) in Es. destruct (span is_ident_char r) as [a' b'] eqn:Er.
  injection Es as <- <-. exists a'. split; [reflexivity|]. split; [|repeat split; assumption].
  unfold lex_ident. rewrite (span_all_id _ _ S2). reflexivity.
Qed.

Lemma kw_idem kw mk c r t rest : kw <> [] -> (forall a, rtok_text (mk a) = a) -> (forall a, is_str (mk a) = false) ->
  is_ident_start c = true -> lex_kw_or_ident kw mk (c :: r) = L1Tok t rest ->
  exists a', rtok_text t = c :: a' /\ lex_kw_or_ident kw mk (c :: a') = L1Tok t [] /\ is_str t = false.
Proof.
  intros Hkw Hmk Hms Hc H. unfold lex_kw_or_ident in H. destruct (kw_match kw (c :: r)) as [[a b]|] eqn:E.
  - injection H as <- <-. pose proof (kw_match_app _ _ _ _ E) as Happ. pose proof (kw_match_sound _ _ _ _ E) as Hl.
    destruct a as [|c0 a']; [cbn in Hl; congruence|]. cbn [app] in Happ. injection Happ as <- _.
    exists a'. rewrite Hmk. split; [reflexivity|]. split; [|apply Hms].
    unfold lex_kw_or_ident. rewrite (kw_match_full _ _ Hl). reflexivity.
  - destruct (ident_idem c r t rest Hc H) as (a' & -> & Hi & Happ & Hall & Hrest).
    exists a'. split; [reflexivity|]. split; [|reflexivity].
    unfold lex_kw_or_ident. rewrite Happ in E. rewrite (kw_match_none_prefix _ _ _ E Hall Hrest). exact Hi.
Qed.

Theorem lex1_name_idem c r t rest : is_ident_start c = true -> lex1 (c :: r) = L1Tok t rest -> tok_ok t.
Proof.
  intros Hc H. rewrite lex1_ident_start in H by exact Hc.
  assert (K: exists a', rtok_text t = c :: a' /\ is_str t = false /\
             (if lowc c =? 102 then lex_kw_or_ident kw_false RFalse (c :: a') else
              if lowc c =? 116 then lex_kw_or_ident kw_true RTrue (c :: a') else
              if lowc c =? 112 then lex_kw_or_ident kw_private RPrivate (c :: a') else lex_ident (c :: a')) = L1Tok t []).
  { destruct (lowc c =? 102).
    { destruct (kw_idem kw_false RFalse c r t rest ltac:(discriminate) ltac:(reflexivity) ltac:(reflexivity) Hc H) as (a' & H1 & H2 & H3). eauto. }
    destruct (lowc c =? 116).
    { destruct (kw_idem kw_true RTrue c r t rest ltac:(discriminate) ltac:(reflexivity) ltac:(reflexivity) Hc H) as (a' & H1 & H2 & H3). eauto. }
    destruct (lowc c =? 112).
    { destruct (kw_idem kw_private RPrivate c r t rest ltac:(discriminate) ltac:(reflexivity) ltac:(reflexivity) Hc H) as (a' & H1 & H2 & H3). eauto. }
    destruct (ident_idem c r t rest Hc H) as (a' & -> & Hi & _). exists a'. auto. }
  destruct K as (a' & Ht & Hs & Hl). split.
  - rewrite Ht, lex1_ident_start by exact Hc. exact Hl.
  - destruct t; try exact I. discriminate.
Qed.

(* ---------- hexadecimal numbers, strings ---------- *)
Lemma hex_tok c r a b : lex_hex (c :: r) = Some (a, b) -> (c =? 48) = true \/ (c =? 36) = true -> tok_ok (RHex a).
Proof.
  intros H Hc. split; [|exact I]. cbn [rtok_text]. unfold lex_hex in H.
  destruct (Z.eqb_spec c 36) as [->|Hne].
  - pose proof (span_spec is_hexdigit r) as (_ & S2 & _). destruct (span is_hexdigit r) as [dg r'] eqn:Es. cbn [fst] in S2.
    destruct dg as [|d0 dg]; [discriminate|]. injection H as <- _.
    remember (d0 :: dg) as dd eqn:Ed. unfold lex1. cbn. rewrite (span_all_id _ _ S2). rewrite Ed. reflexivity.
  - destruct Hc as [Hc|Hc]; [|discriminate]. apply Z.eqb_eq in Hc. subst c.
    destruct r as [|x r2]; [discriminate|]. destruct (Z.eqb_spec x 120) as [->|]; [|discriminate].
    pose proof (span_spec is_hexdigit r2) as (_ & S2 & _). destruct (span is_hexdigit r2) as [dg r'] eqn:Es. cbn [fst] in S2.
    destruct dg as [|d0 dg]; [discriminate|]. injection H as <- _.
    remember (d0 :: dg) as dd eqn:Ed. unfold lex1. cbn. rewrite (span_all_id _ _ S2). rewrite Ed. reflexivity.
Qed.
Lemma scan_closed q a : closed q a = true -> scan_str q a = (a, []).
Proof. intros H. pose proof (scan_str_local q [] I (length a) a (le_n _) H) as E. rewrite app_nil_r in E. exact E. Qed.
Lemma str_tok c a : ((c =? 34) || (c =? 39)) = true -> closed c a = true -> tok_ok (RStr (c :: a)).
Proof.
  intros Hc Hcl. split; [|exact Hcl]. cbn [rtok_text].
  destruct (Z.eqb_spec c 34) as [->|]; [|destruct (Z.eqb_spec c 39) as [->|]; [|discriminate]];
    unfold lex1; cbn; rewrite (scan_closed _ _ Hcl); reflexivity.
Qed.

(* ---------- every other first character ---------- *)
Theorem lex1_other_idem c r t rest : is_ident_start c = false -> lex1 (c :: r) = L1Tok t rest -> well_term t = true -> tok_ok t.
Proof.
  intros Hc H Hw. unfold lex1 in H.
  destruct (is_ws c); [discriminate|].
  destruct (Z.eqb_spec (lowc c) 102) as [E|_]; [rewrite (lowc_lower_start c 102 eq_refl E) in Hc; discriminate|].
  destruct (Z.eqb_spec (lowc c) 116) as [E|_]; [rewrite (lowc_lower_start c 116 eq_refl E) in Hc; discriminate|].
  destruct (Z.eqb_spec (lowc c) 112) as [E|_]; [rewrite (lowc_lower_start c 112 eq_refl E) in Hc; discriminate|].
  rewrite Hc in H.
  assert (NUM: lex_num (c :: r) = L1Tok t rest -> tok_ok t).
  { unfold lex_num. intros Hn. destruct (lex_number (c :: r)) as [[n r']|]; [|discriminate]. injection Hn as <- _.
    apply num_relex_ok. exact Hw. }
  destruct (c =? 48) eqn:E48.
  { destruct (lex_hex (c :: r)) as [[a b]|] eqn:Eh; [injection H as <- _; eapply hex_tok; [exact Eh|left; exact E48]|apply NUM; exact H]. }
  destruct (is_digit c); [apply NUM; exact H|].
  destruct (c =? 46); [apply NUM; exact H|].
  destruct ((c =? 43) || (c =? 45)); [eapply lex_op_tok_ok; exact H|].
  destruct (c =? 47).
  { destruct (starts1 47 r || starts1 42 r); [discriminate|eapply lex_op_tok_ok; exact H]. }
  destruct (c =? 35).
  { destruct (kw_match kw_line (c :: r)); [discriminate|eapply lex_op_tok_ok; exact H]. }
  destruct (c =? 36) eqn:E36.
  { destruct (lex_hex (c :: r)) as [[a b]|] eqn:Eh; [injection H as <- _; eapply hex_tok; [exact Eh|right; exact E36]|discriminate]. }
  destruct (c =? 61).
  { destruct (starts1 61 r); [eapply lex_op_tok_ok; exact H|injection H as <- _; split; [reflexivity|exact I]]. }
  destruct ((c =? 34) || (c =? 39)) eqn:Eq.
  { destruct (scan_str c r) as [a b] eqn:Es. injection H as <- _. apply str_tok; [exact Eq|exact Hw]. }
  repeat match type of H with context[if ?x then _ else _] => destruct x end;
    try discriminate; try (eapply lex_op_tok_ok; exact H); try (injection H as <- _; split; [reflexivity|exact I]).
Qed.

Theorem lex1_idem s t rest : lex1 s = L1Tok t rest -> well_term t = true -> tok_ok t.
Proof.
  destruct s as [|c r]; [discriminate|]. intros H Hw. destruct (is_ident_start c) eqn:Hc.
  - eapply lex1_name_idem; eassumption.
  - eapply lex1_other_idem; eassumption.
Qed.

(* ---------- the whole token list ---------- *)
Lemma lex_f_idem : forall f s ts, lex_f f s = LexOk ts -> forallb well_term ts = true -> Forall tok_ok ts.
Proof.
  induction f as [|f IH]; intros s ts H Hw.
  - destruct s; cbn in H; [injection H as <-; constructor|discriminate].
  - destruct s as [|c r]; [cbn in H; injection H as <-; constructor|].
    cbn [lex_f] in H. destruct (lex1 (c :: r)) as [t rest|rest| |] eqn:E1; try discriminate.
    + unfold lex_cons in H. destruct (lex_f f rest) as [ts'| | |] eqn:E2; try discriminate. injection H as <-.
      cbn [forallb] in Hw. apply andb_prop in Hw. destruct Hw as [Hw1 Hw2].
      constructor; [eapply lex1_idem; eassumption|eapply IH; eassumption].
    + eapply IH; eassumption.
Qed.

(* a decidable condition on the text: it has no unterminated string and every number token re-lexes as itself *)
Definition text_well_terminated (s:text) : bool :=
  match lex s with LexOk ts => forallb well_term ts | _ => true end.
Theorem well_terminated_spelled s : text_well_terminated s = true -> src_spelled s.
Proof.
  unfold text_well_terminated, src_spelled. intros H ts E. rewrite E in H. unfold lex in E. eapply lex_f_idem; eassumption.
Qed.
(* and conversely the condition is necessary for the tokens to read as themselves *)
Theorem spelled_well_terminated s : src_spelled s -> text_well_terminated s = true.
Proof.
  unfold text_well_terminated, src_spelled. intros H. destruct (lex s) as [ts| | |]; try reflexivity.
  specialize (H ts eq_refl). apply forallb_forall. intros t Ht. rewrite Forall_forall in H. specialize (H t Ht).
  destruct t; try reflexivity; cbn [well_term].
  - destruct H as [_ H]. exact H.
  - destruct H as [H _]. cbn [rtok_text] in H. unfold num_relex. rewrite H.
    clear. induction s0 as [|x s0 IH]; [reflexivity|]. cbn [text_eqb]. rewrite Z.eqb_refl. exact IH.
Qed.

(* C06 over source texts, with the decidable condition *)
Theorem pretty_roundtrip_text_dec : forall (d:defects) (R:registry) (f1:nat) (s:text) (ss:list stmt),
  parse_text d R f1 s = FOk ss -> text_well_terminated s = true -> forallb tv_stmt ss = true -> reg_ok d R ->
  exists f0, forall f, (f0 <= f)%nat ->
    parse_text d R f (pieces_text (pretty_program ss)) = FOk (map pnorm_stmt ss) /\
    exists c, compile_block ss = Some c /\ compile_block (map pnorm_stmt ss) = Some (map (mapl_i hexnorm) c).
Proof. intros d R f1 s ss H Hw. apply (pretty_roundtrip_text d R f1 s ss H). apply well_terminated_spelled. exact Hw. Qed.

Theorem code_roundtrip_text_dec : forall (d:defects) (R:registry) (show_lit:lit -> lit) (f1:nat) (s:text) (ss:list stmt),
  parse_text d R f1 s = FOk ss -> text_well_terminated s = true -> forallb tv_stmt ss = true -> reg_ok d R -> show_kind_ok show_lit ->
  exists c, compile_block ss = Some c /\
  exists ps, reconstruct show_lit c = Some ps /\
    (toks_ok ps ->
     exists f0, forall f, (f0 <= f)%nat ->
       exists ss', parse_text d R f (pieces_text ps) = FOk [SExpr (Code ss')] /\
                   compile_block ss' = Some (map (mapl_i show_lit) c)).
Proof. intros d R show_lit f1 s ss H Hw. apply (code_roundtrip_text d R show_lit f1 s ss H). apply well_terminated_spelled. exact Hw. Qed.

Example ex_src_well_terminated : text_well_terminated ex_src = true.
Proof. vm_compute. reflexivity. Qed.
Example witnesses_not_well_terminated : text_well_terminated w_string = false /\ text_well_terminated w_number = false /\ text_well_terminated w_target = true.
Proof. vm_compute. repeat split. Qed.
