(* C06, code half, pretty printer: the spelling hypothesis of PrettyRoundtrip.pretty_roundtrip moved to the input.
   The formatter writes the tokens of its input, except that it lowers the names of unary and binary operators
   and writes `$ff` as `0xff` (sqf_formatter.cpp:38-40, 49-51, 65-71).  A token that reads as itself still does
   after this respelling, so: if every token of the program reads as itself (`spelled`), so does every token of
   the printed text. *)
From Coq Require Import ZArith List Bool Arith Lia.
Import ListNotations.
From SqfVerif Require Import Syntax.SyntaxDefs Syntax.LexProofs Syntax.CompileProofs Syntax.CodeRoundtrip Syntax.PrettyRoundtrip.
Local Open Scope Z_scope.

(* ------------------------------------------------------------------ lower-casing a name keeps it readable *)
Lemma is_ident_char_lowc c : is_ident_char (lowc c) = is_ident_char c.
Proof.
  unfold is_ident_char, is_alpha, lowc. destruct (is_upper c) eqn:U; [|rewrite U; reflexivity].
  assert (L: is_lower (c + 32) = true).
  { unfold is_upper, is_lower in *. apply andb_prop in U. destruct U as [U1 U2]. apply Z.leb_le in U1, U2.
    apply andb_true_intro. split; apply Z.leb_le; lia. }
  rewrite L, orb_true_r. reflexivity.
Qed.
Lemma ident_start_not_ws c : is_ident_start c = true -> is_ws c = false.
Proof.
  unfold is_ident_start, is_alpha, is_upper, is_lower, is_ws. intros H.
  destruct (Z.eqb_spec c 32), (Z.eqb_spec c 10), (Z.eqb_spec c 13), (Z.eqb_spec c 9); try reflexivity; subst; discriminate.
Qed.
Lemma not_ident_start_not_upper c : is_ident_start c = false -> is_upper c = false.
Proof. unfold is_ident_start, is_alpha. destruct (is_upper c); [discriminate|reflexivity]. Qed.

Lemma kw_match_lower kw : forall s,
  kw_match kw (lower s) = match kw_match kw s with Some (a, b) => Some (lower a, lower b) | None => None end.
Proof.
  induction kw as [|k kw IH]; intros s.
  - destruct s as [|c r]; [reflexivity|]. cbn [lower map kw_match]. fold (lower r). rewrite is_ident_char_lowc.
    destruct (is_ident_char c); reflexivity.
  - destruct s as [|c r]; [reflexivity|]. cbn [lower map kw_match]. fold (lower r). rewrite lowc_idem.
    destruct (lowc c =? k); [|reflexivity]. rewrite IH. destruct (kw_match kw r) as [[a b]|]; reflexivity.
Qed.
Lemma span_ident_lower s : span is_ident_char (lower s) = (lower (fst (span is_ident_char s)), lower (snd (span is_ident_char s))).
Proof.
  induction s as [|c r IH]; [reflexivity|]. cbn [lower map span]. fold (lower r). rewrite is_ident_char_lowc.
  destruct (is_ident_char c); [|reflexivity]. rewrite IH. destruct (span is_ident_char r) as [a b]. reflexivity.
Qed.
Lemma lex_ident_lower s : lex_ident s = L1Tok (RIdent s) [] -> lex_ident (lower s) = L1Tok (RIdent (lower s)) [].
Proof.
  unfold lex_ident. rewrite span_ident_lower. destruct (span is_ident_char s) as [a b]. intros H. injection H as -> ->. reflexivity.
Qed.
Lemma lex_kw_lower kw mk s : (forall a x, mk a <> RIdent x) ->
  lex_kw_or_ident kw mk s = L1Tok (RIdent s) [] -> lex_kw_or_ident kw mk (lower s) = L1Tok (RIdent (lower s)) [].
Proof.
  unfold lex_kw_or_ident. intros Hmk. rewrite kw_match_lower. destruct (kw_match kw s) as [[a b]|].
  - intros H. injection H as H _. exfalso. exact (Hmk _ _ H).
  - apply lex_ident_lower.
Qed.
Lemma lex1_ident_start c r : is_ident_start c = true ->
  lex1 (c :: r) = if lowc c =? 102 then lex_kw_or_ident kw_false RFalse (c :: r) else
                  if lowc c =? 116 then lex_kw_or_ident kw_true RTrue (c :: r) else
                  if lowc c =? 112 then lex_kw_or_ident kw_private RPrivate (c :: r) else lex_ident (c :: r).
Proof. intros H. unfold lex1. rewrite (ident_start_not_ws c H), H. reflexivity. Qed.

Lemma lex1_ident_lower s : (match s with c :: _ => is_ident_start c = true | [] => False end) ->
  lex1 s = L1Tok (RIdent s) [] -> lex1 (lower s) = L1Tok (RIdent (lower s)) [].
Proof.
  destruct s as [|c r]; [intros []|]. intros Hc H.
  change (lower (c :: r)) with (lowc c :: lower r).
  rewrite lex1_ident_start in * by (rewrite ?ident_start_lowc; exact Hc).
  rewrite lowc_idem. change (lowc c :: lower r) with (lower (c :: r)).
  destruct (lowc c =? 102); [apply lex_kw_lower; [discriminate|exact H]|].
  destruct (lowc c =? 116); [apply lex_kw_lower; [discriminate|exact H]|].
  destruct (lowc c =? 112); [apply lex_kw_lower; [discriminate|exact H]|].
  apply lex_ident_lower. exact H.
Qed.

(* a name read as an operator token consists of operator characters: nothing to lower *)
Lemma op2_second_not_upper a b : op_len [a; b] = 2%nat -> is_upper b = false.
Proof.
  destruct (Z.eqb_spec b 61); [subst; reflexivity|]. destruct (Z.eqb_spec b 62); [subst; reflexivity|].
  destruct (Z.eqb_spec b 124); [subst; reflexivity|]. destruct (Z.eqb_spec b 38); [subst; reflexivity|].
  unfold op_len, starts2, starts1.
  replace (b =? 61) with false by (symmetry; apply Z.eqb_neq; assumption).
  replace (b =? 62) with false by (symmetry; apply Z.eqb_neq; assumption).
  replace (b =? 124) with false by (symmetry; apply Z.eqb_neq; assumption).
  replace (b =? 38) with false by (symmetry; apply Z.eqb_neq; assumption).
  rewrite !andb_false_r.
  repeat match goal with |- context[if ?x then _ else _] => destruct x end; discriminate.
Qed.

Lemma lex1_op_inv s : lex1 s = L1Tok (ROp s) [] -> lex_op s = L1Tok (ROp s) [].
Proof.
  intros H. destruct s as [|c r]; [discriminate|]. unfold lex1 in H.
  repeat match type of H with context[if ?x then _ else _] => destruct x end;
    try discriminate; try exact H;
    try (unfold lex_kw_or_ident, lex_ident in H; destruct (kw_match _ _) as [[? ?]|]; try discriminate; try exact H;
         destruct (span _ _); discriminate);
    try (unfold lex_ident in H; destruct (span _ _); discriminate);
    try (unfold lex_num in H; destruct (lex_hex _) as [[? ?]|]; try discriminate; destruct (lex_number _) as [[? ?]|]; discriminate);
    try (unfold lex_num in H; destruct (lex_number _) as [[? ?]|]; discriminate);
    try (destruct (scan_str _ _); discriminate).
Qed.

Lemma op_name_lower s : (match s with c :: _ => is_ident_start c = false | [] => True end) ->
  lex1 s = L1Tok (ROp s) [] -> lower s = s.
Proof.
  intros Hc H. apply lex1_op_inv in H. unfold lex_op in H. pose proof (op_len_le2 s) as Hle.
  destruct (op_len s) as [|n] eqn:En; [discriminate|]. injection H as Hf Hs.
  destruct s as [|c r]; [reflexivity|]. apply not_ident_start_not_upper in Hc.
  assert (Hlc: lowc c = c) by (unfold lowc; rewrite Hc; reflexivity).
  cbn [skipn] in Hs. destruct r as [|b r'].
  - cbn [lower map]. rewrite Hlc. reflexivity.
  - destruct n as [|n]; [discriminate|]. destruct n as [|n]; [|lia]. cbn [skipn] in Hs. subst r'.
    pose proof (op2_second_not_upper c b En) as Hb. cbn [lower map]. unfold lowc at 2. rewrite Hb, Hlc. reflexivity.
Qed.

Theorem tok_ok_name_lower s : tok_ok (raw_of_name s) -> tok_ok (raw_of_name (lower s)).
Proof.
  intros H. rewrite raw_of_name_lower. destruct s as [|c r]; [exact H|].
  unfold raw_of_name in *. destruct (is_ident_start c) eqn:Hc; [destruct (text_eqb (lower (c :: r)) kw_private) eqn:Ep|].
  - apply text_eqb_eq in Ep. rewrite Ep. split; [reflexivity|exact I].
  - destruct H as [H _]. split; [|exact I]. cbn [rtok_text] in *. apply lex1_ident_lower; assumption.
  - destruct H as [H H2]. cbn [rtok_text] in H. rewrite (op_name_lower (c :: r) Hc H). split; assumption.
Qed.

(* `$ff` -> `0xff` *)
Theorem tok_ok_hexnorm l : tok_ok (raw_of_lit l) -> tok_ok (pretty_lit l).
Proof.
  destruct l as [s|s|s|s|s]; try (intros H; exact H). destruct s as [|c r]; [intros H; exact H|].
  cbn [pretty_lit raw_of_lit]. destruct (Z.eqb_spec c 36) as [E|Hne]; [subst c|intros H; exact H].
  intros [H _]. split; [|exact I]. cbn [rtok_text] in *.
  unfold lex1 in H. cbn in H.
  destruct (span is_hexdigit r) as [dg r'] eqn:Es. destruct dg as [|d0 dg]; [discriminate|]. injection H as Hd Hr. subst r'.
  unfold lex1. change (is_ws 48) with false. cbv iota.
  change (lowc 48 =? 102) with false. change (lowc 48 =? 116) with false. change (lowc 48 =? 112) with false.
  change (is_ident_start 48) with false. change (48 =? 48) with true. cbv iota.
  unfold lex_hex. change (48 =? 36) with false. cbv iota. change (120 =? 120) with true. cbv iota.
  rewrite Es, Hd. reflexivity.
Qed.

(* ------------------------------------------------------------------ every token of the tree reads as itself *)
Fixpoint spelled (t:tree) : Prop :=
  match t with
  | Lit l => tok_ok (raw_of_lit l)
  | Var s => tok_ok (RIdent s)
  | Nul s => tok_ok (raw_of_name s)
  | Un s a => tok_ok (raw_of_name s) /\ spelled a
  | Bin _ s l r => tok_ok (raw_of_name s) /\ spelled l /\ spelled r
  | Arr es => fold_right (fun e P => spelled e /\ P) True es
  | Code ss => fold_right (fun s P => spelled_stmt s /\ P) True ss
  | Par a => spelled a
  end
with spelled_stmt (s:stmt) : Prop :=
  match s with
  | SExpr e => spelled e
  | SAssign x e => (match x with Var n | Nul n => tok_ok (RIdent n) | _ => True end) /\ spelled e
  | SLocal x e => tok_ok (RIdent x) /\ spelled e
  end.
Definition spelled_block (ss:list stmt) : Prop := forall s, In s ss -> spelled_stmt s.

Lemma fold_and_in {X} (P:X -> Prop) l : fold_right (fun e Q => P e /\ Q) True l -> forall e, In e l -> P e.
Proof. induction l as [|x l IH]; cbn; intros H e []; subst; [apply H|apply IH; tauto]. Qed.
Lemma spelled_stmt_unfold s : spelled_stmt s = match s with
  | SExpr e => spelled e
  | SAssign x e => (match x with Var n | Nul n => tok_ok (RIdent n) | _ => True end) /\ spelled e
  | SLocal x e => tok_ok (RIdent x) /\ spelled e end.
Proof. destruct s; reflexivity. Qed.

Lemma toks_ok_PT t r : tok_ok t -> toks_ok r -> toks_ok (PT t :: r).
Proof. intros H Hr t0 [E|Hin]; [injection E as <-; exact H|apply Hr; exact Hin]. Qed.
Lemma toks_ok_PW w r : toks_ok r -> toks_ok (PW w :: r).
Proof. intros Hr t0 [E|Hin]; [discriminate|apply Hr; exact Hin]. Qed.
Lemma toks_ok_app_intro a b : toks_ok a -> toks_ok b -> toks_ok (a ++ b).
Proof. intros Ha Hb t Ht. apply in_app_or in Ht. destruct Ht; auto. Qed.
Lemma toks_ok_nil : toks_ok [].
Proof. intros t []. Qed.
Lemma toks_ok_indent d r : toks_ok r -> toks_ok (indent d ++ r).
Proof. destruct d; [auto|]. intros H. cbn [indent app]. apply toks_ok_PW. exact H. Qed.
Lemma toks_ok_paren_intro c ps : toks_ok ps -> toks_ok (paren_if c ps).
Proof.
  destruct c; [|auto]. intros H. cbn [paren_if]. apply toks_ok_PT; [repeat split|].
  apply toks_ok_app_intro; [exact H|]. apply toks_ok_PT; [repeat split|apply toks_ok_nil].
Qed.
Lemma toks_ok_join_comma els : (forall e, In e els -> toks_ok e) -> toks_ok (join [PT RComma; sp] els).
Proof.
  intros H. destruct els as [|x r]; [apply toks_ok_nil|]. cbn [join]. apply toks_ok_app_intro; [apply H; left; reflexivity|].
  assert (Hr: forall e, In e r -> toks_ok e) by (intros; apply H; right; assumption). clear H.
  induction r as [|y r IH]; [apply toks_ok_nil|]. cbn [flat_map]. apply toks_ok_app_intro.
  - cbn [app]. apply toks_ok_PT; [repeat split|]. apply toks_ok_PW. apply Hr. left. reflexivity.
  - apply IH. intros; apply Hr; right; assumption.
Qed.
Lemma toks_ok_stmts (pre:list piece) d ss : (forall ps, toks_ok ps -> toks_ok (pre ++ ps)) ->
  (forall s, In s ss -> toks_ok (pretty_stmt d s)) ->
  toks_ok (flat_map (fun s => pre ++ pretty_stmt d s ++ [PT RSemi; nl]) ss).
Proof.
  intros Hpre H. induction ss as [|s r IH]; [apply toks_ok_nil|]. cbn [flat_map]. apply toks_ok_app_intro.
  - apply Hpre. apply toks_ok_app_intro; [apply H; left; reflexivity|].
    apply toks_ok_PT; [repeat split|]. apply toks_ok_PW. apply toks_ok_nil.
  - apply IH. intros; apply H; right; assumption.
Qed.

Theorem spelled_pretty_main : forall n,
  (forall t, (size t <= n)%nat -> spelled t -> forall depth, toks_ok (pretty depth t)) /\
  (forall s, (size_stmt s <= n)%nat -> spelled_stmt s -> forall depth, toks_ok (pretty_stmt depth s)).
Proof.
  induction n as [|n [IHt IHs]].
  { split; intros x Hsz; destruct x; cbn in Hsz; lia. }
  split.
  - intros t Hsz Hsp depth. destruct t as [l|v|nm|s a|j s l r|es|ss|a].
    + cbn [pretty]. apply toks_ok_PT; [apply tok_ok_hexnorm; exact Hsp|apply toks_ok_nil].
    + cbn [pretty]. apply toks_ok_PT; [exact Hsp|apply toks_ok_nil].
    + cbn [pretty]. apply toks_ok_PT; [exact Hsp|apply toks_ok_nil].
    + cbn [size] in Hsz. cbn [spelled] in Hsp. destruct Hsp as [Hs Ha]. cbn [pretty].
      apply toks_ok_PT; [apply tok_ok_name_lower; exact Hs|]. apply toks_ok_PW. apply toks_ok_paren_intro. apply IHt; [lia|exact Ha].
    + cbn [size] in Hsz. cbn [spelled] in Hsp. destruct Hsp as (Hs & Hl & Hr). cbn [pretty].
      apply toks_ok_app_intro; [apply toks_ok_paren_intro; apply IHt; [lia|exact Hl]|].
      apply toks_ok_PW. apply toks_ok_PT; [apply tok_ok_name_lower; exact Hs|]. apply toks_ok_PW.
      apply toks_ok_paren_intro. apply IHt; [lia|exact Hr].
    + change (size (Arr es)) with (S (fold_right (fun e n => (size e + n)%nat) 0%nat es)) in Hsz.
      cbn [spelled] in Hsp. pose proof (fold_and_in spelled es Hsp) as Hin. cbn [pretty].
      apply toks_ok_PT; [repeat split|]. apply toks_ok_app_intro; [|apply toks_ok_PT; [repeat split|apply toks_ok_nil]].
      apply toks_ok_join_comma. intros e He. apply in_map_iff in He. destruct He as (x & <- & Hx).
      pose proof (size_in x es Hx). apply IHt; [lia|apply Hin; exact Hx].
    + change (size (Code ss)) with (S (fold_right (fun s n => (size_stmt s + n)%nat) 0%nat ss)) in Hsz.
      change (spelled (Code ss)) with (fold_right (fun s P => spelled_stmt s /\ P) True ss) in Hsp.
      pose proof (fold_and_in spelled_stmt ss Hsp) as Hin. rewrite pretty_code. destruct ss as [|s0 r].
      * apply toks_ok_PT; [repeat split|]. apply toks_ok_indent. apply toks_ok_PT; [repeat split|apply toks_ok_nil].
      * apply toks_ok_PT; [repeat split|]. apply toks_ok_PW. apply toks_ok_app_intro.
        -- apply toks_ok_stmts; [intros ps; apply toks_ok_indent|].
           intros s Hs. pose proof (size_stmt_in s _ Hs). apply IHs; [lia|apply Hin; exact Hs].
        -- apply toks_ok_indent. apply toks_ok_PT; [repeat split|apply toks_ok_nil].
    + cbn [size] in Hsz. cbn [spelled] in Hsp. cbn [pretty]. apply IHt; [lia|exact Hsp].
  - intros s Hsz Hsp depth. rewrite size_stmt_unfold in Hsz. rewrite spelled_stmt_unfold in Hsp. rewrite pretty_stmt_unfold.
    destruct s as [e|x e|x e].
    + apply IHt; [lia|exact Hsp].
    + destruct Hsp as [Hx He].
      assert (Hgen: forall nm, tok_ok (RIdent nm) -> toks_ok (PT (RIdent nm) :: sp :: PT REqual :: sp :: pretty depth e)).
      { intros nm Hnm. apply toks_ok_PT; [exact Hnm|]. apply toks_ok_PW. apply toks_ok_PT; [repeat split|]. apply toks_ok_PW.
        apply IHt; [lia|exact He]. }
      destruct x as [l|v|nm| | | | |]; try (apply IHt; [lia|exact He]); apply Hgen; exact Hx.
    + destruct Hsp as [Hx He]. apply toks_ok_PT; [repeat split|]. apply toks_ok_PW. apply toks_ok_PT; [exact Hx|]. apply toks_ok_PW.
      apply toks_ok_PT; [repeat split|]. apply toks_ok_PW. apply IHt; [lia|exact He].
Qed.

Theorem spelled_pretty_program ss : spelled_block ss -> toks_ok (pretty_program ss).
Proof.
  intros H. unfold pretty_program.
  change (fun s => pretty_stmt 0 s ++ [PT RSemi; nl]) with (fun s => [] ++ pretty_stmt 0 s ++ [PT RSemi; nl]).
  apply toks_ok_stmts; [intros ps Hps; exact Hps|]. intros s Hs.
  apply (proj2 (spelled_pretty_main (size_stmt s))); [lia|apply H; exact Hs].
Qed.

(* the round trip with the hypothesis on the input: every token of the program reads as itself *)
Theorem pretty_roundtrip_spelled : forall (R:registry) (d:defects) (ss:list stmt),
  wf_block R ss -> forallb noparb_stmt ss = true -> spelled_block ss ->
  exists f0, forall f, (f0 <= f)%nat ->
    parse_text d R f (pieces_text (pretty_program ss)) = FOk (map pnorm_stmt ss) /\
    exists c, compile_block ss = Some c /\ compile_block (map pnorm_stmt ss) = Some (map (mapl_i hexnorm) c).
Proof. intros R d ss Hwf Hnp Hsp. apply pretty_roundtrip; auto. apply spelled_pretty_program. exact Hsp. Qed.
