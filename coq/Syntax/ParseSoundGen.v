(* The registry of the built runtime (Gen/Registry.v, regenerated on every run) meets the side condition reg_ok
   of Syntax/ParseSound.v for the parser as it stands: a name that is both unary and nular has no binary overload
   (and as_is refuses such a name as an operand).  A boolean sweep over the finite table. *)
From Coq Require Import ZArith List Bool Arith.
Import ListNotations.
From SqfVerif Require Import Syntax.SyntaxDefs Syntax.GenProofs Syntax.ParseSound.
From SqfVerif Require Gen.Registry.

Definition un_nul_okb (e:entry) : bool :=
  negb (snd (fst (snd e)) && snd (snd e)) || match e_precs e with [] => true | _ => false end.
Lemma registry_un_nul_b : forallb un_nul_okb Registry.table = true.
Proof. vm_compute. reflexivity. Qed.

Theorem gen_registry_reg_ok : reg_ok as_is gen_registry.
Proof.
  intros key. unfold gen_registry. destruct (find (fun e:entry => text_eqb (s2b (fst e)) key) Registry.table) as [e|] eqn:E; [|cbn; intros; discriminate].
  apply find_some in E. destruct E as [Hin _]. pose proof registry_un_nul_b as H. rewrite forallb_forall in H.
  specialize (H e Hin). unfold un_nul_okb in H. cbn [oi_bin oi_un oi_nul]. intros Hu Hn. rewrite Hu, Hn in H. cbn in H.
  destruct (e_precs e); [split; reflexivity|discriminate].
Qed.
