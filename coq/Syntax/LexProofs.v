(* lex o render = id : tokens written with arbitrary whitespace (space, tab, CR, LF) between them - and
   none at all next to brackets, separators and after a sign - are read back as the same tokens. *)
From Coq Require Import ZArith List Bool Arith Lia.
Import ListNotations.
From SqfVerif Require Import Syntax.SyntaxDefs.
Local Open Scope Z_scope.

Definition is_punct_char (c:byte) : bool :=
  (c =? 40) || (c =? 41) || (c =? 91) || (c =? 93) || (c =? 123) || (c =? 125) || (c =? 59) || (c =? 44).
Definition delim (c:byte) : bool := is_ws c || is_punct_char c.

(* tokens after which anything may follow directly: brackets, separators, the signs *)
Definition free_tok (t:rtok) : bool :=
  match t with
  | RCurlyO | RCurlyC | RRoundO | RRoundC | RSquareO | RSquareC | RSemi | RComma => true
  | ROp s => text_eqb s sym_plus || text_eqb s sym_minus
  | _ => false
  end.

Definition follow_ok (t:rtok) (b:text) : Prop :=
  match b with [] => True | c :: _ => delim c = true \/ free_tok t = true end.
Definition dstart (b:text) : Prop := match b with [] => True | c :: _ => delim c = true end.

Ltac btrue := repeat rewrite ?orb_true_iff, ?andb_true_iff, ?Z.eqb_eq, ?Z.leb_le in *.
Ltac contra_bool E := match goal with |- ?x = false => destruct x eqn:E; [exfalso|reflexivity] end.

Lemma delim_not_ident c : delim c = true -> is_ident_char c = false.
Proof.
  intros H. contra_bool E.
  unfold delim, is_ws, is_punct_char, is_ident_char, is_alpha, is_upper, is_lower, is_digit in *. btrue. lia.
Qed.
Lemma delim_not_digit c : delim c = true -> is_digit c = false.
Proof. intros H. contra_bool E. unfold delim, is_ws, is_punct_char, is_digit in *. btrue. lia. Qed.
Lemma delim_not_hex c : delim c = true -> is_hexdigit c = false.
Proof. intros H. contra_bool E. unfold delim, is_ws, is_punct_char, is_hexdigit, is_digit in *. btrue. lia. Qed.

(* ---------- span ---------- *)
Lemma span_local p s b : (match b with [] => True | c :: _ => p c = false end) ->
  span p (s ++ b) = (fst (span p s), snd (span p s) ++ b).
Proof.
  intros Hb. induction s as [|c s IH]; cbn [app span].
  - destruct b as [|c b']; [reflexivity|]. cbn [span]. rewrite Hb. reflexivity.
  - destruct (p c); [|reflexivity]. rewrite IH. destruct (span p s). reflexivity.
Qed.
Lemma span_nil_rest p s a : span p s = (a, []) -> a = s.
Proof.
  revert a. induction s as [|c s IH]; cbn [span]; intros a H; [congruence|].
  destruct (p c); [|discriminate]. destruct (span p s) as [x y] eqn:E. injection H as <- ->.
  f_equal. apply IH. reflexivity.
Qed.

(* ---------- keywords ---------- *)
Definition kw_lower (kw:text) : Prop := Forall (fun k => is_lower k = true) kw.
Lemma lowc_eq_lower c k : is_lower k = true -> lowc c = k -> is_ident_char c = true.
Proof.
  unfold lowc, is_ident_char, is_alpha. intros H E. destruct (is_upper c) eqn:U; [reflexivity|]. subst. rewrite H. reflexivity.
Qed.

Lemma kw_match_some_local kw : forall s a b, kw_match kw s = Some (a, []) -> dstart b -> kw_match kw (s ++ b) = Some (a, b).
Proof.
  induction kw as [|k kw IH]; intros s a b H Hb; cbn [kw_match] in *.
  - destruct s as [|c s]; [|destruct (is_ident_char c); discriminate]. injection H as <-.
    cbn [app]. destruct b as [|c b']; [reflexivity|]. cbn in Hb. rewrite (delim_not_ident c Hb). reflexivity.
  - destruct s as [|c s]; [discriminate|]. cbn [app]. destruct (lowc c =? k); [|discriminate].
    destruct (kw_match kw s) as [[a' r]|] eqn:E; [|discriminate]. injection H as <- ->.
    rewrite (IH s a' b E Hb). reflexivity.
Qed.
Lemma kw_match_none_local kw : kw_lower kw -> forall s b, kw_match kw s = None -> forallb is_ident_char s = true -> dstart b ->
  kw_match kw (s ++ b) = None.
Proof.
  induction kw as [|k kw IH]; intros Hkw s b H Hs Hb; cbn [kw_match] in *.
  - destruct s as [|c s]; [discriminate|]. cbn [app]. cbn [forallb] in Hs. apply andb_prop in Hs. destruct Hs as [Hc _].
    rewrite Hc. reflexivity.
  - inversion Hkw as [|? ? Hk Hkw']; subst.
    destruct s as [|c s]; cbn [app].
    + destruct b as [|c b']; [reflexivity|]. cbn in Hb. destruct (Z.eqb_spec (lowc c) k); [|reflexivity].
      pose proof (lowc_eq_lower c k Hk e). rewrite (delim_not_ident c Hb) in H0. discriminate.
    + cbn [forallb] in Hs. apply andb_prop in Hs. destruct Hs as [_ Hs].
      destruct (lowc c =? k); [|reflexivity].
      destruct (kw_match kw s) as [[a' r]|] eqn:E; [discriminate|].
      rewrite (IH Hkw' s b E Hs Hb). reflexivity.
Qed.

Lemma span_all p s : span p s = (s, []) -> forallb p s = true.
Proof.
  induction s as [|c s IH]; cbn [span forallb]; intros H; [reflexivity|].
  destruct (p c); [|discriminate]. destruct (span p s) as [x y] eqn:E. injection H as -> ->. rewrite IH; reflexivity.
Qed.

Lemma lex_ident_local s t b : lex_ident s = L1Tok t [] -> dstart b -> lex_ident (s ++ b) = L1Tok t b.
Proof.
  unfold lex_ident. intros H Hb. destruct (span is_ident_char s) as [a r] eqn:E. injection H as <- ->.
  rewrite span_local, E; [reflexivity|]. destruct b as [|c b']; [exact I|]. apply delim_not_ident. exact Hb.
Qed.
Lemma lex_ident_all s t : lex_ident s = L1Tok t [] -> forallb is_ident_char s = true.
Proof.
  unfold lex_ident. intros H. destruct (span is_ident_char s) as [a r] eqn:E. injection H as <- ->.
  pose proof (span_nil_rest _ _ _ E). subst. apply span_all. exact E.
Qed.

Lemma lex_kw_local kw mk s t b : kw_lower kw -> lex_kw_or_ident kw mk s = L1Tok t [] -> dstart b ->
  lex_kw_or_ident kw mk (s ++ b) = L1Tok t b.
Proof.
  unfold lex_kw_or_ident. intros Hkw H Hb. destruct (kw_match kw s) as [[a r]|] eqn:E.
  - injection H as <- ->. rewrite (kw_match_some_local kw s a b E Hb). reflexivity.
  - rewrite (kw_match_none_local kw Hkw s b E (lex_ident_all s t H) Hb). apply lex_ident_local; assumption.
Qed.

Lemma kw_false_lower : kw_lower kw_false. Proof. repeat constructor. Qed.
Lemma kw_true_lower : kw_lower kw_true. Proof. repeat constructor. Qed.
Lemma kw_private_lower : kw_lower kw_private. Proof. repeat constructor. Qed.

(* ---------- hexadecimal ---------- *)
Lemma lex_hex_local s a b : lex_hex s = Some (a, []) -> dstart b -> lex_hex (s ++ b) = Some (a, b).
Proof.
  unfold lex_hex. intros H Hb.
  assert (Hh: match b with [] => True | c :: _ => is_hexdigit c = false end)
    by (destruct b; [exact I|apply delim_not_hex; exact Hb]).
  destruct s as [|c s]; [discriminate|]. cbn [app].
  destruct (c =? 36).
  - destruct (span is_hexdigit s) as [d0 r] eqn:E. destruct d0; [discriminate|]. injection H as <- ->.
    rewrite span_local, E by assumption. reflexivity.
  - destruct s as [|x s]; [discriminate|]. cbn [app]. destruct (x =? 120); [|discriminate].
    destruct (span is_hexdigit s) as [d0 r] eqn:E. destruct d0; [discriminate|]. injection H as <- ->.
    rewrite span_local, E by assumption. reflexivity.
Qed.

(* ---------- numbers ---------- *)
Lemma dstart_digit b : dstart b -> match b with [] => True | c :: _ => is_digit c = false end.
Proof. destruct b; [auto|]. apply delim_not_digit. Qed.
Lemma delim_chars c : delim c = true -> c <> 46 /\ c <> 101 /\ c <> 69 /\ c <> 43 /\ c <> 45 /\ c <> 61 /\ c <> 62 /\ c <> 47 /\ c <> 42 /\ c <> 34 /\ c <> 39 /\ c <> 120 /\ c <> 124 /\ c <> 38.
Proof. unfold delim, is_ws, is_punct_char. intros H. btrue. lia. Qed.

Lemma num_ip_local s b : dstart b -> num_ip (s ++ b) = (fst (num_ip s), snd (num_ip s) ++ b) /\ starts1 46 (s ++ b) = starts1 46 s.
Proof.
  intros Hb. unfold num_ip.
  assert (Hs: starts1 46 (s ++ b) = starts1 46 s).
  { destruct s as [|c s]; [|reflexivity]. cbn [app starts1]. destruct b as [|c b']; [reflexivity|].
    cbn in Hb. destruct (delim_chars c Hb) as (H & _). cbn [starts1]. destruct (Z.eqb_spec c 46); [contradiction|reflexivity]. }
  rewrite Hs. split; [|reflexivity]. destruct (starts1 46 s); [reflexivity|].
  apply span_local. apply dstart_digit. exact Hb.
Qed.
Lemma num_fp_local r b : dstart b -> num_fp (r ++ b) = (fst (num_fp r), snd (num_fp r) ++ b).
Proof.
  intros Hb. unfold num_fp. destruct r as [|c r]; cbn [app].
  - destruct b as [|c b']; [reflexivity|]. cbn in Hb. destruct (delim_chars c Hb) as (H & _).
    destruct (Z.eqb_spec c 46); [contradiction|reflexivity].
  - destruct (c =? 46); [|reflexivity]. rewrite span_local by (apply dstart_digit; exact Hb).
    destruct (span is_digit r) as [d r']. cbn [fst snd]. destruct d; reflexivity.
Qed.
Lemma num_sign_local r b : dstart b -> num_sign (r ++ b) = (fst (num_sign r), snd (num_sign r) ++ b).
Proof.
  intros Hb. unfold num_sign. destruct r as [|g r]; cbn [app].
  - destruct b as [|c b']; [reflexivity|]. cbn in Hb. destruct (delim_chars c Hb) as (_ & _ & _ & H1 & H2 & _).
    destruct (Z.eqb_spec c 43); [contradiction|]. destruct (Z.eqb_spec c 45); [contradiction|]. reflexivity.
  - destruct ((g =? 43) || (g =? 45)); reflexivity.
Qed.
Lemma num_ep_local r b : dstart b -> num_ep (r ++ b) = (fst (num_ep r), snd (num_ep r) ++ b).
Proof.
  intros Hb. unfold num_ep. destruct r as [|e r]; cbn [app].
  - destruct b as [|c b']; [reflexivity|]. cbn in Hb. destruct (delim_chars c Hb) as (_ & H1 & H2 & _).
    destruct (Z.eqb_spec c 101); [contradiction|]. destruct (Z.eqb_spec c 69); [contradiction|]. reflexivity.
  - destruct ((e =? 101) || (e =? 69)); [|reflexivity].
    rewrite num_sign_local by assumption. destruct (num_sign r) as [sg r']. cbn [fst snd].
    rewrite span_local by (apply dstart_digit; exact Hb).
    destruct (span is_digit r') as [d r'']. cbn [fst snd]. destruct d; [destruct sg|]; reflexivity.
Qed.

Lemma lex_number_local s b : dstart b ->
  lex_number (s ++ b) = match lex_number s with Some (n, r) => Some (n, r ++ b) | None => None end.
Proof.
  intros Hb. unfold lex_number. destruct (num_ip_local s b Hb) as [E1 E2]. rewrite E1, E2.
  destruct (num_ip s) as [ip r1]. cbn [fst snd].
  destruct (negb (starts1 46 s) && match ip with [] => true | _ => false end); [reflexivity|].
  rewrite num_fp_local by assumption. destruct (num_fp r1) as [fp r2]. cbn [fst snd].
  rewrite num_ep_local by assumption. destruct (num_ep r2) as [ep r3]. cbn [fst snd].
  destruct (ip ++ fp ++ ep); reflexivity.
Qed.
Lemma lex_num_local s t b : lex_num s = L1Tok t [] -> dstart b -> lex_num (s ++ b) = L1Tok t b.
Proof.
  unfold lex_num. intros H Hb. rewrite lex_number_local by assumption.
  destruct (lex_number s) as [[n r]|]; [|discriminate]. injection H as <- ->. reflexivity.
Qed.

(* ---------- strings ---------- *)
(* the body of a string literal (after the opening quote) ends at its closing quote *)
Fixpoint closed (q:byte) (s:text) : bool :=
  match s with
  | [] => false
  | c :: r => if c =? q then match r with
                            | d :: r' => if d =? q then closed q r' else false
                            | [] => true
                            end
              else closed q r
  end.
Definition str_closed (s:text) : bool := match s with q :: body => closed q body | [] => false end.

Lemma scan_str_local q b : (match b with [] => True | c :: _ => c <> q end) ->
  forall n s, (length s <= n)%nat -> closed q s = true -> scan_str q (s ++ b) = (s, b).
Proof.
  intros Hb. induction n as [|n IH]; intros s Hn Hc.
  - destruct s; [discriminate|cbn in Hn; lia].
  - destruct s as [|c r]; [discriminate|]. cbn [closed] in Hc. cbn [app scan_str].
    destruct (c =? q).
    + destruct r as [|d r']; cbn [app].
      * destruct b as [|x b']; [reflexivity|]. destruct (Z.eqb_spec x q); [contradiction|reflexivity].
      * destruct (d =? q); [|discriminate]. rewrite (IH r') by (auto; cbn in Hn; lia). reflexivity.
    + rewrite (IH r) by (auto; cbn in Hn; lia). reflexivity.
Qed.

(* ---------- operators ---------- *)
Lemma op_len_le2 s : (op_len s <= 2)%nat.
Proof.
  unfold op_len. repeat (match goal with |- context[if ?x then _ else _] => destruct x end; try lia).
Qed.

Definition one_char_ops : list Z := [60; 62; 43; 45; 47; 42; 37; 94; 33; 58; 35].
Lemma op_len_one a : op_len [a] <> 0%nat -> In a one_char_ops.
Proof.
  unfold op_len, starts2, starts1, one_char_ops. intros H.
  repeat match goal with
  | H : context[a =? ?k] |- _ => destruct (Z.eqb_spec a k); [subst; cbn; tauto|]
  end. cbn in H. congruence.
Qed.

Lemma lex_op_local s t b : lex_op s = L1Tok t [] -> follow_ok t b -> lex_op (s ++ b) = L1Tok t b.
Proof.
  intros H Hf. destruct b as [|y b']; [rewrite app_nil_r; exact H|].
  unfold lex_op in *. pose proof (op_len_le2 s) as Hle.
  destruct s as [|a [|c [|x s'']]].
  - cbn in H. discriminate.
  - destruct (op_len [a]) as [|[|n]] eqn:E; [discriminate| |].
    + cbn [firstn skipn] in H. injection H as <-.
      assert (Ha: In a one_char_ops) by (apply op_len_one; rewrite E; discriminate).
      cbn [app].
      assert (E2: op_len (a :: y :: b') = 1%nat).
      { cbn [follow_ok free_tok] in Hf.
        unfold one_char_ops in Ha. cbn [In] in Ha.
        destruct Hf as [Hd|Hfree].
        - destruct (delim_chars y Hd) as (_ & _ & _ & _ & _ & H61 & H62 & _).
          unfold op_len, starts2, starts1.
          destruct (Z.eqb_spec y 61); [contradiction|]. destruct (Z.eqb_spec y 62); [contradiction|].
          repeat (destruct Ha as [<-|Ha]; [reflexivity|]). destruct Ha.
        - unfold sym_plus, sym_minus in Hfree. cbn [text_eqb] in Hfree.
          repeat (destruct Ha as [<-|Ha]; [try discriminate; try reflexivity|]); destruct Ha. }
      rewrite E2. reflexivity.
    + exfalso. revert E. unfold op_len, starts2, starts1.
      repeat (match goal with |- context[if ?x then _ else _] => destruct x end; try discriminate).
  - cbn [app]. change (op_len (a :: c :: y :: b')) with (op_len [a; c]).
    destruct (op_len [a; c]) as [|[|[|n]]]; [discriminate|cbn in H; discriminate| |cbn in Hle; lia].
    cbn [firstn skipn] in *. injection H as <-. reflexivity.
  - destruct (op_len (a :: c :: x :: s'')) as [|[|[|n]]]; [discriminate|cbn in H; discriminate|cbn in H; discriminate|lia].
Qed.

Lemma lex_hex_none_local c r0 b : lex_hex (c :: r0) = None -> dstart b -> lex_hex ((c :: r0) ++ b) = None.
Proof.
  unfold lex_hex. intros H Hb.
  assert (Hh: match b with [] => True | c :: _ => is_hexdigit c = false end)
    by (destruct b; [exact I|apply delim_not_hex; exact Hb]).
  cbn [app]. destruct (c =? 36).
  - rewrite span_local by assumption. destruct (span is_hexdigit r0) as [d0 r]. cbn [fst snd].
    destruct d0; [reflexivity|discriminate].
  - destruct r0 as [|x r2]; cbn [app].
    + destruct b as [|y b']; [reflexivity|]. cbn in Hb. destruct (delim_chars y Hb) as (_ & _ & _ & _ & _ & _ & _ & _ & _ & _ & _ & H120 & _).
      destruct (Z.eqb_spec y 120); [contradiction|reflexivity].
    + destruct (x =? 120); [|reflexivity]. rewrite span_local by assumption.
      destruct (span is_hexdigit r2) as [d0 r]. cbn [fst snd]. destruct d0; [reflexivity|discriminate].
Qed.

(* ---------- one token ---------- *)
(* a token is well spelled when its text, on its own, is read as exactly that token (and a string
   literal has its closing quote) *)
Definition tok_ok (t:rtok) : Prop :=
  lex1 (rtok_text t) = L1Tok t [] /\ match t with RStr s => str_closed s = true | _ => True end.

Lemma lowc_delim y k : delim y = true -> is_lower k = true -> lowc y <> k.
Proof.
  intros Hd Hk E. pose proof (lowc_eq_lower y k Hk E) as Hi. rewrite (delim_not_ident y Hd) in Hi. discriminate.
Qed.

Theorem lex1_local t b : tok_ok t -> follow_ok t b -> lex1 (rtok_text t ++ b) = L1Tok t b.
Proof.
  intros [H Hstr] Hf.
  assert (Hd: free_tok t = false -> dstart b).
  { intros Hn. destruct b as [|y b']; [exact I|]. cbn in Hf. destruct Hf as [Hf|Hf]; [exact Hf|congruence]. }
  remember (rtok_text t) as s eqn:Es.
  destruct s as [|c r0]; [cbn in H; discriminate|].
  unfold lex1 in *. cbn [app].
  destruct (is_ws c); [discriminate|].
  destruct (lowc c =? 102).
  { assert (Hn: free_tok t = false).
    { unfold lex_kw_or_ident, lex_ident in H. destruct (kw_match kw_false (c :: r0)) as [[? ?]|]; [injection H as <- _; reflexivity|].
      destruct (span is_ident_char (c :: r0)). injection H as <- _. reflexivity. }
    apply (lex_kw_local kw_false RFalse (c :: r0) t b kw_false_lower H (Hd Hn)). }
  destruct (lowc c =? 116).
  { assert (Hn: free_tok t = false).
    { unfold lex_kw_or_ident, lex_ident in H. destruct (kw_match kw_true (c :: r0)) as [[? ?]|]; [injection H as <- _; reflexivity|].
      destruct (span is_ident_char (c :: r0)). injection H as <- _. reflexivity. }
    apply (lex_kw_local kw_true RTrue (c :: r0) t b kw_true_lower H (Hd Hn)). }
  destruct (lowc c =? 112).
  { assert (Hn: free_tok t = false).
    { unfold lex_kw_or_ident, lex_ident in H. destruct (kw_match kw_private (c :: r0)) as [[? ?]|]; [injection H as <- _; reflexivity|].
      destruct (span is_ident_char (c :: r0)). injection H as <- _. reflexivity. }
    apply (lex_kw_local kw_private RPrivate (c :: r0) t b kw_private_lower H (Hd Hn)). }
  destruct (is_ident_start c).
  { assert (Hn: free_tok t = false).
    { unfold lex_ident in H. destruct (span is_ident_char (c :: r0)). injection H as <- _. reflexivity. }
    apply (lex_ident_local (c :: r0) t b H (Hd Hn)). }
  assert (Hnum: lex_num (c :: r0) = L1Tok t [] -> lex_num (c :: r0 ++ b) = L1Tok t b).
  { intros Hl. assert (Hn: free_tok t = false).
    { unfold lex_num in Hl. destruct (lex_number (c :: r0)) as [[? ?]|]; [|discriminate]. injection Hl as <- _. reflexivity. }
    apply (lex_num_local (c :: r0) t b Hl (Hd Hn)). }
  destruct (c =? 48).
  { destruct (lex_hex (c :: r0)) as [[a r]|] eqn:E.
    - injection H as <- ->. change (c :: r0 ++ b) with ((c :: r0) ++ b). rewrite (lex_hex_local (c :: r0) a b E (Hd eq_refl)). reflexivity.
    - assert (Hn: free_tok t = false).
      { unfold lex_num in H. destruct (lex_number (c :: r0)) as [[? ?]|]; [|discriminate]. injection H as <- _. reflexivity. }
      change (c :: r0 ++ b) with ((c :: r0) ++ b). rewrite (lex_hex_none_local c r0 b E (Hd Hn)). apply Hnum. exact H. }
  destruct (is_digit c); [apply Hnum; exact H|].
  destruct (c =? 46); [apply Hnum; exact H|].
  destruct ((c =? 43) || (c =? 45)); [apply (lex_op_local (c :: r0) t b H Hf)|].
  destruct (Z.eqb_spec c 47) as [->|_].
  { destruct (starts1 47 r0 || starts1 42 r0) eqn:Ec; [discriminate|].
    assert (Hr: r0 = [] /\ t = ROp [47]).
    { unfold lex_op in H. assert (Hop: op_len (47 :: r0) = 1%nat) by (destruct r0; reflexivity).
      rewrite Hop in H. cbn [firstn skipn] in H. injection H as <- ->. auto. }
    destruct Hr as [-> ->]. cbn [app].
    assert (Hb: starts1 47 b || starts1 42 b = false).
    { destruct b as [|y b']; [reflexivity|]. specialize (Hd eq_refl). cbn in Hd.
      destruct (delim_chars y Hd) as (_ & _ & _ & _ & _ & _ & _ & H47 & H42 & _). cbn [starts1].
      destruct (Z.eqb_spec y 47); [contradiction|]. destruct (Z.eqb_spec y 42); [contradiction|]. reflexivity. }
    rewrite Hb. apply (lex_op_local [47] (ROp [47]) b eq_refl Hf). }
  destruct (Z.eqb_spec c 35) as [->|_].
  { destruct (kw_match kw_line (35 :: r0)) as [[? ?]|] eqn:Ek; [discriminate|].
    assert (Hr: r0 = [] /\ t = ROp [35]).
    { unfold lex_op in H. assert (Hop: op_len (35 :: r0) = 1%nat) by (destruct r0; reflexivity).
      rewrite Hop in H. cbn [firstn skipn] in H. injection H as <- ->. auto. }
    destruct Hr as [-> ->]. cbn [app].
    assert (Hk: kw_match kw_line (35 :: b) = None).
    { unfold kw_line. cbn [kw_match lowc is_upper]. cbn. destruct b as [|y b']; [reflexivity|].
      specialize (Hd eq_refl). cbn in Hd.
      destruct (Z.eqb_spec (lowc y) 108); [|reflexivity]. exfalso. apply (lowc_delim y 108 Hd eq_refl). assumption. }
    rewrite Hk. apply (lex_op_local [35] (ROp [35]) b eq_refl Hf). }
  destruct (c =? 36).
  { destruct (lex_hex (c :: r0)) as [[a r]|] eqn:E; [|discriminate].
    injection H as <- ->. change (c :: r0 ++ b) with ((c :: r0) ++ b). rewrite (lex_hex_local (c :: r0) a b E (Hd eq_refl)). reflexivity. }
  destruct (Z.eqb_spec c 61) as [->|_].
  { destruct (starts1 61 r0) eqn:E1.
    - destruct r0 as [|x r1]; [discriminate|]. cbn [app starts1] in *. rewrite E1.
      apply (lex_op_local (61 :: x :: r1) t b H Hf).
    - injection H as <- ->. cbn [app].
      assert (Hb: starts1 61 b = false).
      { destruct b as [|y b']; [reflexivity|]. specialize (Hd eq_refl). cbn in Hd.
        destruct (delim_chars y Hd) as (_ & _ & _ & _ & _ & H61 & _). cbn [starts1].
        destruct (Z.eqb_spec y 61); [contradiction|reflexivity]. }
      rewrite Hb. reflexivity. }
  destruct ((c =? 34) || (c =? 39)) eqn:Eq.
  { destruct (scan_str c r0) as [a r] eqn:E. injection H as <- ->.
    cbn [rtok_text] in Es. injection Es as Es. subst a.
    cbn [str_closed] in Hstr.
    assert (Hb: match b with [] => True | y :: _ => y <> c end).
    { destruct b as [|y b']; [exact I|]. specialize (Hd eq_refl). cbn in Hd.
      destruct (delim_chars y Hd) as (_ & _ & _ & _ & _ & _ & _ & _ & _ & H34 & H39 & _).
      apply orb_prop in Eq. destruct Eq as [Eq|Eq]; apply Z.eqb_eq in Eq; subst; assumption. }
    rewrite (scan_str_local c b Hb (length r0) r0 (le_n _) Hstr). reflexivity. }
  destruct (c =? 40); [injection H as <- ->; reflexivity|].
  destruct (c =? 41); [injection H as <- ->; reflexivity|].
  destruct (c =? 91); [injection H as <- ->; reflexivity|].
  destruct (c =? 93); [injection H as <- ->; reflexivity|].
  destruct (c =? 123); [injection H as <- ->; reflexivity|].
  destruct (c =? 125); [injection H as <- ->; reflexivity|].
  destruct (c =? 59); [injection H as <- ->; reflexivity|].
  destruct (c =? 44); [injection H as <- ->; reflexivity|].
  match goal with |- (if ?x then _ else _) = _ => destruct x end; [|discriminate].
  apply (lex_op_local (c :: r0) t b H Hf).
Qed.

(* ---------- a whole rendering ---------- *)
Definition all_ws (w:text) : Prop := forallb is_ws w = true.

(* items = (whitespace before the token, token); after each token comes either whitespace, a bracket or
   separator, the end of the text - or anything at all if the token itself is a bracket, separator or sign *)
Fixpoint sep_ok (items:list (text * rtok)) (trail:text) : Prop :=
  match items with
  | [] => all_ws trail
  | (w, t) :: rest => all_ws w /\ tok_ok t /\ follow_ok t (render rest trail) /\ sep_ok rest trail
  end.

Lemma span_ws_all w : all_ws w -> span is_ws w = (w, []).
Proof.
  unfold all_ws. induction w as [|c w IH]; cbn [forallb span]; intros H; [reflexivity|].
  apply andb_prop in H. destruct H as [Hc Hw]. rewrite Hc, (IH Hw). reflexivity.
Qed.
Lemma lex1_ws c r : is_ws c = true -> lex1 (c :: r) = L1Ws (snd (span is_ws (c :: r))).
Proof. intros H. unfold lex1. rewrite H. reflexivity. Qed.

Lemma tok_ok_text t : tok_ok t -> exists c r, rtok_text t = c :: r /\ is_ws c = false.
Proof.
  intros [H _]. destruct (rtok_text t) as [|c r] eqn:E; [cbn in H; discriminate|].
  exists c, r. split; [reflexivity|]. destruct (is_ws c) eqn:W; [|reflexivity].
  rewrite (lex1_ws c r W) in H. discriminate.
Qed.

Lemma render_cons w t rest trail : render ((w, t) :: rest) trail = w ++ rtok_text t ++ render rest trail.
Proof. unfold render. cbn [flat_map]. rewrite <- !app_assoc. reflexivity. Qed.

Lemma lex_f_render : forall items trail, sep_ok items trail ->
  forall f, (length (render items trail) < f)%nat -> lex_f f (render items trail) = LexOk (map snd items).
Proof.
  induction items as [|[w t] rest IH]; intros trail Hs f Hf.
  - cbn [sep_ok] in Hs. unfold render in *. cbn [flat_map app map] in *.
    destruct trail as [|c r]; [destruct f; reflexivity|].
    destruct f as [|f]; [cbn in Hf; lia|]. cbn [lex_f].
    assert (Hc: is_ws c = true) by (unfold all_ws in Hs; cbn [forallb] in Hs; apply andb_prop in Hs; apply Hs).
    rewrite (lex1_ws c r Hc), (span_ws_all (c :: r) Hs). cbn [snd]. destruct f; reflexivity.
  - cbn [sep_ok] in Hs. destruct Hs as (Hw & Hok & Hfol & Hrest).
    rewrite render_cons in *. set (R := render rest trail) in *.
    destruct (tok_ok_text t Hok) as (c0 & r0 & Et & Hc0).
    assert (Htok: forall f', (length (rtok_text t ++ R) < f')%nat -> lex_f f' (rtok_text t ++ R) = LexOk (t :: map snd rest)).
    { intros f' Hf'. destruct f' as [|f']; [lia|].
      assert (Hne: rtok_text t ++ R = c0 :: r0 ++ R) by (rewrite Et; reflexivity).
      rewrite Hne at 1. cbn [lex_f]. rewrite <- Hne.
      rewrite (lex1_local t R Hok Hfol).
      unfold R at 1. rewrite (IH trail Hrest f'); [reflexivity|].
      rewrite app_length, Et in Hf'. cbn [length] in Hf'. fold R. lia. }
    cbn [map snd].
    destruct w as [|c w'].
    + cbn [app]. apply Htok. exact Hf.
    + destruct f as [|f]; [cbn in Hf; lia|]. cbn [app lex_f].
      assert (Hc: is_ws c = true) by (unfold all_ws in Hw; cbn [forallb] in Hw; apply andb_prop in Hw; apply Hw).
      rewrite (lex1_ws c _ Hc).
      change (c :: w' ++ rtok_text t ++ R) with ((c :: w') ++ rtok_text t ++ R).
      rewrite span_local, (span_ws_all (c :: w') Hw) by (rewrite Et; exact Hc0). cbn [fst snd app].
      apply Htok. cbn [app length] in Hf. rewrite app_length in Hf. lia.
Qed.

Theorem lex_render : forall items trail, sep_ok items trail -> lex (render items trail) = LexOk (map snd items).
Proof. intros items trail H. unfold lex. apply lex_f_render; [assumption|lia]. Qed.
