(* Facts about the generated tables: Gen/Registry.v (operator registry of the built runtime) and
   Gen/Grammar.v (bison rule tables, actions and the yylex token switch).  Finite tables: each fact is a
   boolean sweep evaluated by vm_compute and lifted with forallb_forall. *)
From Coq Require Import ZArith List Bool Arith Lia String Ascii.
Import ListNotations.
From SqfVerif Require Import Syntax.SyntaxDefs.
From SqfVerif Require Gen.Registry Gen.Grammar.

(* ------------------------------------------------------------------ registry *)
Definition entry := (string * (list nat * bool * bool))%type.
Definition e_precs (e:entry) : list nat := fst (fst (snd e)).

Definition single_precb (e:entry) : bool :=
  match e_precs e with [] => true | p :: r => forallb (Nat.eqb p) r end.
Definition prec_rangeb (e:entry) : bool := forallb (fun p => (1 <=? p)%nat && (p <=? 10)%nat) (e_precs e).

Lemma single_precb_ok e : single_precb e = true -> forall p q, In p (e_precs e) -> In q (e_precs e) -> p = q.
Proof.
  unfold single_precb. destruct (e_precs e) as [|p0 r]; [intros _ p q []|].
  intros H p q Hp Hq. rewrite forallb_forall in H.
  assert (A: forall x, In x (p0 :: r) -> x = p0).
  { intros x [<-|Hx]; [reflexivity|]. specialize (H x Hx). apply Nat.eqb_eq in H. congruence. }
  rewrite (A p Hp), (A q Hq). reflexivity.
Qed.

Lemma registry_single_prec_b : forallb single_precb Registry.table = true.
Proof. vm_compute. reflexivity. Qed.
Lemma registry_prec_range_b : forallb prec_rangeb Registry.table = true.
Proof. vm_compute. reflexivity. Qed.

Theorem registry_single_prec : forall name ps u n, In (name, (ps, u, n)) Registry.table ->
  forall p q, In p ps -> In q ps -> p = q.
Proof.
  intros name ps u n Hin. pose proof registry_single_prec_b as H. rewrite forallb_forall in H.
  specialize (H _ Hin). exact (single_precb_ok _ H).
Qed.
Theorem registry_prec_range : forall name ps u n, In (name, (ps, u, n)) Registry.table ->
  forall p, In p ps -> (1 <= p <= 10)%nat.
Proof.
  intros name ps u n Hin p Hp. pose proof registry_prec_range_b as H. rewrite forallb_forall in H.
  specialize (H _ Hin). unfold prec_rangeb in H. rewrite forallb_forall in H. specialize (H p Hp).
  apply andb_prop in H. destruct H as [H1 H2]. apply Nat.leb_le in H1. apply Nat.leb_le in H2. lia.
Qed.

Fixpoint nodupb (l:list string) : bool :=
  match l with [] => true | x :: r => negb (existsb (String.eqb x) r) && nodupb r end.
Lemma nodupb_ok l : nodupb l = true -> NoDup l.
Proof.
  induction l as [|x r IH]; cbn; intros H; constructor.
  - apply andb_prop in H. destruct H as [H _]. intros Hin.
    apply negb_true_iff in H. assert (existsb (String.eqb x) r = true); [|congruence].
    apply existsb_exists. exists x. split; [assumption|apply String.eqb_refl].
  - apply IH. apply andb_prop in H. apply H.
Qed.
Theorem registry_names_distinct : NoDup (map fst Registry.table).
Proof. apply nodupb_ok. vm_compute. reflexivity. Qed.

(* the registry as the lexer glue sees it (parser.y:360-381): precedence of the first overload *)
Definition gen_registry : registry := fun key =>
  match find (fun e:entry => text_eqb (s2b (fst e)) key) Registry.table with
  | Some e => {| oi_bin := hd_error (e_precs e); oi_un := snd (fst (snd e)); oi_nul := snd (snd e) |}
  | None => no_op
  end.

(* ------------------------------------------------------------------ grammar *)
Local Open Scope string_scope.
Definition rule := (string * list string * string)%type.
Definition dg (k:nat) : string := String (ascii_of_nat (48 + k)) "".
Definition q (s:string) : string := """" ++ s ++ """".

Section Layered.
Variable n : nat.      (* number of binary levels *)
Definition expn (k:nat) : string := "exp" ++ dg k.
Definition nxt (k:nat) : string := if (S k =? n)%nat then "expu" else expn (S k).
Definition optok (c:string) (k:nat) : string := "OPERATOR_" ++ c ++ "_" ++ dg k.
Definition bin_act (k:nat) : string := "$$ = astnode{ astkind::EXP" ++ dg k ++ ", $2 }; $$.append($1); $$.append($3);".
Definition un_act : string := "$$ = astnode{ astkind::EXPU, $1 }; $$.append($2);".
Definition nul_act : string := "$$ = astnode{ astkind::EXPN, $1 };".
Definition copy_act : string := "$$ = $1;".
Definition levels := seq 0 n.

Definition exp_rules (k:nat) : list rule :=
  (expn k, [nxt k], copy_act) ::
  map (fun c => (expn k, [expn k; optok c k; nxt k], bin_act k)) ["B"; "BU"; "BN"; "BUN"].

Definition layered_rules : list rule :=
  [ ("start", ["END_OF_FILE"], "result = astnode{};");
    ("start", ["statements"], "result = astnode{}; result.append($1);");
    ("start", ["separators"], "result = astnode{};");
    ("start", ["separators"; "statements"], "result = astnode{}; result.append($2);");
    ("statements", ["statement"], "$$ = astnode{ astkind::STATEMENTS }; $$.append($1);");
    ("statements", ["statements"; "separators"], copy_act);
    ("statements", ["statements"; "separators"; "statement"], "$$ = $1; $$.append($3);");
    ("statement", ["assignment"], copy_act);
    ("statement", ["expression"], copy_act);
    ("separator", [q ";"], "");
    ("separator", [q ","], "");
    ("separators", ["separator"], "");
    ("separators", ["separators"; "separator"], "");
    ("value", ["STRING"], "$$ = astnode{ astkind::STRING, $1 };");
    ("value", ["OPERATOR_N"], nul_act) ]
  ++ map (fun k => ("value", [optok "BN" k], nul_act)) levels
  ++ map (fun k => ("value", [optok "BUN" k], nul_act)) levels
  ++ [ ("value", ["IDENT"], "$$ = astnode{ astkind::IDENT, $1 };");
       ("value", ["NUMBER"], "$$ = astnode{ astkind::NUMBER, $1 };");
       ("value", ["HEXNUMBER"], "$$ = astnode{ astkind::HEXNUMBER, $1 };");
       ("value", [q "true"], "$$ = astnode{ astkind::BOOLEAN_TRUE, $1 };");
       ("value", [q "false"], "$$ = astnode{ astkind::BOOLEAN_FALSE, $1 };");
       ("value", ["code"], copy_act);
       ("value", ["array"], copy_act);
       ("exp_list", ["expression"], "$$ = astnode{ astkind::EXPRESSION_LIST }; $$.append($1);");
       ("exp_list", ["exp_list"; q ","; "expression"], "$$ = $1; $$.append($3);");
       ("code", [q "{"; "statements"; q "}"], "$$ = astnode{ astkind::CODE, $1 }; $$.append($2);");
       ("code", [q "{"; "separators"; "statements"; q "}"], "$$ = astnode{ astkind::CODE, $1 }; $$.append($3);");
       ("code", [q "{"; "separators"; q "}"], "$$ = astnode{ astkind::CODE, $1 };");
       ("code", [q "{"; q "}"], "$$ = astnode{ astkind::CODE, $1 };");
       ("array", [q "["; "exp_list"; q "]"], "$$ = astnode{ astkind::ARRAY, $1 }; $$.append_children($2);");
       ("array", [q "["; q "]"], "$$ = astnode{ astkind::ARRAY, $1 };");
       ("assignment", [q "private"; "IDENT"; q "="; "expression"], "$$ = astnode{ astkind::ASSIGNMENT_LOCAL, $2 }; $$.append($4);");
       ("assignment", ["value"; q "="; "expression"], "$$ = astnode{ astkind::ASSIGNMENT, $2 }; $$.append($1); $$.append($3);");
       ("expression", [expn 0], copy_act) ]
  ++ flat_map exp_rules levels
  ++ [ ("expu", [q "private"; "expu"], un_act);
       ("expu", ["OPERATOR_U"; "expu"], un_act);
       ("expu", ["OPERATOR_UN"; "expu"], un_act) ]
  ++ map (fun k => ("expu", [optok "BU" k; "expu"], un_act)) levels
  ++ map (fun k => ("expu", [optok "BUN" k; "expu"], un_act)) levels
  ++ [ ("expu", [q "("; "expression"; q ")"], "$$ = $2;");
       ("expu", ["value"], copy_act) ].

Definition layered_lexmap : list (bool * bool * bool * nat * string) :=
  flat_map (fun '(b, u, nl, c) => map (fun p => (b, u, nl, S p, optok c p)) levels)
           [(true, false, false, "B"); (true, false, true, "BN"); (true, true, false, "BU"); (true, true, true, "BUN")]
  ++ [(false, false, true, 0%nat, "OPERATOR_N"); (false, true, false, 0%nat, "OPERATOR_U"); (false, true, true, 0%nat, "OPERATOR_UN")].
End Layered.

Fixpoint lstr_eqb (a b:list string) : bool :=
  match a, b with [], [] => true | x :: a', y :: b' => String.eqb x y && lstr_eqb a' b' | _, _ => false end.
Definition rule_eqb (a b:rule) : bool :=
  String.eqb (fst (fst a)) (fst (fst b)) && lstr_eqb (snd (fst a)) (snd (fst b)) && String.eqb (snd a) (snd b).
Lemma lstr_eqb_eq a b : lstr_eqb a b = true -> a = b.
Proof.
  revert b. induction a; destruct b; cbn; intros H; try discriminate; auto.
  apply andb_prop in H. destruct H as [H1 H2]. apply String.eqb_eq in H1. subst. f_equal. auto.
Qed.
Lemma rule_eqb_eq a b : rule_eqb a b = true -> a = b.
Proof.
  destruct a as [[a1 a2] a3], b as [[b1 b2] b3]. unfold rule_eqb. cbn [fst snd]. intros H.
  apply andb_prop in H. destruct H as [H H3]. apply andb_prop in H. destruct H as [H1 H2].
  apply String.eqb_eq in H1, H3. apply lstr_eqb_eq in H2. subst. reflexivity.
Qed.
Definition subsetb {A} (eqb:A -> A -> bool) (l1 l2:list A) : bool := forallb (fun x => existsb (eqb x) l2) l1.
Lemma subsetb_ok {A} (eqb:A -> A -> bool) (Heq: forall a b, eqb a b = true -> a = b) l1 l2 :
  subsetb eqb l1 l2 = true -> forall x, In x l1 -> In x l2.
Proof.
  unfold subsetb. rewrite forallb_forall. intros H x Hx. specialize (H x Hx).
  apply existsb_exists in H. destruct H as (y & Hy & E). apply Heq in E. subst. exact Hy.
Qed.

(* the grammar bison generated the tables from is exactly the 10-level layered grammar the parser model
   follows: same rules, same actions (order of alternatives is immaterial) *)
Theorem grammar_is_layered : forall r, In r Grammar.rules <-> In r (layered_rules 10).
Proof.
  intros r. split; apply (subsetb_ok rule_eqb rule_eqb_eq); vm_compute; reflexivity.
Qed.
Theorem grammar_rule_count : List.length Grammar.rules = List.length (layered_rules 10).
Proof. vm_compute. reflexivity. Qed.

Definition lm_eqb (a b:bool * bool * bool * nat * string) : bool :=
  let '(b1, u1, n1, p1, t1) := a in let '(b2, u2, n2, p2, t2) := b in
  Bool.eqb b1 b2 && Bool.eqb u1 u2 && Bool.eqb n1 n2 && Nat.eqb p1 p2 && String.eqb t1 t2.
Lemma lm_eqb_eq a b : lm_eqb a b = true -> a = b.
Proof.
  destruct a as [[[[b1 u1] n1] p1] t1], b as [[[[b2 u2] n2] p2] t2]. unfold lm_eqb. intros H.
  repeat (apply andb_prop in H; destruct H as [H ?]).
  apply Bool.eqb_prop in H. apply Bool.eqb_prop in H3. apply Bool.eqb_prop in H2.
  apply Nat.eqb_eq in H1. apply String.eqb_eq in H0. subst. reflexivity.
Qed.
Theorem lexmap_is_layered : forall e, In e Grammar.lexmap <-> In e (layered_lexmap 10).
Proof.
  intros e. split; apply (subsetb_ok lm_eqb lm_eqb_eq); vm_compute; reflexivity.
Qed.

(* ... and the model's classification is that switch: a name with registry facts (binary at p / unary /
   nular) becomes token class c exactly when the switch has the row *)
Definition class_name (c:opclass) : string :=
  match c with
  | CB k => optok "B" k | CBU k => optok "BU" k | CBN k => optok "BN" k | CBUN k => optok "BUN" k
  | CU => "OPERATOR_U" | CN => "OPERATOR_N" | CUN => "OPERATOR_UN"
  end.
Definition info (b u nl:bool) (p:nat) : opinfo := {| oi_bin := if b then Some p else None; oi_un := u; oi_nul := nl |}.

Theorem lexmap_ok : forall b u nl p t s, In (b, u, nl, p, t) Grammar.lexmap ->
  exists c, classify_name (fun _ => info b u nl p) true s = TOp c s /\ class_name c = t.
Proof.
  intros b u nl p t s Hin. apply lexmap_is_layered in Hin.
  vm_compute in Hin.
  repeat (destruct Hin as [Hin|Hin]; [injection Hin as <- <- <- <- <-; eexists; split; reflexivity|]).
  destruct Hin.
Qed.

Lemma lm_mem x l : existsb (lm_eqb x) l = true -> In x l.
Proof. intros H. apply existsb_exists in H. destruct H as (y & Hy & E). apply lm_eqb_eq in E. subst. exact Hy. Qed.

Theorem lexmap_complete : forall i s c, classify_name (fun _ => i) true s = TOp c s ->
  In (match oi_bin i with Some _ => true | None => false end, oi_un i, oi_nul i,
      match oi_bin i with Some p => p | None => 0%nat end, class_name c) Grammar.lexmap.
Proof.
  intros i s c H. apply lm_mem.
  unfold classify_name in H. destruct i as [ob u nl]. cbn [oi_bin oi_un oi_nul] in *.
  destruct ob as [p|], u, nl; try discriminate;
    try (injection H as <-; vm_compute; reflexivity);
    do 11 (destruct p as [|p]; [cbn in H; try discriminate; injection H as <-; vm_compute; reflexivity|]);
    cbn in H; discriminate.
Qed.
