(* From text to tree: lexer and parser theorems combined. *)
From Coq Require Import ZArith List Bool Arith Lia.
Import ListNotations.
From SqfVerif Require Import Syntax.SyntaxDefs Syntax.ParsePrint Syntax.LexProofs Syntax.CompileProofs.

Lemma map_join {A B} (g:A -> B) sep l : map g (join sep l) = join (map g sep) (map (map g) l).
Proof.
  destruct l as [|x r]; [reflexivity|]. cbn [join map]. rewrite map_app. f_equal.
  induction r as [|y r IH]; [reflexivity|]. cbn [flat_map map]. rewrite !map_app, IH. reflexivity.
Qed.

Section PrMap.
Context {A:Type}.
Variable F : rtok -> A.
Variable lay : layout.
Notation I := (fun t:rtok => t).

Lemma seps_map l : map F (seps I l) = seps F l.
Proof. unfold seps. rewrite map_map. reflexivity. Qed.

Lemma pr_map_main : forall n,
  (forall t, (size t <= n)%nat -> forall k, map F (pr I lay k t) = pr F lay k t) /\
  (forall s, (size_stmt s <= n)%nat -> map F (pr_stmt I lay s) = pr_stmt F lay s).
Proof.
  induction n as [|n [IHt IHs]].
  { split; intros x Hsz; destruct x; cbn in Hsz; lia. }
  split.
  - intros t Hsz k.
    assert (Hraw: forall (G:rtok -> list A -> list A), True) by auto. clear Hraw.
    destruct t as [l|v|nm|s a|j s l r|es|ss|a].
    + cbn [pr lvl]. destruct (k <=? NLEV)%nat; reflexivity.
    + cbn [pr lvl]. destruct (k <=? NLEV)%nat; reflexivity.
    + cbn [pr lvl]. destruct (k <=? NLEV)%nat; reflexivity.
    + cbn [size] in Hsz. cbn [pr lvl]. destruct (k <=? NLEV)%nat; cbn [map]; rewrite ?map_app; cbn [map]; rewrite IHt by lia; reflexivity.
    + cbn [size] in Hsz. cbn [pr lvl]. destruct (k <=? j)%nat; cbn [map]; rewrite ?map_app; cbn [map]; rewrite ?map_app; cbn [map];
        rewrite !IHt by lia; reflexivity.
    + change (size (Arr es)) with (S (fold_right (fun e n => (size e + n)%nat) 0%nat es)) in Hsz.
      assert (Hm: map F (join [RComma] (map (pr I lay 0%nat) es)) = join [F RComma] (map (pr F lay 0%nat) es)).
      { rewrite map_join. cbn [map]. f_equal. rewrite map_map. apply map_ext_in. intros e He.
        pose proof (size_in e es He). apply IHt. lia. }
      cbn [pr lvl]. destruct (k <=? NLEV)%nat; cbn [map]; rewrite ?map_app; cbn [map]; rewrite ?map_app; cbn [map]; rewrite Hm; reflexivity.
    + change (size (Code ss)) with (S (fold_right (fun s n => (size_stmt s + n)%nat) 0%nat ss)) in Hsz.
      assert (Hm: map F (pr_block I lay ss) = pr_block F lay ss).
      { unfold pr_block. rewrite !map_app, !seps_map. f_equal. f_equal.
        rewrite map_join. unfold mid. rewrite seps_map. f_equal. rewrite map_map. apply map_ext_in. intros s Hs.
        pose proof (size_stmt_in s ss Hs). apply IHs. lia. }
      change (pr I lay k (Code ss)) with (if (k <=? NLEV)%nat then RCurlyO :: pr_block I lay ss ++ [RCurlyC]
                                           else RRoundO :: (RCurlyO :: pr_block I lay ss ++ [RCurlyC]) ++ [RRoundC]).
      change (pr F lay k (Code ss)) with (if (k <=? NLEV)%nat then F RCurlyO :: pr_block F lay ss ++ [F RCurlyC]
                                           else F RRoundO :: (F RCurlyO :: pr_block F lay ss ++ [F RCurlyC]) ++ [F RRoundC]).
      destruct (k <=? NLEV)%nat; cbn [map]; rewrite ?map_app; cbn [map]; rewrite ?map_app; cbn [map]; rewrite Hm; reflexivity.
    + cbn [size] in Hsz. cbn [pr lvl]. destruct (k <=? NLEV)%nat; cbn [map]; rewrite ?map_app; cbn [map]; rewrite ?map_app; cbn [map];
        rewrite IHt by lia; reflexivity.
  - intros s Hsz. rewrite size_stmt_unfold in Hsz.
    destruct s as [e|x e|x e].
    + change (pr_stmt I lay (SExpr e)) with (pr I lay 0%nat e). change (pr_stmt F lay (SExpr e)) with (pr F lay 0%nat e).
      apply IHt. lia.
    + change (pr_stmt I lay (SAssign x e)) with (pr I lay NLEV x ++ REqual :: pr I lay 0%nat e).
      change (pr_stmt F lay (SAssign x e)) with (pr F lay NLEV x ++ F REqual :: pr F lay 0%nat e).
      rewrite map_app. cbn [map]. rewrite !IHt by lia. reflexivity.
    + change (pr_stmt I lay (SLocal x e)) with (RPrivate kw_private :: RIdent x :: REqual :: pr I lay 0%nat e).
      change (pr_stmt F lay (SLocal x e)) with (F (RPrivate kw_private) :: F (RIdent x) :: F REqual :: pr F lay 0%nat e).
      cbn [map]. rewrite IHt by lia. reflexivity.
Qed.

Lemma pr_block_map ss : map F (pr_block I lay ss) = pr_block F lay ss.
Proof.
  unfold pr_block. rewrite !map_app, !seps_map. f_equal. f_equal.
  rewrite map_join. unfold mid. rewrite seps_map. f_equal. rewrite map_map. apply map_ext. intros s.
  apply (proj2 (pr_map_main (size_stmt s))). lia.
Qed.
End PrMap.

Lemma print_raw_toks R lay ss : map (classify R) (print_raw lay ss) = print_toks R lay ss.
Proof. apply pr_block_map. Qed.

(* The reading, end to end: write the documented reading of a well-formed program as text - the tokens
   of print_raw (minimal parentheses plus any redundant ones, any separator layout), each token spelled
   so that it reads as itself, any whitespace in between - and the front end returns the program. *)
Theorem reading_end_to_end : forall (R:registry) (d:defects) (lay:layout) (ss:list stmt) items trail,
  wf_block R ss -> map snd items = print_raw lay ss -> sep_ok items trail ->
  exists f0, forall f, (f0 <= f)%nat -> parse_text d R f (render items trail) = FOk (map strip_stmt ss).
Proof.
  intros R d lay ss items trail Hwf Hit Hsep.
  destruct (parse_print_block R d lay ss Hwf) as [f0 H]. exists f0. intros f Hf.
  unfold parse_text. rewrite (lex_render items trail Hsep), Hit, print_raw_toks, (H f Hf). reflexivity.
Qed.

(* ... and what is compiled from it is the post-order of the reading *)
Theorem compiled_reading : forall (R:registry) (d:defects) (lay:layout) (ss:list stmt) items trail,
  wf_block R ss -> map snd items = print_raw lay ss -> sep_ok items trail ->
  exists f0, forall f, (f0 <= f)%nat ->
    match parse_text d R f (render items trail) with FOk p => compile_block p | _ => None end
    = Some (postorder_block (map strip_stmt ss)).
Proof.
  intros R d lay ss items trail Hwf Hit Hsep.
  destruct (reading_end_to_end R d lay ss items trail Hwf Hit Hsep) as [f0 H]. exists f0. intros f Hf.
  rewrite (H f Hf). apply compile_block_postorder.
Qed.
