(* compile = post-order of the reading; the stack machine computes the value of the reading. *)
From Coq Require Import ZArith List Bool Arith Lia.
Import ListNotations.
From SqfVerif Require Import Syntax.SyntaxDefs.

Lemma size_in e es : In e es -> (size e <= fold_right (fun e n => (size e + n)%nat) 0%nat es)%nat.
Proof. induction es; cbn; intros []; subst; [lia|]. specialize (IHes H). lia. Qed.
Lemma size_stmt_in s ss : In s ss -> (size_stmt s <= fold_right (fun s n => (size_stmt s + n)%nat) 0%nat ss)%nat.
Proof. induction ss; cbn; intros []; subst; [lia|]. specialize (IHss H). lia. Qed.

Lemma postorder_stmt_unfold s : postorder_stmt s = match s with
  | SExpr e => postorder e
  | SAssign x e => postorder e ++ [IAssignTo (match x with Var n | Nul n => n | _ => [] end)]
  | SLocal x e => postorder e ++ [IAssignToLocal x]
  end.
Proof. destruct s; reflexivity. Qed.
Lemma comp_stmt_unfold s set : comp_stmt s set = match s with
  | SExpr e => comp e set
  | SAssign x e => obind (comp e set) (fun set1 => Some (set1 ++ [IAssignTo (match x with Var n | Nul n => n | _ => [] end)]))
  | SLocal x e => obind (comp e set) (fun set1 => Some (set1 ++ [IAssignToLocal x]))
  end.
Proof. destruct s; reflexivity. Qed.
Lemma size_stmt_unfold s : size_stmt s = match s with
  | SExpr e => S (size e) | SAssign x e => S (size x + size e) | SLocal _ e => S (size e) end.
Proof. destruct s; reflexivity. Qed.

(* a signed-number operand compiles to a single PUSH *)
Lemma unsigned_postorder : forall a l, unsigned_num a = Some l -> postorder a = [IPush (PLit false l)].
Proof.
  induction a; intros l0 H; cbn [unsigned_num] in H; try discriminate.
  - destruct l; try discriminate; injection H as <-; reflexivity.
  - destruct (text_eqb s sym_plus) eqn:E; [|discriminate].
    cbn [postorder]. rewrite H.
    assert (Hm: text_eqb s sym_minus = false).
    { destruct s as [|c [|c' s']]; cbn in *; try discriminate; try reflexivity.
      - rewrite andb_true_r in E. apply Z.eqb_eq in E. subst. reflexivity.
      - rewrite andb_false_r in *. discriminate. }
    rewrite Hm, E. reflexivity.
  - cbn [postorder]. apply IHa. exact H.
Qed.
Lemma unsigned_kind a l : unsigned_num a = Some l -> (exists s, l = LNum s) \/ (exists s, l = LHex s).
Proof.
  induction a; cbn [unsigned_num]; intros H; try discriminate; auto.
  - destruct l0; try discriminate; injection H as <-; eauto.
  - destruct (text_eqb s sym_plus); [auto|discriminate].
Qed.
Lemma negate_last_push set l : ((exists s, l = LNum s) \/ (exists s, l = LHex s)) ->
  negate_last (set ++ [IPush (PLit false l)]) = Some (set ++ [IPush (PLit true l)]).
Proof.
  intros H. unfold negate_last. rewrite rev_app_distr. cbn [rev app].
  destruct H as [[s ->]|[s ->]]; rewrite rev_involutive; reflexivity.
Qed.

Definition comp_list := fix go (es:list tree) (set:list instr) : option (list instr) :=
  match es with [] => Some set | e :: r => obind (comp e set) (go r) end.
Definition comp_code := fix go (first:bool) (ss:list stmt) (tmp:list instr) : option (list instr) :=
  match ss with
  | [] => Some tmp
  | s :: r => obind (comp_stmt s (if first then tmp else tmp ++ [IEndStatement])) (go false r)
  end.

Lemma comp_arr es set : comp (Arr es) set = obind (comp_list es set) (fun set1 => Some (set1 ++ [IMakeArray (length es)])).
Proof. reflexivity. Qed.
Lemma comp_code_eq ss set : comp (Code ss) set = obind (comp_code true ss []) (fun tmp => Some (set ++ [IPush (PCode tmp)])).
Proof. reflexivity. Qed.
Lemma comp_code_block first ss set : comp_code first ss set = comp_block first ss set.
Proof. revert first set. induction ss; intros; cbn; [reflexivity|]. destruct (comp_stmt _ _); cbn; auto. Qed.

Theorem compile_postorder_main : forall n,
  (forall t, (size t <= n)%nat -> forall set, comp t set = Some (set ++ postorder t)) /\
  (forall s, (size_stmt s <= n)%nat -> forall set, comp_stmt s set = Some (set ++ postorder_stmt s)).
Proof.
  induction n as [|n [IHt IHs]].
  { split; intros x Hsz; destruct x; cbn in Hsz; lia. }
  split.
  - intros t Hsz set. destruct t as [l|v|nm|s a|j s l r|es|ss|a].
    + reflexivity. + reflexivity. + reflexivity.
    + cbn [size] in Hsz. cbn [comp postorder]. rewrite IHt by lia. cbn [obind].
      destruct (unsigned_num a) as [l|] eqn:Eu.
      * rewrite (unsigned_postorder a l Eu).
        destruct (text_eqb s sym_minus) eqn:Em.
        -- rewrite orb_true_r. cbn [andb]. rewrite negate_last_push by (eapply unsigned_kind; eauto). reflexivity.
        -- rewrite orb_false_r. destruct (text_eqb s sym_plus) eqn:Ep; cbn [andb]; [reflexivity|].
           rewrite <- app_assoc. reflexivity.
      * cbn [andb]. rewrite <- app_assoc. reflexivity.
    + cbn [size] in Hsz. cbn [comp postorder]. rewrite IHt by lia. cbn [obind]. rewrite IHt by lia. cbn [obind].
      rewrite <- !app_assoc. reflexivity.
    + change (size (Arr es)) with (S (fold_right (fun e n => (size e + n)%nat) 0%nat es)) in Hsz.
      rewrite comp_arr.
      assert (H: forall set, comp_list es set = Some (set ++ flat_map postorder es)).
      { assert (Hin: forall e, In e es -> (size e <= n)%nat) by (intros e He; pose proof (size_in e es He); lia).
        clear Hsz. induction es as [|e es IH]; intros set0; [cbn; rewrite app_nil_r; reflexivity|].
        cbn [comp_list flat_map]. rewrite IHt by (apply Hin; left; reflexivity). cbn [obind].
        rewrite IH by (intros; apply Hin; right; assumption). rewrite <- app_assoc. reflexivity. }
      rewrite H. cbn [obind postorder]. rewrite <- app_assoc. reflexivity.
    + change (size (Code ss)) with (S (fold_right (fun s n => (size_stmt s + n)%nat) 0%nat ss)) in Hsz.
      rewrite comp_code_eq.
      assert (H: forall first tmp, comp_code first ss tmp =
                   Some (tmp ++ match ss with [] => [] | _ => (if first then [] else [IEndStatement]) ++ join [IEndStatement] (map postorder_stmt ss) end)).
      { assert (Hin: forall s, In s ss -> (size_stmt s <= n)%nat) by (intros s Hs; pose proof (size_stmt_in s ss Hs); lia).
        clear Hsz. induction ss as [|s ss IH]; intros first tmp; [cbn; rewrite app_nil_r; reflexivity|].
        cbn [comp_code]. rewrite IHs by (apply Hin; left; reflexivity). cbn [obind].
        rewrite IH by (intros; apply Hin; right; assumption).
        destruct ss as [|s2 ss].
        - cbn [map join flat_map]. rewrite !app_nil_r. destruct first; rewrite <- ?app_assoc; reflexivity.
        - cbn [map join flat_map app]. destruct first; rewrite <- !app_assoc; reflexivity. }
      rewrite H. cbn [obind app].
      change (postorder (Code ss)) with [IPush (PCode (join [IEndStatement] (map postorder_stmt ss)))].
      destruct ss; reflexivity.
    + cbn [size] in Hsz. cbn [comp postorder]. apply IHt. lia.
  - intros s Hsz set. rewrite comp_stmt_unfold, postorder_stmt_unfold. rewrite size_stmt_unfold in Hsz.
    destruct s as [e|x e|x e].
    + apply IHt. lia.
    + rewrite IHt by lia. cbn [obind]. rewrite <- app_assoc. reflexivity.
    + rewrite IHt by lia. cbn [obind]. rewrite <- app_assoc. reflexivity.
Qed.

Theorem compile_postorder : forall t set, comp t set = Some (set ++ postorder t).
Proof. intros t set. apply (proj1 (compile_postorder_main (size t))). lia. Qed.

Theorem compile_block_postorder : forall ss, compile_block ss = Some (postorder_block ss).
Proof.
  intros ss. unfold compile_block, postorder_block.
  assert (H: forall first tmp, comp_block first ss tmp =
               Some (tmp ++ match ss with [] => [] | _ => (if first then [] else [IEndStatement]) ++ join [IEndStatement] (map postorder_stmt ss) end)).
  { induction ss as [|s ss IH]; intros first tmp; [cbn; rewrite app_nil_r; reflexivity|].
    cbn [comp_block]. rewrite (proj2 (compile_postorder_main (size_stmt s))) by lia. cbn [obind].
    rewrite IH. destruct ss as [|s2 ss].
    - cbn [map join flat_map]. rewrite !app_nil_r. destruct first; rewrite <- ?app_assoc; reflexivity.
    - cbn [map join flat_map app]. destruct first; rewrite <- !app_assoc; reflexivity. }
  rewrite H. destruct ss; reflexivity.
Qed.

(* ------------------------------------------------------------------ stack machine *)
Section Stack.
Variable V : Type.
Variable m : sem V.
(* the one thing the sign fold assumes of the operators: `-` / `+` applied to a number literal
   denote its negation / itself (sqf_parser.cpp:76-84) *)
Hypothesis minus_lit : forall l, ((exists s, l = LNum s) \/ (exists s, l = LHex s)) ->
  s_un V m sym_minus (s_lit V m false l) = s_lit V m true l.
Hypothesis plus_lit : forall l, ((exists s, l = LNum s) \/ (exists s, l = LHex s)) ->
  s_un V m sym_plus (s_lit V m false l) = s_lit V m false l.

Lemma run_app c1 c2 st : run_stack V m (c1 ++ c2) st =
  match run_stack V m c1 st with Some st' => run_stack V m c2 st' | None => None end.
Proof. revert st. induction c1; intros; cbn; [reflexivity|]. destruct (step V m a st); auto. Qed.

Lemma pop_n_rev vs st acc : pop_n V (length vs) (rev vs ++ st) acc = Some (vs ++ acc, st).
Proof.
  revert st acc. induction vs using rev_ind; intros st acc; [reflexivity|].
  rewrite app_length, Nat.add_comm. cbn [length plus]. rewrite rev_app_distr. cbn [rev app pop_n].
  rewrite IHvs. rewrite <- app_assoc. reflexivity.
Qed.

Lemma unsigned_eval a l : unsigned_num a = Some l -> eval_tree V m a = s_lit V m false l.
Proof.
  revert l. induction a; intros l0 H; cbn [unsigned_num] in H; try discriminate.
  - destruct l; try discriminate; injection H as <-; reflexivity.
  - destruct (text_eqb s sym_plus) eqn:E; [|discriminate].
    assert (s = sym_plus).
    { destruct s as [|c [|c' s']]; cbn in E; try discriminate.
      - rewrite andb_true_r in E. apply Z.eqb_eq in E. subst. reflexivity.
      - rewrite andb_false_r in E. discriminate. }
    subst. cbn [eval_tree]. rewrite (IHa _ H). apply plus_lit. eapply unsigned_kind; eauto.
  - cbn [eval_tree]. auto.
Qed.

Lemma text_eqb_eq a b : text_eqb a b = true -> a = b.
Proof.
  revert b. induction a; destruct b; cbn; intros H; try discriminate; auto.
  apply andb_prop in H. destruct H as [H1 H2]. apply Z.eqb_eq in H1. subst. f_equal. auto.
Qed.

Theorem stack_eval_main : forall n t, (size t <= n)%nat -> forall st,
  run_stack V m (postorder t) st = Some (eval_tree V m t :: st).
Proof.
  induction n as [|n IH]; intros t Hsz st; [destruct t; cbn in Hsz; lia|].
  destruct t as [l|v|nm|s a|j s l r|es|ss|a].
  - reflexivity. - reflexivity. - reflexivity.
  - cbn [size] in Hsz. cbn [postorder eval_tree].
    assert (Hgen: run_stack V m (postorder a ++ [ICallUnary (lower s)]) st = Some (s_un V m (lower s) (eval_tree V m a) :: st)).
    { rewrite run_app. rewrite IH by lia. reflexivity. }
    destruct (unsigned_num a) as [l|] eqn:Eu; [|exact Hgen].
    pose proof (unsigned_kind a l Eu) as Hk.
    destruct (text_eqb s sym_minus) eqn:Em.
    + apply text_eqb_eq in Em. subst. cbn [run_stack step]. rewrite (unsigned_eval a l Eu).
      change (lower sym_minus) with sym_minus. rewrite minus_lit by assumption. reflexivity.
    + destruct (text_eqb s sym_plus) eqn:Ep; [|exact Hgen].
      apply text_eqb_eq in Ep. subst. cbn [run_stack step]. rewrite (unsigned_eval a l Eu).
      change (lower sym_plus) with sym_plus. rewrite plus_lit by assumption. reflexivity.
  - cbn [size] in Hsz. cbn [postorder eval_tree]. rewrite run_app, IH by lia. rewrite run_app, IH by lia. reflexivity.
  - change (size (Arr es)) with (S (fold_right (fun e n => (size e + n)%nat) 0%nat es)) in Hsz.
    cbn [postorder eval_tree]. rewrite run_app.
    assert (H: forall st, run_stack V m (flat_map postorder es) st = Some (rev (map (eval_tree V m) es) ++ st)).
    { assert (Hin: forall e, In e es -> (size e <= n)%nat) by (intros e He; pose proof (size_in e es He); lia).
      clear Hsz. induction es as [|e es IHes]; intros st0; [reflexivity|].
      cbn [flat_map map rev]. rewrite run_app, IH by (apply Hin; left; reflexivity).
      rewrite IHes by (intros; apply Hin; right; assumption). rewrite <- app_assoc. reflexivity. }
    rewrite H. cbn [run_stack step]. rewrite <- (map_length (eval_tree V m) es).
    rewrite pop_n_rev. rewrite app_nil_r. reflexivity.
  - reflexivity.
  - cbn [size] in Hsz. cbn [postorder eval_tree]. apply IH. lia.
Qed.

Theorem stack_eval_correct : forall t st,
  run_stack V m (postorder t) st = Some (eval_tree V m t :: st).
Proof. intros. eapply stack_eval_main. apply le_n. Qed.
End Stack.
