(* parse o print = id, generalised: the separator layout may differ from block to block.
   `prg F layf` is the documented reading of SyntaxDefs.pr where the layout of a statement list ss
   (leading / middle / trailing separators) is `layf ss` instead of one fixed layout; pr is the instance
   `layf = fun _ => lay` (prg_const).  Every such rendering of a well-formed tree is parsed back to the tree
   (Par nodes erased).  The proof is that of Syntax/ParsePrint.v with the layout made local to a block; it is
   what the pretty printer needs (sqf_formatter.cpp prints `{}` for an empty block and `{ a; b; }` otherwise,
   which no single layout describes). *)
From Coq Require Import ZArith List Bool Arith Lia.
Import ListNotations.
From SqfVerif Require Import Syntax.SyntaxDefs Syntax.ParseEqs Syntax.ParseMono.

Section PrintG.
Context {A:Type}.
Variable F : rtok -> A.
Variable layf : list stmt -> layout.

Fixpoint prg (k:nat) (t:tree) : list A :=
  let raw := match t with
             | Lit l => [F (raw_of_lit l)]
             | Var s => [F (RIdent s)]
             | Nul s => [F (raw_of_name s)]
             | Un s a => F (raw_of_name s) :: prg NLEV a
             | Bin j s l r => prg j l ++ F (raw_of_name s) :: prg (S j) r
             | Arr es => F RSquareO :: join [F RComma] (map (prg 0%nat) es) ++ [F RSquareC]
             | Code ss => F RCurlyO :: (seps F (lay_lead (layf ss)) ++ join (mid F (layf ss)) (map prg_stmt ss)
                                        ++ seps F (lay_trail (layf ss))) ++ [F RCurlyC]
             | Par a => F RRoundO :: prg 0%nat a ++ [F RRoundC]
             end in
  if (k <=? lvl t)%nat then raw else F RRoundO :: raw ++ [F RRoundC]
with prg_stmt (s:stmt) : list A :=
  match s with
  | SExpr e => prg 0%nat e
  | SAssign x e => prg NLEV x ++ F REqual :: prg 0%nat e
  | SLocal x e => F (RPrivate kw_private) :: F (RIdent x) :: F REqual :: prg 0%nat e
  end.
Definition prg_block (ss:list stmt) : list A :=
  seps F (lay_lead (layf ss)) ++ join (mid F (layf ss)) (map prg_stmt ss) ++ seps F (lay_trail (layf ss)).
End PrintG.

Definition printg_raw (layf:list stmt -> layout) (ss:list stmt) : list rtok := prg_block (fun t => t) layf ss.
Definition printg_toks (R:registry) (layf:list stmt -> layout) (ss:list stmt) : list tok := prg_block (classify R) layf ss.

Section PPG.
Variable R : registry.
Variable d : defects.
Variable layf : list stmt -> layout.

Notation F := (classify R).
Notation P := (prg (classify R) layf).
Notation PS := (prg_stmt (classify R) layf).
Notation PB := (prg_block (classify R) layf).

Definition praw (t:tree) : list tok :=
  match t with
  | Lit l => [F (raw_of_lit l)]
  | Var s => [F (RIdent s)]
  | Nul s => [F (raw_of_name s)]
  | Un s a => F (raw_of_name s) :: P NLEV a
  | Bin j s l r => P j l ++ F (raw_of_name s) :: P (S j) r
  | Arr es => F RSquareO :: join [F RComma] (map (P 0%nat) es) ++ [F RSquareC]
  | Code ss => F RCurlyO :: PB ss ++ [F RCurlyC]
  | Par a => F RRoundO :: P 0%nat a ++ [F RRoundC]
  end.

Lemma pr_unfold k t : P k t = if (k <=? lvl t)%nat then praw t else F RRoundO :: praw t ++ [F RRoundC].
Proof. destruct t; reflexivity. Qed.

Lemma pr_stmt_unfold s : PS s = match s with
  | SExpr e => P 0%nat e
  | SAssign x e => P NLEV x ++ F REqual :: P 0%nat e
  | SLocal x e => F (RPrivate kw_private) :: F (RIdent x) :: F REqual :: P 0%nat e
  end.
Proof. destruct s; reflexivity. Qed.

Lemma wfb_stmt_unfold s : wfb_stmt R s = match s with
  | SExpr e => wfb R e
  | SAssign x e => (match x with
                    | Var v => match classify R (RIdent v) with TIdent _ => true | _ => false end
                    | _ => false end) && wfb R e
  | SLocal x e => (match classify R (RIdent x) with TIdent _ => true | _ => false end) && wfb R e
  end.
Proof. destruct s; reflexivity. Qed.
Lemma strip_stmt_unfold s : strip_stmt s = match s with
  | SExpr e => SExpr (strip e) | SAssign x e => SAssign (strip x) (strip e) | SLocal x e => SLocal x (strip e) end.
Proof. destruct s; reflexivity. Qed.
Lemma size_stmt_unfold s : size_stmt s = match s with
  | SExpr e => S (size e) | SAssign x e => S (size x + size e) | SLocal _ e => S (size e) end.
Proof. destruct s; reflexivity. Qed.

Lemma lvl_le_N t : wf_tree R t -> (lvl t <= NLEV)%nat.
Proof.
  destruct t; cbn [lvl]; unfold NLEV; try lia. unfold wf_tree. cbn [wfb]. intros H.
  apply andb_prop in H. destruct H as [H _]. apply andb_prop in H. destruct H as [H _].
  apply andb_prop in H. destruct H as [H _]. apply Nat.ltb_lt in H. unfold NLEV in H. lia.
Qed.

Lemma pr_raw_eq k t : (k < lvl t)%nat -> P k t = P (S k) t.
Proof.
  intros H. rewrite !pr_unfold.
  destruct (Nat.leb_spec k (lvl t)); [|lia]. destruct (Nat.leb_spec (S k) (lvl t)); [reflexivity|lia].
Qed.
Lemma pr_par_eq k k' t : (lvl t < k)%nat -> (lvl t < k')%nat -> P k t = P k' t.
Proof.
  intros H H'. rewrite !pr_unfold.
  destruct (Nat.leb_spec k (lvl t)); [lia|]. destruct (Nat.leb_spec k' (lvl t)); [lia|reflexivity].
Qed.
Lemma pr_at_lvl k t : (k <= lvl t)%nat -> P k t = praw t.
Proof. intros H. rewrite pr_unfold. destruct (Nat.leb_spec k (lvl t)); [reflexivity|lia]. Qed.
Lemma pr_above_lvl k t : (lvl t < k)%nat -> P k t = F RRoundO :: praw t ++ [F RRoundC].
Proof. intros H. rewrite pr_unfold. destruct (Nat.leb_spec k (lvl t)); [lia|reflexivity]. Qed.

(* ---------- names and their tokens ---------- *)
Lemma classify_name_cases b s :
  (exists c, classify_name R b s = TOp c s) \/ classify_name R b s = TIdent s \/ classify_name R b s = TInvalid.
Proof.
  unfold classify_name.
  destruct (oi_bin (R (lower s))) as [p|], (oi_un (R (lower s))), (oi_nul (R (lower s)));
    try (destruct ((1 <=? p)%nat && (p <=? 10)%nat)); try destruct b; eauto.
Qed.
Lemma name_tok_cases s :
  name_tok R s = TPrivate s \/ (exists c, name_tok R s = TOp c s) \/ name_tok R s = TIdent s \/ name_tok R s = TInvalid.
Proof.
  unfold name_tok, raw_of_name. destruct s as [|c s'].
  - cbn [classify]. destruct (classify_name_cases false []) as [H|[H|H]]; eauto.
  - destruct (is_ident_start c).
    + destruct (text_eqb (lower (c :: s')) kw_private); cbn [classify]; eauto.
      destruct (classify_name_cases true (c :: s')) as [H|[H|H]]; eauto.
    + cbn [classify]. destruct (classify_name_cases false (c :: s')) as [H|[H|H]]; eauto.
Qed.
Lemma name_tok_op s c s' : name_tok R s = TOp c s' -> s' = s.
Proof. destruct (name_tok_cases s) as [H|[[c' H]|[H|H]]]; rewrite H; congruence. Qed.
Lemma name_tok_private s s' : name_tok R s = TPrivate s' -> s' = s.
Proof. destruct (name_tok_cases s) as [H|[[c' H]|[H|H]]]; rewrite H; congruence. Qed.

(* ---------- stops / loop ---------- *)
Definition stops (k:nat) (X:list tok) : Prop :=
  match X with
  | o :: _ => match binlevel o with Some j => (j < k)%nat | None => True end
  | [] => True
  end.
Lemma stops_mono k j X : stops k X -> (k <= j)%nat -> stops j X.
Proof. destruct X as [|o X]; cbn; auto. destruct (binlevel o); auto. lia. Qed.

Lemma loop_stop k acc X f : stops k X -> p_loop d (S f) k acc X = POk (acc, X).
Proof.
  intros H. rewrite p_loop_S. destruct X as [|o r]; [reflexivity|].
  cbn [stops] in H. destruct (binlevel o) as [j|]; [|reflexivity].
  destruct (Nat.eqb_spec j k); [lia|reflexivity].
Qed.

Lemma p_exp_lt f k ts : (k < NLEV)%nat ->
  p_exp d (S f) k ts = match p_exp d f (S k) ts with POk (l, r) => p_loop d f k l r | PErr => PErr | POut => POut end.
Proof. intros H. rewrite p_exp_S. destruct (Nat.leb_spec NLEV k); [lia|reflexivity]. Qed.

Lemma climb f k ts a X : (k < NLEV)%nat -> stops k X ->
  p_exp d f (S k) ts = POk (a, X) -> p_exp d (S (S f)) k ts = POk (a, X).
Proof.
  intros Hk HX E. rewrite p_exp_lt by assumption.
  rewrite (mono_e d _ (S f) _ _ _ E) by lia. apply loop_stop; assumption.
Qed.

(* from level hi down to level lo, as long as the printed form does not change and the loops stop *)
Lemma climb_many t a X : forall n lo hi, (hi - lo = n)%nat -> (lo <= hi)%nat -> (hi <= NLEV)%nat ->
  (forall j, (lo <= j < hi)%nat -> P j t = P (S j) t) -> stops lo X ->
  (exists f, p_exp d f hi (P hi t ++ X) = POk (a, X)) ->
  exists f, p_exp d f lo (P lo t ++ X) = POk (a, X).
Proof.
  induction n as [|n IH]; intros lo hi Hn Hle HN Heq HX [f E].
  - assert (lo = hi) by lia. subst. eauto.
  - destruct (IH (S lo) hi) as [f' E']; try lia; eauto.
    + intros j Hj. apply Heq. lia.
    + eapply stops_mono; eauto.
    + exists (S (S f')). rewrite (Heq lo) by lia. apply climb; auto. lia.
Qed.

(* ---------- operand dispatch ---------- *)
Definition unary_tok (t:tok) : bool :=
  match t with TPrivate _ | TOp CU _ | TOp (CBU _) _ | TOp (CBUN _) _ | TOp CUN _ => true | _ => false end.

Lemma p_exp_unary f t r a r' : unary_tok t = true -> next_starts_expu r = true ->
  p_exp d f NLEV r = POk (a, r') -> p_exp d (S f) NLEV (t :: r) = POk (Un (tok_name t) a, r').
Proof.
  intros Hu Hn E. rewrite p_exp_S. change (NLEV <=? NLEV)%nat with true. cbv iota.
  destruct t; try discriminate; try (rewrite E; reflexivity).
  destruct c; try discriminate; try rewrite Hn; rewrite E; reflexivity.
Qed.

Definition value_tok (t:tok) : option tree :=
  match t with
  | TOp CN s | TOp (CBN _) s => Some (Nul s)
  | TIdent s => Some (Var s)
  | TNumber s => Some (Lit (LNum s)) | THex s => Some (Lit (LHex s)) | TString s => Some (Lit (LStr s))
  | TTrue s => Some (Lit (LTrue s)) | TFalse s => Some (Lit (LFalse s))
  | _ => None
  end.
Lemma p_exp_value f t r v : value_tok t = Some v -> p_exp d (S f) NLEV (t :: r) = POk (v, r).
Proof.
  intros H. rewrite p_exp_S. change (NLEV <=? NLEV)%nat with true. cbv iota.
  destruct t; try discriminate; try (injection H as <-; reflexivity).
  destruct c; try discriminate; injection H as <-; reflexivity.
Qed.

Lemma p_exp_paren f r e r' : p_exp d f 0%nat r = POk (e, TRoundC :: r') ->
  p_exp d (S f) NLEV (TRoundO :: r) = POk (e, r').
Proof. intros E. rewrite p_exp_S. change (NLEV <=? NLEV)%nat with true. cbv iota. rewrite E. reflexivity. Qed.

Lemma p_exp_code f r ss r' : p_stmts d f r = POk (ss, TCurlyC :: r') ->
  p_exp d (S f) NLEV (TCurlyO :: r) = POk (Code ss, r').
Proof. intros E. rewrite p_exp_S. change (NLEV <=? NLEV)%nat with true. cbv iota. rewrite E. reflexivity. Qed.

Lemma p_exp_arr0 f r : p_exp d (S f) NLEV (TSquareO :: TSquareC :: r) = POk (Arr [], r).
Proof. rewrite p_exp_S. reflexivity. Qed.

Lemma p_exp_arr f t r es r' : t <> TSquareC -> p_items d f (t :: r) = POk (es, r') ->
  p_exp d (S f) NLEV (TSquareO :: t :: r) = POk (Arr es, r').
Proof.
  intros Ht E. rewrite p_exp_S. change (NLEV <=? NLEV)%nat with true. cbv iota.
  destruct t; try congruence; rewrite E; reflexivity.
Qed.

(* ---------- first token of a printed tree ---------- *)
Definition head_ok (ts:list tok) : Prop := exists t0 r, ts = t0 :: r /\ starts_expu t0 = true.

Lemma head_ok_app ts X : head_ok ts -> head_ok (ts ++ X).
Proof. intros (t0 & r & -> & H). exists t0, (r ++ X). split; [reflexivity|assumption]. Qed.
Lemma head_ok_next ts : head_ok ts -> next_starts_expu ts = true.
Proof. intros (t0 & r & -> & H). exact H. Qed.

Lemma wf_un_tok s : (match name_tok R s with TOp c _ => is_unclass c | TPrivate _ => true | _ => false end) = true ->
  unary_tok (name_tok R s) = true /\ starts_expu (name_tok R s) = true /\ tok_name (name_tok R s) = s.
Proof.
  intros H. destruct (name_tok R s) eqn:E; try discriminate.
  - apply name_tok_private in E. subst. auto.
  - apply name_tok_op in E. subst. destruct c; try discriminate; auto.
Qed.

Lemma head_raw t : wf_tree R t -> lvl t = NLEV -> head_ok (praw t).
Proof.
  unfold wf_tree. destruct t; cbn [wfb lvl praw]; intros H HN.
  - destruct l; eexists _, _; (split; [reflexivity|reflexivity]).
  - cbn [classify] in *. destruct (classify_name R true s) eqn:E; try discriminate.
    eexists _, _. split; [reflexivity|reflexivity].
  - fold (name_tok R s). destruct (name_tok R s) eqn:E; try discriminate.
    eexists _, _. split; [reflexivity|]. destruct c; try discriminate; reflexivity.
  - apply andb_prop in H. destruct H as [H _]. apply wf_un_tok in H. destruct H as (_ & H & _).
    eexists _, _. split; [reflexivity|exact H].
  - apply andb_prop in H. destruct H as [H _]. apply andb_prop in H. destruct H as [H _].
    apply andb_prop in H. destruct H as [H _]. apply Nat.ltb_lt in H. lia.
  - eexists _, _. split; reflexivity.
  - eexists _, _. split; reflexivity.
  - eexists _, _. split; reflexivity.
Qed.

Lemma head_pr k t : wf_tree R t -> head_ok (P k t).
Proof.
  intros H. rewrite pr_unfold. destruct (Nat.leb_spec k (lvl t)).
  - revert k H0. induction t; intros k0 Hk; try (apply head_raw; [assumption|reflexivity]).
    cbn [praw]. apply head_ok_app. unfold wf_tree in H. cbn [wfb] in H.
    apply andb_prop in H. destruct H as [H _]. apply andb_prop in H. destruct H as [_ H].
    rewrite pr_unfold. destruct (Nat.leb_spec k (lvl t1)).
    + apply (IHt1 H k). assumption.
    + eexists _, _. split; reflexivity.
  - eexists _, _. split; reflexivity.
Qed.

Lemma head_stmt s : wfb_stmt R s = true -> head_ok (PS s).
Proof.
  rewrite wfb_stmt_unfold; destruct s; intros H; rewrite pr_stmt_unfold.
  - apply head_pr. exact H.
  - apply andb_prop in H. destruct H as [H _]. destruct x; try discriminate.
    apply head_ok_app. apply head_pr. unfold wf_tree. cbn [wfb]. exact H.
  - eexists _, _. split; reflexivity.
Qed.

(* ---------- sizes ---------- *)
Lemma size_in e es : In e es -> (size e <= fold_right (fun e n => (size e + n)%nat) 0%nat es)%nat.
Proof. induction es; cbn; intros []; subst; [lia|]. specialize (IHes H). lia. Qed.
Lemma size_stmt_in s ss : In s ss -> (size_stmt s <= fold_right (fun s n => (size_stmt s + n)%nat) 0%nat ss)%nat.
Proof. induction ss; cbn; intros []; subst; [lia|]. specialize (IHss H). lia. Qed.

(* ---------- the claims ---------- *)
Definition GoodAt (k:nat) (t:tree) : Prop :=
  forall X, stops k X -> exists f, p_exp d f k (P k t ++ X) = POk (strip t, X).
Definition CAt (t:tree) : Prop :=
  (lvl t < NLEV)%nat -> forall X res, stops (S (lvl t)) X ->
  (exists f, p_loop d f (lvl t) (strip t) X = POk res) ->
  exists f, p_exp d f (lvl t) (P (lvl t) t ++ X) = POk res.
Definition stmt_end (X:list tok) : Prop :=
  match X with [] => True | t :: _ => is_sep t = true \/ t = TCurlyC end.
Definition GoodS (s:stmt) : Prop :=
  forall X, stmt_end X -> exists f, p_stmt d f (PS s ++ X) = POk (strip_stmt s, X).

Lemma stmt_end_stops X : stmt_end X -> stops 0 X.
Proof. destruct X as [|t X]; cbn; auto. intros [H| ->]; [destruct t; try discriminate; exact I|exact I]. Qed.

(* array elements *)
Lemma items_ok : forall es, es <> [] -> Forall (GoodAt 0%nat) es -> forall X,
  exists f, p_items d f (join [F RComma] (map (P 0%nat) es) ++ F RSquareC :: X) = POk (map strip es, X).
Proof.
  induction es as [|e es IH]; intros Hne HF X; [congruence|].
  inversion HF as [|? ? He HF']; subst.
  destruct es as [|e2 es].
  - cbn [join map flat_map]. rewrite app_nil_r.
    destruct (He (TSquareC :: X) I) as [f E]. exists (S f). rewrite p_items_S.
    cbn [classify] in *. rewrite E. reflexivity.
  - destruct (IH ltac:(discriminate) HF' X) as [f2 E2].
    assert (Hj: join [F RComma] (map (P 0%nat) (e :: e2 :: es)) ++ F RSquareC :: X
                = P 0%nat e ++ TComma :: (join [F RComma] (map (P 0%nat) (e2 :: es)) ++ F RSquareC :: X)).
    { cbn [join map flat_map]. rewrite <- !app_assoc. reflexivity. }
    rewrite Hj.
    destruct (He (TComma :: join [F RComma] (map (P 0%nat) (e2 :: es)) ++ F RSquareC :: X) I) as [f1 E1].
    exists (S (max f1 f2)). rewrite p_items_S.
    rewrite (mono_e d _ (max f1 f2) _ _ _ E1) by lia.
    rewrite (mono_i d _ (max f1 f2) _ _ E2) by lia. reflexivity.
Qed.

(* statement lists *)
Fixpoint pr_from (lay:layout) (ss:list stmt) : list tok :=
  match ss with
  | [] => seps F (lay_trail lay)
  | s :: r => PS s ++ match r with [] => seps F (lay_trail lay) | _ => mid F lay ++ pr_from lay r end
  end.
Lemma pr_from_join lay ss : join (mid F lay) (map PS ss) ++ seps F (lay_trail lay) = pr_from lay ss.
Proof.
  induction ss as [|s r IH]; [reflexivity|].
  destruct r as [|s2 r].
  - cbn [map join flat_map pr_from]. rewrite app_nil_r. reflexivity.
  - change (pr_from lay (s :: s2 :: r)) with (PS s ++ mid F lay ++ pr_from lay (s2 :: r)).
    rewrite <- IH. cbn [map join flat_map]. rewrite <- !app_assoc. reflexivity.
Qed.
Lemma pr_block_from ss : PB ss = seps F (lay_lead (layf ss)) ++ pr_from (layf ss) ss.
Proof. unfold prg_block. f_equal. apply pr_from_join. Qed.

Lemma skip_seps_seps l ts : skip_seps (seps F l ++ ts) = skip_seps ts.
Proof. induction l as [|s l IH]; [reflexivity|]. cbn. destruct s; cbn; exact IH. Qed.
Lemma skip_seps_head ts : head_ok ts -> skip_seps ts = ts.
Proof. intros (t0 & r & -> & H). cbn. destruct t0; try discriminate; reflexivity. Qed.

Lemma p_stmts_step f t r : starts_expu t = true ->
  p_stmts d (S f) (t :: r) =
  match p_stmt d f (t :: r) with
  | POk (s, r0) => match r0 with
                   | t' :: _ => if is_sep t' then match p_stmts d f r0 with
                                                  | POk (ss, r') => POk (s :: ss, r')
                                                  | PErr => PErr | POut => POut end
                                else POk ([s], r0)
                   | [] => POk ([s], r0)
                   end
  | PErr => PErr | POut => POut
  end.
Proof. intros H. rewrite p_stmts_S. destruct t; try discriminate; reflexivity. Qed.

Lemma p_stmts_skip f ts ts' : skip_seps ts = skip_seps ts' -> p_stmts d (S f) ts = p_stmts d (S f) ts'.
Proof. intros H. rewrite !p_stmts_S. rewrite H. reflexivity. Qed.

Lemma block_end_cases X : (X = [] \/ exists r, X = TCurlyC :: r) -> forall f l,
  p_stmts d (S f) (seps F l ++ X) = POk ([], X).
Proof.
  intros HX f l. rewrite p_stmts_S. rewrite skip_seps_seps.
  destruct HX as [->|[r ->]]; reflexivity.
Qed.

Lemma seps_cons_sep s l X : exists t r, seps F (s :: l) ++ X = t :: r /\ is_sep t = true.
Proof. destruct s; cbn; eauto. Qed.

Lemma stmts_ok lay : forall ss, Forall GoodS ss -> forallb (wfb_stmt R) ss = true ->
  forall X, (X = [] \/ exists r, X = TCurlyC :: r) -> forall l0,
  exists f, p_stmts d f (seps F l0 ++ pr_from lay ss ++ X) = POk (map strip_stmt ss, X).
Proof.
  induction ss as [|s r IH]; intros HF Hwf X HX l0.
  - exists 1%nat. cbn [pr_from map]. rewrite app_assoc. unfold seps. rewrite <- map_app.
    apply (block_end_cases X HX 0%nat (l0 ++ lay_trail lay)).
  - inversion HF as [|? ? Hs HF']; subst. cbn [forallb] in Hwf. apply andb_prop in Hwf. destruct Hwf as [Hw Hwr].
    pose proof (head_stmt s Hw) as Hh.
    cbn [pr_from map].
    set (Y := match r with [] => seps F (lay_trail lay) | _ => mid F lay ++ pr_from lay r end ++ X).
    assert (Hts: seps F l0 ++ (PS s ++ match r with [] => seps F (lay_trail lay) | _ :: _ => mid F lay ++ pr_from lay r end) ++ X
                 = seps F l0 ++ PS s ++ Y).
    { unfold Y. rewrite <- app_assoc. reflexivity. }
    rewrite Hts.
    assert (HendY: stmt_end Y).
    { unfold Y. destruct r.
      - destruct (lay_trail lay) as [|s0 l]; cbn [seps map app].
        + destruct HX as [->|[r' ->]]; cbn; auto.
        + destruct s0; cbn; auto.
      - unfold mid. destruct (lay_mid_first lay); cbn; auto. }
    destruct (Hs Y HendY) as [f1 E1].
    assert (Hrest: exists f, match Y with
                     | t' :: _ => if is_sep t' then match p_stmts d f Y with
                                                    | POk (ss, r') => POk (strip_stmt s :: ss, r')
                                                    | PErr => PErr | POut => POut end
                                  else POk ([strip_stmt s], Y)
                     | [] => POk ([strip_stmt s], Y)
                     end = POk (strip_stmt s :: map strip_stmt r, X)).
    { unfold Y. destruct r as [|s2 r].
      - destruct (lay_trail lay) as [|s0 l] eqn:Et.
        + cbn [seps map app]. destruct HX as [->|[r' ->]]; exists 0%nat; reflexivity.
        + destruct (IH HF' Hwr X HX []) as [f2 E2]. cbn [pr_from seps map app] in E2. rewrite Et in E2.
          destruct (seps_cons_sep s0 l X) as (t & r' & Heq & Hsep). unfold seps in *. cbn [map] in *.
          rewrite Heq in *. exists f2. rewrite Hsep. rewrite E2. reflexivity.
      - destruct (IH HF' Hwr X HX (lay_mid_first lay :: lay_mid_more lay)) as [f2 E2].
        unfold mid. destruct (seps_cons_sep (lay_mid_first lay) (lay_mid_more lay) (pr_from lay (s2 :: r) ++ X)) as (t & r' & Heq & Hsep).
        rewrite <- app_assoc. rewrite Heq in *. exists f2. rewrite Hsep. rewrite E2. reflexivity. }
    destruct Hrest as [f2 E2].
    destruct Hh as (t0 & r0 & Hp & Ht0).
    exists (S (max f1 f2)). rewrite (p_stmts_skip _ _ (PS s ++ Y)) by apply skip_seps_seps.
    rewrite Hp in *. cbn [app]. rewrite p_stmts_step by assumption.
    cbn [app] in E1. rewrite (mono_s d _ (max f1 f2) _ _ E1) by lia.
    destruct Y as [|t' Y'].
    + exact E2.
    + destruct (is_sep t').
      * destruct (p_stmts d f2 (t' :: Y')) as [[ss' r'']| |] eqn:E3; try discriminate.
        rewrite (mono_ss d _ (max f1 f2) _ _ E3) by lia. exact E2.
      * exact E2.
Qed.

(* ---------- the main induction ---------- *)
Lemma wf_bin k s l r : wf_tree R (Bin k s l r) ->
  (k < NLEV)%nat /\ binlevel (name_tok R s) = Some k /\ tok_name (name_tok R s) = s /\ wf_tree R l /\ wf_tree R r.
Proof.
  unfold wf_tree. cbn [wfb]. intros H.
  apply andb_prop in H. destruct H as [H Hr]. apply andb_prop in H. destruct H as [H Hl].
  apply andb_prop in H. destruct H as [Hk Hc]. apply Nat.ltb_lt in Hk.
  destruct (name_tok R s) eqn:E; try discriminate. apply name_tok_op in E. subst.
  repeat split; auto.
  destruct c; cbn in Hc; try discriminate; apply Nat.eqb_eq in Hc; subst; reflexivity.
Qed.

Theorem parse_printg_main : forall n,
  (forall t, (size t <= n)%nat -> wf_tree R t -> CAt t /\ forall k, (k <= NLEV)%nat -> GoodAt k t) /\
  (forall s, (size_stmt s <= n)%nat -> wfb_stmt R s = true -> GoodS s).
Proof.
  induction n as [|n [IHt IHs]].
  { split; intros x Hsz; [destruct x|destruct x]; cbn in Hsz; lia. }
  assert (TREE: forall t, (size t <= S n)%nat -> wf_tree R t -> CAt t /\ forall k, (k <= NLEV)%nat -> GoodAt k t).
  { intros t Hsz Hwf.
    (* C: continuation claim for an unparenthesised binary node *)
    assert (HC: CAt t).
    { unfold CAt. destruct t as [| | | |j s l r| | |]; cbn [lvl]; try (unfold NLEV; lia).
      intros Hj X res HX [fl EL].
      destruct (wf_bin _ _ _ _ Hwf) as (_ & Hbl & Hnm & Hwl & Hwr).
      cbn [size] in Hsz.
      destruct (IHt l ltac:(lia) Hwl) as [Cl Gl].
      destruct (IHt r ltac:(lia) Hwr) as [_ Gr].
      rewrite pr_at_lvl by (cbn [lvl]; lia). cbn [praw]. fold (name_tok R s).
      cbn [strip] in EL.
      (* what the loop does once the left operand is the accumulator *)
      assert (HL: exists f, p_loop d f j (strip l) (name_tok R s :: P (S j) r ++ X) = POk res).
      { destruct (Gr (S j) ltac:(lia) X HX) as [fr Er].
        exists (S (max fr fl)). rewrite p_loop_S. rewrite Hbl, Nat.eqb_refl.
        rewrite (mono_e d _ (max fr fl) _ _ _ Er) by lia. rewrite Hnm.
        eapply mono_l; [exact EL|lia]. }
      assert (HX': stops (S j) (name_tok R s :: P (S j) r ++ X)).
      { cbn [stops]. rewrite Hbl. lia. }
      rewrite <- app_assoc. cbn [app].
      destruct (Nat.eq_dec (lvl l) j) as [e|ne].
      - (* same level on the left: the chain continues, no parentheses *)
        subst j. apply Cl; assumption.
      - (* otherwise the left operand is read one level up, then the loop runs *)
        assert (Heq: P j l = P (S j) l).
        { destruct (Nat.lt_ge_cases j (lvl l)); [apply pr_raw_eq; lia|apply pr_par_eq; lia]. }
        destruct (Gl (S j) ltac:(lia) _ HX') as [f1 E1].
        destruct HL as [f2 E2].
        exists (S (max f1 f2)). rewrite p_exp_lt by assumption. rewrite Heq.
        rewrite (mono_e d _ (max f1 f2) _ _ _ E1) by lia.
        eapply mono_l; [exact E2|lia]. }
    split; [exact HC|].
    (* Q: at the tree's own level *)
    assert (Q: GoodAt (lvl t) t).
    { intros X HX. destruct t as [lt|v|nm|s a|j s l r|es|ss|a]; cbn [lvl] in *.
      - exists 1%nat. rewrite pr_at_lvl by (cbn; lia). cbn [praw app strip].
        apply p_exp_value. destruct lt; reflexivity.
      - exists 1%nat. rewrite pr_at_lvl by (cbn; lia). cbn [praw app strip].
        unfold wf_tree in Hwf. cbn [wfb] in Hwf. cbn [classify] in *.
        destruct (classify_name R true v) eqn:E; try discriminate.
        destruct (classify_name_cases true v) as [[c H]|[H|H]]; rewrite H in E; try discriminate.
        injection E as <-. apply p_exp_value. reflexivity.
      - exists 1%nat. rewrite pr_at_lvl by (cbn; lia). cbn [praw app strip]. fold (name_tok R nm).
        unfold wf_tree in Hwf. cbn [wfb] in Hwf.
        destruct (name_tok R nm) eqn:E; try discriminate. pose proof (name_tok_op _ _ _ E). subst s.
        apply p_exp_value. destruct c; try discriminate; reflexivity.
      - unfold wf_tree in Hwf. cbn [wfb] in Hwf. apply andb_prop in Hwf. destruct Hwf as [Hu Hwa].
        destruct (wf_un_tok _ Hu) as (H1 & H2 & H3).
        cbn [size] in Hsz. destruct (IHt a ltac:(lia) Hwa) as [_ Ga].
        destruct (Ga NLEV ltac:(lia) X HX) as [f E].
        exists (S f). rewrite pr_at_lvl by (cbn; lia). cbn [praw app strip]. fold (name_tok R s).
        rewrite <- H3 at 2. apply p_exp_unary; auto.
        apply head_ok_next. apply head_ok_app. apply head_pr. exact Hwa.
      - destruct (wf_bin _ _ _ _ Hwf) as (Hj & _).
        apply (HC Hj X (strip (Bin j s l r), X)).
        + eapply stops_mono; eauto.
        + exists 1%nat. apply loop_stop. exact HX.
      - unfold wf_tree in Hwf. cbn [wfb] in Hwf.
        rewrite pr_at_lvl by (cbn; lia). cbn [praw app strip classify].
        destruct es as [|e es].
        + exists 1%nat. cbn [map join app]. apply p_exp_arr0.
        + assert (HF: Forall (GoodAt 0%nat) (e :: es)).
          { apply Forall_forall. intros x Hx.
            assert (Hwx: wf_tree R x) by (rewrite forallb_forall in Hwf; apply Hwf; exact Hx).
            pose proof (size_in x _ Hx). cbn [size] in Hsz.
            destruct (IHt x ltac:(lia) Hwx) as [_ G]. apply G. lia. }
          destruct (items_ok (e :: es) ltac:(discriminate) HF X) as [f E].
          assert (Hh: head_ok (join [F RComma] (map (P 0%nat) (e :: es)) ++ F RSquareC :: X)).
          { cbn [map join]. rewrite <- app_assoc. apply head_ok_app. apply head_pr.
            cbn [forallb] in Hwf. apply andb_prop in Hwf. apply Hwf. }
          destruct Hh as (t0 & r0 & Hp & Ht0).
          exists (S f). rewrite <- app_assoc. cbn [app]. cbn [classify] in *. rewrite Hp in *.
          apply p_exp_arr; [|exact E]. intros ->. discriminate.
      - unfold wf_tree in Hwf. change (wfb R (Code ss)) with (forallb (wfb_stmt R) ss) in Hwf.
        change (size (Code ss)) with (S (fold_right (fun s n => (size_stmt s + n)%nat) 0%nat ss)) in Hsz.
        assert (HF: Forall GoodS ss).
        { apply Forall_forall. intros x Hx.
          pose proof (size_stmt_in x _ Hx).
          apply IHs; [lia|]. rewrite forallb_forall in Hwf. apply Hwf. exact Hx. }
        destruct (stmts_ok (layf ss) ss HF Hwf (TCurlyC :: X) ltac:(right; eauto) (lay_lead (layf ss))) as [f E].
        exists (S f). rewrite pr_at_lvl by (cbn [lvl]; lia).
        change (strip (Code ss)) with (Code (map strip_stmt ss)).
        cbn [praw app classify].
        rewrite pr_block_from. rewrite <- !app_assoc. cbn [app].
        apply p_exp_code. exact E.
      - unfold wf_tree in Hwf. cbn [wfb] in Hwf. cbn [size] in Hsz.
        destruct (IHt a ltac:(lia) Hwf) as [_ Ga].
        destruct (Ga 0%nat ltac:(lia) (TRoundC :: X) I) as [f E].
        exists (S f). rewrite pr_at_lvl by (cbn; lia). cbn [praw app strip classify].
        rewrite <- app_assoc. cbn [app]. apply p_exp_paren. exact E. }
    pose proof (lvl_le_N t Hwf) as HlN.
    intros k Hk X HX.
    destruct (Nat.le_gt_cases k (lvl t)) as [Hle|Hgt].
    - (* unparenthesised: read at the tree's level, the loops in between stop *)
      apply (climb_many t (strip t) X (lvl t - k) k (lvl t)); auto.
      + intros j Hj. apply pr_raw_eq. lia.
      + apply Q. eapply stops_mono; eauto.
    - (* parenthesised: the group is read at level NLEV *)
      apply (climb_many t (strip t) X (NLEV - k) k NLEV); auto.
      + intros j Hj. apply pr_par_eq; lia.
      + assert (G0: GoodAt 0%nat t).
        { intros X0 HX0. apply (climb_many t (strip t) X0 (lvl t - 0) 0%nat (lvl t)); auto; try lia.
          - intros j Hj. apply pr_raw_eq. lia.
          - apply Q. eapply stops_mono; eauto. lia. }
        destruct (G0 (TRoundC :: X) I) as [f E].
        exists (S f). rewrite pr_above_lvl by lia. rewrite (pr_at_lvl 0%nat) in E by lia.
        cbn [classify app]. rewrite <- app_assoc. cbn [app]. apply p_exp_paren. exact E. }
  split; [exact TREE|].
  (* statements *)
  intros s Hsz Hwf X HX. pose proof (stmt_end_stops X HX) as HX0.
  rewrite wfb_stmt_unfold in Hwf. rewrite size_stmt_unfold in Hsz. rewrite pr_stmt_unfold, strip_stmt_unfold.
  destruct s as [e|x e|x e].
  - destruct (IHt e ltac:(lia) Hwf) as [_ Ge].
    destruct (Ge 0%nat ltac:(lia) X HX0) as [f E].
    exists (S f). rewrite p_stmt_S. rewrite E.
    destruct X as [|t X']; [reflexivity|].
    cbn [stmt_end] in HX. destruct HX as [HX| ->]; [destruct t; try discriminate; reflexivity|reflexivity].
  - apply andb_prop in Hwf. destruct Hwf as [Hx He].
    destruct x as [|v| | | | | |]; try discriminate.
    destruct (IHt e ltac:(lia) He) as [_ Ge].
    destruct (Ge 0%nat ltac:(lia) X HX0) as [f2 E2].
    assert (Hwv: wf_tree R (Var v)) by (unfold wf_tree; cbn [wfb]; exact Hx).
    assert (Hcv: classify_name R true v = TIdent v).
    { cbn [classify] in Hx. destruct (classify_name_cases true v) as [[c H]|[H|H]]; rewrite H in Hx; try discriminate. exact H. }
    destruct (TREE (Var v) ltac:(cbn; lia) Hwv) as [_ Gv].
    destruct (Gv 0%nat ltac:(lia) (TEqual :: P 0%nat e ++ X) I) as [f1 E1].
    rewrite pr_at_lvl in E1 by (cbn; lia). cbn [praw classify app strip] in E1. rewrite Hcv in E1.
    exists (S (max f1 f2)). rewrite pr_at_lvl by (cbn; lia). cbn [praw classify app strip]. rewrite Hcv.
    rewrite p_stmt_S. rewrite (mono_e d _ (max f1 f2) _ _ _ E1) by lia.
    cbn [is_value_tree starts_paren negb andb].
    rewrite (mono_e d _ (max f1 f2) _ _ _ E2) by lia. reflexivity.
  - apply andb_prop in Hwf. destruct Hwf as [Hx He].
    destruct (IHt e ltac:(lia) He) as [_ Ge].
    destruct (Ge 0%nat ltac:(lia) X HX0) as [f2 E2].
    assert (Hcv: classify_name R true x = TIdent x).
    { cbn [classify] in Hx. destruct (classify_name_cases true x) as [[c H]|[H|H]]; rewrite H in Hx; try discriminate. exact H. }
    assert (Hwp: wf_tree R (Un kw_private (Var x))).
    { unfold wf_tree. cbn [wfb]. cbn [classify]. rewrite Hcv.
      change (name_tok R kw_private) with (TPrivate kw_private). reflexivity. }
    assert (Hse: (1 <= size e)%nat) by (destruct e; cbn; lia).
    destruct (TREE (Un kw_private (Var x)) ltac:(cbn; lia) Hwp) as [_ Gp].
    destruct (Gp 0%nat ltac:(lia) (TEqual :: P 0%nat e ++ X) I) as [f1 E1].
    rewrite pr_at_lvl in E1 by (cbn; lia). cbn [praw] in E1.
    rewrite pr_at_lvl in E1 by (cbn; lia). cbn [praw classify app strip] in E1. rewrite Hcv in E1.
    change (classify R (raw_of_name kw_private)) with (TPrivate kw_private) in E1.
    exists (S (max f1 f2)). cbn [classify app]. rewrite Hcv.
    rewrite p_stmt_S. rewrite (mono_e d _ (max f1 f2) _ _ _ E1) by lia.
    rewrite (mono_e d _ (max f1 f2) _ _ _ E2) by lia. reflexivity.
Qed.

(* ---------- whole programs ---------- *)
Theorem parse_printg_block : forall ss, wf_block R ss ->
  exists f0, forall f, (f0 <= f)%nat -> parse_toks d f (printg_toks R layf ss) = POk (map strip_stmt ss).
Proof.
  intros ss Hwf.
  assert (HF: Forall GoodS ss).
  { apply Forall_forall. intros s Hs.
    apply (proj2 (parse_printg_main (size_stmt s)) s (le_n _)).
    unfold wf_block in Hwf. rewrite forallb_forall in Hwf. apply Hwf. exact Hs. }
  destruct (stmts_ok (layf ss) ss HF Hwf [] (or_introl eq_refl) (lay_lead (layf ss))) as [f0 E].
  exists f0. intros f Hf. unfold parse_toks, printg_toks. rewrite pr_block_from.
  rewrite app_nil_r in E. rewrite (mono_ss d _ f _ _ E Hf). reflexivity.
Qed.
End PPG.

(* the fixed-layout printer of SyntaxDefs is the instance with a constant layout *)
Section Const.
Context {A:Type}.
Variable F : rtok -> A.
Variable lay : layout.
Lemma prg_const k t : prg F (fun _ => lay) k t = pr F lay k t.
Proof. reflexivity. Qed.
Lemma prg_stmt_const s : prg_stmt F (fun _ => lay) s = pr_stmt F lay s.
Proof. reflexivity. Qed.
Lemma prg_block_const ss : prg_block F (fun _ => lay) ss = pr_block F lay ss.
Proof. reflexivity. Qed.
End Const.

(* the theorem of Syntax/ParsePrint.v is the instance with a constant layout *)
Corollary parse_print_block_of_gen : forall (R:registry) (d:defects) (lay:layout) (ss:list stmt), wf_block R ss ->
  exists f0, forall f, (f0 <= f)%nat -> parse_toks d f (print_toks R lay ss) = POk (map strip_stmt ss).
Proof. intros R d lay ss Hwf. exact (parse_printg_block R d (fun _ => lay) ss Hwf). Qed.
