(* The recorded C01 defect as theorems about the parser model with the switch on / off:
   a name registered as unary AND nular cannot be used as an operand (parser.y `value:` has no
   OPERATOR_UN alternative).  The registry here is a two-name one, so the theorems do not depend on
   whether today's runtime still has such a name. *)
From Coq Require Import ZArith List Bool Arith Lia.
Import ListNotations.
From Coq Require String.
Import String.StringSyntax.
From SqfVerif Require Import Syntax.SyntaxDefs Syntax.ParseMono.

Definition un_name : text := Eval compute in s2b "un"%string.
Definition R_un : registry := fun key =>
  if text_eqb key un_name then {| oi_bin := None; oi_un := true; oi_nul := true |} else no_op.

(* `x = un`: the documented reading is an assignment of the nular operator's value *)
Definition un_src : text := Eval compute in s2b "x = un"%string.
Definition un_reading : list stmt := [SAssign (Var (s2b "x"%string)) (Nul un_name)].

Lemma un_tokens : lex un_src = LexOk [RIdent (s2b "x"%string); REqual; RIdent un_name].
Proof. vm_compute. reflexivity. Qed.

Theorem un_operand_as_is : forall f, parse_text as_is R_un f un_src <> FOk un_reading.
Proof.
  intros f. unfold parse_text. rewrite un_tokens.
  assert (H0: parse_toks as_is 40 (map (classify R_un) [RIdent (s2b "x"%string); REqual; RIdent un_name]) = PErr)
    by (vm_compute; reflexivity).
  destruct (parse_stable as_is 40 _ ltac:(rewrite H0; discriminate) f) as [H|H]; rewrite H; [rewrite H0|]; discriminate.
Qed.

Theorem un_operand_repaired : exists f0, forall f, (f0 <= f)%nat -> parse_text repaired R_un f un_src = FOk un_reading.
Proof.
  exists 40%nat. intros f Hf. unfold parse_text. rewrite un_tokens.
  assert (H0: parse_toks repaired 40 (map (classify R_un) [RIdent (s2b "x"%string); REqual; RIdent un_name]) = POk un_reading)
    by (vm_compute; reflexivity).
  rewrite (mono_parse repaired 40 f _ ltac:(rewrite H0; discriminate) Hf). rewrite H0. reflexivity.
Qed.

(* as a unary operator the same name is fine under both settings *)
Theorem un_as_unary : forall d, exists f0, forall f, (f0 <= f)%nat ->
  parse_text d R_un f (s2b "un x"%string) = FOk [SExpr (Un un_name (Var (s2b "x"%string)))].
Proof.
  intros d. exists 40%nat. intros f Hf. unfold parse_text.
  assert (Hl: lex (s2b "un x"%string) = LexOk [RIdent un_name; RIdent (s2b "x"%string)]) by (vm_compute; reflexivity).
  rewrite Hl.
  assert (H0: parse_toks d 40 (map (classify R_un) [RIdent un_name; RIdent (s2b "x"%string)]) = POk [SExpr (Un un_name (Var (s2b "x"%string)))])
    by (destruct d as [[|]]; vm_compute; reflexivity).
  rewrite (mono_parse d 40 f _ ltac:(rewrite H0; discriminate) Hf). rewrite H0. reflexivity.
Qed.
