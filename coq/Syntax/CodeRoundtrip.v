(* C06, code half: str / compile round trip of code values.
   reconstruct (the model of instruction::reconstruct + d_code::to_string_sqf) applied to compiled code
   prints the documented reading of the code with the implementation's own parenthesisation rule, so by
   parse o print = id the text compiles back to the same instructions. *)
From Coq Require Import ZArith List Bool Arith Lia.
Import ListNotations.
From SqfVerif Require Import Syntax.SyntaxDefs Syntax.ParsePrint Syntax.LexProofs Syntax.CompileProofs Syntax.Reading.

(* ------------------------------------------------------------------ rendered pieces lex back *)
Fixpoint pieces_ok (ps:list piece) : Prop :=
  match ps with
  | [] => True
  | PW w :: r => all_ws w /\ pieces_ok r
  | PT t :: r => tok_ok t /\ follow_ok t (pieces_text r) /\ pieces_ok r
  end.

Fixpoint items_of (acc:text) (ps:list piece) : list (text * rtok) * text :=
  match ps with
  | [] => ([], acc)
  | PW w :: r => items_of (acc ++ w) r
  | PT t :: r => let '(its, tr) := items_of [] r in ((acc, t) :: its, tr)
  end.

Lemma all_ws_app a b : all_ws a -> all_ws b -> all_ws (a ++ b).
Proof. unfold all_ws. rewrite forallb_app. intros -> ->. reflexivity. Qed.

Lemma items_of_spec : forall ps acc, all_ws acc -> pieces_ok ps ->
  let '(its, tr) := items_of acc ps in
  render its tr = acc ++ pieces_text ps /\ map snd its = pieces_toks ps /\
  (match its with [] => all_ws tr | (w, _) :: _ => all_ws w end) /\
  (forall w0 t0 rest, its = (w0, t0) :: rest -> sep_ok its tr) /\ (its = [] -> sep_ok its tr).
Proof.
  induction ps as [|p r IH]; intros acc Hacc Hok.
  - cbn [items_of pieces_text flat_map map pieces_toks]. unfold render. cbn [flat_map app]. rewrite app_nil_r.
    repeat split; auto; try (intros; discriminate).
  - destruct p as [t|w]; cbn [items_of pieces_ok] in *.
    + destruct Hok as (Ht & Hf & Hr).
      specialize (IH [] eq_refl Hr). destruct (items_of [] r) as [its tr].
      destruct IH as (E1 & E2 & E3 & E4 & E5). cbn [app] in E1.
      assert (Hsep: sep_ok its tr) by (destruct its as [|[w0 t0] rest]; [apply E5; reflexivity|eapply E4; reflexivity]).
      split; [|split; [|split; [|split]]].
      * rewrite render_cons, E1. reflexivity.
      * cbn [map snd pieces_toks flat_map app]. rewrite E2. reflexivity.
      * exact Hacc.
      * intros w1 t1 rest1 E. injection E as <- <- <-. cbn [sep_ok]. rewrite E1. auto.
      * discriminate.
    + destruct Hok as (Hw & Hr).
      specialize (IH (acc ++ w) (all_ws_app _ _ Hacc Hw) Hr). destruct (items_of (acc ++ w) r) as [its tr].
      destruct IH as (E1 & E2 & E3 & E4 & E5).
      split; [|split; [|split; [|split]]]; auto. rewrite E1, <- app_assoc. reflexivity.
Qed.

Theorem lex_pieces ps : pieces_ok ps -> lex (pieces_text ps) = LexOk (pieces_toks ps).
Proof.
  intros H. pose proof (items_of_spec ps [] eq_refl H) as S. destruct (items_of [] ps) as [its tr].
  destruct S as (E1 & E2 & E3 & E4 & E5). cbn [app] in E1. rewrite <- E1, <- E2.
  apply lex_render. destruct its as [|[w0 t0] rest]; [apply E5; reflexivity|eapply E4; reflexivity].
Qed.

(* ------------------------------------------------------------------ what reconstruct prints, as a function of the tree *)
Section RP.
Variable show_lit : lit -> lit.
Notation spl := (show_pval_lit show_lit).

Definition target_name (x:tree) : text := match x with Var n | Nul n => n | _ => [] end.

Fixpoint rp (parent:nat) (left:bool) (t:tree) : list piece :=
  match t with
  | Lit l => spl false l
  | Var s => [PT (RIdent s)]
  | Nul s => [PT (raw_of_name (lower s))]
  | Un s a =>
    match unsigned_num a with
    | Some l => if text_eqb s sym_minus then spl true l
                else if text_eqb s sym_plus then spl false l
                else PT (raw_of_name (lower s)) :: sp :: rp 10%nat false a
    | None => PT (raw_of_name (lower s)) :: sp :: rp 10%nat false a
    end
  | Bin k s l r =>
    let body := rp (S k) true l ++ sp :: PT (raw_of_name (lower s)) :: sp :: rp (S k) false r in
    if (if left then (S k <? parent)%nat else (S k <=? parent)%nat) then PT RRoundO :: body ++ [PT RRoundC] else body
  | Arr es => PT RSquareO :: join [PT RComma; sp] (map (rp 0%nat false) es) ++ [PT RSquareC]
  | Code ss => PT RCurlyO :: sp :: join [PT RSemi; sp] (map rp_stmt ss) ++ [sp; PT RCurlyC]
  | Par a => rp parent left a
  end
with rp_stmt (s:stmt) : list piece :=
  match s with
  | SExpr e => rp 0%nat false e
  | SAssign x e => PT (RIdent (target_name x)) :: sp :: PT REqual :: sp :: rp 10%nat false e
  | SLocal x e => PT (RPrivate kw_private) :: sp :: PT (RIdent x) :: sp :: PT REqual :: sp :: rp 10%nat false e
  end.
Definition rp_block (ss:list stmt) : list piece :=
  PT RCurlyO :: sp :: join [PT RSemi; sp] (map rp_stmt ss) ++ [sp; PT RCurlyC].

Lemma rp_stmt_unfold s : rp_stmt s = match s with
  | SExpr e => rp 0%nat false e
  | SAssign x e => PT (RIdent (target_name x)) :: sp :: PT REqual :: sp :: rp 10%nat false e
  | SLocal x e => PT (RPrivate kw_private) :: sp :: PT (RIdent x) :: sp :: PT REqual :: sp :: rp 10%nat false e
  end.
Proof. destruct s; reflexivity. Qed.

Lemma recon_S f parent left i rest : recon show_lit (S f) parent left (i :: rest) =
  match i with
  | IPush (PLit neg l) => Some (spl neg l, rest)
  | IPush (PCode c) => match recon_block show_lit f c with Some ps => Some (ps, rest) | None => None end
  | ICallNular s => Some ([PT (raw_of_name s)], rest)
  | IGetVar s => Some ([PT (RIdent s)], rest)
  | ICallUnary s =>
    match recon show_lit f 10%nat false rest with
    | Some (e, rest') => Some (PT (raw_of_name s) :: sp :: e, rest')
    | None => None
    end
  | ICallBinary s prec =>
    match recon show_lit f prec false rest with
    | Some (re, rest1) =>
      match recon show_lit f prec true rest1 with
      | Some (le, rest2) =>
        let body := le ++ sp :: PT (raw_of_name s) :: sp :: re in
        if (if left then (prec <? parent)%nat else (prec <=? parent)%nat)
        then Some (PT RRoundO :: body ++ [PT RRoundC], rest2)
        else Some (body, rest2)
      | None => None
      end
    | None => None
    end
  | IMakeArray n =>
    match elems_with (recon show_lit f 0%nat false) n rest [] with
    | Some (els, rest') => Some (PT RSquareO :: join [PT RComma; sp] els ++ [PT RSquareC], rest')
    | None => None
    end
  | IAssignTo s =>
    match recon show_lit f 10%nat false rest with
    | Some (e, rest') => Some (PT (RIdent s) :: sp :: PT REqual :: sp :: e, rest')
    | None => None
    end
  | IAssignToLocal s =>
    match recon show_lit f 10%nat false rest with
    | Some (e, rest') => Some (PT (RPrivate kw_private) :: sp :: PT (RIdent s) :: sp :: PT REqual :: sp :: e, rest')
    | None => None
    end
  | IEndStatement => Some ([], rest)
  end.
Proof. reflexivity. Qed.
Lemma recon_block_S f c : recon_block show_lit (S f) c =
  match walk_with (recon show_lit f 0%nat false) (length c) (rev c) [] with
  | Some strs => Some (PT RCurlyO :: sp :: join [PT RSemi; sp] strs ++ [sp; PT RCurlyC])
  | None => None
  end.
Proof. reflexivity. Qed.

Lemma recon_end f p l rest : (1 <= f)%nat -> recon show_lit f p l (IEndStatement :: rest) = Some ([], rest).
Proof. destruct f; [lia|reflexivity]. Qed.

Lemma isize_list_app a b : isize_list (a ++ b) = (isize_list a + isize_list b)%nat.
Proof. unfold isize_list. induction a; cbn; [reflexivity|]. rewrite IHa. lia. Qed.
Lemma isize_pos i : (1 <= isize i)%nat.
Proof. destruct i as [[|]| | | | | | | |]; cbn; lia. Qed.

Lemma rp_nonempty : forall t parent left, rp parent left t <> [].
Proof.
  induction t; intros parent left; cbn [rp]; try discriminate.
  - destruct (unsigned_num t) as [l|]; [|discriminate].
    destruct (text_eqb s sym_minus); [unfold show_pval_lit; intros E; cbn in E; discriminate E|].
    destruct (text_eqb s sym_plus); [unfold show_pval_lit; intros E; cbn in E; discriminate E|discriminate].
  - destruct (if left then _ else _); [discriminate|]. intros E. apply app_eq_nil in E. destruct E as [E _]. exact (IHt1 _ _ E).
  - apply IHt.
Qed.
Lemma rp_stmt_nonempty s : rp_stmt s <> [].
Proof. rewrite rp_stmt_unfold. destruct s; try discriminate. apply rp_nonempty. Qed.

Lemma flat_map_rev {A B} (g:A -> list B) l : rev (flat_map g l) = flat_map (fun x => rev (g x)) (rev l).
Proof.
  induction l as [|x l IH]; [reflexivity|]. cbn [flat_map rev]. rewrite rev_app_distr, IH, flat_map_app. cbn [flat_map].
  rewrite app_nil_r. reflexivity.
Qed.

Lemma postorder_nonempty t : (1 <= length (postorder t))%nat.
Proof.
  induction t; cbn [postorder]; rewrite ?app_length; cbn [length]; try lia.
  destruct (unsigned_num t); [destruct (text_eqb s sym_minus); [cbn; lia|destruct (text_eqb s sym_plus); [cbn; lia|]]|];
    rewrite app_length; cbn; lia.
Qed.
Lemma postorder_stmt_nonempty s : (1 <= length (postorder_stmt s))%nat.
Proof.
  rewrite postorder_stmt_unfold. destruct s; rewrite ?app_length; cbn [length]; try lia. apply postorder_nonempty.
Qed.

Theorem recon_main : forall n,
  (forall t, (size t <= n)%nat -> forall f parent left rest, (2 * isize_list (postorder t) <= f)%nat ->
     recon show_lit f parent left (rev (postorder t) ++ rest) = Some (rp parent left t, rest)) /\
  (forall s, (size_stmt s <= n)%nat -> forall f rest, (2 * isize_list (postorder_stmt s) <= f)%nat ->
     recon show_lit f 0%nat false (rev (postorder_stmt s) ++ rest) = Some (rp_stmt s, rest)).
Proof.
  induction n as [|n [IHt IHs]].
  { split; intros x Hsz; destruct x; cbn in Hsz; lia. }
  split.
  - intros t Hsz f parent left rest Hf.
    destruct t as [l|v|nm|s a|j s l r|es|ss|a].
    + cbn in Hf. destruct f as [|f]; [lia|]. reflexivity.
    + cbn in Hf. destruct f as [|f]; [lia|]. reflexivity.
    + cbn in Hf. destruct f as [|f]; [lia|]. reflexivity.
    + cbn [size] in Hsz.
      assert (Hgen: (2 * isize_list (postorder a ++ [ICallUnary (lower s)]) <= f)%nat ->
                    recon show_lit f parent left (rev (postorder a ++ [ICallUnary (lower s)]) ++ rest)
                    = Some (PT (raw_of_name (lower s)) :: sp :: rp 10%nat false a, rest)).
      { intros Hf'. rewrite isize_list_app in Hf'. cbn in Hf'. destruct f as [|f]; [lia|].
        rewrite rev_app_distr. cbn [rev app]. rewrite recon_S. rewrite IHt by lia. reflexivity. }
      cbn [postorder rp] in *. destruct (unsigned_num a) as [l|]; [|apply Hgen; exact Hf].
      destruct (text_eqb s sym_minus).
      * cbn in Hf. destruct f as [|f]; [lia|]. reflexivity.
      * destruct (text_eqb s sym_plus); [|apply Hgen; exact Hf].
        cbn in Hf. destruct f as [|f]; [lia|]. reflexivity.
    + cbn [size] in Hsz. cbn [postorder rp] in *. rewrite !isize_list_app in Hf. cbn in Hf.
      destruct f as [|f]; [lia|].
      rewrite !rev_app_distr. cbn [rev app]. rewrite <- app_assoc. rewrite recon_S.
      rewrite IHt by lia. rewrite IHt by lia. cbv zeta.
      destruct (if left then (S j <? parent)%nat else (S j <=? parent)%nat); reflexivity.
    + change (size (Arr es)) with (S (fold_right (fun e n => (size e + n)%nat) 0%nat es)) in Hsz.
      cbn [postorder rp] in *. rewrite isize_list_app in Hf. cbn in Hf.
      destruct f as [|f]; [lia|]. rewrite rev_app_distr. cbn [rev app]. rewrite recon_S.
      rewrite flat_map_rev.
      assert (Hel: forall er acc rest0, (forall e, In e er -> (size e <= n)%nat /\ (2 * isize_list (postorder e) <= f)%nat) ->
                  elems_with (recon show_lit f 0%nat false) (length er) (flat_map (fun x => rev (postorder x)) er ++ rest0) acc
                  = Some (map (rp 0%nat false) (rev er) ++ acc, rest0)).
      { induction er as [|e er IHer]; intros acc rest0 Hin; [reflexivity|].
        cbn [length elems_with flat_map]. rewrite <- app_assoc.
        destruct (Hin e (or_introl eq_refl)) as [H1 H2]. rewrite IHt by assumption.
        rewrite IHer by (intros; apply Hin; right; assumption).
        cbn [rev]. rewrite map_app. cbn [map]. rewrite <- app_assoc. reflexivity. }
      rewrite <- (rev_length es). rewrite Hel.
      * rewrite rev_involutive, app_nil_r. reflexivity.
      * intros e He. apply in_rev in He. pose proof (size_in e es He). split; [lia|].
        assert (isize_list (postorder e) <= isize_list (flat_map postorder es))%nat; [|lia].
        clear -He. induction es as [|x es IH]; [destruct He|]. cbn [flat_map]. rewrite isize_list_app.
        destruct He as [->|He]; [lia|]. specialize (IH He). lia.
    + change (size (Code ss)) with (S (fold_right (fun s n => (size_stmt s + n)%nat) 0%nat ss)) in Hsz.
      change (postorder (Code ss)) with [IPush (PCode (postorder_block ss))] in *.
      change (rp parent left (Code ss)) with (rp_block ss).
      cbn [rev app]. unfold isize_list in Hf. cbn [fold_right isize] in Hf. fold (isize_list (postorder_block ss)) in Hf.
      destruct f as [|f]; [lia|]. rewrite recon_S.
      destruct f as [|f]; [lia|]. rewrite recon_block_S.
      (* the walk over the reversed block *)
      assert (Hw: forall sr acc (g:nat),
                (forall s, In s sr -> (size_stmt s <= n)%nat /\ (2 * isize_list (postorder_stmt s) <= f)%nat) ->
                (2 * length sr <= g)%nat ->
                walk_with (recon show_lit f 0%nat false) g
                  (match sr with [] => [] | s :: r => rev (postorder_stmt s) ++ flat_map (fun x => IEndStatement :: rev (postorder_stmt x)) r end) acc
                = Some (map rp_stmt (rev sr) ++ acc)).
      { induction sr as [|s sr IHsr]; intros acc g Hin Hg.
        - destruct g; reflexivity.
        - destruct (Hin s (or_introl eq_refl)) as [H1 H2].
          cbn [length] in Hg. destruct g as [|g]; [lia|].
          assert (Hne: rev (postorder_stmt s) <> []).
          { intros E. apply (f_equal (@length instr)) in E. rewrite rev_length in E. cbn in E.
            pose proof (postorder_stmt_nonempty s). lia. }
          destruct (rev (postorder_stmt s) ++ flat_map (fun x => IEndStatement :: rev (postorder_stmt x)) sr) as [|i0 l0] eqn:El.
          { apply app_eq_nil in El. destruct El as [El _]. contradiction. }
          cbn [walk_with]. rewrite <- El. rewrite IHs by assumption.
          destruct (rp_stmt s) as [|p0 ps0] eqn:Ep; [exfalso; exact (rp_stmt_nonempty s Ep)|]. rewrite <- Ep.
          destruct sr as [|s2 sr].
          + cbn [flat_map]. destruct g; cbn [walk_with rev map app]; reflexivity.
          + cbn [flat_map]. destruct g as [|g]; [cbn in Hg; lia|]. cbn [walk_with app].
            rewrite recon_end by (pose proof (postorder_stmt_nonempty s) as Hp; assert (1 <= isize_list (postorder_stmt s))%nat; [|lia];
                                  clear -Hp; destruct (postorder_stmt s) as [|i l]; [cbn in Hp; lia|]; unfold isize_list; cbn [fold_right]; pose proof (isize_pos i); lia).
            specialize (IHsr (rp_stmt s :: acc) g).
            cbn [rev]. rewrite map_app. cbn [map]. rewrite <- app_assoc. cbn [app].
            rewrite <- IHsr; [reflexivity| |cbn [length] in *; lia].
            intros; apply Hin; right; assumption. }
      assert (Hrev: rev (postorder_block ss) =
                    match rev ss with [] => [] | s :: r => rev (postorder_stmt s) ++ flat_map (fun x => IEndStatement :: rev (postorder_stmt x)) r end).
      { unfold postorder_block. clear. induction ss as [|s ss IH]; [reflexivity|].
        destruct ss as [|s2 ss].
        - cbn. rewrite app_nil_r. reflexivity.
        - change (join [IEndStatement] (map postorder_stmt (s :: s2 :: ss)))
            with (postorder_stmt s ++ IEndStatement :: join [IEndStatement] (map postorder_stmt (s2 :: ss))).
          rewrite rev_app_distr. cbn [rev]. rewrite IH. cbn [rev].
          destruct (rev ss ++ [s2]) as [|x r] eqn:E; [destruct (rev ss); discriminate|].
          cbn [app]. rewrite <- !app_assoc. cbn [app]. rewrite flat_map_app. cbn [flat_map]. rewrite app_nil_r.
          rewrite <- app_assoc. reflexivity. }
      rewrite Hrev. rewrite (Hw (rev ss) [] (length (postorder_block ss))).
      * rewrite rev_involutive, app_nil_r. reflexivity.
      * intros s Hs. apply in_rev in Hs. pose proof (size_stmt_in s ss Hs). split; [lia|].
        assert (isize_list (postorder_stmt s) <= isize_list (postorder_block ss))%nat; [|lia].
        clear -Hs. unfold postorder_block. induction ss as [|x ss IH]; [destruct Hs|].
        destruct ss as [|x2 ss].
        -- destruct Hs as [->|[]]. cbn. rewrite app_nil_r. lia.
        -- change (join [IEndStatement] (map postorder_stmt (x :: x2 :: ss)))
             with (postorder_stmt x ++ IEndStatement :: join [IEndStatement] (map postorder_stmt (x2 :: ss))).
           rewrite isize_list_app. destruct Hs as [->|Hs]; [lia|]. specialize (IH Hs).
           change (isize_list (IEndStatement :: ?l)) with (S (isize_list l)). cbn [isize_list fold_right isize] in *. lia.
      * rewrite rev_length. clear. unfold postorder_block. induction ss as [|x ss IH]; [cbn; lia|].
        destruct ss as [|x2 ss].
        -- cbn. rewrite app_nil_r. pose proof (postorder_stmt_nonempty x). lia.
        -- change (join [IEndStatement] (map postorder_stmt (x :: x2 :: ss)))
             with (postorder_stmt x ++ IEndStatement :: join [IEndStatement] (map postorder_stmt (x2 :: ss))).
           rewrite app_length. cbn [length] in *.
           pose proof (postorder_stmt_nonempty x). lia.
    + cbn [size] in Hsz. cbn [postorder rp] in *. apply IHt; [lia|exact Hf].
  - intros s Hsz f rest Hf. rewrite size_stmt_unfold in Hsz. rewrite postorder_stmt_unfold in *. rewrite rp_stmt_unfold.
    destruct s as [e|x e|x e].
    + apply IHt; [lia|exact Hf].
    + rewrite isize_list_app in Hf. cbn in Hf. destruct f as [|f]; [lia|].
      rewrite rev_app_distr. cbn [rev app]. rewrite recon_S. rewrite IHt by lia. reflexivity.
    + rewrite isize_list_app in Hf. cbn in Hf. destruct f as [|f]; [lia|].
      rewrite rev_app_distr. cbn [rev app]. rewrite recon_S. rewrite IHt by lia. reflexivity.
Qed.
End RP.
