(* C06, code half: str / compile round trip of code values.
   reconstruct (the model of instruction::reconstruct + d_code::to_string_sqf) applied to compiled code
   prints the documented reading of the code with the implementation's own parenthesisation rule, so by
   parse o print = id the text compiles back to the same instructions. *)
From Coq Require Import ZArith List Bool Arith Lia.
Import ListNotations.
From Coq Require String.
Import String.StringSyntax.
From SqfVerif Require Import Syntax.SyntaxDefs Syntax.ParsePrint Syntax.LexProofs Syntax.CompileProofs Syntax.Reading.
From SqfVerif Require Syntax.ParseMono.

(* ------------------------------------------------------------------ rendered pieces lex back *)
Fixpoint pieces_ok (ps:list piece) : Prop :=
  match ps with
  | [] => True
  | PW w :: r => all_ws w /\ pieces_ok r
  | PT t :: r => tok_ok t /\ follow_ok t (pieces_text r) /\ pieces_ok r
  end.

Fixpoint items_of (acc:text) (ps:list piece) : list (text * rtok) * text :=
  match ps with
  | [] => ([], acc)
  | PW w :: r => items_of (acc ++ w) r
  | PT t :: r => let '(its, tr) := items_of [] r in ((acc, t) :: its, tr)
  end.

Lemma all_ws_app a b : all_ws a -> all_ws b -> all_ws (a ++ b).
Proof. unfold all_ws. rewrite forallb_app. intros -> ->. reflexivity. Qed.

Lemma items_of_spec : forall ps acc, all_ws acc -> pieces_ok ps ->
  let '(its, tr) := items_of acc ps in
  render its tr = acc ++ pieces_text ps /\ map snd its = pieces_toks ps /\
  (match its with [] => all_ws tr | (w, _) :: _ => all_ws w end) /\
  (forall w0 t0 rest, its = (w0, t0) :: rest -> sep_ok its tr) /\ (its = [] -> sep_ok its tr).
Proof.
  induction ps as [|p r IH]; intros acc Hacc Hok.
  - cbn [items_of pieces_text flat_map map pieces_toks]. unfold render. cbn [flat_map app]. rewrite app_nil_r.
    repeat split; auto; try (intros; discriminate).
  - destruct p as [t|w]; cbn [items_of pieces_ok] in *.
    + destruct Hok as (Ht & Hf & Hr).
      specialize (IH [] eq_refl Hr). destruct (items_of [] r) as [its tr].
      destruct IH as (E1 & E2 & E3 & E4 & E5). cbn [app] in E1.
      assert (Hsep: sep_ok its tr) by (destruct its as [|[w0 t0] rest]; [apply E5; reflexivity|eapply E4; reflexivity]).
      split; [|split; [|split; [|split]]].
      * rewrite render_cons, E1. reflexivity.
      * cbn [map snd pieces_toks flat_map app]. rewrite E2. reflexivity.
      * exact Hacc.
      * intros w1 t1 rest1 E. injection E as <- <- <-. cbn [sep_ok]. rewrite E1. auto.
      * discriminate.
    + destruct Hok as (Hw & Hr).
      specialize (IH (acc ++ w) (all_ws_app _ _ Hacc Hw) Hr). destruct (items_of (acc ++ w) r) as [its tr].
      destruct IH as (E1 & E2 & E3 & E4 & E5).
      split; [|split; [|split; [|split]]]; auto. rewrite E1, <- app_assoc. reflexivity.
Qed.

Theorem lex_pieces ps : pieces_ok ps -> lex (pieces_text ps) = LexOk (pieces_toks ps).
Proof.
  intros H. pose proof (items_of_spec ps [] eq_refl H) as S. destruct (items_of [] ps) as [its tr].
  destruct S as (E1 & E2 & E3 & E4 & E5). cbn [app] in E1. rewrite <- E1, <- E2.
  apply lex_render. destruct its as [|[w0 t0] rest]; [apply E5; reflexivity|eapply E4; reflexivity].
Qed.

(* ------------------------------------------------------------------ what reconstruct prints, as a function of the tree *)
Section RP.
Variable show_lit : lit -> lit.
Notation spl := (show_pval_lit show_lit).

Definition target_name (x:tree) : text := match x with Var n | Nul n => n | _ => [] end.

Fixpoint rp (parent:nat) (left:bool) (t:tree) : list piece :=
  match t with
  | Lit l => spl false l
  | Var s => [PT (RIdent s)]
  | Nul s => [PT (raw_of_name (lower s))]
  | Un s a =>
    match unsigned_num a with
    | Some l => if text_eqb s sym_minus then spl true l
                else if text_eqb s sym_plus then spl false l
                else PT (raw_of_name (lower s)) :: sp :: rp 10%nat false a
    | None => PT (raw_of_name (lower s)) :: sp :: rp 10%nat false a
    end
  | Bin k s l r =>
    let body := rp (S k) true l ++ sp :: PT (raw_of_name (lower s)) :: sp :: rp (S k) false r in
    if (if left then (S k <? parent)%nat else (S k <=? parent)%nat) then PT RRoundO :: body ++ [PT RRoundC] else body
  | Arr es => PT RSquareO :: join [PT RComma; sp] (map (rp 0%nat false) es) ++ [PT RSquareC]
  | Code ss => PT RCurlyO :: sp :: join [PT RSemi; sp] (map rp_stmt ss) ++ [sp; PT RCurlyC]
  | Par a => rp parent left a
  end
with rp_stmt (s:stmt) : list piece :=
  match s with
  | SExpr e => rp 0%nat false e
  | SAssign x e => PT (RIdent (target_name x)) :: sp :: PT REqual :: sp :: rp 10%nat false e
  | SLocal x e => PT (RPrivate kw_private) :: sp :: PT (RIdent x) :: sp :: PT REqual :: sp :: rp 10%nat false e
  end.
Definition rp_block (ss:list stmt) : list piece :=
  PT RCurlyO :: sp :: join [PT RSemi; sp] (map rp_stmt ss) ++ [sp; PT RCurlyC].

Lemma rp_stmt_unfold s : rp_stmt s = match s with
  | SExpr e => rp 0%nat false e
  | SAssign x e => PT (RIdent (target_name x)) :: sp :: PT REqual :: sp :: rp 10%nat false e
  | SLocal x e => PT (RPrivate kw_private) :: sp :: PT (RIdent x) :: sp :: PT REqual :: sp :: rp 10%nat false e
  end.
Proof. destruct s; reflexivity. Qed.

Lemma recon_S f parent left i rest : recon show_lit (S f) parent left (i :: rest) =
  match i with
  | IPush (PLit neg l) => Some (spl neg l, rest)
  | IPush (PCode c) => match recon_block show_lit f c with Some ps => Some (ps, rest) | None => None end
  | ICallNular s => Some ([PT (raw_of_name s)], rest)
  | IGetVar s => Some ([PT (RIdent s)], rest)
  | ICallUnary s =>
    match recon show_lit f 10%nat false rest with
    | Some (e, rest') => Some (PT (raw_of_name s) :: sp :: e, rest')
    | None => None
    end
  | ICallBinary s prec =>
    match recon show_lit f prec false rest with
    | Some (re, rest1) =>
      match recon show_lit f prec true rest1 with
      | Some (le, rest2) =>
        let body := le ++ sp :: PT (raw_of_name s) :: sp :: re in
        if (if left then (prec <? parent)%nat else (prec <=? parent)%nat)
        then Some (PT RRoundO :: body ++ [PT RRoundC], rest2)
        else Some (body, rest2)
      | None => None
      end
    | None => None
    end
  | IMakeArray n =>
    match elems_with (recon show_lit f 0%nat false) n rest [] with
    | Some (els, rest') => Some (PT RSquareO :: join [PT RComma; sp] els ++ [PT RSquareC], rest')
    | None => None
    end
  | IAssignTo s =>
    match recon show_lit f 10%nat false rest with
    | Some (e, rest') => Some (PT (RIdent s) :: sp :: PT REqual :: sp :: e, rest')
    | None => None
    end
  | IAssignToLocal s =>
    match recon show_lit f 10%nat false rest with
    | Some (e, rest') => Some (PT (RPrivate kw_private) :: sp :: PT (RIdent s) :: sp :: PT REqual :: sp :: e, rest')
    | None => None
    end
  | IEndStatement => Some ([], rest)
  end.
Proof. reflexivity. Qed.
Lemma recon_block_S f c : recon_block show_lit (S f) c =
  match walk_with (recon show_lit f 0%nat false) (length c) (rev c) [] with
  | Some strs => Some (PT RCurlyO :: sp :: join [PT RSemi; sp] strs ++ [sp; PT RCurlyC])
  | None => None
  end.
Proof. reflexivity. Qed.

Lemma recon_end f p l rest : (1 <= f)%nat -> recon show_lit f p l (IEndStatement :: rest) = Some ([], rest).
Proof. destruct f; [lia|reflexivity]. Qed.

Lemma isize_list_app a b : isize_list (a ++ b) = (isize_list a + isize_list b)%nat.
Proof. unfold isize_list. induction a; cbn; [reflexivity|]. rewrite IHa. lia. Qed.
Lemma isize_pos i : (1 <= isize i)%nat.
Proof. destruct i as [[|]| | | | | | | |]; cbn; lia. Qed.

Lemma rp_nonempty : forall t parent left, rp parent left t <> [].
Proof.
  induction t; intros parent left; cbn [rp]; try discriminate.
  - destruct (unsigned_num t) as [l|]; [|discriminate].
    destruct (text_eqb s sym_minus); [unfold show_pval_lit; intros E; cbn in E; discriminate E|].
    destruct (text_eqb s sym_plus); [unfold show_pval_lit; intros E; cbn in E; discriminate E|discriminate].
  - destruct (if left then _ else _); [discriminate|]. intros E. apply app_eq_nil in E. destruct E as [E _]. exact (IHt1 _ _ E).
  - apply IHt.
Qed.
Lemma rp_stmt_nonempty s : rp_stmt s <> [].
Proof. rewrite rp_stmt_unfold. destruct s; try discriminate. apply rp_nonempty. Qed.

Lemma flat_map_rev {A B} (g:A -> list B) l : rev (flat_map g l) = flat_map (fun x => rev (g x)) (rev l).
Proof.
  induction l as [|x l IH]; [reflexivity|]. cbn [flat_map rev]. rewrite rev_app_distr, IH, flat_map_app. cbn [flat_map].
  rewrite app_nil_r. reflexivity.
Qed.

Lemma postorder_nonempty t : (1 <= length (postorder t))%nat.
Proof.
  induction t; cbn [postorder]; rewrite ?app_length; cbn [length]; try lia.
  destruct (unsigned_num t); [destruct (text_eqb s sym_minus); [cbn; lia|destruct (text_eqb s sym_plus); [cbn; lia|]]|];
    rewrite app_length; cbn; lia.
Qed.
Lemma postorder_stmt_nonempty s : (1 <= length (postorder_stmt s))%nat.
Proof.
  rewrite postorder_stmt_unfold. destruct s; rewrite ?app_length; cbn [length]; try lia. apply postorder_nonempty.
Qed.

Theorem recon_main : forall n,
  (forall t, (size t <= n)%nat -> forall f parent left rest, (2 * isize_list (postorder t) <= f)%nat ->
     recon show_lit f parent left (rev (postorder t) ++ rest) = Some (rp parent left t, rest)) /\
  (forall s, (size_stmt s <= n)%nat -> forall f rest, (2 * isize_list (postorder_stmt s) <= f)%nat ->
     recon show_lit f 0%nat false (rev (postorder_stmt s) ++ rest) = Some (rp_stmt s, rest)).
Proof.
  induction n as [|n [IHt IHs]].
  { split; intros x Hsz; destruct x; cbn in Hsz; lia. }
  split.
  - intros t Hsz f parent left rest Hf.
    destruct t as [l|v|nm|s a|j s l r|es|ss|a].
    + cbn in Hf. destruct f as [|f]; [lia|]. reflexivity.
    + cbn in Hf. destruct f as [|f]; [lia|]. reflexivity.
    + cbn in Hf. destruct f as [|f]; [lia|]. reflexivity.
    + cbn [size] in Hsz.
      assert (Hgen: (2 * isize_list (postorder a ++ [ICallUnary (lower s)]) <= f)%nat ->
                    recon show_lit f parent left (rev (postorder a ++ [ICallUnary (lower s)]) ++ rest)
                    = Some (PT (raw_of_name (lower s)) :: sp :: rp 10%nat false a, rest)).
      { intros Hf'. rewrite isize_list_app in Hf'. cbn in Hf'. destruct f as [|f]; [lia|].
        rewrite rev_app_distr. cbn [rev app]. rewrite recon_S. rewrite IHt by lia. reflexivity. }
      cbn [postorder rp] in *. destruct (unsigned_num a) as [l|]; [|apply Hgen; exact Hf].
      destruct (text_eqb s sym_minus).
      * cbn in Hf. destruct f as [|f]; [lia|]. reflexivity.
      * destruct (text_eqb s sym_plus); [|apply Hgen; exact Hf].
        cbn in Hf. destruct f as [|f]; [lia|]. reflexivity.
    + cbn [size] in Hsz. cbn [postorder rp] in *. rewrite !isize_list_app in Hf. cbn in Hf.
      destruct f as [|f]; [lia|].
      rewrite !rev_app_distr. cbn [rev app]. rewrite <- app_assoc. rewrite recon_S.
      rewrite IHt by lia. rewrite IHt by lia. cbv zeta.
      destruct (if left then (S j <? parent)%nat else (S j <=? parent)%nat); reflexivity.
    + change (size (Arr es)) with (S (fold_right (fun e n => (size e + n)%nat) 0%nat es)) in Hsz.
      cbn [postorder rp] in *. rewrite isize_list_app in Hf. cbn in Hf.
      destruct f as [|f]; [lia|]. rewrite rev_app_distr. cbn [rev app]. rewrite recon_S.
      rewrite flat_map_rev.
      assert (Hel: forall er acc rest0, (forall e, In e er -> (size e <= n)%nat /\ (2 * isize_list (postorder e) <= f)%nat) ->
                  elems_with (recon show_lit f 0%nat false) (length er) (flat_map (fun x => rev (postorder x)) er ++ rest0) acc
                  = Some (map (rp 0%nat false) (rev er) ++ acc, rest0)).
      { induction er as [|e er IHer]; intros acc rest0 Hin; [reflexivity|].
        cbn [length elems_with flat_map]. rewrite <- app_assoc.
        destruct (Hin e (or_introl eq_refl)) as [H1 H2]. rewrite IHt by assumption.
        rewrite IHer by (intros; apply Hin; right; assumption).
        cbn [rev]. rewrite map_app. cbn [map]. rewrite <- app_assoc. reflexivity. }
      rewrite <- (rev_length es). rewrite Hel.
      * rewrite rev_involutive, app_nil_r. reflexivity.
      * intros e He. apply in_rev in He. pose proof (size_in e es He). split; [lia|].
        assert (isize_list (postorder e) <= isize_list (flat_map postorder es))%nat; [|lia].
        clear -He. induction es as [|x es IH]; [destruct He|]. cbn [flat_map]. rewrite isize_list_app.
        destruct He as [->|He]; [lia|]. specialize (IH He). lia.
    + change (size (Code ss)) with (S (fold_right (fun s n => (size_stmt s + n)%nat) 0%nat ss)) in Hsz.
      change (postorder (Code ss)) with [IPush (PCode (postorder_block ss))] in *.
      change (rp parent left (Code ss)) with (rp_block ss).
      cbn [rev app]. unfold isize_list in Hf. cbn [fold_right isize] in Hf. fold (isize_list (postorder_block ss)) in Hf.
      destruct f as [|f]; [lia|]. rewrite recon_S.
      destruct f as [|f]; [lia|]. rewrite recon_block_S.
      (* the walk over the reversed block *)
      assert (Hw: forall sr acc (g:nat),
                (forall s, In s sr -> (size_stmt s <= n)%nat /\ (2 * isize_list (postorder_stmt s) <= f)%nat) ->
                (2 * length sr <= S g)%nat ->
                walk_with (recon show_lit f 0%nat false) g
                  (match sr with [] => [] | s :: r => rev (postorder_stmt s) ++ flat_map (fun x => IEndStatement :: rev (postorder_stmt x)) r end) acc
                = Some (map rp_stmt (rev sr) ++ acc)).
      { induction sr as [|s sr IHsr]; intros acc g Hin Hg.
        - destruct g; reflexivity.
        - destruct (Hin s (or_introl eq_refl)) as [H1 H2].
          cbn [length] in Hg. destruct g as [|g]; [lia|].
          assert (Hne: rev (postorder_stmt s) <> []).
          { intros E. apply (f_equal (@length instr)) in E. rewrite rev_length in E. cbn in E.
            pose proof (postorder_stmt_nonempty s). lia. }
          destruct (rev (postorder_stmt s) ++ flat_map (fun x => IEndStatement :: rev (postorder_stmt x)) sr) as [|i0 l0] eqn:El.
          { apply app_eq_nil in El. destruct El as [El _]. contradiction. }
          cbn [walk_with]. rewrite <- El. rewrite IHs by assumption.
          destruct (rp_stmt s) as [|p0 ps0] eqn:Ep; [exfalso; exact (rp_stmt_nonempty s Ep)|]. rewrite <- Ep.
          destruct sr as [|s2 sr].
          + cbn [flat_map]. destruct g; cbn [walk_with rev map app]; reflexivity.
          + cbn [flat_map]. destruct g as [|g]; [cbn in Hg; lia|]. cbn [walk_with app].
            rewrite recon_end by (pose proof (postorder_stmt_nonempty s) as Hp; assert (1 <= isize_list (postorder_stmt s))%nat; [|lia];
                                  clear -Hp; destruct (postorder_stmt s) as [|i l]; [cbn in Hp; lia|]; unfold isize_list; cbn [fold_right]; pose proof (isize_pos i); lia).
            specialize (IHsr (rp_stmt s :: acc) g).
            cbn [rev]. rewrite map_app. cbn [map]. rewrite <- app_assoc. cbn [app].
            apply IHsr; [|cbn [length] in *; lia].
            intros; apply Hin; right; assumption. }
      assert (Hrev: rev (postorder_block ss) =
                    match rev ss with [] => [] | s :: r => rev (postorder_stmt s) ++ flat_map (fun x => IEndStatement :: rev (postorder_stmt x)) r end).
      { unfold postorder_block. clear. induction ss as [|s ss IH]; [reflexivity|].
        destruct ss as [|s2 ss].
        - cbn. rewrite !app_nil_r. reflexivity.
        - change (join [IEndStatement] (map postorder_stmt (s :: s2 :: ss)))
            with (postorder_stmt s ++ IEndStatement :: join [IEndStatement] (map postorder_stmt (s2 :: ss))).
          rewrite rev_app_distr. cbn [rev]. rewrite IH. cbn [rev].
          destruct (rev ss ++ [s2]) as [|x r] eqn:E; [destruct (rev ss); discriminate|].
          cbn [app]. rewrite flat_map_app. cbn [flat_map]. rewrite app_nil_r.
          rewrite <- !app_assoc. reflexivity. }
      rewrite Hrev. rewrite (Hw (rev ss) [] (length (postorder_block ss))).
      * rewrite rev_involutive, app_nil_r. reflexivity.
      * intros s Hs. apply in_rev in Hs. pose proof (size_stmt_in s ss Hs). split; [lia|].
        assert (isize_list (postorder_stmt s) <= isize_list (postorder_block ss))%nat; [|lia].
        clear -Hs. unfold postorder_block. induction ss as [|x ss IH]; [destruct Hs|].
        destruct ss as [|x2 ss].
        -- destruct Hs as [->|[]]. cbn [map join flat_map]. rewrite app_nil_r. lia.
        -- change (join [IEndStatement] (map postorder_stmt (x :: x2 :: ss)))
             with (postorder_stmt x ++ IEndStatement :: join [IEndStatement] (map postorder_stmt (x2 :: ss))).
           rewrite isize_list_app. destruct Hs as [->|Hs]; [lia|]. specialize (IH Hs).
           change (isize_list (IEndStatement :: ?l)) with (S (isize_list l)). cbn [isize_list fold_right isize] in *. lia.
      * rewrite rev_length. clear. unfold postorder_block. induction ss as [|x ss IH]; [cbn; lia|].
        destruct ss as [|x2 ss].
        -- cbn [map join flat_map length]. rewrite app_nil_r. pose proof (postorder_stmt_nonempty x). lia.
        -- change (join [IEndStatement] (map postorder_stmt (x :: x2 :: ss)))
             with (postorder_stmt x ++ IEndStatement :: join [IEndStatement] (map postorder_stmt (x2 :: ss))).
           rewrite app_length. cbn [length] in *.
           pose proof (postorder_stmt_nonempty x). lia.
    + cbn [size] in Hsz. cbn [postorder rp] in *. apply IHt; [lia|exact Hf].
  - intros s Hsz f rest Hf. rewrite size_stmt_unfold in Hsz. rewrite postorder_stmt_unfold in *. rewrite rp_stmt_unfold.
    destruct s as [e|x e|x e].
    + apply IHt; [lia|exact Hf].
    + rewrite isize_list_app in Hf. cbn in Hf. destruct f as [|f]; [lia|].
      rewrite rev_app_distr. cbn [rev app]. rewrite recon_S. rewrite IHt by lia. reflexivity.
    + rewrite isize_list_app in Hf. cbn in Hf. destruct f as [|f]; [lia|].
      rewrite rev_app_distr. cbn [rev app]. rewrite recon_S. rewrite IHt by lia. reflexivity.
Qed.
End RP.

(* ------------------------------------------------------------------ the printed text as a rendering of a tree *)
Section RImpl.
Variable show_lit : lit -> lit.
Notation I := (fun t:rtok => t).
Notation spl := (show_pval_lit show_lit).

(* printing keeps the kind of a literal: numbers (decimal or hexadecimal) print as decimal numbers,
   strings as strings, booleans as themselves *)
Definition show_kind_ok : Prop := forall l,
  match l with
  | LNum _ | LHex _ => exists s, show_lit l = LNum s
  | LStr _ => exists s, show_lit l = LStr s
  | LTrue _ => exists s, show_lit l = LTrue s
  | LFalse _ => exists s, show_lit l = LFalse s
  end.

(* the tree whose documented rendering is what str prints: literals as printed, names in lower case, folded
   signs resolved, and the parentheses the printer adds around a binary right-hand side of an assignment *)
Definition rhs (e:tree) : tree := if is_bin e then Par e else e.
Fixpoint rimpl (t:tree) : tree :=
  match t with
  | Lit l => Lit (show_lit l)
  | Var s => Var s
  | Nul s => Nul (lower s)
  | Un s a =>
    match unsigned_num a with
    | Some l => if text_eqb s sym_minus then Un sym_minus (Lit (show_lit l))
                else if text_eqb s sym_plus then Lit (show_lit l)
                else Un (lower s) (rimpl a)
    | None => Un (lower s) (rimpl a)
    end
  | Bin k s l r => Bin k (lower s) (rimpl l) (rimpl r)
  | Arr es => Arr (map rimpl es)
  | Code ss => Code (map rimpl_stmt ss)
  | Par a => rimpl a
  end
with rimpl_stmt (s:stmt) : stmt :=
  match s with
  | SExpr e => SExpr (rimpl e)
  | SAssign x e => SAssign x (rhs (rimpl e))
  | SLocal x e => SLocal x (rhs (rimpl e))
  end.
Lemma rimpl_stmt_unfold s : rimpl_stmt s = match s with
  | SExpr e => SExpr (rimpl e) | SAssign x e => SAssign x (rhs (rimpl e)) | SLocal x e => SLocal x (rhs (rimpl e)) end.
Proof. destruct s; reflexivity. Qed.

Definition klev (parent:nat) (left:bool) : nat := if left then (parent - 1)%nat else parent.

Lemma toks_app a b : pieces_toks (a ++ b) = pieces_toks a ++ pieces_toks b.
Proof. unfold pieces_toks. apply flat_map_app. Qed.
Lemma toks_join_comma els : pieces_toks (join [PT RComma; sp] els) = join [RComma] (map pieces_toks els).
Proof.
  destruct els as [|x r]; [reflexivity|]. cbn [join map]. rewrite toks_app. f_equal.
  induction r as [|y r IH]; [reflexivity|]. cbn [flat_map map]. rewrite !toks_app, IH. reflexivity.
Qed.
Lemma toks_join_semi els : pieces_toks (join [PT RSemi; sp] els) = join [RSemi] (map pieces_toks els).
Proof.
  destruct els as [|x r]; [reflexivity|]. cbn [join map]. rewrite toks_app. f_equal.
  induction r as [|y r IH]; [reflexivity|]. cbn [flat_map map]. rewrite !toks_app, IH. reflexivity.
Qed.

Definition prawI (t:tree) : list rtok :=
  match t with
  | Lit l => [raw_of_lit l]
  | Var s => [RIdent s]
  | Nul s => [raw_of_name s]
  | Un s a => raw_of_name s :: pr I layout_min NLEV a
  | Bin j s l r => pr I layout_min j l ++ raw_of_name s :: pr I layout_min (S j) r
  | Arr es => RSquareO :: join [RComma] (map (pr I layout_min 0%nat) es) ++ [RSquareC]
  | Code ss => RCurlyO :: pr_block I layout_min ss ++ [RCurlyC]
  | Par a => RRoundO :: pr I layout_min 0%nat a ++ [RRoundC]
  end.
Lemma prI_unfold k t : pr I layout_min k t = if (k <=? lvl t)%nat then prawI t else RRoundO :: prawI t ++ [RRoundC].
Proof. destruct t; reflexivity. Qed.
Lemma prI_stmt_unfold s : pr_stmt I layout_min s = match s with
  | SExpr e => pr I layout_min 0%nat e
  | SAssign x e => pr I layout_min NLEV x ++ REqual :: pr I layout_min 0%nat e
  | SLocal x e => RPrivate kw_private :: RIdent x :: REqual :: pr I layout_min 0%nat e
  end.
Proof. destruct s; reflexivity. Qed.

(* levels of binary nodes are below NLEV everywhere (part of well-formedness) *)
Fixpoint levels_ok (t:tree) : bool :=
  match t with
  | Lit _ | Var _ | Nul _ => true
  | Un _ a => levels_ok a
  | Bin k _ l r => (k <? NLEV)%nat && levels_ok l && levels_ok r
  | Arr es => forallb levels_ok es
  | Code ss => forallb levels_ok_stmt ss
  | Par a => levels_ok a
  end
with levels_ok_stmt (s:stmt) : bool :=
  match s with
  | SExpr e => levels_ok e
  | SAssign x e => (match x with Var _ => true | _ => false end) && levels_ok e
  | SLocal _ e => levels_ok e
  end.
Lemma levels_ok_stmt_unfold s : levels_ok_stmt s = match s with
  | SExpr e => levels_ok e
  | SAssign x e => (match x with Var _ => true | _ => false end) && levels_ok e
  | SLocal _ e => levels_ok e end.
Proof. destruct s; reflexivity. Qed.

Lemma rhs_print e : (is_bin e = true -> (lvl e < NLEV)%nat) -> pr I layout_min 0%nat (rhs e) = pr I layout_min NLEV e.
Proof.
  intros H. unfold rhs. destruct e; cbn [is_bin]; try reflexivity.
  specialize (H eq_refl). cbn [lvl] in H.
  rewrite (prI_unfold NLEV). cbn [lvl]. rewrite (prI_unfold 0%nat (Par _)). cbn [lvl prawI].
  change (0 <=? NLEV)%nat with true. cbv iota.
  destruct (Nat.leb_spec NLEV k); [lia|].
  rewrite prI_unfold. cbn [lvl]. destruct (Nat.leb_spec 0 k); [reflexivity|lia].
Qed.
Lemma rimpl_top t : levels_ok t = true -> is_bin (rimpl t) = true -> (lvl (rimpl t) < NLEV)%nat.
Proof.
  induction t; cbn [rimpl levels_ok is_bin lvl]; intros H Hb; try discriminate.
  - destruct (unsigned_num t); [destruct (text_eqb s sym_minus); [discriminate|destruct (text_eqb s sym_plus); discriminate]|discriminate].
  - apply andb_prop in H. destruct H as [H _]. apply andb_prop in H. destruct H as [H _]. apply Nat.ltb_lt in H. exact H.
  - auto.
Qed.

Lemma raw_minus : raw_of_name sym_minus = ROp sym_minus. Proof. reflexivity. Qed.

Theorem rp_toks_main : forall n,
  (forall t, (size t <= n)%nat -> levels_ok t = true -> forall parent left, (klev parent left <= NLEV)%nat ->
     pieces_toks (rp show_lit parent left t) = pr I layout_min (klev parent left) (rimpl t)) /\
  (forall s, (size_stmt s <= n)%nat -> levels_ok_stmt s = true ->
     pieces_toks (rp_stmt show_lit s) = pr_stmt I layout_min (rimpl_stmt s)).
Proof.
  induction n as [|n [IHt IHs]].
  { split; intros x Hsz; destruct x; cbn in Hsz; lia. }
  split.
  - intros t Hsz Hl parent left HK. rewrite prI_unfold.
    destruct t as [l|v|nm|s a|j s l r|es|ss|a].
    + cbn [rp rimpl lvl prawI]. destruct (Nat.leb_spec (klev parent left) NLEV); [reflexivity|lia].
    + cbn [rp rimpl lvl prawI]. destruct (Nat.leb_spec (klev parent left) NLEV); [reflexivity|lia].
    + cbn [rp rimpl lvl prawI]. destruct (Nat.leb_spec (klev parent left) NLEV); [reflexivity|lia].
    + cbn [size] in Hsz. cbn [levels_ok] in Hl.
      assert (Hgen: pieces_toks (PT (raw_of_name (lower s)) :: sp :: rp show_lit 10%nat false a)
                    = (if (klev parent left <=? lvl (Un (lower s) (rimpl a)))%nat then prawI (Un (lower s) (rimpl a))
                       else RRoundO :: prawI (Un (lower s) (rimpl a)) ++ [RRoundC])).
      { cbn [lvl prawI]. destruct (Nat.leb_spec (klev parent left) NLEV); [|lia].
        cbn [pieces_toks flat_map app]. f_equal. fold (pieces_toks (rp show_lit 10%nat false a)).
        rewrite (IHt a ltac:(lia) Hl 10%nat false) by (cbn; unfold NLEV; lia). reflexivity. }
      cbn [rp rimpl]. destruct (unsigned_num a) as [l|]; [|exact Hgen].
      destruct (text_eqb s sym_minus).
      * cbn [lvl prawI]. destruct (Nat.leb_spec (klev parent left) NLEV); [|lia].
        rewrite raw_minus. rewrite prI_unfold. cbn [lvl prawI]. change (NLEV <=? NLEV)%nat with true. reflexivity.
      * destruct (text_eqb s sym_plus); [|exact Hgen].
        cbn [lvl prawI]. destruct (Nat.leb_spec (klev parent left) NLEV); [reflexivity|lia].
    + cbn [size] in Hsz. cbn [levels_ok] in Hl. apply andb_prop in Hl. destruct Hl as [Hl Hr]. apply andb_prop in Hl. destruct Hl as [Hj Hl].
      apply Nat.ltb_lt in Hj.
      cbn [rp rimpl lvl prawI].
      assert (Hbody: pieces_toks (rp show_lit (S j) true l ++ sp :: PT (raw_of_name (lower s)) :: sp :: rp show_lit (S j) false r)
                     = pr I layout_min j (rimpl l) ++ raw_of_name (lower s) :: pr I layout_min (S j) (rimpl r)).
      { rewrite toks_app. cbn [pieces_toks flat_map app]. fold (pieces_toks (rp show_lit (S j) false r)).
        rewrite (IHt l ltac:(lia) Hl (S j) true) by (cbn; lia).
        rewrite (IHt r ltac:(lia) Hr (S j) false) by (cbn; lia).
        cbn [klev]. replace (S j - 1)%nat with j by lia. reflexivity. }
      assert (Hc: (if left then (S j <? parent)%nat else (S j <=? parent)%nat) = negb (klev parent left <=? j)%nat).
      { unfold klev. destruct left.
        - destruct (Nat.ltb_spec (S j) parent), (Nat.leb_spec (parent - 1) j); cbn; try reflexivity; lia.
        - destruct (Nat.leb_spec (S j) parent), (Nat.leb_spec parent j); cbn; try reflexivity; lia. }
      rewrite Hc. destruct (klev parent left <=? j)%nat; cbn [negb].
      * exact Hbody.
      * cbn [pieces_toks flat_map app]. f_equal. fold (pieces_toks ((rp show_lit (S j) true l ++ sp :: PT (raw_of_name (lower s)) :: sp :: rp show_lit (S j) false r) ++ [PT RRoundC])).
        rewrite toks_app, Hbody. reflexivity.
    + change (size (Arr es)) with (S (fold_right (fun e n => (size e + n)%nat) 0%nat es)) in Hsz.
      cbn [levels_ok] in Hl. cbn [rp rimpl lvl prawI]. destruct (Nat.leb_spec (klev parent left) NLEV); [|lia].
      cbn [pieces_toks flat_map app]. f_equal.
      fold (pieces_toks (join [PT RComma; sp] (map (rp show_lit 0%nat false) es) ++ [PT RSquareC])).
      rewrite toks_app, toks_join_comma. cbn [pieces_toks flat_map app]. f_equal. f_equal.
      rewrite !map_map. apply map_ext_in. intros e He. pose proof (size_in e es He).
      rewrite forallb_forall in Hl. apply (IHt e ltac:(lia) (Hl e He) 0%nat false). cbn. lia.
    + change (size (Code ss)) with (S (fold_right (fun s n => (size_stmt s + n)%nat) 0%nat ss)) in Hsz.
      change (levels_ok (Code ss)) with (forallb levels_ok_stmt ss) in Hl.
      change (rp show_lit parent left (Code ss)) with (rp_block show_lit ss).
      change (rimpl (Code ss)) with (Code (map rimpl_stmt ss)).
      cbn [lvl prawI]. destruct (Nat.leb_spec (klev parent left) NLEV); [|lia].
      unfold rp_block, pr_block. cbn [lay_lead lay_trail layout_min seps map app].
      change (pieces_toks (PT RCurlyO :: sp :: join [PT RSemi; sp] (map (rp_stmt show_lit) ss) ++ [sp; PT RCurlyC]))
        with (RCurlyO :: pieces_toks (join [PT RSemi; sp] (map (rp_stmt show_lit) ss) ++ [sp; PT RCurlyC])).
      f_equal. rewrite toks_app, toks_join_semi. rewrite app_nil_r.
      change (pieces_toks [sp; PT RCurlyC]) with [RCurlyC]. f_equal.
      unfold mid. cbn [lay_mid_first lay_mid_more layout_min seps map rsep]. f_equal.
      rewrite !map_map. apply map_ext_in. intros s Hs. pose proof (size_stmt_in s ss Hs).
      rewrite forallb_forall in Hl. apply (IHs s ltac:(lia) (Hl s Hs)).
    + cbn [size] in Hsz. cbn [levels_ok] in Hl. cbn [rp rimpl]. rewrite <- prI_unfold. apply IHt; auto. lia.
  - intros s Hsz Hl. rewrite size_stmt_unfold in Hsz. rewrite levels_ok_stmt_unfold in Hl.
    rewrite rp_stmt_unfold, rimpl_stmt_unfold. destruct s as [e|x e|x e]; rewrite prI_stmt_unfold.
    + apply (IHt e ltac:(lia) Hl 0%nat false). cbn. lia.
    + apply andb_prop in Hl. destruct Hl as [Hx Hl]. destruct x as [|v| | | | | |]; try discriminate.
      cbn [target_name]. rewrite rhs_print by (apply rimpl_top; exact Hl).
      rewrite prI_unfold. cbn [lvl prawI]. change (NLEV <=? NLEV)%nat with true. cbv iota.
      change (pieces_toks (PT (RIdent v) :: sp :: PT REqual :: sp :: rp show_lit 10%nat false e))
        with (RIdent v :: REqual :: pieces_toks (rp show_lit 10%nat false e)).
      cbn [app]. f_equal. f_equal.
      apply (IHt e ltac:(lia) Hl 10%nat false). cbn. unfold NLEV. lia.
    + rewrite rhs_print by (apply rimpl_top; exact Hl).
      change (pieces_toks (PT (RPrivate kw_private) :: sp :: PT (RIdent x) :: sp :: PT REqual :: sp :: rp show_lit 10%nat false e))
        with (RPrivate kw_private :: RIdent x :: REqual :: pieces_toks (rp show_lit 10%nat false e)).
      f_equal. f_equal. f_equal.
      apply (IHt e ltac:(lia) Hl 10%nat false). cbn. unfold NLEV. lia.
Qed.
End RImpl.

(* ------------------------------------------------------------------ the printed pieces lex back: spacing *)
Fixpoint PO (ps:list piece) (b:text) : Prop :=
  match ps with
  | [] => True
  | PW w :: r => all_ws w /\ PO r b
  | PT t :: r => tok_ok t /\ follow_ok t (pieces_text r ++ b) /\ PO r b
  end.
Definition toks_ok (ps:list piece) : Prop := forall t, In (PT t) ps -> tok_ok t.

Lemma text_app a b : pieces_text (a ++ b) = pieces_text a ++ pieces_text b.
Proof. unfold pieces_text. apply flat_map_app. Qed.
Lemma PO_nil ps : PO ps [] -> pieces_ok ps.
Proof. induction ps as [|[t|w] r IH]; cbn; auto; rewrite ?app_nil_r; tauto. Qed.
Lemma PO_app a c b : PO a (pieces_text c ++ b) -> PO c b -> PO (a ++ c) b.
Proof.
  induction a as [|[t|w] r IH]; cbn [app PO]; auto.
  - intros (H1 & H2 & H3) Hc. rewrite text_app, <- app_assoc. auto.
  - intros (H1 & H2) Hc. auto.
Qed.
Lemma follow_dstart t b : dstart b -> follow_ok t b.
Proof. destruct b; cbn; auto. Qed.
Lemma follow_free t b : free_tok t = true -> follow_ok t b.
Proof. destruct b; cbn; auto. Qed.
Lemma toks_ok_app a b : toks_ok (a ++ b) -> toks_ok a /\ toks_ok b.
Proof. unfold toks_ok. intros H. split; intros t Ht; apply H; apply in_or_app; auto. Qed.
Lemma toks_ok_cons p a : toks_ok (p :: a) -> toks_ok a.
Proof. unfold toks_ok. intros H t Ht. apply H. right. exact Ht. Qed.
Lemma toks_ok_hd t a : toks_ok (PT t :: a) -> tok_ok t.
Proof. intros H. apply H. left. reflexivity. Qed.

Lemma in_join {A} (x:A) sep l e : In e l -> In x e -> In x (join sep l).
Proof.
  destruct l as [|y r]; [intros []|]. cbn [join]. intros [->|He] Hx; apply in_or_app; [left; exact Hx|right].
  apply in_flat_map. exists e. split; [assumption|]. apply in_or_app. right. exact Hx.
Qed.

Lemma dstart_sp b : dstart (pieces_text (sp :: b)).
Proof. reflexivity. Qed.

(* a list of pieces, each of which is fine before a delimiter, joined by `sep sp` where sep is a bracket or
   separator token, is fine before a delimiter *)
Lemma PO_join sep (Hfree: free_tok sep = true) (Hok: tok_ok sep) (Hd: dstart (rtok_text sep)) : forall els b, dstart b ->
  (forall e, In e els -> forall b', dstart b' -> PO e b') -> PO (join [PT sep; sp] els) b.
Proof.
  intros els b Hb H. destruct els as [|x r]; [exact I|]. cbn [join].
  revert x H. induction r as [|y r IH]; intros x H.
  - cbn [flat_map]. rewrite app_nil_r. apply H; [left; reflexivity|exact Hb].
  - cbn [flat_map]. apply PO_app.
    + apply H; [left; reflexivity|]. rewrite text_app. cbn [pieces_text flat_map app].
      destruct (rtok_text sep) as [|c s'] eqn:E; [reflexivity|]. cbn [app]. exact Hd.
    + change (([PT sep; sp] ++ y) ++ flat_map (fun y0 => [PT sep; sp] ++ y0) r)
        with (PT sep :: sp :: (y ++ flat_map (fun y0 => [PT sep; sp] ++ y0) r)).
      cbn [PO]. split; [exact Hok|]. split; [apply follow_free; exact Hfree|]. split; [reflexivity|].
      apply (IH y). intros e He. apply H. right. exact He.
Qed.

Lemma PO_single t b : tok_ok t -> dstart b -> PO [PT t] b.
Proof. intros H Hb. cbn [PO pieces_text flat_map app]. split; [exact H|]. split; [apply follow_dstart; exact Hb|exact I]. Qed.

Section Spacing.
Variable show_lit : lit -> lit.

Lemma tok_ok_punct : tok_ok RRoundO /\ tok_ok RRoundC /\ tok_ok RSquareO /\ tok_ok RSquareC /\ tok_ok RCurlyO /\ tok_ok RCurlyC
  /\ tok_ok RSemi /\ tok_ok RComma /\ tok_ok REqual /\ tok_ok (RPrivate kw_private) /\ tok_ok (ROp sym_minus).
Proof. repeat split. Qed.

Theorem rp_PO_main : forall n,
  (forall t, (size t <= n)%nat -> forall parent left b, dstart b -> toks_ok (rp show_lit parent left t) -> PO (rp show_lit parent left t) b) /\
  (forall s, (size_stmt s <= n)%nat -> forall b, dstart b -> toks_ok (rp_stmt show_lit s) -> PO (rp_stmt show_lit s) b).
Proof.
  destruct tok_ok_punct as (KRO & KRC & KSO & KSC & KCO & KCC & KSE & KCM & KEQ & KPR & KMI).
  induction n as [|n [IHt IHs]].
  { split; intros x Hsz; destruct x; cbn in Hsz; lia. }
  split.
  - intros t Hsz parent left b Hb Hok.
    destruct t as [l|v|nm|s a|j s l r|es|ss|a].
    + cbn [rp show_pval_lit app] in *. apply PO_single; [apply (toks_ok_hd _ _ Hok)|exact Hb].
    + cbn [rp] in *. apply PO_single; [apply (toks_ok_hd _ _ Hok)|exact Hb].
    + cbn [rp] in *. apply PO_single; [apply (toks_ok_hd _ _ Hok)|exact Hb].
    + cbn [size] in Hsz.
      assert (Hgen: toks_ok (PT (raw_of_name (lower s)) :: sp :: rp show_lit 10%nat false a) ->
                    PO (PT (raw_of_name (lower s)) :: sp :: rp show_lit 10%nat false a) b).
      { intros Hok'. cbn [PO]. split; [apply (toks_ok_hd _ _ Hok')|]. split; [apply follow_dstart; reflexivity|].
        split; [reflexivity|]. apply IHt; [lia|exact Hb|]. apply (toks_ok_cons _ _ (toks_ok_cons _ _ Hok')). }
      cbn [rp] in *. destruct (unsigned_num a) as [l|]; [|apply Hgen; exact Hok].
      destruct (text_eqb s sym_minus).
      * cbn [show_pval_lit app] in *. cbn [PO]. split; [exact KMI|]. split; [apply follow_free; reflexivity|].
        apply PO_single; [apply (toks_ok_hd _ _ (toks_ok_cons _ _ Hok))|exact Hb].
      * destruct (text_eqb s sym_plus); [|apply Hgen; exact Hok].
        cbn [show_pval_lit app] in *. apply PO_single; [apply (toks_ok_hd _ _ Hok)|exact Hb].
    + cbn [size] in Hsz. cbn [rp] in *.
      assert (Hbody: forall b', dstart b' ->
                toks_ok (rp show_lit (S j) true l ++ sp :: PT (raw_of_name (lower s)) :: sp :: rp show_lit (S j) false r) ->
                PO (rp show_lit (S j) true l ++ sp :: PT (raw_of_name (lower s)) :: sp :: rp show_lit (S j) false r) b').
      { intros b' Hb' Hok'. destruct (toks_ok_app _ _ Hok') as [Hl Hr].
        apply PO_app.
        - apply IHt; [lia|reflexivity|exact Hl].
        - cbn [PO]. split; [reflexivity|]. split; [apply (toks_ok_hd _ _ (toks_ok_cons _ _ Hr))|].
          split; [apply follow_dstart; reflexivity|]. split; [reflexivity|].
          apply IHt; [lia|exact Hb'|]. apply (toks_ok_cons _ _ (toks_ok_cons _ _ (toks_ok_cons _ _ Hr))). }
      destruct (if left then (S j <? parent)%nat else (S j <=? parent)%nat).
      * cbn [PO]. split; [exact KRO|]. split; [apply follow_free; reflexivity|].
        apply PO_app.
        -- apply Hbody; [reflexivity|]. apply (proj1 (toks_ok_app _ _ (toks_ok_cons _ _ Hok))).
        -- apply PO_single; assumption.
      * apply Hbody; assumption.
    + change (size (Arr es)) with (S (fold_right (fun e n => (size e + n)%nat) 0%nat es)) in Hsz.
      cbn [rp] in *. cbn [PO]. split; [exact KSO|]. split; [apply follow_free; reflexivity|].
      apply PO_app.
      * apply PO_join; auto; [reflexivity|reflexivity|].
        intros e He b' Hb'. apply in_map_iff in He. destruct He as (x & <- & Hx).
        pose proof (size_in x es Hx). apply IHt; [lia|exact Hb'|].
        intros t Ht. apply Hok. right. apply in_or_app. left.
        apply (in_join _ _ _ (rp show_lit 0%nat false x)); [apply in_map; exact Hx|exact Ht].
      * apply PO_single; assumption.
    + change (size (Code ss)) with (S (fold_right (fun s n => (size_stmt s + n)%nat) 0%nat ss)) in Hsz.
      change (rp show_lit parent left (Code ss)) with (rp_block show_lit ss) in *. unfold rp_block in *.
      cbn [PO]. split; [exact KCO|]. split; [apply follow_free; reflexivity|]. split; [reflexivity|].
      apply PO_app.
      * apply PO_join; auto; [reflexivity|reflexivity|].
        intros e He b' Hb'. apply in_map_iff in He. destruct He as (x & <- & Hx).
        pose proof (size_stmt_in x ss Hx). apply IHs; [lia|exact Hb'|].
        intros t Ht. apply Hok. right. right. apply in_or_app. left.
        apply (in_join _ _ _ (rp_stmt show_lit x)); [apply in_map; exact Hx|exact Ht].
      * cbn [PO]. split; [reflexivity|]. apply PO_single; assumption.
    + cbn [size] in Hsz. cbn [rp] in *. apply IHt; [lia|exact Hb|exact Hok].
  - intros s Hsz b Hb Hok. rewrite size_stmt_unfold in Hsz. rewrite rp_stmt_unfold in *.
    destruct s as [e|x e|x e].
    + apply IHt; [lia|exact Hb|exact Hok].
    + cbn [PO]. split; [apply (toks_ok_hd _ _ Hok)|]. split; [apply follow_dstart; reflexivity|]. split; [reflexivity|].
      split; [exact KEQ|]. split; [apply follow_dstart; reflexivity|]. split; [reflexivity|].
      apply IHt; [lia|exact Hb|]. do 4 apply toks_ok_cons in Hok. exact Hok.
    + cbn [PO]. split; [exact KPR|]. split; [apply follow_dstart; reflexivity|]. split; [reflexivity|].
      split; [apply (toks_ok_hd _ _ (toks_ok_cons _ _ (toks_ok_cons _ _ Hok)))|]. split; [apply follow_dstart; reflexivity|]. split; [reflexivity|].
      split; [exact KEQ|]. split; [apply follow_dstart; reflexivity|]. split; [reflexivity|].
      apply IHt; [lia|exact Hb|]. do 6 apply toks_ok_cons in Hok. exact Hok.
Qed.
End Spacing.

(* ------------------------------------------------------------------ names in lower case *)
Lemma lowc_idem c : lowc (lowc c) = lowc c.
Proof.
  unfold lowc. destruct (is_upper c) eqn:U; [|rewrite U; reflexivity].
  assert (is_upper (c + 32) = false); [|rewrite H; reflexivity].
  unfold is_upper in *. apply andb_prop in U. destruct U as [U1 U2]. apply Z.leb_le in U1, U2.
  apply andb_false_iff. right. apply Z.leb_gt. lia.
Qed.
Lemma lower_idem s : lower (lower s) = lower s.
Proof. unfold lower. rewrite map_map. apply map_ext. apply lowc_idem. Qed.
Lemma ident_start_lowc c : is_ident_start (lowc c) = is_ident_start c.
Proof.
  unfold is_ident_start, is_alpha, lowc. destruct (is_upper c) eqn:U; [|rewrite U; reflexivity].
  unfold is_upper, is_lower in *. apply andb_prop in U. destruct U as [U1 U2]. apply Z.leb_le in U1, U2.
  cbn [orb]. destruct (Z.leb_spec 65 (c + 32)), (Z.leb_spec (c + 32) 90), (Z.leb_spec 97 (c + 32)), (Z.leb_spec (c + 32) 122),
    (Z.eqb_spec (c + 32) 95), (Z.eqb_spec c 95); cbn; try reflexivity; lia.
Qed.
Lemma raw_of_name_lower s : raw_of_name (lower s) =
  match raw_of_name s with RPrivate _ => RPrivate (lower s) | RIdent _ => RIdent (lower s) | ROp _ => ROp (lower s) | x => x end.
Proof.
  destruct s as [|c s']; [reflexivity|].
  assert (E: raw_of_name (lower (c :: s')) =
             if is_ident_start (lowc c) then (if text_eqb (lower (lower (c :: s'))) kw_private then RPrivate (lower (c :: s')) else RIdent (lower (c :: s')))
             else ROp (lower (c :: s'))) by reflexivity.
  rewrite E, ident_start_lowc, lower_idem. unfold raw_of_name.
  destruct (is_ident_start c); [destruct (text_eqb (lower (c :: s')) kw_private)|]; reflexivity.
Qed.
Definition retext (t:tok) (s:text) : tok :=
  match t with TOp c _ => TOp c s | TIdent _ => TIdent s | TPrivate _ => TPrivate s | x => x end.
Lemma classify_name_lower R b s : classify_name R b (lower s) = retext (classify_name R b s) (lower s).
Proof.
  unfold classify_name. rewrite lower_idem.
  destruct (oi_bin (R (lower s))) as [p|], (oi_un (R (lower s))), (oi_nul (R (lower s)));
    try (destruct ((1 <=? p)%nat && (p <=? 10)%nat)); destruct b; reflexivity.
Qed.
Lemma name_tok_lower R s : name_tok R (lower s) = retext (name_tok R s) (lower s).
Proof.
  unfold name_tok. rewrite raw_of_name_lower. unfold raw_of_name. destruct s as [|c s'].
  - cbn [classify]. apply classify_name_lower.
  - destruct (is_ident_start c); [destruct (text_eqb (lower (c :: s')) kw_private)|]; cbn [classify retext];
      try reflexivity; apply classify_name_lower.
Qed.

Local Open Scope Z_scope.
Lemma text_eqb_sym1 s k : text_eqb s [k] = match s with [c] => c =? k | _ => false end.
Proof. destruct s as [|c [|c' s']]; cbn; rewrite ?andb_true_r, ?andb_false_r; reflexivity. Qed.
Lemma lower_sym_plus s : text_eqb (lower s) sym_plus = text_eqb s sym_plus.
Proof.
  unfold sym_plus. rewrite !text_eqb_sym1. destruct s as [|c [|c' s']]; try reflexivity. cbn [lower map].
  unfold lowc. destruct (is_upper c) eqn:U; [|reflexivity].
  unfold is_upper in U. apply andb_prop in U. destruct U as [U1 U2]. apply Z.leb_le in U1, U2.
  destruct (Z.eqb_spec (c + 32) 43), (Z.eqb_spec c 43); try reflexivity; lia.
Qed.
Lemma lower_sym_minus s : text_eqb (lower s) sym_minus = text_eqb s sym_minus.
Proof.
  unfold sym_minus. rewrite !text_eqb_sym1. destruct s as [|c [|c' s']]; try reflexivity. cbn [lower map].
  unfold lowc. destruct (is_upper c) eqn:U; [|reflexivity].
  unfold is_upper in U. apply andb_prop in U. destruct U as [U1 U2]. apply Z.leb_le in U1, U2.
  destruct (Z.eqb_spec (c + 32) 45), (Z.eqb_spec c 45); try reflexivity; lia.
Qed.
Local Close Scope Z_scope.

(* ------------------------------------------------------------------ the printed tree is well formed and compiles to the same code *)
Fixpoint mapl_i (g:lit -> lit) (i:instr) : instr :=
  match i with
  | IPush v => IPush (match v with PLit neg l => PLit neg (g l) | PCode c => PCode (map (mapl_i g) c) end)
  | x => x
  end.

Lemma wfb_stmt_unfold R s : wfb_stmt R s = match s with
  | SExpr e => wfb R e
  | SAssign x e => (match x with
                    | Var v => match classify R (RIdent v) with TIdent _ => true | _ => false end
                    | _ => false end) && wfb R e
  | SLocal x e => (match classify R (RIdent x) with TIdent _ => true | _ => false end) && wfb R e
  end.
Proof. destruct s; reflexivity. Qed.

Section Final.
Variable show_lit : lit -> lit.
Hypothesis Hkind : show_kind_ok show_lit.
Variable R : registry.
Notation rimpl := (rimpl show_lit).
Notation rimpl_stmt := (rimpl_stmt show_lit).

Lemma wfb_rhs e : wfb R (rhs e) = wfb R e.
Proof. unfold rhs. destruct (is_bin e); reflexivity. Qed.

Lemma text_eqb_eq a b : text_eqb a b = true -> a = b.
Proof.
  revert b. induction a; destruct b; cbn; intros H; try discriminate; auto.
  apply andb_prop in H. destruct H as [H1 H2]. apply Z.eqb_eq in H1. subst. f_equal. auto.
Qed.

Theorem wf_rimpl_main : forall n,
  (forall t, (size t <= n)%nat -> wfb R t = true -> wfb R (rimpl t) = true) /\
  (forall s, (size_stmt s <= n)%nat -> wfb_stmt R s = true -> wfb_stmt R (rimpl_stmt s) = true).
Proof.
  induction n as [|n [IHt IHs]].
  { split; intros x Hsz; destruct x; cbn in Hsz; lia. }
  split.
  - intros t Hsz Hwf. destruct t as [l|v|nm|s a|j s l r|es|ss|a].
    + reflexivity.
    + exact Hwf.
    + cbn [CodeRoundtrip.rimpl wfb] in *. rewrite name_tok_lower. destruct (name_tok R nm); try discriminate. exact Hwf.
    + cbn [size] in Hsz. cbn [wfb] in Hwf. apply andb_prop in Hwf. destruct Hwf as [Hu Ha].
      assert (Hgen: wfb R (Un (lower s) (rimpl a)) = true).
      { cbn [wfb]. rewrite name_tok_lower. rewrite IHt by (auto; lia). rewrite andb_true_r.
        destruct (name_tok R s); try discriminate; exact Hu. }
      cbn [CodeRoundtrip.rimpl]. destruct (unsigned_num a) as [l|]; [|exact Hgen].
      destruct (text_eqb s sym_minus) eqn:Em.
      * apply text_eqb_eq in Em. subst. cbn [wfb]. rewrite Hu. reflexivity.
      * destruct (text_eqb s sym_plus); [reflexivity|exact Hgen].
    + cbn [size] in Hsz. cbn [wfb] in Hwf. apply andb_prop in Hwf. destruct Hwf as [Hwf Hr]. apply andb_prop in Hwf. destruct Hwf as [Hwf Hl].
      apply andb_prop in Hwf. destruct Hwf as [Hj Hc].
      cbn [CodeRoundtrip.rimpl wfb]. rewrite Hj, name_tok_lower, !IHt by (auto; lia). rewrite !andb_true_r. cbn [andb].
      destruct (name_tok R s); try discriminate; exact Hc.
    + change (size (Arr es)) with (S (fold_right (fun e n => (size e + n)%nat) 0%nat es)) in Hsz.
      cbn [wfb CodeRoundtrip.rimpl] in *. rewrite forallb_forall in *. intros x Hx. apply in_map_iff in Hx. destruct Hx as (e & <- & He).
      pose proof (size_in e es He). apply IHt; [lia|apply Hwf; exact He].
    + change (size (Code ss)) with (S (fold_right (fun s n => (size_stmt s + n)%nat) 0%nat ss)) in Hsz.
      change (wfb R (Code ss)) with (forallb (wfb_stmt R) ss) in Hwf.
      change (wfb R (rimpl (Code ss))) with (forallb (wfb_stmt R) (map rimpl_stmt ss)).
      rewrite forallb_forall in *. intros x Hx. apply in_map_iff in Hx. destruct Hx as (s & <- & Hs).
      pose proof (size_stmt_in s ss Hs). apply IHs; [lia|apply Hwf; exact Hs].
    + cbn [size] in Hsz. cbn [wfb CodeRoundtrip.rimpl] in *. apply IHt; [lia|exact Hwf].
  - intros s Hsz Hwf. rewrite size_stmt_unfold in Hsz. rewrite rimpl_stmt_unfold. rewrite wfb_stmt_unfold in *.
    destruct s as [e|x e|x e].
    + apply IHt; [lia|exact Hwf].
    + apply andb_prop in Hwf. destruct Hwf as [Hx He]. rewrite Hx, wfb_rhs, IHt by (auto; lia). reflexivity.
    + apply andb_prop in Hwf. destruct Hwf as [Hx He]. rewrite Hx, wfb_rhs, IHt by (auto; lia). reflexivity.
Qed.

Lemma show_num_kind l : ((exists s, l = LNum s) \/ (exists s, l = LHex s)) -> exists s', show_lit l = LNum s'.
Proof. intros [[s ->]|[s ->]]; [exact (Hkind (LNum s))|exact (Hkind (LHex s))]. Qed.

Lemma unsigned_rimpl a : unsigned_num (rimpl a) = option_map show_lit (unsigned_num a).
Proof.
  induction a; cbn [CodeRoundtrip.rimpl unsigned_num option_map]; try reflexivity.
  - destruct l as [s|s|s|s|s]; pose proof (Hkind (LNum s)) as K1; pose proof (Hkind (LHex s)) as K2; pose proof (Hkind (LStr s)) as K3;
      pose proof (Hkind (LTrue s)) as K4; pose proof (Hkind (LFalse s)) as K5; cbn in *.
    + destruct K1 as [s' E]. rewrite E. reflexivity.
    + destruct K2 as [s' E]. rewrite E. reflexivity.
    + destruct K3 as [s' E]. rewrite E. reflexivity.
    + destruct K4 as [s' E]. rewrite E. reflexivity.
    + destruct K5 as [s' E]. rewrite E. reflexivity.
  - destruct (unsigned_num a) as [l|] eqn:Eu.
    + destruct (show_num_kind l (unsigned_kind a l Eu)) as [s' Es].
      destruct (text_eqb s sym_minus) eqn:Em.
      * assert (text_eqb s sym_plus = false).
        { apply text_eqb_eq in Em. subst. reflexivity. }
        rewrite H. cbn [unsigned_num]. reflexivity.
      * destruct (text_eqb s sym_plus) eqn:Ep.
        -- cbn [unsigned_num option_map]. rewrite Es. reflexivity.
        -- cbn [unsigned_num]. rewrite lower_sym_plus, Ep. reflexivity.
    + cbn [unsigned_num]. rewrite lower_sym_plus. destruct (text_eqb s sym_plus); [exact IHa|reflexivity].
  - exact IHa.
Qed.

Lemma postorder_rhs e : postorder (rhs e) = postorder e.
Proof. unfold rhs. destruct (is_bin e); reflexivity. Qed.

Theorem postorder_rimpl_main : forall n,
  (forall t, (size t <= n)%nat -> postorder (rimpl t) = map (mapl_i show_lit) (postorder t)) /\
  (forall s, (size_stmt s <= n)%nat -> postorder_stmt (rimpl_stmt s) = map (mapl_i show_lit) (postorder_stmt s)).
Proof.
  induction n as [|n [IHt IHs]].
  { split; intros x Hsz; destruct x; cbn in Hsz; lia. }
  split.
  - intros t Hsz. destruct t as [l|v|nm|s a|j s l r|es|ss|a].
    + reflexivity. + reflexivity.
    + cbn [CodeRoundtrip.rimpl postorder map mapl_i]. rewrite lower_idem. reflexivity.
    + cbn [size] in Hsz.
      cbn [CodeRoundtrip.rimpl postorder].
      destruct (unsigned_num a) as [l|] eqn:Eu.
      * destruct (show_num_kind l (unsigned_kind a l Eu)) as [s' Es].
        destruct (text_eqb s sym_minus) eqn:Em.
        -- cbn [postorder unsigned_num]. rewrite Es. cbn [text_eqb sym_minus]. rewrite Z.eqb_refl. cbn [andb map mapl_i]. rewrite Es. reflexivity.
        -- destruct (text_eqb s sym_plus) eqn:Ep.
           ++ cbn [postorder map mapl_i]. reflexivity.
           ++ cbn [postorder]. rewrite unsigned_rimpl, Eu. cbn [option_map]. rewrite lower_sym_minus, lower_sym_plus, Em, Ep, lower_idem, IHt by lia.
              rewrite map_app. reflexivity.
      * cbn [postorder]. rewrite unsigned_rimpl, Eu. cbn [option_map]. rewrite lower_idem, IHt by lia. rewrite map_app. reflexivity.
    + cbn [size] in Hsz. cbn [CodeRoundtrip.rimpl postorder]. rewrite !IHt by lia. rewrite lower_idem, !map_app. reflexivity.
    + change (size (Arr es)) with (S (fold_right (fun e n => (size e + n)%nat) 0%nat es)) in Hsz.
      cbn [CodeRoundtrip.rimpl postorder]. rewrite map_app, map_length. cbn [map mapl_i]. f_equal.
      assert (Hin: forall e, In e es -> (size e <= n)%nat) by (intros e He; pose proof (size_in e es He); lia). clear Hsz.
      induction es as [|e es IH]; [reflexivity|]. cbn [map flat_map]. rewrite map_app, IHt by (apply Hin; left; reflexivity).
      rewrite IH by (intros; apply Hin; right; assumption). reflexivity.
    + change (size (Code ss)) with (S (fold_right (fun s n => (size_stmt s + n)%nat) 0%nat ss)) in Hsz.
      change (postorder (rimpl (Code ss))) with [IPush (PCode (join [IEndStatement] (map postorder_stmt (map rimpl_stmt ss))))].
      change (postorder (Code ss)) with [IPush (PCode (join [IEndStatement] (map postorder_stmt ss)))].
      cbn [map mapl_i]. f_equal. f_equal. f_equal. rewrite map_join. cbn [map mapl_i]. f_equal.
      rewrite !map_map. apply map_ext_in. intros s Hs. pose proof (size_stmt_in s ss Hs). apply IHs. lia.
    + cbn [size] in Hsz. cbn [CodeRoundtrip.rimpl postorder]. apply IHt. lia.
  - intros s Hsz. rewrite size_stmt_unfold in Hsz. rewrite rimpl_stmt_unfold. rewrite !postorder_stmt_unfold.
    destruct s as [e|x e|x e].
    + apply IHt. lia.
    + rewrite postorder_rhs, IHt by lia. rewrite map_app. reflexivity.
    + rewrite postorder_rhs, IHt by lia. rewrite map_app. reflexivity.
Qed.
End Final.

(* Par nodes are invisible to the compiler *)
Lemma unsigned_strip a : unsigned_num (strip a) = unsigned_num a.
Proof.
  induction a; cbn [strip unsigned_num]; try reflexivity; auto.
  destruct (text_eqb s sym_plus); auto.
Qed.
Theorem postorder_strip_main : forall n,
  (forall t, (size t <= n)%nat -> levels_ok t = true -> postorder (strip t) = postorder t) /\
  (forall s, (size_stmt s <= n)%nat -> levels_ok_stmt s = true -> postorder_stmt (strip_stmt s) = postorder_stmt s).
Proof.
  induction n as [|n [IHt IHs]].
  { split; intros x Hsz; destruct x; cbn in Hsz; lia. }
  split.
  - intros t Hsz Hl. destruct t as [l|v|nm|s a|j s l r|es|ss|a]; try reflexivity.
    + cbn [size] in Hsz. cbn [levels_ok] in Hl. cbn [strip postorder]. rewrite unsigned_strip, IHt by (auto; lia). reflexivity.
    + cbn [size] in Hsz. cbn [levels_ok] in Hl. apply andb_prop in Hl. destruct Hl as [Hl Hr]. apply andb_prop in Hl. destruct Hl as [_ Hl].
      cbn [strip postorder]. rewrite !IHt by (auto; lia). reflexivity.
    + change (size (Arr es)) with (S (fold_right (fun e n => (size e + n)%nat) 0%nat es)) in Hsz.
      cbn [levels_ok] in Hl. rewrite forallb_forall in Hl.
      cbn [strip postorder]. rewrite map_length. f_equal.
      assert (Hin: forall e, In e es -> (size e <= n)%nat /\ levels_ok e = true) by (intros e He; pose proof (size_in e es He); split; [lia|auto]).
      clear Hsz Hl.
      induction es as [|e es IH]; [reflexivity|]. cbn [map flat_map].
      destruct (Hin e (or_introl eq_refl)) as [H1 H2]. rewrite IHt by assumption.
      rewrite IH by (intros; apply Hin; right; assumption). reflexivity.
    + change (size (Code ss)) with (S (fold_right (fun s n => (size_stmt s + n)%nat) 0%nat ss)) in Hsz.
      change (levels_ok (Code ss)) with (forallb levels_ok_stmt ss) in Hl. rewrite forallb_forall in Hl.
      change (postorder (strip (Code ss))) with [IPush (PCode (join [IEndStatement] (map postorder_stmt (map strip_stmt ss))))].
      change (postorder (Code ss)) with [IPush (PCode (join [IEndStatement] (map postorder_stmt ss)))].
      f_equal. f_equal. f_equal. f_equal. rewrite map_map. apply map_ext_in. intros s Hs.
      pose proof (size_stmt_in s ss Hs). apply IHs; [lia|auto].
    + cbn [size] in Hsz. cbn [levels_ok] in Hl. cbn [strip postorder]. apply IHt; [lia|exact Hl].
  - intros s Hsz Hl. rewrite size_stmt_unfold in Hsz. rewrite levels_ok_stmt_unfold in Hl. rewrite strip_stmt_unfold. rewrite !postorder_stmt_unfold.
    destruct s as [e|x e|x e].
    + apply IHt; [lia|exact Hl].
    + apply andb_prop in Hl. destruct Hl as [Hx Hl]. destruct x; try discriminate. rewrite IHt by (auto; lia). reflexivity.
    + rewrite IHt by (auto; lia). reflexivity.
Qed.
Lemma postorder_block_strip ss : forallb levels_ok_stmt ss = true -> postorder_block (map strip_stmt ss) = postorder_block ss.
Proof.
  intros Hl. unfold postorder_block. f_equal. rewrite map_map. apply map_ext_in. intros s Hs.
  apply (proj2 (postorder_strip_main (size_stmt s))); [lia|]. rewrite forallb_forall in Hl. auto.
Qed.

Theorem wf_levels_main R : forall n,
  (forall t, (size t <= n)%nat -> wfb R t = true -> levels_ok t = true) /\
  (forall s, (size_stmt s <= n)%nat -> wfb_stmt R s = true -> levels_ok_stmt s = true).
Proof.
  induction n as [|n [IHt IHs]].
  { split; intros x Hsz; destruct x; cbn in Hsz; lia. }
  split.
  - intros t Hsz Hwf. destruct t as [l|v|nm|s a|j s l r|es|ss|a]; try reflexivity.
    + cbn [size] in Hsz. cbn [wfb levels_ok] in *. apply andb_prop in Hwf. apply IHt; [lia|apply Hwf].
    + cbn [size] in Hsz. cbn [wfb levels_ok] in *. apply andb_prop in Hwf. destruct Hwf as [Hwf Hr]. apply andb_prop in Hwf. destruct Hwf as [Hwf Hl].
      apply andb_prop in Hwf. destruct Hwf as [Hj _]. rewrite Hj, !IHt by (auto; lia). reflexivity.
    + change (size (Arr es)) with (S (fold_right (fun e n => (size e + n)%nat) 0%nat es)) in Hsz.
      cbn [wfb levels_ok] in *. rewrite forallb_forall in *. intros e He. pose proof (size_in e es He). apply IHt; [lia|apply Hwf; exact He].
    + change (size (Code ss)) with (S (fold_right (fun s n => (size_stmt s + n)%nat) 0%nat ss)) in Hsz.
      change (wfb R (Code ss)) with (forallb (wfb_stmt R) ss) in Hwf.
      change (levels_ok (Code ss)) with (forallb levels_ok_stmt ss).
      rewrite forallb_forall in *. intros s Hs. pose proof (size_stmt_in s ss Hs). apply IHs; [lia|apply Hwf; exact Hs].
    + cbn [size] in Hsz. cbn [wfb levels_ok] in *. apply IHt; [lia|exact Hwf].
  - intros s Hsz Hwf. rewrite size_stmt_unfold in Hsz. rewrite wfb_stmt_unfold in Hwf. rewrite levels_ok_stmt_unfold.
    destruct s as [e|x e|x e].
    + apply IHt; [lia|exact Hwf].
    + apply andb_prop in Hwf. destruct Hwf as [Hx He]. destruct x; try discriminate. rewrite IHt by (auto; lia). reflexivity.
    + apply andb_prop in Hwf. destruct Hwf as [Hx He]. apply IHt; [lia|exact He].
Qed.

(* ------------------------------------------------------------------ C06: code round-trips through str / compile *)
(* For every registry and every well-formed block ss (the code of a code value), with c the compiled code:
   str prints a text (reconstruct never runs off the instruction vector); if every token of that text
   is spelled so that it reads as itself (operator and variable names are lexable, literals are printed as
   literals of their kind - the number/string half of C06), then the text is `{ ... }` and compiles back,
   for all sufficiently large fuel, to a single code value whose instructions are those of c with every
   literal replaced by its printed form. *)
Theorem code_roundtrip : forall (R:registry) (d:defects) (show_lit:lit -> lit) (ss:list stmt),
  show_kind_ok show_lit -> wf_block R ss ->
  exists ps, reconstruct show_lit (postorder_block ss) = Some ps /\
    (toks_ok ps ->
     exists f0, forall f, (f0 <= f)%nat ->
       exists ss', parse_text d R f (pieces_text ps) = FOk [SExpr (Code ss')] /\
                   compile_block ss' = Some (map (mapl_i show_lit) (postorder_block ss))).
Proof.
  intros R d show_lit ss Hkind Hwf.
  set (c := postorder_block ss).
  assert (Hsz: (size (Code ss) <= size (Code ss))%nat) by lia.
  (* what reconstruct returns *)
  assert (Hrec: reconstruct show_lit c = Some (rp_block show_lit ss)).
  { unfold reconstruct.
    pose proof (proj1 (recon_main show_lit (size (Code ss))) (Code ss) Hsz (S (S (S (2 * isize_list c)))) 0%nat false []) as H.
    change (postorder (Code ss)) with [IPush (PCode c)] in H. cbn [rev app] in H.
    rewrite recon_S in H.
    assert (Hf: (2 * isize_list [IPush (PCode c)] <= S (S (S (2 * isize_list c))))%nat).
    { unfold isize_list at 1. cbn [fold_right isize]. fold (isize_list c). lia. }
    specialize (H Hf). destruct (recon_block show_lit (S (S (2 * isize_list c))) c) as [ps|]; [|discriminate].
    injection H as ->. reflexivity. }
  exists (rp_block show_lit ss). split; [exact Hrec|].
  intros Hok.
  assert (HwfC: wfb R (Code ss) = true) by exact Hwf.
  assert (Hlev: levels_ok (Code ss) = true) by (apply (proj1 (wf_levels_main R (size (Code ss)))); auto).
  (* the text lexes to the rendering of the printed tree *)
  assert (Hlex: lex (pieces_text (rp_block show_lit ss)) = LexOk (print_raw layout_min [SExpr (rimpl show_lit (Code ss))])).
  { rewrite lex_pieces.
    - f_equal. change (rp_block show_lit ss) with (rp show_lit 0%nat false (Code ss)).
      rewrite (proj1 (rp_toks_main show_lit (size (Code ss))) (Code ss) Hsz Hlev 0%nat false) by (cbn; lia).
      unfold print_raw, pr_block. cbn [klev lay_lead lay_trail layout_min seps map app join flat_map]. rewrite !app_nil_r. reflexivity.
    - apply PO_nil. change (rp_block show_lit ss) with (rp show_lit 0%nat false (Code ss)).
      apply (proj1 (rp_PO_main show_lit (size (Code ss)))); [lia|exact I|exact Hok]. }
  assert (Hwf': wf_block R [SExpr (rimpl show_lit (Code ss))]).
  { unfold wf_block. cbn [forallb]. rewrite andb_true_r.
    change (wfb_stmt R (SExpr (rimpl show_lit (Code ss)))) with (wfb R (rimpl show_lit (Code ss))).
    apply (proj1 (wf_rimpl_main show_lit R (size (Code ss)))); auto. }
  destruct (parse_print_block R d layout_min _ Hwf') as [f0 Hp].
  exists f0. intros f Hf.
  exists (map strip_stmt (map (rimpl_stmt show_lit) ss)). split.
  - unfold parse_text. rewrite Hlex, print_raw_toks, (Hp f Hf). reflexivity.
  - assert (Hl2: forallb levels_ok_stmt (map (rimpl_stmt show_lit) ss) = true).
    { assert (H2: wfb R (rimpl show_lit (Code ss)) = true) by (apply (proj1 (wf_rimpl_main show_lit R (size (Code ss)))); auto).
      apply (proj1 (wf_levels_main R (size (rimpl show_lit (Code ss))))) in H2; [|lia]. exact H2. }
    rewrite compile_block_postorder, postorder_block_strip by exact Hl2. f_equal.
    unfold c, postorder_block. rewrite map_join. cbn [map mapl_i]. f_equal. rewrite !map_map. apply map_ext. intros s.
    apply (proj2 (postorder_rimpl_main show_lit Hkind (size_stmt s))). lia.
Qed.

(* ------------------------------------------------------------------ C06: the pretty printer *)
(* The formatter as it stands never re-emits source parentheses: refuted by `(a + b) * c`.
   The repaired formatter (proposed_fixes/C06-pretty-parentheses.diff, model `pretty`) is exercised by the
   correspondence run and by the examples below; its general round-trip theorem is proved in Syntax/PrettyRoundtrip.v. *)
Definition pp_R : registry := fun key =>
  if text_eqb key [43%Z] then {| oi_bin := Some 6%nat; oi_un := true; oi_nul := false |}
  else if text_eqb key [42%Z] then {| oi_bin := Some 7%nat; oi_un := false; oi_nul := false |}
  else no_op.
Definition pp_src : text := Eval compute in s2b "(a + b) * c"%string.

Definition compile_text (R:registry) (f:nat) (s:text) : option (list instr) :=
  match parse_text as_is R f s with FOk p => compile_block p | _ => None end.
Definition pretty_then_compile (pp:list stmt -> list piece) (R:registry) (f:nat) (s:text) : option (list instr) :=
  match parse_text as_is R f s with FOk p => compile_text R f (pieces_text (pp p)) | _ => None end.

Lemma parse_text_mono d R f0 s p : parse_text d R f0 s = FOk p -> forall f, (f0 <= f)%nat -> parse_text d R f s = FOk p.
Proof.
  unfold parse_text. intros H f Hf. destruct (lex s); try discriminate.
  destruct (parse_toks d f0 (map (classify R) ts)) eqn:E; try discriminate.
  rewrite (ParseMono.mono_parse d f0 f _ ltac:(rewrite E; discriminate) Hf), E. exact H.
Qed.

(* there is a program whose pretty-printed text compiles to different instructions than the program *)
Theorem pretty_roundtrip_refuted :
  exists R s p p' c c',
    (forall f, (100 <= f)%nat -> parse_text as_is R f s = FOk p) /\ compile_block p = Some c /\
    (forall f, (100 <= f)%nat -> parse_text as_is R f (pieces_text (pretty_asis_program p)) = FOk p') /\ compile_block p' = Some c' /\
    c <> c'.
Proof.
  exists pp_R, pp_src.
  exists [SExpr (Bin 6 [42%Z] (Bin 5 [43%Z] (Var [97%Z]) (Var [98%Z])) (Var [99%Z]))].
  exists [SExpr (Bin 5 [43%Z] (Var [97%Z]) (Bin 6 [42%Z] (Var [98%Z]) (Var [99%Z])))].
  eexists. eexists.
  split; [apply parse_text_mono; vm_compute; reflexivity|].
  split; [vm_compute; reflexivity|].
  split; [apply parse_text_mono; vm_compute; reflexivity|].
  split; [vm_compute; reflexivity|].
  discriminate.
Qed.

(* the repaired printer on the same program, and on a unary operand *)
Example pretty_repaired_ex1 : pretty_then_compile pretty_program pp_R 100 pp_src = compile_text pp_R 100 pp_src.
Proof. vm_compute. reflexivity. Qed.
Example pretty_repaired_ex2 : pretty_then_compile pretty_program pp_R 100 (s2b "+ (a + b) * (c * (a * b))"%string)
                              = compile_text pp_R 100 (s2b "+ (a + b) * (c * (a * b))"%string).
Proof. vm_compute. reflexivity. Qed.
