(* M1 - executable model of the SQF front end as far as expressions need it:
   lexer (src/parser/sqf/tokenizer.hpp), token classification (yylex in src/parser/sqf/parser.y),
   parser (grammar of parser.y, conflicts resolved as bison does: parser.output), compiler
   (sqf_parser.cpp to_assembly), the documented reading as a printer, the code printer
   (instruction::reconstruct in src/opcodes/*.h and d_code::to_string_sqf) and the pretty
   printer (sqf_formatter.cpp).  Definitions only; proofs are in the other files of Syntax/. *)
From Coq Require Import ZArith List Bool Arith Lia.
From Coq Require String Ascii.
Import String.StringSyntax.
Delimit Scope string_scope with string.
Import ListNotations.
Local Open Scope Z_scope.

Notation byte := Z (only parsing).
Notation text := (list Z) (only parsing).

(* ------------------------------------------------------------------ characters *)
Definition s2b (s:String.string) : text := map (fun a => Z.of_N (Ascii.N_of_ascii a)) (String.list_ascii_of_string s).

Definition is_digit (c:byte) := (48 <=? c) && (c <=? 57).
Definition is_upper (c:byte) := (65 <=? c) && (c <=? 90).
Definition is_lower (c:byte) := (97 <=? c) && (c <=? 122).
Definition is_alpha (c:byte) := is_upper c || is_lower c.
Definition is_ident_char (c:byte) := is_alpha c || is_digit c || (c =? 95).
Definition is_ident_start (c:byte) := is_alpha c || (c =? 95).
Definition is_hexdigit (c:byte) := is_digit c || ((65 <=? c) && (c <=? 70)) || ((97 <=? c) && (c <=? 102)).
(* tokenizer.hpp:214 is_match<' ', '\n', '\r', '\t'> *)
Definition is_ws (c:byte) := (c =? 32) || (c =? 10) || (c =? 13) || (c =? 9).
(* std::tolower in the "C" locale *)
Definition lowc (c:byte) : byte := if is_upper c then c + 32 else c.
Definition lower (s:text) : text := map lowc s.

Fixpoint text_eqb (a b:text) : bool :=
  match a, b with
  | [], [] => true
  | x :: a', y :: b' => (x =? y) && text_eqb a' b'
  | _, _ => false
  end.

Fixpoint span (p:byte -> bool) (s:text) : text * text :=
  match s with
  | c :: r => if p c then let '(a, b) := span p r in (c :: a, b) else ([], s)
  | [] => ([], [])
  end.

(* ------------------------------------------------------------------ raw tokens (tokenizer::etoken + contents) *)
Inductive rtok :=
| RTrue (s:text) | RFalse (s:text) | RPrivate (s:text)
| RCurlyO | RCurlyC | RRoundO | RRoundC | RSquareO | RSquareC | RSemi | RComma | REqual
| ROp (s:text) | RStr (s:text) | RIdent (s:text) | RNum (s:text) | RHex (s:text).

Definition rtok_text (t:rtok) : text :=
  match t with
  | RTrue s | RFalse s | RPrivate s | ROp s | RStr s | RIdent s | RNum s | RHex s => s
  | RCurlyO => [123] | RCurlyC => [125] | RRoundO => [40] | RRoundC => [41]
  | RSquareO => [91] | RSquareC => [93] | RSemi => [59] | RComma => [44] | REqual => [61]
  end.

Definition kw_false := Eval compute in s2b "false"%string.
Definition kw_true := Eval compute in s2b "true"%string.
Definition kw_private := Eval compute in s2b "private"%string.
Definition kw_line := Eval compute in s2b "#line"%string.

(* tokenizer.hpp:106-121 len_ident_match (case-insensitive keyword, not followed by an identifier
   character, and the input must contain the whole keyword).  Returns (matched text, rest). *)
Fixpoint kw_match (kw s:text) : option (text * text) :=
  match kw with
  | [] => match s with
          | c :: _ => if is_ident_char c then None else Some ([], s)
          | [] => Some ([], [])
          end
  | k :: kw' => match s with
                | c :: r => if lowc c =? k
                            then match kw_match kw' r with Some (a, b) => Some (c :: a, b) | None => None end
                            else None
                | [] => None
                end
  end.

Definition starts1 (a:byte) (s:text) : bool := match s with c :: _ => c =? a | [] => false end.
Definition starts2 (a b:byte) (s:text) : bool := match s with c :: d :: _ => (c =? a) && (d =? b) | _ => false end.

(* tokenizer.hpp:246-267 t_operator: length of the operator at the head of s (0 = none) *)
Definition op_len (s:text) : nat :=
  if starts2 61 61 s then 2%nat else           (* == *)
  if starts2 60 61 s then 2%nat else           (* <= *)
  if starts1 60 s then 1%nat else              (* <  *)
  if starts2 62 61 s then 2%nat else           (* >= *)
  if starts2 62 62 s then 2%nat else           (* >> *)
  if starts1 62 s then 1%nat else              (* >  *)
  if starts1 43 s then 1%nat else              (* +  *)
  if starts1 45 s then 1%nat else              (* -  *)
  if starts1 47 s then 1%nat else              (* /  *)
  if starts1 42 s then 1%nat else              (* *  *)
  if starts1 37 s then 1%nat else              (* %  *)
  if starts1 94 s then 1%nat else              (* ^  *)
  if starts2 33 61 s then 2%nat else           (* != *)
  if starts1 33 s then 1%nat else              (* !  *)
  if starts1 58 s then 1%nat else              (* :  *)
  if starts1 35 s then 1%nat else              (* #  *)
  if starts2 124 124 s then 2%nat else         (* || *)
  if starts2 38 38 s then 2%nat else           (* && *)
  0%nat.

(* tokenizer.hpp:369-395 t_number, in its three steps; None = no match (len 0) *)
Definition num_ip (s:text) : text * text := if starts1 46 s then ([], s) else span is_digit s.
Definition num_fp (r1:text) : text * text :=
  match r1 with
  | c :: r => if c =? 46 then
                let '(d, r') := span is_digit r in
                match d with [] => ([], r1) | _ => (c :: d, r') end
              else ([], r1)
  | [] => ([], r1)
  end.
Definition num_sign (r:text) : text * text :=
  match r with
  | g :: r' => if (g =? 43) || (g =? 45) then ([g], r') else ([], r)
  | [] => ([], r)
  end.
Definition num_ep (r2:text) : text * text :=
  match r2 with
  | e :: r => if (e =? 101) || (e =? 69) then
                let '(sg, r') := num_sign r in
                let '(d, r'') := span is_digit r' in
                match d with
                | [] => (* --iter: one character back only *)
                        match sg with [] => ([], r2) | _ => ([e], r) end
                | _ => (e :: sg ++ d, r'')
                end
              else ([], r2)
  | [] => ([], r2)
  end.
Definition lex_number (s:text) : option (text * text) :=
  let '(ip, r1) := num_ip s in
  if negb (starts1 46 s) && match ip with [] => true | _ => false end then None else
  let '(fp, r2) := num_fp r1 in
  let '(ep, r3) := num_ep r2 in
  match ip ++ fp ++ ep with
  | [] => None
  | n => Some (n, r3)
  end.

(* tokenizer.hpp:340-368 t_hexadecimal: `$hex` or `0xhex` (lower-case x only) *)
Definition lex_hex (s:text) : option (text * text) :=
  match s with
  | c :: r =>
    if c =? 36 then
      let '(d, r') := span is_hexdigit r in
      match d with [] => None | _ => Some (c :: d, r') end
    else
      match r with
      | x :: r2 => if x =? 120 then
                     let '(d, r') := span is_hexdigit r2 in
                     match d with [] => None | _ => Some (c :: x :: d, r') end
                   else None
      | [] => None
      end
  | [] => None
  end.

(* tokenizer.hpp:271-338 string scanners; q = the quote character; s = input after the opening quote.
   Returns (consumed text, rest); an unterminated string runs to the end of the input. *)
Fixpoint scan_str (q:byte) (s:text) : text * text :=
  match s with
  | [] => ([], [])
  | c :: r =>
    if c =? q then
      match r with
      | d :: r' => if d =? q then let '(a, b) := scan_str q r' in (c :: d :: a, b) else ([c], r)
      | [] => ([c], [])
      end
    else let '(a, b) := scan_str q r in (c :: a, b)
  end.

Inductive lex1res := L1Tok (t:rtok) (rest:text) | L1Ws (rest:text) | L1Invalid | L1Unsupported.

Definition lex_ident (s:text) : lex1res :=
  let '(a, b) := span is_ident_char s in L1Tok (RIdent a) b.
Definition lex_kw_or_ident (kw:text) (mk:text -> rtok) (s:text) : lex1res :=
  match kw_match kw s with
  | Some (a, b) => L1Tok (mk a) b
  | None => lex_ident s
  end.
Definition lex_op (s:text) : lex1res :=
  match op_len s with
  | O => L1Invalid
  | n => L1Tok (ROp (firstn n s)) (skipn n s)
  end.
Definition lex_num (s:text) : lex1res :=
  match lex_number s with Some (a, b) => L1Tok (RNum a) b | None => L1Invalid end.

(* tokenizer.hpp:459-538 next(): dispatch on the first character, then try_match in the listed order.
   Comments and #line directives are outside this model: L1Unsupported. *)
Definition lex1 (s:text) : lex1res :=
  match s with
  | [] => L1Invalid
  | c :: r =>
    if is_ws c then L1Ws (snd (span is_ws s)) else
    if lowc c =? 102 then lex_kw_or_ident kw_false RFalse s else
    if lowc c =? 116 then lex_kw_or_ident kw_true RTrue s else
    if lowc c =? 112 then lex_kw_or_ident kw_private RPrivate s else
    if is_ident_start c then lex_ident s else
    if c =? 48 then match lex_hex s with Some (a, b) => L1Tok (RHex a) b | None => lex_num s end else
    if is_digit c then lex_num s else
    if c =? 46 then lex_num s else
    if (c =? 43) || (c =? 45) then lex_op s else      (* t_number never matches at a sign, then t_operator *)
    if c =? 47 then (if starts1 47 r || starts1 42 r then L1Unsupported else lex_op s) else
    if c =? 35 then (match kw_match kw_line s with Some _ => L1Unsupported | None => lex_op s end) else
    if c =? 36 then match lex_hex s with Some (a, b) => L1Tok (RHex a) b | None => L1Invalid end else
    if c =? 61 then (if starts1 61 r then lex_op s else L1Tok REqual r) else
    if (c =? 34) || (c =? 39) then let '(a, b) := scan_str c r in L1Tok (RStr (c :: a)) b else
    if c =? 40 then L1Tok RRoundO r else if c =? 41 then L1Tok RRoundC r else
    if c =? 91 then L1Tok RSquareO r else if c =? 93 then L1Tok RSquareC r else
    if c =? 123 then L1Tok RCurlyO r else if c =? 125 then L1Tok RCurlyC r else
    if c =? 59 then L1Tok RSemi r else if c =? 44 then L1Tok RComma r else
    if (c =? 42) || (c =? 37) || (c =? 38) || (c =? 33) || (c =? 124) || (c =? 62) || (c =? 60) || (c =? 58) || (c =? 94)
    then lex_op s
    else L1Invalid
  end.

Inductive lexres := LexOk (ts:list rtok) | LexInvalid (ts:list rtok) | LexUnsupported | LexOutOfFuel.

Definition lex_cons (t:rtok) (r:lexres) : lexres :=
  match r with LexOk ts => LexOk (t :: ts) | LexInvalid ts => LexInvalid (t :: ts) | x => x end.

(* the yylex loop: whitespace tokens are skipped (parser.y:369), an invalid token ends the input *)
Fixpoint lex_f (f:nat) (s:text) : lexres :=
  match s with
  | [] => LexOk []
  | _ => match f with
         | O => LexOutOfFuel
         | S f' => match lex1 s with
                   | L1Tok t rest => lex_cons t (lex_f f' rest)
                   | L1Ws rest => lex_f f' rest
                   | L1Invalid => LexInvalid []
                   | L1Unsupported => LexUnsupported
                   end
         end
  end.
Definition lex (s:text) : lexres := lex_f (S (length s)) s.

(* ------------------------------------------------------------------ classified tokens (bison terminals) *)
(* levels are the grammar's 0..9 (= registered precedence - 1) *)
Inductive opclass := CB (k:nat) | CBU (k:nat) | CBN (k:nat) | CBUN (k:nat) | CU | CN | CUN.

Inductive tok :=
| TFalse (s:text) | TTrue (s:text) | TPrivate (s:text)
| TCurlyO | TCurlyC | TRoundO | TRoundC | TSquareO | TSquareC | TSemi | TComma | TEqual
| TOp (c:opclass) (s:text) | TIdent (s:text) | TNumber (s:text) | THex (s:text) | TString (s:text)
| TInvalid.

(* what the lexer glue asks the runtime about a (lower-cased) name: runtime.h:183-218 *)
Record opinfo := { oi_bin : option nat   (* precedence() of the first overload registered under the name *)
                 ; oi_un : bool ; oi_nul : bool }.
Definition registry := text -> opinfo.
Definition no_op : opinfo := {| oi_bin := None; oi_un := false; oi_nul := false |}.

(* parser.y:371-445 *)
Definition classify_name (R:registry) (ident:bool) (s:text) : tok :=
  let i := R (lower s) in
  let fallback := if ident then TIdent s else TInvalid in
  let lvl (p:nat) (mk:nat -> opclass) := if (1 <=? p)%nat && (p <=? 10)%nat then TOp (mk (p - 1)%nat) s else fallback in
  match oi_bin i, oi_un i, oi_nul i with
  | Some p, false, false => lvl p CB
  | Some p, false, true => lvl p CBN
  | Some p, true, false => lvl p CBU
  | Some p, true, true => lvl p CBUN
  | None, false, true => TOp CN s
  | None, true, false => TOp CU s
  | None, true, true => TOp CUN s
  | None, false, false => fallback
  end.

Definition classify (R:registry) (t:rtok) : tok :=
  match t with
  | RTrue s => TTrue s | RFalse s => TFalse s | RPrivate s => TPrivate s
  | RCurlyO => TCurlyO | RCurlyC => TCurlyC | RRoundO => TRoundO | RRoundC => TRoundC
  | RSquareO => TSquareO | RSquareC => TSquareC | RSemi => TSemi | RComma => TComma | REqual => TEqual
  | ROp s => classify_name R false s
  | RIdent s => classify_name R true s
  | RStr s => TString s | RNum s => TNumber s | RHex s => THex s
  end.

Definition binlevel (t:tok) : option nat :=
  match t with TOp (CB k) _ | TOp (CBU k) _ | TOp (CBN k) _ | TOp (CBUN k) _ => Some k | _ => None end.
Definition tok_name (t:tok) : text :=
  match t with
  | TFalse s | TTrue s | TPrivate s | TOp _ s | TIdent s | TNumber s | THex s | TString s => s
  | _ => []
  end.
(* tokens on which the parser shifts in state 30 (parser.output): everything that can begin an expu *)
Definition starts_expu (t:tok) : bool :=
  match t with
  | TFalse _ | TTrue _ | TPrivate _ | TCurlyO | TRoundO | TSquareO
  | TIdent _ | TNumber _ | THex _ | TString _ => true
  | TOp (CB _) _ => false
  | TOp _ _ => true
  | _ => false
  end.
Definition next_starts_expu (ts:list tok) : bool :=
  match ts with t :: _ => starts_expu t | [] => false end.

(* ------------------------------------------------------------------ AST *)
Definition NLEV := 10%nat.

Inductive lit := LNum (s:text) | LHex (s:text) | LStr (s:text) | LTrue (s:text) | LFalse (s:text).

(* Operator and variable names are kept as written (astnode::token.contents); Par is a pair of
   source parentheses - the parser does not produce it (parser.y:299 `$$ = $2`), printers consume it. *)
Inductive tree :=
| Lit (l:lit)
| Var (s:text)
| Nul (s:text)
| Un (s:text) (a:tree)
| Bin (k:nat) (s:text) (l r:tree)
| Arr (es:list tree)
| Code (ss:list stmt)
| Par (a:tree)
with stmt :=
| SExpr (e:tree)
| SAssign (x:tree) (e:tree)
| SLocal (x:text) (e:tree).

Fixpoint strip (t:tree) : tree :=
  match t with
  | Lit l => Lit l | Var s => Var s | Nul s => Nul s
  | Un s a => Un s (strip a)
  | Bin k s l r => Bin k s (strip l) (strip r)
  | Arr es => Arr (map strip es)
  | Code ss => Code (map strip_stmt ss)
  | Par a => strip a
  end
with strip_stmt (s:stmt) : stmt :=
  match s with
  | SExpr e => SExpr (strip e)
  | SAssign x e => SAssign (strip x) (strip e)
  | SLocal x e => SLocal x (strip e)
  end.

Fixpoint noparb (t:tree) : bool :=
  match t with
  | Lit _ | Var _ | Nul _ => true
  | Un _ a => noparb a
  | Bin _ _ l r => noparb l && noparb r
  | Arr es => forallb noparb es
  | Code ss => forallb noparb_stmt ss
  | Par _ => false
  end
with noparb_stmt (s:stmt) : bool :=
  match s with
  | SExpr e => noparb e
  | SAssign x e => noparb x && noparb e
  | SLocal _ e => noparb e
  end.

Fixpoint size (t:tree) : nat :=
  match t with
  | Lit _ | Var _ | Nul _ => 1%nat
  | Un _ a => S (size a)
  | Bin _ _ l r => S (size l + size r)
  | Arr es => S (fold_right (fun e n => (size e + n)%nat) 0%nat es)
  | Code ss => S (fold_right (fun s n => (size_stmt s + n)%nat) 0%nat ss)
  | Par a => S (size a)
  end
with size_stmt (s:stmt) : nat :=
  match s with
  | SExpr e => S (size e)
  | SAssign x e => S (size x + size e)
  | SLocal _ e => S (size e)
  end.

Definition lvl (t:tree) : nat := match t with Bin k _ _ _ => k | _ => NLEV end.

(* ------------------------------------------------------------------ parser *)
Inductive pres (A:Type) := POk (a:A) | PErr | POut.
Arguments POk {A} a. Arguments PErr {A}. Arguments POut {A}.

Definition is_sep (t:tok) : bool := match t with TSemi | TComma => true | _ => false end.
Fixpoint skip_seps (ts:list tok) : list tok :=
  match ts with t :: r => if is_sep t then skip_seps r else ts | [] => [] end.

(* a `value` of the grammar (parser.y:186-215), as opposed to a parenthesised or compound expression *)
Definition is_value_tree (t:tree) : bool :=
  match t with Lit _ | Var _ | Nul _ | Arr _ | Code _ => true | _ => false end.
Definition starts_paren (ts:list tok) : bool := match ts with TRoundO :: _ => true | _ => false end.

(* One recognised defect of the code as it stands (known_findings.txt, C01 un-nular-operand):
   parser.y `value:` has no OPERATOR_UN alternative, so a name registered as unary and nular
   cannot be used as an operand.  true = the code as it stands. *)
Record defects := { d_un_no_operand : bool }.
Definition as_is : defects := {| d_un_no_operand := true |}.
Definition repaired : defects := {| d_un_no_operand := false |}.

Section Parser.
Variable d : defects.

(* p_exp f k : exp_k for k < 10 (parser.y:228-287), expu for k = 10 (parser.y:288-301) incl. value
   p_loop     : the left-recursive tail  (OP_k exp_{k+1})*
   p_items    : exp_list up to the closing bracket (parser.y:216-218, 224)
   p_stmts    : [separators] [statement (separators statement)* [separators]] (parser.y:164-181, 219-223)
   Shift/reduce conflicts are resolved as bison does (shift): a binary+unary+nular token in operand
   position is unary when the next token can begin an expu (parser.output state 30). *)
Fixpoint p_exp (f:nat) (k:nat) (ts:list tok) {struct f} : pres (tree * list tok) :=
  match f with
  | O => POut
  | S f =>
    if (NLEV <=? k)%nat then
      match ts with
      | [] => PErr
      | t :: r =>
        (* a thunk: the extracted code is strict, the operand must only be parsed when the token is unary *)
        let unary := fun (_:unit) => match p_exp f NLEV r with
                                     | POk (a, r') => POk (Un (tok_name t) a, r')
                                     | PErr => PErr | POut => POut
                                     end in
        match t with
        | TRoundO => match p_exp f 0%nat r with
                     | POk (e, TRoundC :: r') => POk (e, r')
                     | POk _ => PErr
                     | PErr => PErr | POut => POut
                     end
        | TSquareO => match r with
                      | TSquareC :: r' => POk (Arr [], r')
                      | _ => match p_items f r with
                             | POk (es, r') => POk (Arr es, r')
                             | PErr => PErr | POut => POut
                             end
                      end
        | TCurlyO => match p_stmts f r with
                     | POk (ss, TCurlyC :: r') => POk (Code ss, r')
                     | POk _ => PErr
                     | PErr => PErr | POut => POut
                     end
        | TPrivate _ => unary tt
        | TOp CU _ | TOp (CBU _) _ => unary tt
        | TOp (CBUN _) s => if next_starts_expu r then unary tt else POk (Nul s, r)
        | TOp CUN s => if next_starts_expu r then unary tt
                       else if d_un_no_operand d then PErr else POk (Nul s, r)
        | TOp CN s | TOp (CBN _) s => POk (Nul s, r)
        | TOp (CB _) _ => PErr
        | TIdent s => POk (Var s, r)
        | TNumber s => POk (Lit (LNum s), r)
        | THex s => POk (Lit (LHex s), r)
        | TString s => POk (Lit (LStr s), r)
        | TTrue s => POk (Lit (LTrue s), r)
        | TFalse s => POk (Lit (LFalse s), r)
        | _ => PErr
        end
      end
    else
      match p_exp f (S k) ts with
      | POk (l, r) => p_loop f k l r
      | PErr => PErr | POut => POut
      end
  end
with p_loop (f:nat) (k:nat) (acc:tree) (ts:list tok) {struct f} : pres (tree * list tok) :=
  match f with
  | O => POut
  | S f =>
    match ts with
    | o :: r => match binlevel o with
                | Some j => if (j =? k)%nat then
                              match p_exp f (S k) r with
                              | POk (x, r') => p_loop f k (Bin k (tok_name o) acc x) r'
                              | PErr => PErr | POut => POut
                              end
                            else POk (acc, ts)
                | None => POk (acc, ts)
                end
    | [] => POk (acc, ts)
    end
  end
with p_items (f:nat) (ts:list tok) {struct f} : pres (list tree * list tok) :=
  match f with
  | O => POut
  | S f =>
    match p_exp f 0%nat ts with
    | POk (e, TComma :: r) => match p_items f r with
                              | POk (es, r') => POk (e :: es, r')
                              | PErr => PErr | POut => POut
                              end
    | POk (e, TSquareC :: r) => POk ([e], r)
    | POk _ => PErr
    | PErr => PErr | POut => POut
    end
  end
with p_stmts (f:nat) (ts:list tok) {struct f} : pres (list stmt * list tok) :=
  match f with
  | O => POut
  | S f =>
    match skip_seps ts with
    | [] => POk ([], [])
    | TCurlyC :: r => POk ([], TCurlyC :: r)
    | ts' =>
      match p_stmt f ts' with
      | POk (s, r) =>
        match r with
        | t :: _ => if is_sep t then
                      match p_stmts f r with
                      | POk (ss, r') => POk (s :: ss, r')
                      | PErr => PErr | POut => POut
                      end
                    else POk ([s], r)
        | [] => POk ([s], r)
        end
      | PErr => PErr | POut => POut
      end
    end
  end
with p_stmt (f:nat) (ts:list tok) {struct f} : pres (stmt * list tok) :=
  match f with
  | O => POut
  | S f =>
    match p_exp f 0%nat ts with
    | POk (e, TEqual :: r) =>
      match ts with
      | TPrivate _ :: TIdent x :: TEqual :: _ =>            (* parser.y:225 "private" IDENT "=" expression *)
        match p_exp f 0%nat r with
        | POk (e', r') => POk (SLocal x e', r')
        | PErr => PErr | POut => POut
        end
      | _ =>
        if is_value_tree e && negb (starts_paren ts) then   (* parser.y:226 value "=" expression *)
          match p_exp f 0%nat r with
          | POk (e', r') => POk (SAssign e e', r')
          | PErr => PErr | POut => POut
          end
        else POk (SExpr e, TEqual :: r)
      end
    | POk (e, r) => POk (SExpr e, r)
    | PErr => PErr | POut => POut
    end
  end.

(* parser.y:158-163 start: the whole input *)
Definition parse_toks (f:nat) (ts:list tok) : pres (list stmt) :=
  (* an INVALID token is in no rule: it ends up as PErr wherever it stands *)
  match p_stmts f ts with
  | POk (ss, []) => POk ss
  | POk _ => PErr
  | PErr => PErr | POut => POut
  end.
End Parser.

Inductive fres (A:Type) := FOk (a:A) | FParseError | FUnsupported | FOutOfFuel.
Arguments FOk {A} a. Arguments FParseError {A}. Arguments FUnsupported {A}. Arguments FOutOfFuel {A}.

(* sqf_parser.cpp:256-270 parser::parse up to the AST *)
Definition parse_text (d:defects) (R:registry) (f:nat) (s:text) : fres (list stmt) :=
  match lex s with
  | LexOk ts => match parse_toks d f (map (classify R) ts) with
                | POk ss => FOk ss | PErr => FParseError | POut => FOutOfFuel
                end
  | LexInvalid _ => FParseError
  | LexUnsupported => FUnsupported
  | LexOutOfFuel => FOutOfFuel
  end.

(* ------------------------------------------------------------------ instructions and the compiler *)
Inductive instr :=
| IPush (v:pval)
| ICallNular (s:text) | ICallUnary (s:text) | ICallBinary (s:text) (prec:nat)
| IGetVar (s:text) | IAssignTo (s:text) | IAssignToLocal (s:text)
| IMakeArray (n:nat) | IEndStatement
with pval :=
| PLit (neg:bool) (l:lit)          (* neg: the scalar was negated by the sign fold *)
| PCode (c:list instr).

Definition sym_plus : text := [43].
Definition sym_minus : text := [45].

(* sqf_parser.cpp (with the proposed repair): a number literal that prints without a sign -
   NUMBER, HEXNUMBER, or one of those behind folded `+` signs *)
Fixpoint unsigned_num (t:tree) : option lit :=
  match t with
  | Lit (LNum s) => Some (LNum s)
  | Lit (LHex s) => Some (LHex s)
  | Un s a => if text_eqb s sym_plus then unsigned_num a else None
  | Par a => unsigned_num a
  | _ => None
  end.

Definition join {A} (sep:list A) (l:list (list A)) : list A :=
  match l with
  | [] => []
  | x :: r => x ++ flat_map (fun y => sep ++ y) r
  end.

(* The documented compilation: the post-order of the reading.  `comp` below mirrors to_assembly's
   accumulator style; compile_postorder (SyntaxProofs.v) shows they agree. *)
Fixpoint postorder (t:tree) : list instr :=
  match t with
  | Lit l => [IPush (PLit false l)]
  | Var s => [IGetVar s]
  | Nul s => [ICallNular (lower s)]
  | Un s a =>
    match unsigned_num a with
    | Some l => if text_eqb s sym_minus then [IPush (PLit true l)]
                else if text_eqb s sym_plus then [IPush (PLit false l)]
                else postorder a ++ [ICallUnary (lower s)]
    | None => postorder a ++ [ICallUnary (lower s)]
    end
  | Bin k s l r => postorder l ++ postorder r ++ [ICallBinary (lower s) (S k)]
  | Arr es => flat_map postorder es ++ [IMakeArray (length es)]
  | Code ss => [IPush (PCode (join [IEndStatement] (map postorder_stmt ss)))]
  | Par a => postorder a
  end
with postorder_stmt (s:stmt) : list instr :=
  match s with
  | SExpr e => postorder e
  | SAssign x e => postorder e ++ [IAssignTo (match x with Var n | Nul n => n | _ => [] end)]
  | SLocal x e => postorder e ++ [IAssignToLocal x]
  end.
Definition postorder_block (ss:list stmt) : list instr := join [IEndStatement] (map postorder_stmt ss).

(* sqf_parser.cpp:42-239 to_assembly(node, set): appends to `set`.  None = the static_pointer_cast
   at sqf_parser.cpp:80 would be applied to something that is not a PUSH of a scalar (undefined). *)
Definition negate_last (set:list instr) : option (list instr) :=
  match rev set with
  | IPush (PLit neg (LNum s)) :: r => Some (rev r ++ [IPush (PLit (negb neg) (LNum s))])
  | IPush (PLit neg (LHex s)) :: r => Some (rev r ++ [IPush (PLit (negb neg) (LHex s))])
  | _ => None
  end.

Definition obind {A B} (o:option A) (g:A -> option B) : option B := match o with Some a => g a | None => None end.

Fixpoint comp (t:tree) (set:list instr) : option (list instr) :=
  match t with
  | Lit l => Some (set ++ [IPush (PLit false l)])
  | Var s => Some (set ++ [IGetVar s])
  | Nul s => Some (set ++ [ICallNular (lower s)])
  | Un s a =>
    obind (comp a set) (fun set1 =>
      if (match unsigned_num a with Some _ => true | None => false end)
         && (text_eqb s sym_plus || text_eqb s sym_minus)
      then if text_eqb s sym_minus then negate_last set1 else Some set1
      else Some (set1 ++ [ICallUnary (lower s)]))
  | Bin k s l r =>
    obind (comp l set) (fun set1 => obind (comp r set1) (fun set2 => Some (set2 ++ [ICallBinary (lower s) (S k)])))
  | Arr es =>
    obind ((fix go (es:list tree) (set:list instr) : option (list instr) :=
              match es with [] => Some set | e :: r => obind (comp e set) (go r) end) es set)
          (fun set1 => Some (set1 ++ [IMakeArray (length es)]))
  | Code ss =>
    obind ((fix go (first:bool) (ss:list stmt) (tmp:list instr) : option (list instr) :=
              match ss with
              | [] => Some tmp
              | s :: r => obind (comp_stmt s (if first then tmp else tmp ++ [IEndStatement])) (go false r)
              end) true ss [])
          (fun tmp => Some (set ++ [IPush (PCode tmp)]))
  | Par a => comp a set
  end
with comp_stmt (s:stmt) (set:list instr) : option (list instr) :=
  match s with
  | SExpr e => comp e set
  | SAssign x e => obind (comp e set) (fun set1 => Some (set1 ++ [IAssignTo (match x with Var n | Nul n => n | _ => [] end)]))
  | SLocal x e => obind (comp e set) (fun set1 => Some (set1 ++ [IAssignToLocal x]))
  end.

Fixpoint comp_block (first:bool) (ss:list stmt) (set:list instr) : option (list instr) :=
  match ss with
  | [] => Some set
  | s :: r => obind (comp_stmt s (if first then set else set ++ [IEndStatement])) (comp_block false r)
  end.
Definition compile_block (ss:list stmt) : option (list instr) := comp_block true ss [].

(* ------------------------------------------------------------------ the documented reading as a printer *)
(* how a name is spelled as a raw token *)
Definition raw_of_name (s:text) : rtok :=
  match s with
  | c :: _ => if is_ident_start c then (if text_eqb (lower s) kw_private then RPrivate s else RIdent s) else ROp s
  | [] => ROp s
  end.
Definition raw_of_lit (l:lit) : rtok :=
  match l with LNum s => RNum s | LHex s => RHex s | LStr s => RStr s | LTrue s => RTrue s | LFalse s => RFalse s end.

(* separator layout of a statement list: leading, between two statements (at least one), trailing *)
Inductive sep := SepSemi | SepComma.
Definition rsep (s:sep) : rtok := match s with SepSemi => RSemi | SepComma => RComma end.
Record layout := { lay_lead : list sep ; lay_mid_first : sep ; lay_mid_more : list sep ; lay_trail : list sep }.
Definition layout_min : layout := {| lay_lead := []; lay_mid_first := SepSemi; lay_mid_more := []; lay_trail := [] |}.

Section Print.
Context {A:Type}.
Variable F : rtok -> A.
Variable lay : layout.

Definition seps (l:list sep) : list A := map (fun s => F (rsep s)) l.
Definition mid : list A := seps (lay_mid_first lay :: lay_mid_more lay).

(* pr k t: t where the grammar expects exp_k; parentheses are added exactly where the level of t is
   below k (the minimal ones) and wherever the tree has a Par node (the redundant ones) *)
Fixpoint pr (k:nat) (t:tree) : list A :=
  let raw := match t with
             | Lit l => [F (raw_of_lit l)]
             | Var s => [F (RIdent s)]
             | Nul s => [F (raw_of_name s)]
             | Un s a => F (raw_of_name s) :: pr NLEV a
             | Bin j s l r => pr j l ++ F (raw_of_name s) :: pr (S j) r
             | Arr es => F RSquareO :: join [F RComma] (map (pr 0%nat) es) ++ [F RSquareC]
             | Code ss => F RCurlyO :: (seps (lay_lead lay) ++ join mid (map pr_stmt ss) ++ seps (lay_trail lay)) ++ [F RCurlyC]
             | Par a => F RRoundO :: pr 0%nat a ++ [F RRoundC]
             end in
  if (k <=? lvl t)%nat then raw else F RRoundO :: raw ++ [F RRoundC]
with pr_stmt (s:stmt) : list A :=
  match s with
  | SExpr e => pr 0%nat e
  | SAssign x e => pr NLEV x ++ F REqual :: pr 0%nat e
  | SLocal x e => F (RPrivate kw_private) :: F (RIdent x) :: F REqual :: pr 0%nat e
  end.
Definition pr_block (ss:list stmt) : list A :=
  seps (lay_lead lay) ++ join mid (map pr_stmt ss) ++ seps (lay_trail lay).
End Print.

Definition print_raw (lay:layout) (ss:list stmt) : list rtok := pr_block (fun t => t) lay ss.
Definition print_toks (R:registry) (lay:layout) (ss:list stmt) : list tok := pr_block (classify R) lay ss.

(* ------------------------------------------------------------------ well-formed trees *)
Definition is_binclass (k:nat) (c:opclass) : bool :=
  match c with CB j | CBU j | CBN j | CBUN j => (j =? k)%nat | _ => false end.
Definition is_unclass (c:opclass) : bool := match c with CU | CUN | CBU _ | CBUN _ => true | _ => false end.
Definition is_nulclass (c:opclass) : bool := match c with CN | CBN _ => true | _ => false end.

Section Wf.
Variable R : registry.
Definition name_tok (s:text) : tok := classify R (raw_of_name s).
(* every operator name is registered with the class and level at which the tree uses it; variables
   are not operator names; a nular operand is a name that is not also unary (see Syntax/Findings.v,
   un_operand_as_is, for why) *)
Fixpoint wfb (t:tree) : bool :=
  match t with
  | Lit _ => true
  | Var s => match classify R (RIdent s) with TIdent _ => true | _ => false end
  | Nul s => match name_tok s with TOp c s' => is_nulclass c | _ => false end
  | Un s a => (match name_tok s with TOp c _ => is_unclass c | TPrivate _ => true | _ => false end) && wfb a
  | Bin k s l r => (k <? NLEV)%nat && (match name_tok s with TOp c _ => is_binclass k c | _ => false end) && wfb l && wfb r
  | Arr es => forallb wfb es
  | Code ss => forallb wfb_stmt ss
  | Par a => wfb a
  end
with wfb_stmt (s:stmt) : bool :=
  match s with
  | SExpr e => wfb e
  | SAssign x e => (match x with
                    | Var v => match classify R (RIdent v) with TIdent _ => true | _ => false end
                    | _ => false end) && wfb e
  | SLocal x e => (match classify R (RIdent x) with TIdent _ => true | _ => false end) && wfb e
  end.
Definition wf_tree (t:tree) : Prop := wfb t = true.
Definition wf_block (ss:list stmt) : Prop := forallb wfb_stmt ss = true.
End Wf.

(* ------------------------------------------------------------------ rendering tokens as text *)
Definition render (items:list (text * rtok)) (trail:text) : text :=
  flat_map (fun '(w, t) => w ++ rtok_text t) items ++ trail.

(* ------------------------------------------------------------------ the code printer (str) *)
Inductive piece := PT (t:rtok) | PW (w:text).
Definition sp : piece := PW [32].
Definition pieces_text (ps:list piece) : text :=
  flat_map (fun p => match p with PT t => rtok_text t | PW w => w end) ps.
Definition pieces_toks (ps:list piece) : list rtok :=
  flat_map (fun p => match p with PT t => [t] | PW _ => [] end) ps.

(* make_array.h:54-66: the elements, last one first; d_code.h:44-58: the statements, last one first,
   empty strings (ENDSTATEMENT) dropped.  rc is reconstruct at the fixed context (0, false). *)
Fixpoint elems_with (rc:list instr -> option (list piece * list instr)) (n:nat) (rs:list instr) (acc:list (list piece))
  : option (list (list piece) * list instr) :=
  match n with
  | O => Some (acc, rs)
  | S n' => match rc rs with
            | Some (e, rs') => elems_with rc n' rs' (e :: acc)
            | None => None
            end
  end.
Fixpoint walk_with (rc:list instr -> option (list piece * list instr)) (g:nat) (rs:list instr) (acc:list (list piece))
  : option (list (list piece)) :=
  match rs with
  | [] => Some acc
  | _ => match g with
         | O => None
         | S g' => match rc rs with
                   | Some (ps, rs') => walk_with rc g' rs' (match ps with [] => acc | _ => ps :: acc end)
                   | None => None
                   end
         end
  end.

Section Reconstruct.
(* how the runtime prints the value a literal denotes (d_scalar::to_string_sqf, d_string::to_string_sqf,
   d_boolean): a literal token again.  The number/string half of C06 owns this function. *)
Variable show_lit : lit -> lit.

Definition show_pval_lit (neg:bool) (l:lit) : list piece :=
  (if neg then [PT (ROp sym_minus)] else []) ++ [PT (raw_of_lit (show_lit l))].

(* instruction::reconstruct(current, end, parent_precedence, left_from_binary) walking the instruction
   vector backwards: `rs` is the reversed vector from `current` on; the result carries the rest.
   None = the walk ran off the end (the C++ returns an empty optional).
   call_binary.h:104-130, call_unary.h:63-78, make_array.h:47-79, push.h, call_nular.h, get_variable.h,
   assign_to.h, assign_to_local.h, end_statement.h; d_code.h:41-77 for blocks. *)
Fixpoint recon (f:nat) (parent:nat) (left:bool) (rs:list instr) {struct f} : option (list piece * list instr) :=
  match f with
  | O => None
  | S f =>
    match rs with
    | [] => None
    | i :: rest =>
      match i with
      | IPush (PLit neg l) => Some (show_pval_lit neg l, rest)
      | IPush (PCode c) => match recon_block f c with Some ps => Some (ps, rest) | None => None end
      | ICallNular s => Some ([PT (raw_of_name s)], rest)
      | IGetVar s => Some ([PT (RIdent s)], rest)
      | ICallUnary s =>
        match recon f 10%nat false rest with
        | Some (e, rest') => Some (PT (raw_of_name s) :: sp :: e, rest')
        | None => None
        end
      | ICallBinary s prec =>
        match recon f prec false rest with
        | Some (re, rest1) =>
          match recon f prec true rest1 with
          | Some (le, rest2) =>
            let body := le ++ sp :: PT (raw_of_name s) :: sp :: re in
            if (if left then (prec <? parent)%nat else (prec <=? parent)%nat)
            then Some (PT RRoundO :: body ++ [PT RRoundC], rest2)
            else Some (body, rest2)
          | None => None
          end
        | None => None
        end
      | IMakeArray n =>
        match elems_with (recon f 0%nat false) n rest [] with
        | Some (els, rest') => Some (PT RSquareO :: join [PT RComma; sp] els ++ [PT RSquareC], rest')
        | None => None
        end
      | IAssignTo s =>
        match recon f 10%nat false rest with
        | Some (e, rest') => Some (PT (RIdent s) :: sp :: PT REqual :: sp :: e, rest')
        | None => None
        end
      | IAssignToLocal s =>
        match recon f 10%nat false rest with
        | Some (e, rest') => Some (PT (RPrivate kw_private) :: sp :: PT (RIdent s) :: sp :: PT REqual :: sp :: e, rest')
        | None => None
        end
      | IEndStatement => Some ([], rest)
      end
    end
  end
with recon_block (f:nat) (c:list instr) {struct f} : option (list piece) :=
  match f with
  | O => None
  | S f =>
    match walk_with (recon f 0%nat false) (length c) (rev c) [] with
    | Some strs => Some (PT RCurlyO :: sp :: join [PT RSemi; sp] strs ++ [sp; PT RCurlyC])
    | None => None
    end
  end.
End Reconstruct.

Fixpoint isize (i:instr) : nat :=
  match i with
  | IPush (PCode c) => S (fold_right (fun i n => (isize i + n)%nat) 0%nat c)
  | _ => 1%nat
  end.
Definition isize_list (c:list instr) : nat := fold_right (fun i n => (isize i + n)%nat) 0%nat c.

(* str {code} *)
Definition reconstruct (show_lit:lit -> lit) (c:list instr) : option (list piece) :=
  recon_block show_lit (S (S (2 * isize_list c))) c.

(* ------------------------------------------------------------------ the pretty printer *)
(* sqf_formatter.cpp:12-134 with the proposed repair (parentheses re-emitted where the tree differs
   from default grouping).  depth = indentation level. *)
Definition kw_if := Eval compute in s2b "if"%string.
Definition sym_not : text := [33].
Definition indent (depth:nat) : list piece := match depth with O => [] | _ => [PW (repeat 32 (4 * depth)%nat)] end.
Definition nl : piece := PW [10].
Definition is_bin (t:tree) : bool := match t with Bin _ _ _ _ => true | _ => false end.
Definition top_token_is_not (t:tree) : bool :=
  match t with Un s _ | Bin _ s _ _ => text_eqb s sym_not | _ => false end.
Definition pretty_lit (l:lit) : rtok :=
  match l with
  | LHex (c :: r) => if c =? 36 then RHex (48 :: 120 :: r) else RHex (c :: r)     (* `$ff` is printed as `0xff` *)
  | l => raw_of_lit l
  end.
Definition paren_if (b:bool) (ps:list piece) : list piece := if b then PT RRoundO :: ps ++ [PT RRoundC] else ps.

Fixpoint pretty (depth:nat) (t:tree) : list piece :=
  match t with
  | Bin k s l r =>
    paren_if (is_bin l && (lvl l <? k)%nat) (pretty depth l)
    ++ sp :: PT (raw_of_name (lower s)) :: sp ::
    paren_if (is_bin r && (lvl r <=? k)%nat) (pretty depth r)
  | Un s a =>
    let s' := lower s in
    PT (raw_of_name s') :: sp ::
    paren_if ((text_eqb s' kw_if && negb (top_token_is_not a)) || text_eqb s' sym_not || is_bin a) (pretty depth a)
  | Lit l => [PT (pretty_lit l)]
  | Var s => [PT (RIdent s)]
  | Nul s => [PT (raw_of_name s)]
  | Code ss =>
    match ss with
    | [] => PT RCurlyO :: indent depth ++ [PT RCurlyC]
    | _ => PT RCurlyO :: nl ::
           flat_map (fun s => indent (S depth) ++ pretty_stmt (S depth) s ++ [PT RSemi; nl]) ss
           ++ indent depth ++ [PT RCurlyC]
    end
  | Arr es => PT RSquareO :: join [PT RComma; sp] (map (pretty depth) es) ++ [PT RSquareC]
  | Par a => pretty depth a
  end
with pretty_stmt (depth:nat) (s:stmt) : list piece :=
  match s with
  | SExpr e => pretty depth e
  | SAssign x e =>
    match x with
    | Var n | Nul n => PT (RIdent n) :: sp :: PT REqual :: sp :: pretty depth e
    | _ => pretty depth e
    end
  | SLocal x e => PT (RPrivate kw_private) :: sp :: PT (RIdent x) :: sp :: PT REqual :: sp :: pretty depth e
  end.
Definition pretty_program (ss:list stmt) : list piece :=
  flat_map (fun s => pretty_stmt 0%nat s ++ [PT RSemi; nl]) ss.

(* the formatter as it stands in the repository: no parentheses except after `if` and `!` *)
Fixpoint pretty_asis (depth:nat) (t:tree) : list piece :=
  match t with
  | Bin k s l r => pretty_asis depth l ++ sp :: PT (raw_of_name (lower s)) :: sp :: pretty_asis depth r
  | Un s a =>
    let s' := lower s in
    PT (raw_of_name s') :: sp ::
    paren_if ((text_eqb s' kw_if && negb (top_token_is_not a)) || text_eqb s' sym_not) (pretty_asis depth a)
  | Lit l => [PT (pretty_lit l)]
  | Var s => [PT (RIdent s)]
  | Nul s => [PT (raw_of_name s)]
  | Code ss =>
    match ss with
    | [] => PT RCurlyO :: indent depth ++ [PT RCurlyC]
    | _ => PT RCurlyO :: nl ::
           flat_map (fun s => indent (S depth) ++ pretty_asis_stmt (S depth) s ++ [PT RSemi; nl]) ss
           ++ indent depth ++ [PT RCurlyC]
    end
  | Arr es => PT RSquareO :: join [PT RComma; sp] (map (pretty_asis depth) es) ++ [PT RSquareC]
  | Par a => pretty_asis depth a
  end
with pretty_asis_stmt (depth:nat) (s:stmt) : list piece :=
  match s with
  | SExpr e => pretty_asis depth e
  | SAssign x e =>
    match x with
    | Var n | Nul n => PT (RIdent n) :: sp :: PT REqual :: sp :: pretty_asis depth e
    | _ => pretty_asis depth e
    end
  | SLocal x e => PT (RPrivate kw_private) :: sp :: PT (RIdent x) :: sp :: PT REqual :: sp :: pretty_asis depth e
  end.
Definition pretty_asis_program (ss:list stmt) : list piece :=
  flat_map (fun s => pretty_asis_stmt 0%nat s ++ [PT RSemi; nl]) ss.

(* ------------------------------------------------------------------ stack machine and the value of a reading *)
Section Eval.
Variable V : Type.
Record sem := { s_lit : bool -> lit -> V          (* the scalar/string/boolean a literal denotes, negated or not *)
              ; s_var : text -> V
              ; s_nul : text -> V
              ; s_un : text -> V -> V
              ; s_bin : text -> V -> V -> V        (* name, left, right *)
              ; s_arr : list V -> V
              ; s_code : list instr -> V }.
Variable m : sem.

(* the value of the fully parenthesised expression *)
Fixpoint eval_tree (t:tree) : V :=
  match t with
  | Lit l => s_lit m false l
  | Var s => s_var m s
  | Nul s => s_nul m (lower s)
  | Un s a => s_un m (lower s) (eval_tree a)
  | Bin _ s l r => s_bin m (lower s) (eval_tree l) (eval_tree r)
  | Arr es => s_arr m (map eval_tree es)
  | Code ss => s_code m (postorder_block ss)
  | Par a => eval_tree a
  end.

Fixpoint pop_n (n:nat) (st:list V) (acc:list V) : option (list V * list V) :=
  match n with
  | O => Some (acc, st)
  | S n' => match st with v :: st' => pop_n n' st' (v :: acc) | [] => None end
  end.

(* push.h, call_nular.h, call_unary.h, call_binary.h:23-96 (pops right, then left), make_array.h:28-45,
   get_variable.h on an operand stack; statements are outside this fragment *)
Definition step (i:instr) (st:list V) : option (list V) :=
  match i with
  | IPush (PLit neg l) => Some (s_lit m neg l :: st)
  | IPush (PCode c) => Some (s_code m c :: st)
  | ICallNular s => Some (s_nul m s :: st)
  | IGetVar s => Some (s_var m s :: st)
  | ICallUnary s => match st with r :: st' => Some (s_un m s r :: st') | _ => None end
  | ICallBinary s _ => match st with r :: l :: st' => Some (s_bin m s l r :: st') | _ => None end
  | IMakeArray n => match pop_n n st [] with Some (vs, st') => Some (s_arr m vs :: st') | None => None end
  | _ => None
  end.
Fixpoint run_stack (c:list instr) (st:list V) : option (list V) :=
  match c with
  | [] => Some st
  | i :: c' => match step i st with Some st' => run_stack c' st' | None => None end
  end.
End Eval.
