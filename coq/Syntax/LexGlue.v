(* lex o render = id with as little whitespace as the token grammar allows: a name, a keyword, a number may be
   followed directly by any character that cannot continue it (an operator character, a quote), a string literal by
   anything but a quote, an operator by anything that does not spell a longer operator, a comment or a #line
   directive with it (`1--1`, `a*-b`, `a&&!b`, `a>=-1`, `"s"select 0`, `x=-1`).  LexProofs.lex_render (blank,
   bracket or separator after every token that is not itself a bracket, a separator or a sign) is the special case. *)
From Coq Require Import ZArith List Bool Arith Lia.
Import ListNotations.
From SqfVerif Require Import Syntax.SyntaxDefs Syntax.ParsePrint Syntax.LexProofs Syntax.CompileProofs Syntax.Reading.
Local Open Scope Z_scope.

(* a character that ends a word (name, keyword, number, hexadecimal number) *)
Definition wordc (y:byte) : bool := negb (is_ident_char y) && negb (y =? 46).

(* may the character y follow the token t directly?  tokenizer.hpp:246-267 (operators by longest match),
   459-538 (`//` `/*` start a comment, `#line` a directive, `==` is an operator and `=` is not) *)
Definition gchar (t:rtok) (y:byte) : bool :=
  match t with
  | RTrue _ | RFalse _ | RPrivate _ | RIdent _ | RNum _ | RHex _ => wordc y
  | RStr _ => negb (y =? 34) && negb (y =? 39)
  | REqual => negb (y =? 61)
  | ROp s => match s with
             | [a] => if a =? 62 then negb (y =? 61) && negb (y =? 62)
                      else if (a =? 60) || (a =? 33) then negb (y =? 61)
                      else if a =? 47 then negb (y =? 47) && negb (y =? 42)
                      else if a =? 35 then negb (lowc y =? 108)
                      else true
             | _ => true
             end
  | _ => true
  end.

Definition follow_glued (t:rtok) (b:text) : Prop :=
  match b with [] => True | y :: _ => delim y = true \/ free_tok t = true \/ gchar t y = true end.

Definition istart (b:text) : Prop := match b with [] => True | y :: _ => is_ident_char y = false end.
Definition wstart (b:text) : Prop := match b with [] => True | y :: _ => is_ident_char y = false /\ y <> 46 end.

Lemma wordc_i y : wordc y = true -> is_ident_char y = false /\ y <> 46.
Proof.
  unfold wordc. intros H. apply andb_prop in H. destruct H as [H1 H2].
  apply negb_true_iff in H1. apply negb_true_iff in H2. apply Z.eqb_neq in H2. auto.
Qed.
Lemma wstart_istart b : wstart b -> istart b.
Proof. destruct b as [|y b']; [auto|]. cbn. intros [H _]. exact H. Qed.

Lemma hex_ident y : is_hexdigit y = true -> is_ident_char y = true.
Proof. intros H. unfold is_hexdigit, is_ident_char, is_alpha, is_upper, is_lower, is_digit in *. btrue. lia. Qed.
Lemma digit_ident y : is_digit y = true -> is_ident_char y = true.
Proof. intros H. unfold is_ident_char. rewrite H. rewrite orb_true_r. reflexivity. Qed.
Lemma ident_not_hex y : is_ident_char y = false -> is_hexdigit y = false.
Proof. intros H. destruct (is_hexdigit y) eqn:E; [|reflexivity]. rewrite (hex_ident y E) in H. discriminate. Qed.
Lemma ident_not_digit y : is_ident_char y = false -> is_digit y = false.
Proof. intros H. destruct (is_digit y) eqn:E; [|reflexivity]. rewrite (digit_ident y E) in H. discriminate. Qed.
Lemma ident_chars y : is_ident_char y = false -> y <> 101 /\ y <> 69 /\ y <> 120.
Proof. intros H. repeat split; intros ->; vm_compute in H; discriminate. Qed.

Lemma istart_digit b : istart b -> match b with [] => True | c :: _ => is_digit c = false end.
Proof. destruct b; [auto|]. apply ident_not_digit. Qed.
Lemma istart_hex b : istart b -> match b with [] => True | c :: _ => is_hexdigit c = false end.
Proof. destruct b; [auto|]. apply ident_not_hex. Qed.

(* ---------- keywords and names ---------- *)
Lemma kw_match_some_g kw : forall s a b, kw_match kw s = Some (a, []) -> istart b -> kw_match kw (s ++ b) = Some (a, b).
Proof.
  induction kw as [|k kw IH]; intros s a b H Hb; cbn [kw_match] in *.
  - destruct s as [|c s]; [|destruct (is_ident_char c); discriminate]. injection H as <-.
    cbn [app]. destruct b as [|c b']; [reflexivity|]. cbn in Hb. rewrite Hb. reflexivity.
  - destruct s as [|c s]; [discriminate|]. cbn [app]. destruct (lowc c =? k); [|discriminate].
    destruct (kw_match kw s) as [[a' r]|] eqn:E; [|discriminate]. injection H as <- ->.
    rewrite (IH s a' b E Hb). reflexivity.
Qed.
Lemma kw_match_none_g kw : kw_lower kw -> forall s b, kw_match kw s = None -> forallb is_ident_char s = true -> istart b ->
  kw_match kw (s ++ b) = None.
Proof.
  induction kw as [|k kw IH]; intros Hkw s b H Hs Hb; cbn [kw_match] in *.
  - destruct s as [|c s]; [discriminate|]. cbn [app]. cbn [forallb] in Hs. apply andb_prop in Hs. destruct Hs as [Hc _].
    rewrite Hc. reflexivity.
  - inversion Hkw as [|? ? Hk Hkw']; subst.
    destruct s as [|c s]; cbn [app].
    + destruct b as [|c b']; [reflexivity|]. cbn in Hb. destruct (Z.eqb_spec (lowc c) k) as [e|e]; [|reflexivity].
      pose proof (lowc_eq_lower c k Hk e) as Hi. rewrite Hb in Hi. discriminate.
    + cbn [forallb] in Hs. apply andb_prop in Hs. destruct Hs as [_ Hs].
      destruct (lowc c =? k); [|reflexivity].
      destruct (kw_match kw s) as [[a' r]|] eqn:E; [discriminate|].
      rewrite (IH Hkw' s b E Hs Hb). reflexivity.
Qed.

Lemma lex_ident_g s t b : lex_ident s = L1Tok t [] -> istart b -> lex_ident (s ++ b) = L1Tok t b.
Proof.
  unfold lex_ident. intros H Hb. destruct (span is_ident_char s) as [a r] eqn:E. injection H as <- ->.
  rewrite span_local, E; [reflexivity|]. destruct b as [|c b']; [exact I|exact Hb].
Qed.
Lemma lex_kw_g kw mk s t b : kw_lower kw -> lex_kw_or_ident kw mk s = L1Tok t [] -> istart b ->
  lex_kw_or_ident kw mk (s ++ b) = L1Tok t b.
Proof.
  unfold lex_kw_or_ident. intros Hkw H Hb. destruct (kw_match kw s) as [[a r]|] eqn:E.
  - injection H as <- ->. rewrite (kw_match_some_g kw s a b E Hb). reflexivity.
  - rewrite (kw_match_none_g kw Hkw s b E (lex_ident_all s t H) Hb). apply lex_ident_g; assumption.
Qed.

(* what kind of token each scanner returns: the character that may follow it is that of a word *)
Lemma lex_ident_gchar s t r y : lex_ident s = L1Tok t r -> gchar t y = wordc y.
Proof. unfold lex_ident. destruct (span is_ident_char s). intros H. injection H as <- _. reflexivity. Qed.
Lemma lex_kw_gchar kw mk s t r y : (forall a, gchar (mk a) y = wordc y) -> lex_kw_or_ident kw mk s = L1Tok t r -> gchar t y = wordc y.
Proof.
  unfold lex_kw_or_ident. intros Hmk H. destruct (kw_match kw s) as [[a b]|].
  - injection H as <- _. apply Hmk.
  - apply (lex_ident_gchar s t r y H).
Qed.
Lemma lex_num_gchar s t r y : lex_num s = L1Tok t r -> gchar t y = wordc y.
Proof. unfold lex_num. destruct (lex_number s) as [[a b]|]; [|discriminate]. intros H. injection H as <- _. reflexivity. Qed.

(* ---------- hexadecimal ---------- *)
Lemma lex_hex_g s a b : lex_hex s = Some (a, []) -> istart b -> lex_hex (s ++ b) = Some (a, b).
Proof.
  unfold lex_hex. intros H Hb. pose proof (istart_hex b Hb) as Hh.
  destruct s as [|c s]; [discriminate|]. cbn [app].
  destruct (c =? 36).
  - destruct (span is_hexdigit s) as [d0 r] eqn:E. destruct d0; [discriminate|]. injection H as <- ->.
    rewrite span_local, E by assumption. reflexivity.
  - destruct s as [|x s]; [discriminate|]. cbn [app]. destruct (x =? 120); [|discriminate].
    destruct (span is_hexdigit s) as [d0 r] eqn:E. destruct d0; [discriminate|]. injection H as <- ->.
    rewrite span_local, E by assumption. reflexivity.
Qed.
Lemma lex_hex_none_g c r0 b : lex_hex (c :: r0) = None -> istart b -> lex_hex ((c :: r0) ++ b) = None.
Proof.
  unfold lex_hex. intros H Hb. pose proof (istart_hex b Hb) as Hh.
  cbn [app]. destruct (c =? 36).
  - rewrite span_local by assumption. destruct (span is_hexdigit r0) as [d0 r]. cbn [fst snd].
    destruct d0; [reflexivity|discriminate].
  - destruct r0 as [|x r2]; cbn [app].
    + destruct b as [|y b']; [reflexivity|]. cbn in Hb. destruct (ident_chars y Hb) as (_ & _ & H120).
      destruct (Z.eqb_spec y 120); [contradiction|reflexivity].
    + destruct (x =? 120); [|reflexivity]. rewrite span_local by assumption.
      destruct (span is_hexdigit r2) as [d0 r]. cbn [fst snd]. destruct d0; [reflexivity|discriminate].
Qed.

(* ---------- numbers ---------- *)
Lemma num_ip_g s b : wstart b -> num_ip (s ++ b) = (fst (num_ip s), snd (num_ip s) ++ b) /\ starts1 46 (s ++ b) = starts1 46 s.
Proof.
  intros Hb. unfold num_ip.
  assert (Hs: starts1 46 (s ++ b) = starts1 46 s).
  { destruct s as [|c s]; [|reflexivity]. cbn [app starts1]. destruct b as [|c b']; [reflexivity|].
    cbn in Hb. destruct Hb as [_ H]. cbn [starts1]. destruct (Z.eqb_spec c 46); [contradiction|reflexivity]. }
  rewrite Hs. split; [|reflexivity]. destruct (starts1 46 s); [reflexivity|].
  apply span_local. apply istart_digit. apply wstart_istart. exact Hb.
Qed.
Lemma num_fp_g r b : wstart b -> num_fp (r ++ b) = (fst (num_fp r), snd (num_fp r) ++ b).
Proof.
  intros Hb. unfold num_fp. destruct r as [|c r]; cbn [app].
  - destruct b as [|c b']; [reflexivity|]. cbn in Hb. destruct Hb as [_ H].
    destruct (Z.eqb_spec c 46); [contradiction|reflexivity].
  - destruct (c =? 46); [|reflexivity]. rewrite span_local by (apply istart_digit; apply wstart_istart; exact Hb).
    destruct (span is_digit r) as [d r']. cbn [fst snd]. destruct d; reflexivity.
Qed.
(* the exponent part: when the number ends where the text ends, whatever follows that is not a word character
   leaves it alone (a sign only belongs to an exponent directly behind the e) *)
Lemma num_ep_g r2 ep b : num_ep r2 = (ep, []) -> wstart b -> num_ep (r2 ++ b) = (ep, b).
Proof.
  intros H Hb. pose proof (istart_digit b (wstart_istart b Hb)) as Hdig.
  unfold num_ep in *. destruct r2 as [|e r]; cbn [app].
  - injection H as <-. destruct b as [|c b']; [reflexivity|]. cbn in Hb. destruct Hb as [Hi _].
    destruct (ident_chars c Hi) as (H1 & H2 & _).
    destruct (Z.eqb_spec c 101); [contradiction|]. destruct (Z.eqb_spec c 69); [contradiction|]. reflexivity.
  - destruct ((e =? 101) || (e =? 69)); [|discriminate].
    destruct (num_sign r) as [sg r'] eqn:Es. destruct (span is_digit r') as [d r''] eqn:Ed.
    destruct d as [|d0 d].
    + destruct sg as [|z sg]; [discriminate|]. injection H as _ Hr. subst r. cbn in Es. discriminate.
    + injection H as <- ->.
      destruct r as [|g r0].
      * cbn in Es. injection Es as <- <-. cbn in Ed. discriminate.
      * cbn [app]. unfold num_sign in *. destruct ((g =? 43) || (g =? 45)); injection Es as <- <-.
        -- rewrite span_local, Ed by assumption. reflexivity.
        -- change (g :: r0 ++ b) with ((g :: r0) ++ b). rewrite span_local, Ed by assumption. reflexivity.
Qed.
Lemma lex_number_g s n b : lex_number s = Some (n, []) -> wstart b -> lex_number (s ++ b) = Some (n, b).
Proof.
  intros H Hb. unfold lex_number in *. destruct (num_ip_g s b Hb) as [E1 E2]. rewrite E1, E2.
  destruct (num_ip s) as [ip r1]. cbn [fst snd].
  destruct (negb (starts1 46 s) && match ip with [] => true | _ => false end); [discriminate|].
  rewrite num_fp_g by assumption. destruct (num_fp r1) as [fp r2]. cbn [fst snd].
  destruct (num_ep r2) as [ep r3] eqn:E3.
  assert (Hr: r3 = []).
  { destruct (ip ++ fp ++ ep); [discriminate|]. injection H as _ Hr. exact Hr. }
  subst r3. rewrite (num_ep_g r2 ep b E3 Hb).
  destruct (ip ++ fp ++ ep); [discriminate|]. injection H as <-. reflexivity.
Qed.
Lemma lex_num_g s t b : lex_num s = L1Tok t [] -> wstart b -> lex_num (s ++ b) = L1Tok t b.
Proof.
  unfold lex_num. intros H Hb. destruct (lex_number s) as [[n r]|] eqn:E; [|discriminate].
  injection H as <- ->. rewrite (lex_number_g s n b E Hb). reflexivity.
Qed.

(* ---------- operators ---------- *)
Lemma lex_op_g s t y b' : lex_op s = L1Tok t [] -> gchar t y = true -> lex_op (s ++ y :: b') = L1Tok t (y :: b').
Proof.
  intros H Hg. unfold lex_op in *. pose proof (op_len_le2 s) as Hle.
  destruct s as [|a [|c [|x s'']]].
  - cbn in H. discriminate.
  - destruct (op_len [a]) as [|[|n]] eqn:E; [discriminate| |].
    + cbn [firstn skipn] in H. injection H as <-.
      assert (Ha: In a one_char_ops) by (apply op_len_one; rewrite E; discriminate).
      cbn [app].
      assert (E2: op_len (a :: y :: b') = 1%nat).
      { unfold one_char_ops in Ha. cbn [In] in Ha. cbn [gchar] in Hg.
        destruct (y =? 61) eqn:E61; destruct (y =? 62) eqn:E62;
        repeat (destruct Ha as [<-|Ha];
                [cbn in Hg; rewrite ?E61, ?E62 in Hg; try discriminate Hg;
                 unfold op_len, starts2, starts1; rewrite ?E61, ?E62; reflexivity|]);
        destruct Ha. }
      rewrite E2. reflexivity.
    + exfalso. revert E. unfold op_len, starts2, starts1.
      repeat (match goal with |- context[if ?x then _ else _] => destruct x end; try discriminate).
  - cbn [app]. change (op_len (a :: c :: y :: b')) with (op_len [a; c]).
    destruct (op_len [a; c]) as [|[|[|n]]]; [discriminate|cbn in H; discriminate| |cbn in Hle; lia].
    cbn [firstn skipn] in *. injection H as <-. reflexivity.
  - destruct (op_len (a :: c :: x :: s'')) as [|[|[|n]]]; [discriminate|cbn in H; discriminate|cbn in H; discriminate|lia].
Qed.

Lemma kw_line_hash b : (match b with [] => True | y :: _ => lowc y <> 108 end) -> kw_match kw_line (35 :: b) = None.
Proof.
  intros Hb. unfold kw_line. cbn [kw_match lowc is_upper]. cbn. destruct b as [|y b']; [reflexivity|].
  destruct (Z.eqb_spec (lowc y) 108); [contradiction|reflexivity].
Qed.

(* ---------- one token, followed directly by a character that cannot belong to it ---------- *)
Theorem lex1_glued t y b' : tok_ok t -> gchar t y = true -> lex1 (rtok_text t ++ y :: b') = L1Tok t (y :: b').
Proof.
  intros [H Hstr] Hg.
  remember (rtok_text t) as s eqn:Es.
  destruct s as [|c r0]; [cbn in H; discriminate|].
  unfold lex1 in *. cbn [app].
  destruct (is_ws c); [discriminate|].
  assert (Hword: gchar t y = wordc y -> wstart (y :: b')).
  { intros E. rewrite E in Hg. apply wordc_i. exact Hg. }
  assert (Hmk1: forall a, gchar (RFalse a) y = wordc y) by reflexivity.
  assert (Hmk2: forall a, gchar (RTrue a) y = wordc y) by reflexivity.
  assert (Hmk3: forall a, gchar (RPrivate a) y = wordc y) by reflexivity.
  destruct (lowc c =? 102).
  { apply (lex_kw_g kw_false RFalse (c :: r0) t (y :: b') kw_false_lower H).
    apply wstart_istart, Hword. apply (lex_kw_gchar kw_false RFalse (c :: r0) t [] y Hmk1 H). }
  destruct (lowc c =? 116).
  { apply (lex_kw_g kw_true RTrue (c :: r0) t (y :: b') kw_true_lower H).
    apply wstart_istart, Hword. apply (lex_kw_gchar kw_true RTrue (c :: r0) t [] y Hmk2 H). }
  destruct (lowc c =? 112).
  { apply (lex_kw_g kw_private RPrivate (c :: r0) t (y :: b') kw_private_lower H).
    apply wstart_istart, Hword. apply (lex_kw_gchar kw_private RPrivate (c :: r0) t [] y Hmk3 H). }
  destruct (is_ident_start c).
  { apply (lex_ident_g (c :: r0) t (y :: b') H). apply wstart_istart, Hword. apply (lex_ident_gchar (c :: r0) t [] y H). }
  assert (Hnum: lex_num (c :: r0) = L1Tok t [] -> lex_num (c :: r0 ++ y :: b') = L1Tok t (y :: b')).
  { intros Hl. apply (lex_num_g (c :: r0) t (y :: b') Hl). apply Hword. apply (lex_num_gchar (c :: r0) t [] y Hl). }
  destruct (c =? 48).
  { destruct (lex_hex (c :: r0)) as [[a r]|] eqn:E.
    - injection H as <- ->. change (c :: r0 ++ y :: b') with ((c :: r0) ++ y :: b').
      rewrite (lex_hex_g (c :: r0) a (y :: b') E); [reflexivity|]. apply wstart_istart, Hword. reflexivity.
    - change (c :: r0 ++ y :: b') with ((c :: r0) ++ y :: b'). rewrite (lex_hex_none_g c r0 (y :: b') E).
      + apply Hnum. exact H.
      + apply wstart_istart, Hword. apply (lex_num_gchar (c :: r0) t [] y H). }
  destruct (is_digit c); [apply Hnum; exact H|].
  destruct (c =? 46); [apply Hnum; exact H|].
  destruct ((c =? 43) || (c =? 45)); [apply (lex_op_g (c :: r0) t y b' H Hg)|].
  destruct (Z.eqb_spec c 47) as [->|_].
  { destruct (starts1 47 r0 || starts1 42 r0) eqn:Ec; [discriminate|].
    assert (Hr: r0 = [] /\ t = ROp [47]).
    { unfold lex_op in H. assert (Hop: op_len (47 :: r0) = 1%nat) by (destruct r0; reflexivity).
      rewrite Hop in H. cbn [firstn skipn] in H. injection H as <- ->. auto. }
    destruct Hr as [-> ->]. cbn [app].
    assert (Hb: starts1 47 (y :: b') || starts1 42 (y :: b') = false).
    { cbn in Hg. cbn [starts1]. destruct (y =? 47); [discriminate Hg|]. destruct (y =? 42); [discriminate Hg|]. reflexivity. }
    rewrite Hb. apply (lex_op_g [47] (ROp [47]) y b' eq_refl Hg). }
  destruct (Z.eqb_spec c 35) as [->|_].
  { destruct (kw_match kw_line (35 :: r0)) as [[? ?]|] eqn:Ek; [discriminate|].
    assert (Hr: r0 = [] /\ t = ROp [35]).
    { unfold lex_op in H. assert (Hop: op_len (35 :: r0) = 1%nat) by (destruct r0; reflexivity).
      rewrite Hop in H. cbn [firstn skipn] in H. injection H as <- ->. auto. }
    destruct Hr as [-> ->]. cbn [app].
    assert (Hk: kw_match kw_line (35 :: y :: b') = None).
    { apply kw_line_hash. cbn in Hg. apply negb_true_iff in Hg. apply Z.eqb_neq in Hg. exact Hg. }
    rewrite Hk. apply (lex_op_g [35] (ROp [35]) y b' eq_refl Hg). }
  destruct (c =? 36).
  { destruct (lex_hex (c :: r0)) as [[a r]|] eqn:E; [|discriminate].
    injection H as <- ->. change (c :: r0 ++ y :: b') with ((c :: r0) ++ y :: b').
    rewrite (lex_hex_g (c :: r0) a (y :: b') E); [reflexivity|]. apply wstart_istart, Hword. reflexivity. }
  destruct (Z.eqb_spec c 61) as [->|_].
  { destruct (starts1 61 r0) eqn:E1.
    - destruct r0 as [|x r1]; [discriminate|]. cbn [app starts1] in *. rewrite E1.
      apply (lex_op_g (61 :: x :: r1) t y b' H Hg).
    - injection H as <- ->. cbn [app starts1]. cbn [gchar] in Hg.
      destruct (y =? 61); [discriminate Hg|reflexivity]. }
  destruct ((c =? 34) || (c =? 39)) eqn:Eq.
  { destruct (scan_str c r0) as [a r] eqn:E. injection H as <- ->.
    cbn [rtok_text] in Es. injection Es as Es. subst a.
    cbn [str_closed] in Hstr. cbn [gchar] in Hg.
    assert (Hb: y <> c).
    { apply andb_prop in Hg. destruct Hg as [G1 G2]. apply negb_true_iff in G1. apply negb_true_iff in G2.
      apply Z.eqb_neq in G1. apply Z.eqb_neq in G2.
      apply orb_prop in Eq. destruct Eq as [Eq|Eq]; apply Z.eqb_eq in Eq; subst; assumption. }
    rewrite (scan_str_local c (y :: b') Hb (length r0) r0 (le_n _) Hstr). reflexivity. }
  destruct (c =? 40); [injection H as <- ->; reflexivity|].
  destruct (c =? 41); [injection H as <- ->; reflexivity|].
  destruct (c =? 91); [injection H as <- ->; reflexivity|].
  destruct (c =? 93); [injection H as <- ->; reflexivity|].
  destruct (c =? 123); [injection H as <- ->; reflexivity|].
  destruct (c =? 125); [injection H as <- ->; reflexivity|].
  destruct (c =? 59); [injection H as <- ->; reflexivity|].
  destruct (c =? 44); [injection H as <- ->; reflexivity|].
  match goal with |- (if ?x then _ else _) = _ => destruct x end; [|discriminate].
  apply (lex_op_g (c :: r0) t y b' H Hg).
Qed.

Theorem lex1_glue t b : tok_ok t -> follow_glued t b -> lex1 (rtok_text t ++ b) = L1Tok t b.
Proof.
  intros Hok Hf. destruct b as [|y b'].
  - apply (lex1_local t [] Hok). exact I.
  - cbn [follow_glued] in Hf. destruct Hf as [Hd|[Hfree|Hg]].
    + apply (lex1_local t (y :: b') Hok). cbn. left. exact Hd.
    + apply (lex1_local t (y :: b') Hok). cbn. right. exact Hfree.
    + apply (lex1_glued t y b' Hok Hg).
Qed.

(* ---------- a whole rendering ---------- *)
(* items = (whitespace before the token - possibly none -, token); what follows a token directly is whitespace, a
   bracket or separator, the end of the text, anything at all behind a bracket, a separator, a sign - or a
   character that cannot belong to the token (gchar) *)
Fixpoint sep_glued (items:list (text * rtok)) (trail:text) : Prop :=
  match items with
  | [] => all_ws trail
  | (w, t) :: rest => all_ws w /\ tok_ok t /\ follow_glued t (render rest trail) /\ sep_glued rest trail
  end.

Lemma sep_ok_glued : forall items trail, sep_ok items trail -> sep_glued items trail.
Proof.
  induction items as [|[w t] rest IH]; intros trail H; [exact H|].
  cbn [sep_ok sep_glued] in *. destruct H as (Hw & Hok & Hf & Hr).
  split; [exact Hw|]. split; [exact Hok|]. split; [|apply IH; exact Hr].
  unfold follow_ok in Hf. unfold follow_glued. destruct (render rest trail); [exact I|]. destruct Hf; auto.
Qed.

Lemma lex_f_render_glued : forall items trail, sep_glued items trail ->
  forall f, (length (render items trail) < f)%nat -> lex_f f (render items trail) = LexOk (map snd items).
Proof.
  induction items as [|[w t] rest IH]; intros trail Hs f Hf.
  - cbn [sep_glued] in Hs. unfold render in *. cbn [flat_map app map] in *.
    destruct trail as [|c r]; [destruct f; reflexivity|].
    destruct f as [|f]; [cbn in Hf; lia|]. cbn [lex_f].
    assert (Hc: is_ws c = true) by (unfold all_ws in Hs; cbn [forallb] in Hs; apply andb_prop in Hs; apply Hs).
    rewrite (lex1_ws c r Hc), (span_ws_all (c :: r) Hs). cbn [snd]. destruct f; reflexivity.
  - cbn [sep_glued] in Hs. destruct Hs as (Hw & Hok & Hfol & Hrest).
    rewrite render_cons in *. set (R := render rest trail) in *.
    destruct (tok_ok_text t Hok) as (c0 & r0 & Et & Hc0).
    assert (Htok: forall f', (length (rtok_text t ++ R) < f')%nat -> lex_f f' (rtok_text t ++ R) = LexOk (t :: map snd rest)).
    { intros f' Hf'. destruct f' as [|f']; [lia|].
      assert (Hne: rtok_text t ++ R = c0 :: r0 ++ R) by (rewrite Et; reflexivity).
      rewrite Hne at 1. cbn [lex_f]. rewrite <- Hne.
      rewrite (lex1_glue t R Hok Hfol).
      unfold R at 1. rewrite (IH trail Hrest f'); [reflexivity|].
      rewrite app_length, Et in Hf'. cbn [length] in Hf'. fold R. lia. }
    cbn [map snd].
    destruct w as [|c w'].
    + cbn [app]. apply Htok. exact Hf.
    + destruct f as [|f]; [cbn in Hf; lia|]. cbn [app lex_f].
      assert (Hc: is_ws c = true) by (unfold all_ws in Hw; cbn [forallb] in Hw; apply andb_prop in Hw; apply Hw).
      rewrite (lex1_ws c _ Hc).
      change (c :: w' ++ rtok_text t ++ R) with ((c :: w') ++ rtok_text t ++ R).
      rewrite span_local, (span_ws_all (c :: w') Hw) by (rewrite Et; exact Hc0). cbn [fst snd app].
      apply Htok. cbn [app length] in Hf. rewrite app_length in Hf. lia.
Qed.

Theorem lex_render_glued : forall items trail, sep_glued items trail -> lex (render items trail) = LexOk (map snd items).
Proof. intros items trail H. unfold lex. apply lex_f_render_glued; [assumption|lia]. Qed.

(* the reading, end to end, with the blanks left out wherever the token grammar allows *)
Theorem reading_end_to_end_glued : forall (R:registry) (d:defects) (lay:layout) (ss:list stmt) items trail,
  wf_block R ss -> map snd items = print_raw lay ss -> sep_glued items trail ->
  exists f0, forall f, (f0 <= f)%nat -> parse_text d R f (render items trail) = FOk (map strip_stmt ss).
Proof.
  intros R d lay ss items trail Hwf Hit Hsep.
  destruct (parse_print_block R d lay ss Hwf) as [f0 H]. exists f0. intros f Hf.
  unfold parse_text. rewrite (lex_render_glued items trail Hsep), Hit, print_raw_toks, (H f Hf). reflexivity.
Qed.

Theorem compiled_reading_glued : forall (R:registry) (d:defects) (lay:layout) (ss:list stmt) items trail,
  wf_block R ss -> map snd items = print_raw lay ss -> sep_glued items trail ->
  exists f0, forall f, (f0 <= f)%nat ->
    match parse_text d R f (render items trail) with FOk p => compile_block p | _ => None end
    = Some (postorder_block (map strip_stmt ss)).
Proof.
  intros R d lay ss items trail Hwf Hit Hsep.
  destruct (reading_end_to_end_glued R d lay ss items trail Hwf Hit Hsep) as [f0 H]. exists f0. intros f Hf.
  rewrite (H f Hf). apply compile_block_postorder.
Qed.
