(* C06, code half: the CLI pretty printer (src/parser/sqf/sqf_formatter.cpp as repaired by 382ec7b, model
   SyntaxDefs.pretty / pretty_program) emits a text that is parsed back to the tree it was given - operator
   names in lower case, `$ff` spelled `0xff` - and therefore compiles to the same instruction sequence.

   Shape of the proof (that of Syntax/CodeRoundtrip.v for `str`):
     tokens of the printed text  =  the documented reading (ParsePrintGen.prg) of the tree `pimpl t`
                                    under the layout `{}` / `{ a; b; }` (pretty_layf)
     pimpl t                     =  t with names lowered, hex literals respelled, and a Par node wherever the
                                    formatter writes parentheses that the reading does not need (`if (x)`, `! (x)`);
                                    the parentheses it writes around binary operands are exactly the minimal
                                    ones of the reading (left operand of a looser level, right operand of the
                                    same or a looser level, binary operand of a unary operator)
     spacing                     :  every token is followed by a blank, a bracket or a separator, so the text
                                    lexes to these tokens (LexProofs.lex_render)
     parse o print = id          :  ParsePrintGen.parse_printg_block. *)
From Coq Require Import ZArith List Bool Arith Lia.
From Coq Require String Ascii.
Import String.StringSyntax.
Import ListNotations.
From SqfVerif Require Import Syntax.SyntaxDefs Syntax.LexProofs Syntax.CompileProofs Syntax.Reading Syntax.CodeRoundtrip.
From SqfVerif Require Syntax.ParsePrintGen.
From SqfVerif Require Num.NumDefs.
Import Syntax.ParsePrintGen.

(* ------------------------------------------------------------------ what the formatter prints, as a tree *)
(* sqf_formatter.cpp:65-71 *)
Definition hexnorm (l:lit) : lit :=
  match l with
  | LHex (c :: r) => if (c =? 36)%Z then LHex (48%Z :: 120%Z :: r) else LHex (c :: r)
  | l => l
  end.
Lemma pretty_lit_hexnorm l : pretty_lit l = raw_of_lit (hexnorm l).
Proof. destruct l as [s|s|s|s|s]; try reflexivity. destruct s as [|c r]; [reflexivity|]. cbn [pretty_lit hexnorm]. destruct (c =? 36)%Z; reflexivity. Qed.

(* sqf_formatter.cpp:55 without the last disjunct: parentheses that do not depend on the operand being binary *)
Definition forced (s':text) (a:tree) : bool := (text_eqb s' kw_if && negb (top_token_is_not a)) || text_eqb s' sym_not.

(* one block layout per statement list: nothing for the empty list, `;` after every statement otherwise
   (sqf_formatter.cpp:82-99 and 134-143) *)
Definition lay_semi : layout := {| lay_lead := []; lay_mid_first := SepSemi; lay_mid_more := []; lay_trail := [SepSemi] |}.
Definition pretty_layf (ss:list stmt) : layout := match ss with [] => layout_min | _ => lay_semi end.

Fixpoint pimpl (t:tree) : tree :=
  match t with
  | Lit l => Lit (hexnorm l)
  | Var s => Var s
  | Nul s => Nul s
  | Un s a => Un (lower s) (if forced (lower s) a && negb (is_bin a) then Par (pimpl a) else pimpl a)
  | Bin k s l r => Bin k (lower s) (pimpl l) (pimpl r)
  | Arr es => Arr (map pimpl es)
  | Code ss => Code (map pimpl_stmt ss)
  | Par a => pimpl a
  end
with pimpl_stmt (s:stmt) : stmt :=
  match s with
  | SExpr e => SExpr (pimpl e)
  | SAssign x e => SAssign x (pimpl e)
  | SLocal x e => SLocal x (pimpl e)
  end.
Lemma pimpl_stmt_unfold s : pimpl_stmt s = match s with
  | SExpr e => SExpr (pimpl e) | SAssign x e => SAssign x (pimpl e) | SLocal x e => SLocal x (pimpl e) end.
Proof. destruct s; reflexivity. Qed.

(* what the parser returns for the printed text: the tree itself, normalised *)
Fixpoint pnorm (t:tree) : tree :=
  match t with
  | Lit l => Lit (hexnorm l)
  | Var s => Var s
  | Nul s => Nul s
  | Un s a => Un (lower s) (pnorm a)
  | Bin k s l r => Bin k (lower s) (pnorm l) (pnorm r)
  | Arr es => Arr (map pnorm es)
  | Code ss => Code (map pnorm_stmt ss)
  | Par a => Par (pnorm a)
  end
with pnorm_stmt (s:stmt) : stmt :=
  match s with
  | SExpr e => SExpr (pnorm e)
  | SAssign x e => SAssign x (pnorm e)
  | SLocal x e => SLocal x (pnorm e)
  end.
Lemma pnorm_stmt_unfold s : pnorm_stmt s = match s with
  | SExpr e => SExpr (pnorm e) | SAssign x e => SAssign x (pnorm e) | SLocal x e => SLocal x (pnorm e) end.
Proof. destruct s; reflexivity. Qed.

Lemma pretty_stmt_unfold depth s : pretty_stmt depth s = match s with
  | SExpr e => pretty depth e
  | SAssign x e =>
    match x with
    | Var n | Nul n => PT (RIdent n) :: sp :: PT REqual :: sp :: pretty depth e
    | _ => pretty depth e
    end
  | SLocal x e => PT (RPrivate kw_private) :: sp :: PT (RIdent x) :: sp :: PT REqual :: sp :: pretty depth e
  end.
Proof. destruct s; reflexivity. Qed.
Lemma pretty_code depth ss : pretty depth (Code ss) =
  match ss with
  | [] => PT RCurlyO :: indent depth ++ [PT RCurlyC]
  | _ => PT RCurlyO :: nl ::
         flat_map (fun s => indent (S depth) ++ pretty_stmt (S depth) s ++ [PT RSemi; nl]) ss
         ++ indent depth ++ [PT RCurlyC]
  end.
Proof. reflexivity. Qed.
Lemma noparb_stmt_unfold s : noparb_stmt s = match s with
  | SExpr e => noparb e | SAssign x e => noparb x && noparb e | SLocal _ e => noparb e end.
Proof. destruct s; reflexivity. Qed.

Lemma lvl_nonbin t : is_bin t = false -> lvl t = NLEV.
Proof. destruct t; cbn; try reflexivity; discriminate. Qed.
Lemma lvl_pimpl t : noparb t = true -> lvl (pimpl t) = lvl t.
Proof. destruct t; cbn; try reflexivity; discriminate. Qed.
Lemma paren_left_eq k l : (k <= NLEV)%nat -> is_bin l && (lvl l <? k)%nat = negb (k <=? lvl l)%nat.
Proof.
  intros Hk. destruct (is_bin l) eqn:E.
  - cbn [andb]. apply Nat.ltb_antisym.
  - rewrite (lvl_nonbin l E). cbn [andb]. destruct (Nat.leb_spec k NLEV); [reflexivity|lia].
Qed.
Lemma paren_right_eq k r : (k < NLEV)%nat -> is_bin r && (lvl r <=? k)%nat = negb (S k <=? lvl r)%nat.
Proof.
  intros Hk. destruct (is_bin r) eqn:E.
  - cbn [andb]. rewrite Nat.leb_antisym. reflexivity.
  - rewrite (lvl_nonbin r E). cbn [andb]. destruct (Nat.leb_spec (S k) NLEV); [reflexivity|lia].
Qed.

Lemma join_trail {A} (x:A) l : l <> [] -> join [x] l ++ [x] = flat_map (fun y => y ++ [x]) l.
Proof.
  destruct l as [|y r]; [congruence|]. intros _. cbn [join flat_map]. rewrite <- !app_assoc. f_equal.
  induction r as [|z r IH]; [reflexivity|]. cbn [flat_map]. rewrite <- !app_assoc. cbn [app]. f_equal. f_equal.
  cbn [app] in IH. exact IH.
Qed.

(* ------------------------------------------------------------------ the tokens of the printed text *)
Section Toks.
Context {A:Type}.
Variable F : rtok -> A.
Notation G := (prg F pretty_layf).
Notation GS := (prg_stmt F pretty_layf).
Notation GB := (prg_block F pretty_layf).

Definition TK (ps:list piece) : list A := map F (pieces_toks ps).
Lemma TK_app a b : TK (a ++ b) = TK a ++ TK b.
Proof. unfold TK. rewrite toks_app, map_app. reflexivity. Qed.
Lemma TK_PT t r : TK (PT t :: r) = F t :: TK r.
Proof. reflexivity. Qed.
Lemma TK_PW w r : TK (PW w :: r) = TK r.
Proof. reflexivity. Qed.
Lemma TK_sp r : TK (sp :: r) = TK r.
Proof. reflexivity. Qed.
Lemma TK_nl r : TK (nl :: r) = TK r.
Proof. reflexivity. Qed.
Lemma TK_indent d r : TK (indent d ++ r) = TK r.
Proof. destruct d; reflexivity. Qed.
Lemma TK_paren b ps : TK (paren_if b ps) = if b then F RRoundO :: TK ps ++ [F RRoundC] else TK ps.
Proof. destruct b; [|reflexivity]. cbn [paren_if]. rewrite TK_PT, TK_app. reflexivity. Qed.
Lemma TK_join_comma els : TK (join [PT RComma; sp] els) = join [F RComma] (map TK els).
Proof.
  unfold TK. rewrite toks_join_comma, map_join. cbn [map]. rewrite !map_map. reflexivity.
Qed.
Lemma TK_flat d ss :
  TK (flat_map (fun s => indent d ++ pretty_stmt d s ++ [PT RSemi; nl]) ss) = flat_map (fun s => TK (pretty_stmt d s) ++ [F RSemi]) ss.
Proof.
  induction ss as [|s r IH]; [reflexivity|]. cbn [flat_map]. rewrite TK_app, TK_indent, TK_app, IH. reflexivity.
Qed.

Definition prawG (t:tree) : list A :=
  match t with
  | Lit l => [F (raw_of_lit l)]
  | Var s => [F (RIdent s)]
  | Nul s => [F (raw_of_name s)]
  | Un s a => F (raw_of_name s) :: G NLEV a
  | Bin j s l r => G j l ++ F (raw_of_name s) :: G (S j) r
  | Arr es => F RSquareO :: join [F RComma] (map (G 0%nat) es) ++ [F RSquareC]
  | Code ss => F RCurlyO :: GB ss ++ [F RCurlyC]
  | Par a => F RRoundO :: G 0%nat a ++ [F RRoundC]
  end.
Lemma G_unfold k t : G k t = if (k <=? lvl t)%nat then prawG t else F RRoundO :: prawG t ++ [F RRoundC].
Proof. destruct t; reflexivity. Qed.
Lemma GS_unfold s : GS s = match s with
  | SExpr e => G 0%nat e
  | SAssign x e => G NLEV x ++ F REqual :: G 0%nat e
  | SLocal x e => F (RPrivate kw_private) :: F (RIdent x) :: F REqual :: G 0%nat e
  end.
Proof. destruct s; reflexivity. Qed.
Lemma flat_map_map {X Y Z} (f:Y -> list Z) (g:X -> Y) l : flat_map f (map g l) = flat_map (fun x => f (g x)) l.
Proof. induction l as [|x l IH]; [reflexivity|]. cbn [map flat_map]. rewrite IH. reflexivity. Qed.
Lemma GB_semi ss : ss <> [] -> GB ss = flat_map (fun s => GS s ++ [F RSemi]) ss.
Proof.
  intros Hne. unfold prg_block. destruct ss as [|s r]; [congruence|].
  cbn [pretty_layf lay_semi lay_lead lay_trail seps map app]. unfold mid. cbn [lay_mid_first lay_mid_more lay_semi seps map rsep].
  change (GS s :: map GS r) with (map GS (s :: r)).
  rewrite (join_trail (F RSemi) (map GS (s :: r))) by discriminate.
  apply flat_map_map.
Qed.

Theorem pretty_toks_main : forall n,
  (forall t, (size t <= n)%nat -> noparb t = true -> levels_ok t = true -> forall depth, TK (pretty depth t) = prawG (pimpl t)) /\
  (forall s, (size_stmt s <= n)%nat -> noparb_stmt s = true -> levels_ok_stmt s = true ->
     forall depth, TK (pretty_stmt depth s) = GS (pimpl_stmt s)).
Proof.
  induction n as [|n [IHt IHs]].
  { split; intros x Hsz; destruct x; cbn in Hsz; lia. }
  (* an operand where the reading expects exp_k: the formatter's parentheses are the minimal ones *)
  assert (OP: forall t, (size t <= n)%nat -> noparb t = true -> levels_ok t = true -> forall depth k,
            TK (paren_if (negb (k <=? lvl t)%nat) (pretty depth t)) = G k (pimpl t)).
  { intros t Hsz Hp Hl depth k. rewrite TK_paren, G_unfold, (lvl_pimpl t Hp), (IHt t Hsz Hp Hl depth).
    destruct (k <=? lvl t)%nat; reflexivity. }
  split.
  - intros t Hsz Hp Hl depth. destruct t as [l|v|nm|s a|j s l r|es|ss|a].
    + cbn [pretty pimpl prawG]. rewrite pretty_lit_hexnorm. reflexivity.
    + reflexivity.
    + reflexivity.
    + cbn [size] in Hsz. cbn [noparb] in Hp. cbn [levels_ok] in Hl.
      cbn [pretty pimpl prawG]. fold (forced (lower s) a).
      rewrite TK_PT, TK_sp. f_equal.
      destruct (is_bin a) eqn:Eb.
      * rewrite orb_true_r, andb_false_r.
        assert (Hlt: (lvl a < NLEV)%nat).
        { destruct a; try discriminate. cbn [levels_ok lvl] in *. apply andb_prop in Hl. destruct Hl as [Hl _].
          apply andb_prop in Hl. destruct Hl as [Hl _]. apply Nat.ltb_lt in Hl. exact Hl. }
        rewrite <- (OP a ltac:(lia) Hp Hl depth NLEV).
        destruct (Nat.leb_spec NLEV (lvl a)); [lia|reflexivity].
      * rewrite orb_false_r, andb_true_r. destruct (forced (lower s) a).
        -- rewrite G_unfold. cbn [lvl prawG]. change (NLEV <=? NLEV)%nat with true. cbv iota.
           rewrite <- (OP a ltac:(lia) Hp Hl depth 0%nat). cbn [Nat.leb negb paren_if]. rewrite TK_PT, TK_app. reflexivity.
        -- rewrite <- (OP a ltac:(lia) Hp Hl depth NLEV). rewrite (lvl_nonbin a Eb). change (NLEV <=? NLEV)%nat with true. reflexivity.
    + cbn [size] in Hsz. cbn [noparb] in Hp. apply andb_prop in Hp. destruct Hp as [Hpl Hpr].
      cbn [levels_ok] in Hl. apply andb_prop in Hl. destruct Hl as [Hl Hr]. apply andb_prop in Hl. destruct Hl as [Hj Hl].
      apply Nat.ltb_lt in Hj.
      cbn [pretty pimpl prawG]. rewrite TK_app, TK_sp, TK_PT, TK_sp.
      rewrite paren_left_eq by lia. rewrite paren_right_eq by lia.
      rewrite (OP l ltac:(lia) Hpl Hl), (OP r ltac:(lia) Hpr Hr). reflexivity.
    + change (size (Arr es)) with (S (fold_right (fun e n => (size e + n)%nat) 0%nat es)) in Hsz.
      cbn [noparb] in Hp. cbn [levels_ok] in Hl. rewrite forallb_forall in Hp, Hl.
      cbn [pretty pimpl prawG]. rewrite TK_PT, TK_app, TK_join_comma. f_equal. f_equal.
      * f_equal. rewrite !map_map. apply map_ext_in. intros e He. pose proof (size_in e es He).
        rewrite <- (OP e ltac:(lia) (Hp e He) (Hl e He) depth 0%nat). reflexivity.
    + change (size (Code ss)) with (S (fold_right (fun s n => (size_stmt s + n)%nat) 0%nat ss)) in Hsz.
      change (noparb (Code ss)) with (forallb noparb_stmt ss) in Hp.
      change (levels_ok (Code ss)) with (forallb levels_ok_stmt ss) in Hl.
      rewrite forallb_forall in Hp, Hl.
      rewrite pretty_code. change (pimpl (Code ss)) with (Code (map pimpl_stmt ss)). cbn [prawG].
      destruct ss as [|s0 r].
      * rewrite TK_PT, TK_indent. reflexivity.
      * rewrite TK_PT, TK_nl, TK_app, TK_flat, TK_indent, TK_PT. f_equal.
        rewrite GB_semi by discriminate. rewrite flat_map_concat_map, flat_map_concat_map, map_map.
        change (TK []) with (@nil A). f_equal. f_equal. apply map_ext_in. intros s Hs.
        pose proof (size_stmt_in s _ Hs). rewrite (IHs s ltac:(lia) (Hp s Hs) (Hl s Hs)). reflexivity.
    + discriminate.
  - intros s Hsz Hp Hl depth. rewrite size_stmt_unfold in Hsz. rewrite noparb_stmt_unfold in Hp. rewrite levels_ok_stmt_unfold in Hl.
    rewrite pretty_stmt_unfold, pimpl_stmt_unfold, GS_unfold. destruct s as [e|x e|x e].
    + rewrite <- (OP e ltac:(lia) Hp Hl depth 0%nat). reflexivity.
    + apply andb_prop in Hp. destruct Hp as [_ Hp]. apply andb_prop in Hl. destruct Hl as [Hx Hl].
      destruct x as [|v| | | | | |]; try discriminate.
      rewrite TK_PT, TK_sp, TK_PT, TK_sp. rewrite <- (OP e ltac:(lia) Hp Hl depth 0%nat). reflexivity.
    + rewrite TK_PT, TK_sp, TK_PT, TK_sp, TK_PT, TK_sp. rewrite <- (OP e ltac:(lia) Hp Hl depth 0%nat). reflexivity.
Qed.

Lemma pretty_program_toks ss : forallb noparb_stmt ss = true -> forallb levels_ok_stmt ss = true ->
  TK (pretty_program ss) = GB (map pimpl_stmt ss).
Proof.
  intros Hp Hl. rewrite forallb_forall in Hp, Hl. destruct ss as [|s0 r]; [reflexivity|].
  rewrite GB_semi by discriminate. unfold pretty_program.
  change (fun s => pretty_stmt 0 s ++ [PT RSemi; nl]) with (fun s => indent 0 ++ pretty_stmt 0 s ++ [PT RSemi; nl]).
  rewrite TK_flat. rewrite flat_map_concat_map, flat_map_concat_map, map_map. f_equal. apply map_ext_in. intros s Hs.
  rewrite (proj2 (pretty_toks_main (size_stmt s)) s (le_n _) (Hp s Hs) (Hl s Hs)). reflexivity.
Qed.
End Toks.

(* ------------------------------------------------------------------ spacing: the text lexes to these tokens *)
Lemma all_ws_repeat n : all_ws (repeat 32%Z n).
Proof. unfold all_ws. induction n; [reflexivity|]. cbn [repeat forallb]. rewrite IHn. reflexivity. Qed.
Lemma PO_indent d ps b : PO ps b -> PO (indent d ++ ps) b.
Proof. destruct d; [auto|]. intros H. cbn [indent app PO]. split; [apply all_ws_repeat|exact H]. Qed.
Lemma toks_ok_paren c ps : toks_ok (paren_if c ps) -> toks_ok ps.
Proof. destruct c; [|auto]. cbn [paren_if]. intros H. apply toks_ok_cons in H. apply toks_ok_app in H. apply H. Qed.
Lemma PO_paren c ps b : dstart b -> (forall b', dstart b' -> PO ps b') -> PO (paren_if c ps) b.
Proof.
  intros Hb H. destruct c; [|apply H; exact Hb]. cbn [paren_if PO].
  split; [repeat split|]. split; [apply follow_free; reflexivity|].
  apply PO_app; [apply H; reflexivity|]. apply PO_single; [repeat split|exact Hb].
Qed.
Lemma toks_ok_flat {X} (g:X -> list piece) l x : toks_ok (flat_map g l) -> In x l -> toks_ok (g x).
Proof. intros H Hx t Ht. apply H. apply in_flat_map. exists x. auto. Qed.

Lemma PO_stmts (pre:list piece) d ss b : (forall ps b', PO ps b' -> PO (pre ++ ps) b') ->
  (forall s, In s ss -> forall b', dstart b' -> PO (pretty_stmt d s) b') ->
  PO (flat_map (fun s => pre ++ pretty_stmt d s ++ [PT RSemi; nl]) ss) b.
Proof.
  intros Hpre H. induction ss as [|s r IH]; [exact I|]. cbn [flat_map].
  apply PO_app.
  - apply Hpre. apply PO_app; [apply H; [left; reflexivity|reflexivity]|].
    cbn [PO]. split; [repeat split|]. split; [apply follow_free; reflexivity|]. split; [reflexivity|exact I].
  - apply IH. intros s' Hs'. apply H. right. exact Hs'.
Qed.

Theorem pretty_PO_main : forall n,
  (forall t, (size t <= n)%nat -> forall depth b, dstart b -> toks_ok (pretty depth t) -> PO (pretty depth t) b) /\
  (forall s, (size_stmt s <= n)%nat -> forall depth b, dstart b -> toks_ok (pretty_stmt depth s) -> PO (pretty_stmt depth s) b).
Proof.
  destruct tok_ok_punct as (KRO & KRC & KSO & KSC & KCO & KCC & KSE & KCM & KEQ & KPR & KMI).
  induction n as [|n [IHt IHs]].
  { split; intros x Hsz; destruct x; cbn in Hsz; lia. }
  split.
  - intros t Hsz depth b Hb Hok. destruct t as [l|v|nm|s a|j s l r|es|ss|a].
    + cbn [pretty] in *. apply PO_single; [apply (toks_ok_hd _ _ Hok)|exact Hb].
    + cbn [pretty] in *. apply PO_single; [apply (toks_ok_hd _ _ Hok)|exact Hb].
    + cbn [pretty] in *. apply PO_single; [apply (toks_ok_hd _ _ Hok)|exact Hb].
    + cbn [size] in Hsz. cbn [pretty] in *. cbn [PO].
      split; [apply (toks_ok_hd _ _ Hok)|]. split; [apply follow_dstart; reflexivity|]. split; [reflexivity|].
      apply PO_paren; [exact Hb|]. intros b' Hb'. apply IHt; [lia|exact Hb'|].
      apply toks_ok_cons, toks_ok_cons, toks_ok_paren in Hok. exact Hok.
    + cbn [size] in Hsz. cbn [pretty] in *. destruct (toks_ok_app _ _ Hok) as [Hl Hr].
      apply PO_app.
      * apply PO_paren; [reflexivity|]. intros b' Hb'. apply IHt; [lia|exact Hb'|]. apply toks_ok_paren in Hl. exact Hl.
      * cbn [PO]. split; [reflexivity|]. split; [apply (toks_ok_hd _ _ (toks_ok_cons _ _ Hr))|].
        split; [apply follow_dstart; reflexivity|]. split; [reflexivity|].
        apply PO_paren; [exact Hb|]. intros b' Hb'. apply IHt; [lia|exact Hb'|].
        apply toks_ok_cons, toks_ok_cons, toks_ok_cons, toks_ok_paren in Hr. exact Hr.
    + change (size (Arr es)) with (S (fold_right (fun e n => (size e + n)%nat) 0%nat es)) in Hsz.
      cbn [pretty] in *. cbn [PO]. split; [exact KSO|]. split; [apply follow_free; reflexivity|].
      apply PO_app.
      * apply PO_join; auto; [reflexivity|reflexivity|].
        intros e He b' Hb'. apply in_map_iff in He. destruct He as (x & <- & Hx).
        pose proof (size_in x es Hx). apply IHt; [lia|exact Hb'|].
        intros t Ht. apply Hok. right. apply in_or_app. left.
        apply (in_join _ _ _ (pretty depth x)); [apply in_map; exact Hx|exact Ht].
      * apply PO_single; assumption.
    + change (size (Code ss)) with (S (fold_right (fun s n => (size_stmt s + n)%nat) 0%nat ss)) in Hsz.
      rewrite pretty_code in *. destruct ss as [|s0 r].
      * cbn [PO]. split; [exact KCO|]. split; [apply follow_free; reflexivity|]. apply PO_indent. apply PO_single; assumption.
      * cbn [PO]. split; [exact KCO|]. split; [apply follow_free; reflexivity|]. split; [reflexivity|].
        apply toks_ok_cons, toks_ok_cons, toks_ok_app in Hok. destruct Hok as [Hok _].
        apply PO_app.
        -- apply PO_stmts; [intros ps b'; apply PO_indent|].
           intros s Hs b' Hb'. pose proof (size_stmt_in s _ Hs). apply IHs; [lia|exact Hb'|].
           pose proof (toks_ok_flat _ _ s Hok Hs) as H1. cbn beta in H1. apply toks_ok_app in H1. destruct H1 as [_ H1].
           apply toks_ok_app in H1. apply H1.
        -- apply PO_indent. apply PO_single; assumption.
    + cbn [size] in Hsz. cbn [pretty] in *. apply IHt; [lia|exact Hb|exact Hok].
  - intros s Hsz depth b Hb Hok. rewrite size_stmt_unfold in Hsz. rewrite pretty_stmt_unfold in *.
    destruct s as [e|x e|x e].
    + apply IHt; [lia|exact Hb|exact Hok].
    + assert (Hgen: forall nm, toks_ok (PT (RIdent nm) :: sp :: PT REqual :: sp :: pretty depth e) ->
                PO (PT (RIdent nm) :: sp :: PT REqual :: sp :: pretty depth e) b).
      { intros nm Hok'. cbn [PO]. split; [apply (toks_ok_hd _ _ Hok')|]. split; [apply follow_dstart; reflexivity|]. split; [reflexivity|].
        split; [exact KEQ|]. split; [apply follow_dstart; reflexivity|]. split; [reflexivity|].
        apply IHt; [lia|exact Hb|]. do 4 apply toks_ok_cons in Hok'. exact Hok'. }
      destruct x; try (apply IHt; [lia|exact Hb|exact Hok]); apply Hgen; exact Hok.
    + cbn [PO]. split; [exact KPR|]. split; [apply follow_dstart; reflexivity|]. split; [reflexivity|].
      split; [apply (toks_ok_hd _ _ (toks_ok_cons _ _ (toks_ok_cons _ _ Hok)))|]. split; [apply follow_dstart; reflexivity|]. split; [reflexivity|].
      split; [exact KEQ|]. split; [apply follow_dstart; reflexivity|]. split; [reflexivity|].
      apply IHt; [lia|exact Hb|]. do 6 apply toks_ok_cons in Hok. exact Hok.
Qed.

Lemma pretty_program_lex ss : toks_ok (pretty_program ss) ->
  lex (pieces_text (pretty_program ss)) = LexOk (pieces_toks (pretty_program ss)).
Proof.
  intros Hok. apply lex_pieces. apply PO_nil. unfold pretty_program in *.
  change (fun s => pretty_stmt 0 s ++ [PT RSemi; nl]) with (fun s => [] ++ pretty_stmt 0 s ++ [PT RSemi; nl]) in *.
  apply PO_stmts; [intros ps b' H; exact H|].
  intros s Hs b' Hb'. apply (proj2 (pretty_PO_main (size_stmt s))); [lia|exact Hb'|].
  pose proof (toks_ok_flat _ _ s Hok Hs) as H1. cbn beta in H1. cbn [app] in H1. apply toks_ok_app in H1. apply H1.
Qed.

(* ------------------------------------------------------------------ the printed tree is well formed; erasing its Par nodes gives pnorm *)
Section WfP.
Variable R : registry.

Theorem wf_pimpl_main : forall n,
  (forall t, (size t <= n)%nat -> wfb R t = true -> wfb R (pimpl t) = true) /\
  (forall s, (size_stmt s <= n)%nat -> wfb_stmt R s = true -> wfb_stmt R (pimpl_stmt s) = true).
Proof.
  induction n as [|n [IHt IHs]].
  { split; intros x Hsz; destruct x; cbn in Hsz; lia. }
  split.
  - intros t Hsz Hwf. destruct t as [l|v|nm|s a|j s l r|es|ss|a].
    + reflexivity.
    + exact Hwf.
    + exact Hwf.
    + cbn [size] in Hsz. cbn [wfb] in Hwf. apply andb_prop in Hwf. destruct Hwf as [Hu Ha].
      cbn [pimpl wfb]. rewrite name_tok_lower.
      assert (Hop: wfb R (if forced (lower s) a && negb (is_bin a) then Par (pimpl a) else pimpl a) = true).
      { destruct (forced (lower s) a && negb (is_bin a)); cbn [wfb]; apply IHt; auto; lia. }
      rewrite Hop, andb_true_r. destruct (name_tok R s); try discriminate; exact Hu.
    + cbn [size] in Hsz. cbn [wfb] in Hwf. apply andb_prop in Hwf. destruct Hwf as [Hwf Hr]. apply andb_prop in Hwf. destruct Hwf as [Hwf Hl].
      apply andb_prop in Hwf. destruct Hwf as [Hj Hc].
      cbn [pimpl wfb]. rewrite Hj, name_tok_lower, !IHt by (auto; lia). rewrite !andb_true_r. cbn [andb].
      destruct (name_tok R s); try discriminate; exact Hc.
    + change (size (Arr es)) with (S (fold_right (fun e n => (size e + n)%nat) 0%nat es)) in Hsz.
      cbn [wfb pimpl] in *. rewrite forallb_forall in *. intros x Hx. apply in_map_iff in Hx. destruct Hx as (e & <- & He).
      pose proof (size_in e es He). apply IHt; [lia|apply Hwf; exact He].
    + change (size (Code ss)) with (S (fold_right (fun s n => (size_stmt s + n)%nat) 0%nat ss)) in Hsz.
      change (wfb R (Code ss)) with (forallb (wfb_stmt R) ss) in Hwf.
      change (wfb R (pimpl (Code ss))) with (forallb (wfb_stmt R) (map pimpl_stmt ss)).
      rewrite forallb_forall in *. intros x Hx. apply in_map_iff in Hx. destruct Hx as (s & <- & Hs).
      pose proof (size_stmt_in s ss Hs). apply IHs; [lia|apply Hwf; exact Hs].
    + cbn [size] in Hsz. cbn [wfb pimpl] in *. apply IHt; [lia|exact Hwf].
  - intros s Hsz Hwf. rewrite size_stmt_unfold in Hsz. rewrite pimpl_stmt_unfold. rewrite (CodeRoundtrip.wfb_stmt_unfold R) in *.
    destruct s as [e|x e|x e].
    + apply IHt; [lia|exact Hwf].
    + apply andb_prop in Hwf. destruct Hwf as [Hx He]. rewrite Hx, IHt by (auto; lia). reflexivity.
    + apply andb_prop in Hwf. destruct Hwf as [Hx He]. rewrite Hx, IHt by (auto; lia). reflexivity.
Qed.
End WfP.

Theorem strip_pimpl_main : forall n,
  (forall t, (size t <= n)%nat -> noparb t = true -> strip (pimpl t) = pnorm t) /\
  (forall s, (size_stmt s <= n)%nat -> noparb_stmt s = true -> strip_stmt (pimpl_stmt s) = pnorm_stmt s).
Proof.
  induction n as [|n [IHt IHs]].
  { split; intros x Hsz; destruct x; cbn in Hsz; lia. }
  split.
  - intros t Hsz Hp. destruct t as [l|v|nm|s a|j s l r|es|ss|a]; try reflexivity.
    + cbn [size] in Hsz. cbn [noparb] in Hp. cbn [pimpl pnorm strip].
      destruct (forced (lower s) a && negb (is_bin a)); cbn [strip]; rewrite IHt by (auto; lia); reflexivity.
    + cbn [size] in Hsz. cbn [noparb] in Hp. apply andb_prop in Hp. destruct Hp as [Hpl Hpr].
      cbn [pimpl pnorm strip]. rewrite !IHt by (auto; lia). reflexivity.
    + change (size (Arr es)) with (S (fold_right (fun e n => (size e + n)%nat) 0%nat es)) in Hsz.
      cbn [noparb] in Hp. rewrite forallb_forall in Hp. cbn [pimpl pnorm strip]. f_equal. rewrite map_map.
      apply map_ext_in. intros e He. pose proof (size_in e es He). apply IHt; [lia|auto].
    + change (size (Code ss)) with (S (fold_right (fun s n => (size_stmt s + n)%nat) 0%nat ss)) in Hsz.
      change (noparb (Code ss)) with (forallb noparb_stmt ss) in Hp. rewrite forallb_forall in Hp.
      change (strip (pimpl (Code ss))) with (Code (map strip_stmt (map pimpl_stmt ss))).
      change (pnorm (Code ss)) with (Code (map pnorm_stmt ss)). f_equal. rewrite map_map.
      apply map_ext_in. intros s Hs. pose proof (size_stmt_in s ss Hs). apply IHs; [lia|auto].
    + discriminate.
  - intros s Hsz Hp. rewrite size_stmt_unfold in Hsz. rewrite noparb_stmt_unfold in Hp.
    rewrite pimpl_stmt_unfold, pnorm_stmt_unfold. destruct s as [e|x e|x e]; rewrite strip_stmt_unfold.
    + rewrite IHt by (auto; lia). reflexivity.
    + apply andb_prop in Hp. destruct Hp as [Hx He]. rewrite IHt by (auto; lia).
      rewrite (proj1 (ParsePrint.strip_nopar (size x)) x (le_n _) Hx). reflexivity.
    + rewrite IHt by (auto; lia). reflexivity.
Qed.

(* ------------------------------------------------------------------ the normalised tree compiles to the same instructions *)
Lemma hexnorm_kind l : ((exists s, l = LNum s) \/ (exists s, l = LHex s)) -> (exists s, hexnorm l = LNum s) \/ (exists s, hexnorm l = LHex s).
Proof.
  intros [[s ->]|[s ->]]; [left; eexists; reflexivity|right]. destruct s as [|c r]; cbn [hexnorm]; [eexists; reflexivity|].
  destruct (c =? 36)%Z; eexists; reflexivity.
Qed.
Lemma unsigned_pnorm a : unsigned_num (pnorm a) = option_map hexnorm (unsigned_num a).
Proof.
  induction a; cbn [pnorm unsigned_num option_map]; try reflexivity.
  - destruct l as [s|s|s|s|s]; try reflexivity. destruct s as [|c r]; [reflexivity|]. cbn [hexnorm option_map]. destruct (c =? 36)%Z; reflexivity.
  - rewrite lower_sym_plus. destruct (text_eqb s sym_plus); [exact IHa|reflexivity].
  - exact IHa.
Qed.

Theorem postorder_pnorm_main : forall n,
  (forall t, (size t <= n)%nat -> postorder (pnorm t) = map (mapl_i hexnorm) (postorder t)) /\
  (forall s, (size_stmt s <= n)%nat -> postorder_stmt (pnorm_stmt s) = map (mapl_i hexnorm) (postorder_stmt s)).
Proof.
  induction n as [|n [IHt IHs]].
  { split; intros x Hsz; destruct x; cbn in Hsz; lia. }
  split.
  - intros t Hsz. destruct t as [l|v|nm|s a|j s l r|es|ss|a].
    + reflexivity.
    + reflexivity.
    + reflexivity.
    + cbn [size] in Hsz. cbn [pnorm postorder]. rewrite unsigned_pnorm, lower_sym_minus, lower_sym_plus, lower_idem.
      destruct (unsigned_num a) as [l|] eqn:Eu; cbn [option_map].
      * destruct (text_eqb s sym_minus); [reflexivity|]. destruct (text_eqb s sym_plus); [reflexivity|].
        rewrite IHt by lia. rewrite map_app. reflexivity.
      * rewrite IHt by lia. rewrite map_app. reflexivity.
    + cbn [size] in Hsz. cbn [pnorm postorder]. rewrite !IHt by lia. rewrite lower_idem, !map_app. reflexivity.
    + change (size (Arr es)) with (S (fold_right (fun e n => (size e + n)%nat) 0%nat es)) in Hsz.
      cbn [pnorm postorder]. rewrite map_app, map_length. cbn [map mapl_i]. f_equal.
      assert (Hin: forall e, In e es -> (size e <= n)%nat) by (intros e He; pose proof (size_in e es He); lia). clear Hsz.
      induction es as [|e es IH]; [reflexivity|]. cbn [map flat_map]. rewrite map_app, IHt by (apply Hin; left; reflexivity).
      rewrite IH by (intros; apply Hin; right; assumption). reflexivity.
    + change (size (Code ss)) with (S (fold_right (fun s n => (size_stmt s + n)%nat) 0%nat ss)) in Hsz.
      change (postorder (pnorm (Code ss))) with [IPush (PCode (join [IEndStatement] (map postorder_stmt (map pnorm_stmt ss))))].
      change (postorder (Code ss)) with [IPush (PCode (join [IEndStatement] (map postorder_stmt ss)))].
      cbn [map mapl_i]. f_equal. f_equal. f_equal. rewrite map_join. cbn [map mapl_i]. f_equal.
      rewrite !map_map. apply map_ext_in. intros s Hs. pose proof (size_stmt_in s ss Hs). apply IHs. lia.
    + cbn [size] in Hsz. cbn [pnorm postorder]. apply IHt. lia.
  - intros s Hsz. rewrite size_stmt_unfold in Hsz. rewrite pnorm_stmt_unfold. rewrite !postorder_stmt_unfold.
    destruct s as [e|x e|x e].
    + apply IHt. lia.
    + rewrite IHt by lia. rewrite map_app. reflexivity.
    + rewrite IHt by lia. rewrite map_app. reflexivity.
Qed.
Lemma postorder_block_pnorm ss : postorder_block (map pnorm_stmt ss) = map (mapl_i hexnorm) (postorder_block ss).
Proof.
  unfold postorder_block. rewrite map_join. cbn [map mapl_i]. f_equal. rewrite !map_map. apply map_ext. intros s.
  apply (proj2 (postorder_pnorm_main (size_stmt s))). lia.
Qed.

(* a program without `$` literals is compiled to the very same instructions *)
Fixpoint nodollar_i (i:instr) : bool :=
  match i with
  | IPush (PLit _ (LHex (c :: _))) => negb (c =? 36)%Z
  | IPush (PCode c) => forallb nodollar_i c
  | _ => true
  end.
Lemma mapl_hexnorm_id : forall n i, (isize i <= n)%nat -> nodollar_i i = true -> mapl_i hexnorm i = i.
Proof.
  induction n as [|n IH]; intros i Hsz Hnd.
  { pose proof (isize_pos i). lia. }
  destruct i as [[neg l|c]| | | | | | | |]; try reflexivity.
  - cbn [mapl_i]. destruct l as [s|s|s|s|s]; try reflexivity. destruct s as [|c r]; [reflexivity|].
    cbn [nodollar_i] in Hnd. cbn [hexnorm]. destruct (c =? 36)%Z; [discriminate|reflexivity].
  - cbn [mapl_i]. f_equal. f_equal. cbn [nodollar_i] in Hnd. rewrite forallb_forall in Hnd.
    rewrite <- (map_id c) at 2. apply map_ext_in. intros i Hi. apply IH; [|auto].
    cbn [isize] in Hsz. assert (isize i <= fold_right (fun i n => (isize i + n)%nat) 0%nat c)%nat; [|lia].
    clear -Hi. induction c as [|x c IHc]; [destruct Hi|]. cbn [fold_right]. destruct Hi as [->|Hi]; [lia|]. specialize (IHc Hi). lia.
Qed.
Lemma map_hexnorm_id c : forallb nodollar_i c = true -> map (mapl_i hexnorm) c = c.
Proof.
  intros H. rewrite forallb_forall in H. rewrite <- (map_id c) at 2. apply map_ext_in. intros i Hi.
  apply (mapl_hexnorm_id (isize i)); auto.
Qed.

(* ------------------------------------------------------------------ C06: the pretty printer round-trips *)
(* For every registry and every well-formed program ss as the parser returns it (no Par nodes - the parser drops
   source parentheses, parser.y:299): if every token of the printed text is spelled so that it reads as itself
   (the formatter writes the tokens of the source, names in lower case and `$ff` as `0xff`), then for all
   sufficiently large fuel the printed text is parsed to the program itself up to that respelling (pnorm), and
   that program compiles to the instructions of ss with every `$` hex literal spelled `0x`. *)
Theorem pretty_roundtrip : forall (R:registry) (d:defects) (ss:list stmt),
  wf_block R ss -> forallb noparb_stmt ss = true -> toks_ok (pretty_program ss) ->
  exists f0, forall f, (f0 <= f)%nat ->
    parse_text d R f (pieces_text (pretty_program ss)) = FOk (map pnorm_stmt ss) /\
    exists c, compile_block ss = Some c /\ compile_block (map pnorm_stmt ss) = Some (map (mapl_i hexnorm) c).
Proof.
  intros R d ss Hwf Hnp Hok.
  assert (Hlev: forallb levels_ok_stmt ss = true).
  { unfold wf_block in Hwf. rewrite forallb_forall in *. intros s Hs. apply (proj2 (wf_levels_main R (size_stmt s))); auto. }
  assert (Hwf': wf_block R (map pimpl_stmt ss)).
  { unfold wf_block in *. rewrite forallb_forall in *. intros x Hx. apply in_map_iff in Hx. destruct Hx as (s & <- & Hs).
    apply (proj2 (wf_pimpl_main R (size_stmt s))); auto. }
  destruct (parse_printg_block R d pretty_layf _ Hwf') as [f0 Hp].
  exists f0. intros f Hf. split.
  - unfold parse_text. rewrite (pretty_program_lex ss Hok).
    fold (TK (classify R) (pretty_program ss)). rewrite (pretty_program_toks (classify R) ss Hnp Hlev).
    fold (printg_toks R pretty_layf (map pimpl_stmt ss)). rewrite (Hp f Hf). f_equal. rewrite map_map.
    apply map_ext_in. intros s Hs. apply (proj2 (strip_pimpl_main (size_stmt s))); [lia|].
    rewrite forallb_forall in Hnp. auto.
  - exists (postorder_block ss). split; [apply compile_block_postorder|].
    rewrite compile_block_postorder, postorder_block_pnorm. reflexivity.
Qed.

(* ... to the very same instruction sequence when the program has no `$` literal (for one that has, the two
   sequences differ in the spelling of that literal only; both spellings denote the same number, see
   Properties_C06_code.v) *)
Corollary pretty_roundtrip_same : forall (R:registry) (d:defects) (ss:list stmt),
  wf_block R ss -> forallb noparb_stmt ss = true -> toks_ok (pretty_program ss) ->
  forallb nodollar_i (postorder_block ss) = true ->
  exists f0, forall f, (f0 <= f)%nat ->
    exists ss', parse_text d R f (pieces_text (pretty_program ss)) = FOk ss' /\ compile_block ss' = compile_block ss.
Proof.
  intros R d ss Hwf Hnp Hok Hnd. destruct (pretty_roundtrip R d ss Hwf Hnp Hok) as [f0 H].
  exists f0. intros f Hf. destruct (H f Hf) as (Hparse & c & Hc & Hc'). exists (map pnorm_stmt ss). split; [exact Hparse|].
  rewrite Hc', Hc. f_equal. rewrite compile_block_postorder in Hc. injection Hc as <-. apply map_hexnorm_id. exact Hnd.
Qed.

(* the respelling keeps the number: sqf_parser.cpp:98-120 turns `$..` into `0x..` itself before std::stol
   (NumDefs.lit_hex, the literal conversion of the number half of C06) *)
Lemma hex_respelling_value (r:list Z) : NumDefs.lit_hex (48%Z :: 120%Z :: r) = NumDefs.lit_hex (36%Z :: r).
Proof. reflexivity. Qed.
Lemma hexnorm_value l : match l, hexnorm l with
                        | LHex s, LHex s' => NumDefs.lit_hex s' = NumDefs.lit_hex s
                        | _, l' => l' = l
                        end.
Proof.
  destruct l as [s|s|s|s|s]; try reflexivity. destruct s as [|c r]; [reflexivity|]. cbn [hexnorm].
  destruct (Z.eqb_spec c 36); [subst; apply hex_respelling_value|reflexivity].
Qed.

(* ------------------------------------------------------------------ the hypotheses are satisfiable: a worked program *)
Lemma toks_ok_Forall ps : Forall (fun p => match p with PT t => tok_ok t | PW _ => True end) ps -> toks_ok ps.
Proof. intros H t Ht. rewrite Forall_forall in H. exact (H (PT t) Ht). Qed.

Definition ex_R : registry := fun key =>
  if text_eqb key [43%Z] then {| oi_bin := Some 6%nat; oi_un := true; oi_nul := false |}
  else if text_eqb key [45%Z] then {| oi_bin := Some 6%nat; oi_un := true; oi_nul := false |}
  else if text_eqb key [42%Z] then {| oi_bin := Some 7%nat; oi_un := false; oi_nul := false |}
  else if text_eqb key [33%Z] then {| oi_bin := None; oi_un := true; oi_nul := false |}
  else if text_eqb key kw_if then {| oi_bin := None; oi_un := true; oi_nul := false |}
  else if text_eqb key (s2b "then"%string) then {| oi_bin := Some 4%nat; oi_un := false; oi_nul := false |}
  else if text_eqb key (s2b "count"%string) then {| oi_bin := Some 4%nat; oi_un := true; oi_nul := false |}
  else if text_eqb key (s2b "player"%string) then {| oi_bin := None; oi_un := false; oi_nul := true |}
  else no_op.
Definition ex_src : text := Eval compute in
  s2b "IF (a + b) THEN {x = $fF * (a + b) * (c * Player); private y = ! a; {}; Count (a + b)}; if ! a then {[a, + (a * b), {}, -5, ""s""]}"%string.
Definition ex_prog : list stmt := Eval vm_compute in match parse_text as_is ex_R 200 ex_src with FOk p => p | _ => [] end.
Definition ex_out : text := Eval vm_compute in pieces_text (pretty_program ex_prog).

Example ex_hyps : ex_prog <> [] /\ wf_block ex_R ex_prog /\ forallb noparb_stmt ex_prog = true /\ toks_ok (pretty_program ex_prog).
Proof.
  split; [discriminate|]. split; [vm_compute; reflexivity|]. split; [vm_compute; reflexivity|].
  apply toks_ok_Forall.
  let l := eval vm_compute in (pretty_program ex_prog) in change (pretty_program ex_prog) with l.
  repeat (apply Forall_cons; [cbv beta iota; first [exact I | split; [vm_compute; reflexivity|vm_compute; first [exact I|reflexivity]]]|]).
  apply Forall_nil.
Qed.
Definition NLs : String.string := String.String (Ascii.ascii_of_nat 10) String.EmptyString.
Example ex_roundtrip :
  parse_text as_is ex_R 200 ex_out = FOk (map pnorm_stmt ex_prog) /\
  compile_block (map pnorm_stmt ex_prog) = option_map (map (mapl_i hexnorm)) (compile_block ex_prog) /\
  compile_block (map pnorm_stmt ex_prog) <> compile_block ex_prog /\
  ex_out = s2b (String.concat NLs
    ["if (a + b) then {";
     "    x = 0xfF * (a + b) * (c * Player);";
     "    private y = ! (a);";
     "    {    };";
     "    count (a + b);";
     "};";
     "if ! (a) then {";
     "    [a, + (a * b), {    }, - 5, ""s""];";
     "};"; ""]%string).
Proof. split; [vm_compute; reflexivity|]. split; [vm_compute; reflexivity|]. split; [vm_compute; discriminate|vm_compute; reflexivity]. Qed.
