(* What the parser model returns: every node of the tree is built from tokens of the input, in the class
   the grammar rule asks for, and there is no Par node (parser.y:299 `$$ = $2`).  From this: the tree of an
   accepted text has no Par nodes; if every token of the text reads as itself it is spelled; if moreover no
   name is used as a nular operand although it is also unary, and every assignment target is a variable, it
   is well formed for the registry (wf_block).  The three side conditions are needed - see the witnesses at the
   end. *)
From Coq Require Import ZArith List Bool Arith Lia.
Import ListNotations.
From SqfVerif Require Import Syntax.SyntaxDefs Syntax.ParseEqs Syntax.LexProofs Syntax.CompileProofs Syntax.CodeRoundtrip
  Syntax.PrettyRoundtrip Syntax.PrettySpelling.

Definition nulcap (d:defects) (c:opclass) : bool :=
  match c with CN | CBN _ | CBUN _ => true | CUN => negb (d_un_no_operand d) | _ => false end.
Definition lit_tok (l:lit) : tok :=
  match l with LNum s => TNumber s | LHex s => THex s | LStr s => TString s | LTrue s => TTrue s | LFalse s => TFalse s end.

Lemma fold_and_intro {X} (P:X -> Prop) l : (forall e, In e l -> P e) -> fold_right (fun e Q => P e /\ Q) True l.
Proof. induction l as [|x l IH]; cbn; intros H; [exact I|]. split; [apply H; left; reflexivity|apply IH; intros; apply H; right; assumption]. Qed.

Section Inv.
Variable d : defects.
Variable TS : list tok.

Fixpoint G (t:tree) : Prop :=
  match t with
  | Lit l => In (lit_tok l) TS
  | Var s => In (TIdent s) TS
  | Nul s => exists c, In (TOp c s) TS /\ nulcap d c = true
  | Un s a => (In (TPrivate s) TS \/ exists c, In (TOp c s) TS /\ is_unclass c = true) /\ G a
  | Bin k s l r => (k < NLEV)%nat /\ (exists c, In (TOp c s) TS /\ is_binclass k c = true) /\ G l /\ G r
  | Arr es => fold_right (fun e P => G e /\ P) True es
  | Code ss => fold_right (fun s P => GS s /\ P) True ss
  | Par _ => False
  end
with GS (s:stmt) : Prop :=
  match s with
  | SExpr e => G e
  | SAssign x e => G x /\ G e
  | SLocal x e => In (TIdent x) TS /\ G e
  end.

Lemma incl_skip_seps ts : incl (skip_seps ts) ts.
Proof. induction ts as [|t r IH]; [apply incl_refl|]. cbn [skip_seps]. destruct (is_sep t); [apply incl_tl; exact IH|apply incl_refl]. Qed.

Ltac inc := first [assumption | apply incl_refl | apply incl_tl; inc | eapply incl_tran; [eassumption|inc] | eapply incl_tran; [|eassumption]; inc].

Lemma inv_gen : forall f,
  (forall k ts e r, incl ts TS -> p_exp d f k ts = POk (e, r) -> G e /\ incl r ts) /\
  (forall k acc ts e r, (k < NLEV)%nat -> incl ts TS -> G acc -> p_loop d f k acc ts = POk (e, r) -> G e /\ incl r ts) /\
  (forall ts es r, incl ts TS -> p_items d f ts = POk (es, r) -> (forall e, In e es -> G e) /\ incl r ts) /\
  (forall ts ss r, incl ts TS -> p_stmts d f ts = POk (ss, r) -> (forall s, In s ss -> GS s) /\ incl r ts) /\
  (forall ts s r, incl ts TS -> p_stmt d f ts = POk (s, r) -> GS s /\ incl r ts).
Proof.
  induction f as [|f (IHe & IHl & IHi & IHss & IHs)].
  { repeat split; intros; discriminate. }
  split; [|split; [|split; [|split]]].
  - (* p_exp *)
    intros k ts e r Hin H. rewrite p_exp_S in H. destruct (NLEV <=? k)%nat eqn:Ek.
    + destruct ts as [|t r0]; [discriminate|]. cbv zeta in H.
      assert (Ht: In t TS) by (apply Hin; left; reflexivity).
      assert (Hr0: incl r0 TS) by (intros x Hx; apply Hin; right; exact Hx).
      assert (UN: forall s, tok_name t = s -> (In (TPrivate s) TS \/ exists c, In (TOp c s) TS /\ is_unclass c = true) ->
                  match p_exp d f NLEV r0 with POk (a, r') => POk (Un (tok_name t) a, r') | PErr => PErr | POut => POut end = POk (e, r) ->
                  G e /\ incl r (t :: r0)).
      { intros s Hs Hc HU. destruct (p_exp d f NLEV r0) as [[a r']| |] eqn:E; try discriminate. injection HU as <- <-.
        destruct (IHe _ _ _ _ Hr0 E) as [Ga Hi]. split; [cbn [G]; rewrite Hs; split; assumption|apply incl_tl; exact Hi]. }
      destruct t; try discriminate.
      * injection H as <- <-. split; [exact Ht|apply incl_tl, incl_refl].
      * injection H as <- <-. split; [exact Ht|apply incl_tl, incl_refl].
      * apply (UN s eq_refl); [left; exact Ht|exact H].
      * destruct (p_stmts d f r0) as [[ss r']| |] eqn:E; try discriminate.
        destruct r' as [|t' r'']; try discriminate. destruct t'; try discriminate. injection H as <- <-.
        destruct (IHss _ _ _ Hr0 E) as [Gs Hi]. split; [cbn [G]; apply fold_and_intro; exact Gs|].
        apply incl_tl. intros x Hx. apply Hi. right. exact Hx.
      * destruct (p_exp d f 0%nat r0) as [[e0 r']| |] eqn:E; try discriminate.
        destruct r' as [|t' r'']; try discriminate. destruct t'; try discriminate. injection H as <- <-.
        destruct (IHe _ _ _ _ Hr0 E) as [Ge Hi]. split; [exact Ge|].
        apply incl_tl. intros x Hx. apply Hi. right. exact Hx.
      * assert (HI: match p_items d f r0 with POk (es, r') => POk (Arr es, r') | PErr => PErr | POut => POut end = POk (e, r) -> G e /\ incl r (TSquareO :: r0)).
        { intros HU. destruct (p_items d f r0) as [[es r']| |] eqn:E; try discriminate. injection HU as <- <-.
          destruct (IHi _ _ _ Hr0 E) as [Ge Hi]. split; [cbn [G]; apply fold_and_intro; exact Ge|apply incl_tl; exact Hi]. }
        destruct r0 as [|t' r'']; [apply HI; exact H|].
        destruct t'; try (apply HI; exact H).
        injection H as <- <-. split; [exact I|apply incl_tl, incl_tl, incl_refl].
      * (* operators *)
        destruct c as [j|j|j|j| | |]; try discriminate.
        -- apply (UN s eq_refl); [right; exists (CBU j); split; [exact Ht|reflexivity]|exact H].
        -- injection H as <- <-. split; [exists (CBN j); split; [exact Ht|reflexivity]|apply incl_tl, incl_refl].
        -- destruct (next_starts_expu r0).
           ++ apply (UN s eq_refl); [right; exists (CBUN j); split; [exact Ht|reflexivity]|exact H].
           ++ injection H as <- <-. split; [exists (CBUN j); split; [exact Ht|reflexivity]|apply incl_tl, incl_refl].
        -- apply (UN s eq_refl); [right; exists CU; split; [exact Ht|reflexivity]|exact H].
        -- injection H as <- <-. split; [exists CN; split; [exact Ht|reflexivity]|apply incl_tl, incl_refl].
        -- destruct (next_starts_expu r0).
           ++ apply (UN s eq_refl); [right; exists CUN; split; [exact Ht|reflexivity]|exact H].
           ++ destruct (d_un_no_operand d) eqn:Ed; [discriminate|].
              injection H as <- <-. split; [exists CUN; split; [exact Ht|cbn; rewrite Ed; reflexivity]|apply incl_tl, incl_refl].
      * injection H as <- <-. split; [exact Ht|apply incl_tl, incl_refl].
      * injection H as <- <-. split; [exact Ht|apply incl_tl, incl_refl].
      * injection H as <- <-. split; [exact Ht|apply incl_tl, incl_refl].
      * injection H as <- <-. split; [exact Ht|apply incl_tl, incl_refl].
    + destruct (p_exp d f (S k) ts) as [[l r1]| |] eqn:E; try discriminate.
      destruct (IHe _ _ _ _ Hin E) as [Gl Hi].
      apply Nat.leb_gt in Ek.
      destruct (IHl k l r1 e r Ek ltac:(eapply incl_tran; eassumption) Gl H) as [Ge Hi2].
      split; [exact Ge|eapply incl_tran; eassumption].
  - (* p_loop *)
    intros k acc ts e r Hk Hin Ga H. rewrite p_loop_S in H.
    destruct ts as [|o r0]; [injection H as <- <-; split; [exact Ga|apply incl_refl]|].
    destruct (binlevel o) as [j|] eqn:Eb; [|injection H as <- <-; split; [exact Ga|apply incl_refl]].
    destruct (Nat.eqb_spec j k) as [->|Hne]; [|injection H as <- <-; split; [exact Ga|apply incl_refl]].
    destruct (p_exp d f (S k) r0) as [[x r']| |] eqn:E; try discriminate.
    assert (Hr0: incl r0 TS) by (intros y Hy; apply Hin; right; exact Hy).
    destruct (IHe _ _ _ _ Hr0 E) as [Gx Hi].
    assert (Gb: G (Bin k (tok_name o) acc x)).
    { cbn [G]. split; [exact Hk|]. split; [|split; assumption].
      assert (Ho: In o TS) by (apply Hin; left; reflexivity).
      destruct o; try discriminate. cbn [tok_name]. exists c. split; [exact Ho|].
      destruct c; cbn in Eb; try discriminate; injection Eb as ->; cbn; apply Nat.eqb_refl. }
    destruct (IHl k _ r' e r Hk ltac:(eapply incl_tran; eassumption) Gb H) as [Ge Hi2].
    split; [exact Ge|]. apply incl_tl. eapply incl_tran; eassumption.
  - (* p_items *)
    intros ts es r Hin H. rewrite p_items_S in H.
    destruct (p_exp d f 0%nat ts) as [[e0 r1]| |] eqn:E; try discriminate.
    destruct (IHe _ _ _ _ Hin E) as [Ge Hi].
    destruct r1 as [|t1 r1']; try discriminate. destruct t1; try discriminate.
    + injection H as <- <-. split; [intros x [<-|[]]; exact Ge|]. intros y Hy. apply Hi. right. exact Hy.
    + destruct (p_items d f r1') as [[es' r'']| |] eqn:E2; try discriminate. injection H as <- <-.
      assert (H1: incl r1' TS) by (intros y Hy; apply Hin, Hi; right; exact Hy).
      destruct (IHi _ _ _ H1 E2) as [Ges Hi2].
      split; [intros x [<-|Hx]; [exact Ge|apply Ges; exact Hx]|]. intros y Hy. apply Hi. right. apply Hi2. exact Hy.
  - (* p_stmts *)
    intros ts ss r Hin H. rewrite p_stmts_S in H. pose proof (incl_skip_seps ts) as Hsk.
    destruct (skip_seps ts) as [|t0 r0] eqn:Es; [injection H as <- <-; split; [intros s []|intros y []]|].
    assert (Hin0: incl (t0 :: r0) TS) by (eapply incl_tran; eassumption).
    assert (GEN: match p_stmt d f (t0 :: r0) with
                 | POk (s, r1) => match r1 with
                                  | t :: _ => if is_sep t then match p_stmts d f r1 with POk (ss, r') => POk (s :: ss, r') | PErr => PErr | POut => POut end
                                              else POk ([s], r1)
                                  | [] => POk ([s], r1)
                                  end
                 | PErr => PErr | POut => POut end = POk (ss, r) -> (forall s, In s ss -> GS s) /\ incl r ts).
    { intros HU. destruct (p_stmt d f (t0 :: r0)) as [[s r1]| |] eqn:E; try discriminate.
      destruct (IHs _ _ _ Hin0 E) as [Gs Hi].
      assert (ONE: POk ([s], r1) = POk (ss, r) -> (forall s, In s ss -> GS s) /\ incl r ts).
      { intros HO. injection HO as <- <-. split; [intros x [<-|[]]; exact Gs|eapply incl_tran; eassumption]. }
      destruct r1 as [|t1 r1']; [apply ONE; exact HU|]. destruct (is_sep t1); [|apply ONE; exact HU].
      destruct (p_stmts d f (t1 :: r1')) as [[ss' r'']| |] eqn:E2; try discriminate. injection HU as <- <-.
      destruct (IHss _ _ _ ltac:(eapply incl_tran; eassumption) E2) as [Gss Hi2].
      split; [intros x [<-|Hx]; [exact Gs|apply Gss; exact Hx]|]. eapply incl_tran; [exact Hi2|]. eapply incl_tran; eassumption. }
    destruct t0; try (apply GEN; exact H).
    injection H as <- <-. split; [intros s []|exact Hsk].
  - (* p_stmt *)
    intros ts s r Hin H. rewrite p_stmt_S in H.
    destruct (p_exp d f 0%nat ts) as [[e0 r1]| |] eqn:E; try discriminate.
    destruct (IHe _ _ _ _ Hin E) as [Ge Hi].
    assert (EX: POk (SExpr e0, r1) = POk (s, r) -> GS s /\ incl r ts).
    { intros HO. injection HO as <- <-. split; [exact Ge|exact Hi]. }
    destruct r1 as [|t1 r1']; [apply EX; exact H|]. destruct t1; try (apply EX; exact H).
    assert (Hr1: incl r1' TS) by (intros y Hy; apply Hin, Hi; right; exact Hy).
    assert (AS: (if is_value_tree e0 && negb (starts_paren ts)
                 then match p_exp d f 0%nat r1' with POk (e', r') => POk (SAssign e0 e', r') | PErr => PErr | POut => POut end
                 else POk (SExpr e0, TEqual :: r1')) = POk (s, r) -> GS s /\ incl r ts).
    { intros HA. destruct (is_value_tree e0 && negb (starts_paren ts)); [|apply EX; exact HA].
      destruct (p_exp d f 0%nat r1') as [[e' r']| |] eqn:E2; try discriminate. injection HA as <- <-.
      destruct (IHe _ _ _ _ Hr1 E2) as [Ge' Hi2]. split; [split; assumption|].
      intros y Hy. apply Hi. right. apply Hi2. exact Hy. }
    destruct ts as [|ta tsr]; [apply AS; exact H|]. destruct ta; try (apply AS; exact H).
    destruct tsr as [|tb tsr']; [apply AS; exact H|]. destruct tb; try (apply AS; exact H).
    destruct tsr' as [|tc tsr'']; [apply AS; exact H|]. destruct tc; try (apply AS; exact H).
    destruct (p_exp d f 0%nat r1') as [[e' r']| |] eqn:E2; try discriminate. injection H as <- <-.
    destruct (IHe _ _ _ _ Hr1 E2) as [Ge' Hi2]. split.
    + split; [apply Hin; right; left; reflexivity|exact Ge'].
    + intros y Hy. apply Hi. right. apply Hi2. exact Hy.
Qed.

Theorem parse_toks_inv f ss : parse_toks d f TS = POk ss -> forall s, In s ss -> GS s.
Proof.
  unfold parse_toks. intros H. destruct (p_stmts d f TS) as [[ss' r]| |] eqn:E; try discriminate.
  destruct r; try discriminate. injection H as <-.
  exact (proj1 (proj1 (proj2 (proj2 (proj2 (inv_gen f)))) _ _ _ (incl_refl TS) E)).
Qed.
End Inv.

(* ------------------------------------------------------------------ tokens of a text that read as themselves are canonical *)
Local Open Scope Z_scope.
Lemma lowc_lower_start c k : is_lower k = true -> lowc c = k -> is_ident_start c = true.
Proof.
  unfold lowc, is_ident_start, is_alpha. destruct (is_upper c) eqn:U; [reflexivity|]. intros Hk ->. rewrite Hk. reflexivity.
Qed.
Lemma kw_match_sound kw : forall s a b, kw_match kw s = Some (a, b) -> lower a = kw.
Proof.
  induction kw as [|k kw IH]; intros s a b H.
  - destruct s as [|c r]; cbn [kw_match] in H; [injection H as <- <-; reflexivity|].
    destruct (is_ident_char c); [discriminate|]. injection H as <- <-. reflexivity.
  - destruct s as [|c r]; cbn [kw_match] in H; [discriminate|].
    destruct (Z.eqb_spec (lowc c) k) as [E|]; [|discriminate].
    destruct (kw_match kw r) as [[a' b']|] eqn:E2; [|discriminate]. injection H as <- <-.
    cbn [lower map]. fold (lower a'). rewrite E, (IH _ _ _ E2). reflexivity.
Qed.
Lemma kw_match_full kw : forall s, lower s = kw -> kw_match kw s = Some (s, []).
Proof.
  induction kw as [|k kw IH]; intros s H.
  - destruct s; [reflexivity|discriminate].
  - destruct s as [|c r]; [discriminate|]. cbn [lower map] in H. fold (lower r) in H. injection H as Hc Hr.
    cbn [kw_match]. rewrite Hc, Z.eqb_refl, (IH r Hr). reflexivity.
Qed.

Definition name_like (t:rtok) : bool := match t with RIdent _ | RPrivate _ | RTrue _ | RFalse _ => true | _ => false end.
Lemma lex1_not_start c r t b : is_ident_start c = false -> lex1 (c :: r) = L1Tok t b -> name_like t = false.
Proof.
  intros Hc H. unfold lex1 in H.
  destruct (is_ws c); [discriminate|].
  destruct (Z.eqb_spec (lowc c) 102) as [E|_]; [rewrite (lowc_lower_start c 102 eq_refl E) in Hc; discriminate|].
  destruct (Z.eqb_spec (lowc c) 116) as [E|_]; [rewrite (lowc_lower_start c 116 eq_refl E) in Hc; discriminate|].
  destruct (Z.eqb_spec (lowc c) 112) as [E|_]; [rewrite (lowc_lower_start c 112 eq_refl E) in Hc; discriminate|].
  rewrite Hc in H.
  repeat match type of H with context[if ?x then _ else _] => destruct x end;
    try discriminate;
    try (injection H as <- _; reflexivity);
    try (unfold lex_num in H; destruct (lex_hex _) as [[? ?]|]; [injection H as <- _; reflexivity|];
         destruct (lex_number _) as [[? ?]|]; [injection H as <- _; reflexivity|discriminate]);
    try (unfold lex_num in H; destruct (lex_number _) as [[? ?]|]; [injection H as <- _; reflexivity|discriminate]);
    try (unfold lex_op in H; destruct (op_len _); [discriminate|injection H as <- _; reflexivity]);
    try (destruct (kw_match _ _); [discriminate|]; unfold lex_op in H; destruct (op_len _); [discriminate|injection H as <- _; reflexivity]);
    try (destruct (lex_hex _) as [[? ?]|]; [injection H as <- _; reflexivity|discriminate]);
    try (destruct (scan_str _ _); injection H as <- _; reflexivity).
Qed.

Lemma tok_ok_op_canon s : tok_ok (ROp s) -> raw_of_name s = ROp s.
Proof.
  intros [H _]. cbn [rtok_text] in H. destruct s as [|c r]; [reflexivity|]. unfold raw_of_name.
  destruct (is_ident_start c) eqn:Hc; [|reflexivity]. exfalso. rewrite lex1_ident_start in H by exact Hc.
  repeat match type of H with context[if ?x then _ else _] => destruct x end;
    unfold lex_kw_or_ident, lex_ident in H; try (destruct (kw_match _ _) as [[? ?]|]; try discriminate);
    destruct (span _ _); discriminate.
Qed.
Lemma tok_ok_ident_canon s : tok_ok (RIdent s) -> raw_of_name s = RIdent s.
Proof.
  intros [H _]. cbn [rtok_text] in H. destruct s as [|c r]; [discriminate|]. unfold raw_of_name.
  destruct (is_ident_start c) eqn:Hc; [|pose proof (lex1_not_start _ _ _ _ Hc H); discriminate].
  destruct (text_eqb (lower (c :: r)) kw_private) eqn:Ep; [exfalso|reflexivity].
  apply text_eqb_eq in Ep. pose proof (kw_match_full _ _ Ep) as Hk.
  assert (Hl: lowc c = 112) by (cbn [lower map] in Ep; injection Ep as E _; exact E).
  rewrite lex1_ident_start in H by exact Hc. rewrite Hl in H. cbn in H. fold kw_private in H.
  unfold lex_kw_or_ident in H. rewrite Hk in H. discriminate.
Qed.
Lemma tok_ok_private_canon s : tok_ok (RPrivate s) -> raw_of_name s = RPrivate s.
Proof.
  intros [H _]. cbn [rtok_text] in H. destruct s as [|c r]; [discriminate|]. unfold raw_of_name.
  destruct (is_ident_start c) eqn:Hc; [|pose proof (lex1_not_start _ _ _ _ Hc H); discriminate].
  assert (Ep: lower (c :: r) = kw_private).
  { rewrite lex1_ident_start in H by exact Hc.
    repeat match type of H with context[if ?x then _ else _] => destruct x end;
      unfold lex_kw_or_ident, lex_ident in H;
      try (destruct (kw_match _ _) as [[a b]|] eqn:Ek; [injection H as Ha Hb; try discriminate; subst; apply (kw_match_sound _ _ _ _ Ek)|]);
      destruct (span _ _); discriminate. }
  rewrite Ep. reflexivity.
Qed.
Local Close Scope Z_scope.

(* ------------------------------------------------------------------ classification of raw tokens, inverted *)
Lemma classify_name_inv R b s : (exists c, classify_name R b s = TOp c s) \/ (b = true /\ classify_name R b s = TIdent s) \/ classify_name R b s = TInvalid.
Proof.
  unfold classify_name.
  destruct (oi_bin (R (lower s))) as [p|], (oi_un (R (lower s))), (oi_nul (R (lower s)));
    try (destruct ((1 <=? p)%nat && (p <=? 10)%nat)); destruct b; eauto.
Qed.
Lemma classify_lit R rt l : classify R rt = lit_tok l -> rt = raw_of_lit l.
Proof.
  destruct rt; cbn [classify]; intros H;
    try (destruct l; cbn in H; try discriminate; injection H as <-; reflexivity);
    try (destruct l; discriminate).
  - destruct (classify_name_inv R false s) as [[c E]|[[E0 E]|E]]; rewrite E in H; destruct l; discriminate.
  - destruct (classify_name_inv R true s) as [[c E]|[[E0 E]|E]]; rewrite E in H; destruct l; discriminate.
Qed.
Lemma classify_ident R rt s : classify R rt = TIdent s -> rt = RIdent s.
Proof.
  destruct rt; cbn [classify]; intros H; try discriminate.
  - destruct (classify_name_inv R false s0) as [[c E]|[[E0 E]|E]]; rewrite E in H; discriminate.
  - destruct (classify_name_inv R true s0) as [[c E]|[[E0 E]|E]]; rewrite E in H; try discriminate. injection H as <-. reflexivity.
Qed.
Lemma classify_private R rt s : classify R rt = TPrivate s -> rt = RPrivate s.
Proof.
  destruct rt; cbn [classify]; intros H; try discriminate.
  - injection H as <-. reflexivity.
  - destruct (classify_name_inv R false s0) as [[c E]|[[E0 E]|E]]; rewrite E in H; discriminate.
  - destruct (classify_name_inv R true s0) as [[c E]|[[E0 E]|E]]; rewrite E in H; discriminate.
Qed.
Lemma classify_op R rt c s : classify R rt = TOp c s -> rt = ROp s \/ rt = RIdent s.
Proof.
  destruct rt; cbn [classify]; intros H; try discriminate.
  - destruct (classify_name_inv R false s0) as [[c' E]|[[E0 E]|E]]; rewrite E in H; try discriminate. injection H as _ <-. auto.
  - destruct (classify_name_inv R true s0) as [[c' E]|[[E0 E]|E]]; rewrite E in H; try discriminate. injection H as _ <-. auto.
Qed.

(* no name is used as a nular operand although it is also unary: names registered unary+nular have no binary
   overload and the parser is the one that refuses them as operands (the code as it stands, Findings.v) *)
Definition reg_ok (d:defects) (R:registry) : Prop :=
  forall key, oi_un (R key) = true -> oi_nul (R key) = true -> oi_bin (R key) = None /\ d_un_no_operand d = true.
Lemma classify_name_nul d R b s c : reg_ok d R -> classify_name R b s = TOp c s -> nulcap d c = true -> is_nulclass c = true.
Proof.
  intros HR H Hn. unfold classify_name in H. specialize (HR (lower s)).
  destruct (oi_bin (R (lower s))) as [p|], (oi_un (R (lower s))), (oi_nul (R (lower s)));
    try (destruct ((1 <=? p)%nat && (p <=? 10)%nat)); destruct b; try discriminate; injection H as <-;
    try reflexivity; try discriminate Hn;
    try (destruct (HR eq_refl eq_refl) as [E _]; discriminate E);
    try (destruct (HR eq_refl eq_refl) as [_ E]; cbn in Hn; rewrite E in Hn; discriminate Hn).
Qed.

(* every assignment target is a variable *)
Fixpoint tv (t:tree) : bool :=
  match t with
  | Lit _ | Var _ | Nul _ => true
  | Un _ a => tv a
  | Bin _ _ l r => tv l && tv r
  | Arr es => forallb tv es
  | Code ss => forallb tv_stmt ss
  | Par a => tv a
  end
with tv_stmt (s:stmt) : bool :=
  match s with
  | SExpr e => tv e
  | SAssign x e => (match x with Var _ => true | _ => false end) && tv e
  | SLocal _ e => tv e
  end.
Lemma tv_stmt_unfold s : tv_stmt s = match s with
  | SExpr e => tv e | SAssign x e => (match x with Var _ => true | _ => false end) && tv e | SLocal _ e => tv e end.
Proof. destruct s; reflexivity. Qed.

Lemma raw_of_name_cases nm : raw_of_name nm = RPrivate nm \/ raw_of_name nm = RIdent nm \/ raw_of_name nm = ROp nm.
Proof. unfold raw_of_name. destruct nm as [|c r]; auto. destruct (is_ident_start c); auto. destruct (text_eqb _ _); auto. Qed.

Section Props.
Variable d : defects.
Variable R : registry.
Variable ts : list rtok.
Notation TS := (map (classify R) ts).

Lemma GS_unfold s : GS d TS s = match s with
  | SExpr e => G d TS e | SAssign x e => G d TS x /\ G d TS e | SLocal x e => In (TIdent x) TS /\ G d TS e end.
Proof. destruct s; reflexivity. Qed.

Theorem G_noparb : forall n,
  (forall t, (size t <= n)%nat -> G d TS t -> noparb t = true) /\
  (forall s, (size_stmt s <= n)%nat -> GS d TS s -> noparb_stmt s = true).
Proof.
  induction n as [|n [IHt IHs]].
  { split; intros x Hsz; destruct x; cbn in Hsz; lia. }
  split.
  - intros t Hsz Hg. destruct t as [l|v|nm|s a|j s l r|es|ss|a]; try reflexivity.
    + cbn [size] in Hsz. cbn [G] in Hg. cbn [noparb]. apply IHt; [lia|apply Hg].
    + cbn [size] in Hsz. cbn [G] in Hg. destruct Hg as (_ & _ & Hl & Hr). cbn [noparb]. rewrite !IHt by (auto; lia). reflexivity.
    + change (size (Arr es)) with (S (fold_right (fun e n => (size e + n)%nat) 0%nat es)) in Hsz.
      cbn [G] in Hg. pose proof (fold_and_in _ es Hg) as Hin. cbn [noparb]. apply forallb_forall. intros e He.
      pose proof (size_in e es He). apply IHt; [lia|apply Hin; exact He].
    + change (size (Code ss)) with (S (fold_right (fun s n => (size_stmt s + n)%nat) 0%nat ss)) in Hsz.
      change (G d TS (Code ss)) with (fold_right (fun s P => GS d TS s /\ P) True ss) in Hg.
      pose proof (fold_and_in _ ss Hg) as Hin. change (noparb (Code ss)) with (forallb noparb_stmt ss).
      apply forallb_forall. intros s Hs. pose proof (size_stmt_in s ss Hs). apply IHs; [lia|apply Hin; exact Hs].
    + destruct Hg.
  - intros s Hsz Hg. rewrite size_stmt_unfold in Hsz. rewrite GS_unfold in Hg. rewrite noparb_stmt_unfold.
    destruct s as [e|x e|x e].
    + apply IHt; [lia|exact Hg].
    + destruct Hg as [Hx He]. rewrite !IHt by (auto; lia). reflexivity.
    + destruct Hg as [_ He]. apply IHt; [lia|exact He].
Qed.

Hypothesis Hok : Forall tok_ok ts.

Lemma src_tok t : In t TS -> exists rt, In rt ts /\ tok_ok rt /\ classify R rt = t.
Proof.
  intros H. apply in_map_iff in H. destruct H as (rt & E & Hin). exists rt. rewrite Forall_forall in Hok. auto.
Qed.
Lemma src_ident s : In (TIdent s) TS -> tok_ok (RIdent s) /\ classify R (RIdent s) = TIdent s.
Proof. intros H. destruct (src_tok _ H) as (rt & _ & Hk & E). pose proof (classify_ident R rt s E). subst rt. split; assumption. Qed.
(* an operator token in the list: the name reads as itself, and classifying the name's own spelling gives the token *)
Lemma src_op c s : In (TOp c s) TS -> tok_ok (raw_of_name s) /\ name_tok R s = TOp c s.
Proof.
  intros H. destruct (src_tok _ H) as (rt & _ & Hk & E). unfold name_tok.
  destruct (classify_op R rt c s E); subst rt.
  - rewrite (tok_ok_op_canon s Hk). split; assumption.
  - rewrite (tok_ok_ident_canon s Hk). split; assumption.
Qed.
Lemma src_private s : In (TPrivate s) TS -> tok_ok (raw_of_name s) /\ name_tok R s = TPrivate s.
Proof.
  intros H. destruct (src_tok _ H) as (rt & _ & Hk & E). unfold name_tok.
  pose proof (classify_private R rt s E). subst rt. rewrite (tok_ok_private_canon s Hk). split; assumption.
Qed.

Theorem G_spelled_wf : forall n,
  (forall t, (size t <= n)%nat -> G d TS t -> tv t = true -> spelled t /\ (reg_ok d R -> wfb R t = true)) /\
  (forall s, (size_stmt s <= n)%nat -> GS d TS s -> tv_stmt s = true -> spelled_stmt s /\ (reg_ok d R -> wfb_stmt R s = true)).
Proof.
  induction n as [|n [IHt IHs]].
  { split; intros x Hsz; destruct x; cbn in Hsz; lia. }
  split.
  - intros t Hsz Hg Htv. destruct t as [l|v|nm|s a|j s l r|es|ss|a].
    + cbn [G] in Hg. destruct (src_tok _ Hg) as (rt & _ & Hk & E). rewrite (classify_lit R rt l E) in Hk.
      split; [exact Hk|reflexivity].
    + cbn [G] in Hg. destruct (src_ident _ Hg) as [Hk E]. split; [exact Hk|]. intros _. cbn [wfb]. rewrite E. reflexivity.
    + cbn [G] in Hg. destruct Hg as (c & Hin & Hc). destruct (src_op _ _ Hin) as [Hk E]. split; [exact Hk|].
      intros HR. cbn [wfb]. rewrite E. unfold name_tok in E.
      destruct (raw_of_name_cases nm) as [Er|[Er|Er]]; rewrite Er in E; cbn [classify] in E; try discriminate;
        eapply classify_name_nul; eauto.
    + cbn [size] in Hsz. cbn [G] in Hg. destruct Hg as [Hop Ha]. cbn [tv] in Htv.
      destruct (IHt a ltac:(lia) Ha Htv) as [Sa Wa]. destruct Hop as [Hp|(c & Hin & Hc)].
      * destruct (src_private _ Hp) as [Hk E]. split; [split; assumption|]. intros HR. cbn [wfb]. rewrite E, (Wa HR). reflexivity.
      * destruct (src_op _ _ Hin) as [Hk E]. split; [split; assumption|]. intros HR. cbn [wfb]. rewrite E, Hc, (Wa HR). reflexivity.
    + cbn [size] in Hsz. cbn [G] in Hg. destruct Hg as (Hj & (c & Hin & Hc) & Hl & Hr). cbn [tv] in Htv. apply andb_prop in Htv. destruct Htv as [Tl Tr].
      destruct (IHt l ltac:(lia) Hl Tl) as [Sl Wl]. destruct (IHt r ltac:(lia) Hr Tr) as [Sr Wr].
      destruct (src_op _ _ Hin) as [Hk E]. split; [cbn [spelled]; split; [exact Hk|split; assumption]|]. intros HR. cbn [wfb].
      rewrite E, Hc, (Wl HR), (Wr HR). apply Nat.ltb_lt in Hj. rewrite Hj. reflexivity.
    + change (size (Arr es)) with (S (fold_right (fun e n => (size e + n)%nat) 0%nat es)) in Hsz.
      cbn [G] in Hg. pose proof (fold_and_in _ es Hg) as Hin. cbn [tv] in Htv. rewrite forallb_forall in Htv.
      assert (H: forall e, In e es -> spelled e /\ (reg_ok d R -> wfb R e = true)).
      { intros e He. pose proof (size_in e es He). apply IHt; [lia|apply Hin; exact He|apply Htv; exact He]. }
      split; [cbn [spelled]; apply fold_and_intro; intros e He; apply H; exact He|].
      intros HR. cbn [wfb]. apply forallb_forall. intros e He. apply H; assumption.
    + change (size (Code ss)) with (S (fold_right (fun s n => (size_stmt s + n)%nat) 0%nat ss)) in Hsz.
      change (G d TS (Code ss)) with (fold_right (fun s P => GS d TS s /\ P) True ss) in Hg.
      pose proof (fold_and_in _ ss Hg) as Hin. change (tv (Code ss)) with (forallb tv_stmt ss) in Htv. rewrite forallb_forall in Htv.
      assert (H: forall s, In s ss -> spelled_stmt s /\ (reg_ok d R -> wfb_stmt R s = true)).
      { intros s Hs. pose proof (size_stmt_in s ss Hs). apply IHs; [lia|apply Hin; exact Hs|apply Htv; exact Hs]. }
      split; [change (spelled (Code ss)) with (fold_right (fun s P => spelled_stmt s /\ P) True ss); apply fold_and_intro; intros s Hs; apply H; exact Hs|].
      intros HR. change (wfb R (Code ss)) with (forallb (wfb_stmt R) ss). apply forallb_forall. intros s Hs. apply H; assumption.
    + destruct Hg.
  - intros s Hsz Hg Htv. rewrite size_stmt_unfold in Hsz. rewrite GS_unfold in Hg. rewrite tv_stmt_unfold in Htv.
    rewrite spelled_stmt_unfold, (CodeRoundtrip.wfb_stmt_unfold R). destruct s as [e|x e|x e].
    + apply IHt; [lia|exact Hg|exact Htv].
    + destruct Hg as [Hx He]. apply andb_prop in Htv. destruct Htv as [Tx Te]. destruct x as [|v| | | | | |]; try discriminate.
      cbn [G] in Hx. destruct (src_ident _ Hx) as [Hk E]. destruct (IHt e ltac:(lia) He Te) as [Se We].
      split; [split; assumption|]. intros HR. rewrite E, (We HR). reflexivity.
    + destruct Hg as [Hx He]. destruct (src_ident _ Hx) as [Hk E]. destruct (IHt e ltac:(lia) He Htv) as [Se We].
      split; [split; assumption|]. intros HR. rewrite E, (We HR). reflexivity.
Qed.
End Props.

(* ------------------------------------------------------------------ the entry point *)
(* every token of the text, lexed on its own, is that token *)
Definition src_spelled (s:text) : Prop := forall ts, lex s = LexOk ts -> Forall tok_ok ts.

Theorem parse_text_sound : forall (d:defects) (R:registry) (f:nat) (s:text) (ss:list stmt),
  parse_text d R f s = FOk ss ->
  forallb noparb_stmt ss = true /\
  (src_spelled s -> forallb tv_stmt ss = true -> spelled_block ss /\ (reg_ok d R -> wf_block R ss)).
Proof.
  intros d R f s ss H. unfold parse_text in H. destruct (lex s) as [ts| | |] eqn:El; try discriminate.
  destruct (parse_toks d f (map (classify R) ts)) as [ss'| |] eqn:Ep; try discriminate. injection H as <-.
  pose proof (parse_toks_inv d _ f ss' Ep) as HG. split.
  - apply forallb_forall. intros x Hx. apply (proj2 (G_noparb d R ts (size_stmt x)) x (le_n _)). apply HG. exact Hx.
  - intros Hsp Htv. specialize (Hsp ts El). rewrite forallb_forall in Htv.
    assert (H: forall x, In x ss' -> spelled_stmt x /\ (reg_ok d R -> wfb_stmt R x = true)).
    { intros x Hx. apply (proj2 (G_spelled_wf d R ts Hsp (size_stmt x)) x (le_n _)); [apply HG; exact Hx|apply Htv; exact Hx]. }
    split; [intros x Hx; apply H; exact Hx|]. intros HR. unfold wf_block. apply forallb_forall. intros x Hx. apply H; assumption.
Qed.

(* C06 over source texts: the pretty printer *)
Theorem pretty_roundtrip_text : forall (d:defects) (R:registry) (f1:nat) (s:text) (ss:list stmt),
  parse_text d R f1 s = FOk ss -> src_spelled s -> forallb tv_stmt ss = true -> reg_ok d R ->
  exists f0, forall f, (f0 <= f)%nat ->
    parse_text d R f (pieces_text (pretty_program ss)) = FOk (map pnorm_stmt ss) /\
    exists c, compile_block ss = Some c /\ compile_block (map pnorm_stmt ss) = Some (map (mapl_i hexnorm) c).
Proof.
  intros d R f1 s ss H Hsp Htv HR. destruct (parse_text_sound d R f1 s ss H) as [Hnp H2].
  destruct (H2 Hsp Htv) as [Hs Hwf]. apply pretty_roundtrip_spelled; auto.
Qed.

(* C06 over source texts: str of the compiled code *)
Theorem code_roundtrip_text : forall (d:defects) (R:registry) (show_lit:lit -> lit) (f1:nat) (s:text) (ss:list stmt),
  parse_text d R f1 s = FOk ss -> src_spelled s -> forallb tv_stmt ss = true -> reg_ok d R -> show_kind_ok show_lit ->
  exists c, compile_block ss = Some c /\
  exists ps, reconstruct show_lit c = Some ps /\
    (toks_ok ps ->
     exists f0, forall f, (f0 <= f)%nat ->
       exists ss', parse_text d R f (pieces_text ps) = FOk [SExpr (Code ss')] /\
                   compile_block ss' = Some (map (mapl_i show_lit) c)).
Proof.
  intros d R show_lit f1 s ss H Hsp Htv HR Hk. destruct (parse_text_sound d R f1 s ss H) as [Hnp H2].
  destruct (H2 Hsp Htv) as [Hs Hwf]. exists (postorder_block ss). split; [apply compile_block_postorder|].
  exact (code_roundtrip R d show_lit ss Hk (Hwf HR)).
Qed.

(* ------------------------------------------------------------------ the side conditions are needed: witnesses *)
Lemma parse_text_mono_err d R f0 s : parse_text d R f0 s = FParseError -> forall f, (f0 <= f)%nat -> parse_text d R f s = FParseError.
Proof.
  unfold parse_text. intros H f Hf. destruct (lex s); try discriminate; try reflexivity.
  destruct (parse_toks d f0 (map (classify R) ts)) eqn:E; try discriminate.
  rewrite (ParseMono.mono_parse d f0 f _ ltac:(rewrite E; discriminate) Hf), E. reflexivity.
Qed.

From Coq Require String.
Import String.StringSyntax.
Definition w_string : text := Eval compute in s2b """a"%string.          (* an unterminated string literal *)
Definition w_target : text := Eval compute in s2b "1 = 2"%string.        (* `value = expression` with a value that is no variable *)
Definition w_number : text := Eval compute in s2b "1e+ 2"%string.        (* tokenizer.hpp t_number: `1e` `+` `2` *)
Definition w_nular : text := Eval compute in s2b "foo"%string.
Definition R_bun : registry := fun key =>
  if text_eqb key (s2b "foo"%string) then {| oi_bin := Some 4%nat; oi_un := true; oi_nul := true |} else no_op.

(* the parser model accepts texts whose tokens do not read as themselves (the text is not spelled) ... *)
Theorem parse_spelled_refuted : exists R s ss, parse_text as_is R 100 s = FOk ss /\ ~ src_spelled s /\ ~ spelled_block ss.
Proof.
  exists ex_R, w_string, [SExpr (Lit (LStr w_string))]. split; [vm_compute; reflexivity|]. split.
  - intros H. specialize (H [RStr w_string] eq_refl). inversion H as [|? ? [_ H1] _]. vm_compute in H1. discriminate.
  - intros H. specialize (H _ (or_introl eq_refl)). destruct H as [_ H1]. vm_compute in H1. discriminate.
Qed.
(* ... and trees that are not well formed: an assignment to a literal, a unary+nular name used as an operand *)
Theorem parse_wf_refuted :
  (exists ss, parse_text as_is ex_R 100 w_target = FOk ss /\ src_spelled w_target /\ reg_ok as_is ex_R /\ ~ wf_block ex_R ss) /\
  (exists ss, parse_text as_is R_bun 100 w_nular = FOk ss /\ src_spelled w_nular /\ forallb tv_stmt ss = true /\ ~ wf_block R_bun ss).
Proof.
  split.
  - exists [SAssign (Lit (LNum [49%Z])) (Lit (LNum [50%Z]))]. split; [vm_compute; reflexivity|]. split; [|split].
    + intros ts H. vm_compute in H. injection H as <-. repeat (constructor; [split; [vm_compute; reflexivity|exact I]|]). constructor.
    + intros key. unfold ex_R. repeat (destruct (text_eqb key _); [cbn; intros; discriminate|]). cbn. intros; discriminate.
    + vm_compute. discriminate.
  - exists [SExpr (Nul w_nular)]. split; [vm_compute; reflexivity|]. split; [|split].
    + intros ts H. vm_compute in H. injection H as <-. repeat (constructor; [split; [vm_compute; reflexivity|exact I]|]). constructor.
    + reflexivity.
    + vm_compute. discriminate.
Qed.

(* the round trip over ALL accepted texts is false for the formatter: it prints an unterminated string as it
   stands and `;` after it, drops the target of an assignment to a non-variable, and separates `1e` from `+` *)
Theorem pretty_roundtrip_text_refuted :
  (exists p p' c c', (forall f, (100 <= f)%nat -> parse_text as_is ex_R f w_string = FOk p) /\ compile_block p = Some c /\
     (forall f, (100 <= f)%nat -> parse_text as_is ex_R f (pieces_text (pretty_program p)) = FOk p') /\ compile_block p' = Some c' /\ c <> c') /\
  (exists p p' c c', (forall f, (100 <= f)%nat -> parse_text as_is ex_R f w_target = FOk p) /\ compile_block p = Some c /\
     (forall f, (100 <= f)%nat -> parse_text as_is ex_R f (pieces_text (pretty_program p)) = FOk p') /\ compile_block p' = Some c' /\ c <> c') /\
  (exists p, (forall f, (100 <= f)%nat -> parse_text as_is ex_R f w_number = FOk p) /\
     (forall f, (100 <= f)%nat -> parse_text as_is ex_R f (pieces_text (pretty_program p)) = FParseError)).
Proof.
  split; [|split].
  - eexists. eexists. eexists. eexists.
    split; [apply parse_text_mono; vm_compute; reflexivity|]. split; [vm_compute; reflexivity|].
    split; [apply parse_text_mono; vm_compute; reflexivity|]. split; [vm_compute; reflexivity|]. discriminate.
  - eexists. eexists. eexists. eexists.
    split; [apply parse_text_mono; vm_compute; reflexivity|]. split; [vm_compute; reflexivity|].
    split; [apply parse_text_mono; vm_compute; reflexivity|]. split; [vm_compute; reflexivity|]. discriminate.
  - eexists. split; [apply parse_text_mono; vm_compute; reflexivity|]. apply parse_text_mono_err. vm_compute. reflexivity.
Qed.

(* the worked text of PrettyRoundtrip.v meets the side conditions *)
Example ex_text_hyps : parse_text as_is ex_R 200 ex_src = FOk ex_prog /\ src_spelled ex_src /\ forallb tv_stmt ex_prog = true /\ reg_ok as_is ex_R.
Proof.
  split; [vm_compute; reflexivity|]. split; [|split].
  - intros ts H. vm_compute in H. injection H as <-.
    repeat (apply Forall_cons; [split; [vm_compute; reflexivity|vm_compute; first [exact I|reflexivity]]|]). apply Forall_nil.
  - vm_compute. reflexivity.
  - intros key. unfold ex_R. repeat (destruct (text_eqb key _); [cbn; intros; discriminate|]). cbn. intros; discriminate.
Qed.
