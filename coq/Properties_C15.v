(* C15 - config tree: values read back, inheritance lookup, merge / delete / append, acyclic.
   Theorems only; proofs live in Config/ConfigProofs.v.  The model (Config/ConfigDefs.v) mirrors
   src/runtime/confighost.h, src/parser/config/config_parser.cpp (apply_to_confighost) and
   src/operators/ops_config.cpp; it is tied to that code by the correspondence run of checks/C15.py.

   Defect switches (ConfigDefs.defects): `original` is the pinned tree before the four repairs of
   /verif/proposed_fixes/C15-*.diff, `as_is` = `repaired` is the tree with them applied.  Positive
   theorems name the switches they need off; every switch has a `_refuted` theorem with the witness. *)
From Coq Require Import ZArith List.
Import ListNotations.
From SqfVerif Require Import Config.ConfigDefs Config.ConfigProofs.

(* ---- values read back ---- *)

(* Storing a value node (number, string, array nested to any depth) into an entry stores exactly what
   the node denotes - the element-by-element "abuse parent's value" loop of config_parser.cpp:112-122
   included.  All hosts, all entries, all value nodes. *)
Theorem C15_value_readback : forall v h p, p < length h ->
  apply_value h (Some p) v = Ok (upd h p (set_value (eval_v v))).
Proof. exact apply_value_spec. Qed.
Print Assumptions C15_value_readback.

(* After `name = v;` / `name[] = {..};` in class p, a lookup of name in p finds an entry that holds v
   and answers getNumber/getText/getArray/isNumber/isText/isArray accordingly.  Every well-formed host,
   every class, every name and value, every defect setting (with d_deleted_reopen on: unless the name
   carries a delete marker - see C15_redefine_after_delete_refuted). *)
Theorem C15_field_readback : forall d h lg p name v, WF h -> p < length h -> no_marker d h p name ->
  exists h' e ce, apply_node d (h, lg) (Some p) (NField name v) = Ok (h', lg) /\
    lookup_inh (fuel_of h') h' (Some p) name = Ok (Some e) /\
    nth_error h' e = Some ce /\ c_name ce = name /\ c_plog ce = Some p /\
    op_getNumber h' (Some e) = Ok (match v with NNum z => z | _ => 0%Z end, []) /\
    op_getText h' (Some e) = Ok (match v with NStr s => s | _ => [] end, []) /\
    op_getArray h' (Some e) = Ok (match v with NArr l => map eval_v l | _ => [] end, []) /\
    op_isNumber h' (Some e) = Ok (match v with NNum _ => true | _ => false end, []) /\
    op_isText h' (Some e) = Ok (match v with NStr _ => true | _ => false end, []) /\
    op_isArray h' (Some e) = Ok (match v with NArr _ => true | _ => false end, []).
Proof. exact p15_field_readback. Qed.
Print Assumptions C15_field_readback.

(* ---- lookup along the inheritance chain ---- *)

(* `Nearest h t n r` is the specification: the class's own entry if it has one (a delete marker hides
   whatever the ancestors define), else what the base class yields, else nothing.  On every well-formed
   acyclic host the lookup of confignav::lookup_in_inherited returns exactly that, within fuel_of h. *)
Theorem C15_lookup_spec : forall h n t r, WF h -> Acyclic h -> n < length h ->
  (lookup_inh (fuel_of h) h (Some n) t = Ok r <-> Nearest h t n r).
Proof. exact lookup_spec. Qed.
Print Assumptions C15_lookup_spec.

(* The same specification in chain form: every class of a well-formed acyclic host has a finite inheritance
   chain (itself, its base, ...), and a lookup finds an entry exactly when some class of the chain declares
   the name - the first such class wins; if its declaration is a delete marker the lookup finds nothing. *)
Theorem C15_lookup_chain_spec : forall h n t, WF h -> Acyclic h -> n < length h ->
  exists l, Chain h n l /\ forall r, lookup_inh (fuel_of h) h (Some n) t = Ok r <-> first_declared h t l r.
Proof. exact lookup_chain_spec. Qed.
Print Assumptions C15_lookup_chain_spec.

Theorem C15_nearest_deterministic : forall h t n r1 r2, Nearest h t n r1 -> Nearest h t n r2 -> r1 = r2.
Proof. exact nearest_deterministic. Qed.
Print Assumptions C15_nearest_deterministic.

(* Soundness needs no hypothesis at all: whatever a lookup returns, with whatever fuel, is the nearest definition. *)
Theorem C15_lookup_sound : forall f h n t r, lookup_inh f h (Some n) t = Ok r -> Nearest h t n r.
Proof. exact lookup_sound. Qed.
Print Assumptions C15_lookup_sound.

(* Fuel bound: under acyclicity |host| + 1 steps suffice ... *)
Theorem C15_lookup_terminates_under_acyclic : forall h n t, WF h -> Acyclic h -> n < length h ->
  exists r, lookup_inh (fuel_of h) h (Some n) t = Ok r /\ Nearest h t n r.
Proof. exact lookup_terminates_under_acyclic. Qed.
Print Assumptions C15_lookup_terminates_under_acyclic.

(* ... and OutOfFuel at that fuel is a real divergence of the C++ loop: no amount of fuel returns. *)
Theorem C15_out_of_fuel_is_divergence : forall h n t, WF h -> n < length h ->
  lookup_inh (fuel_of h) h (Some n) t = OutOfFuel -> forall f, lookup_inh f h (Some n) t = OutOfFuel.
Proof. exact out_of_fuel_is_divergence. Qed.
Print Assumptions C15_out_of_fuel_is_divergence.

(* "Acyclic" is stated as termination of every walk along id_parent_inherited; for a well-formed host
   that is the same as "no container is its own ancestor". *)
Theorem C15_acyclic_iff_no_cycle : forall h, WF h -> (Acyclic h <-> ~ Cyclic (inh_of h)).
Proof. exact p15_acyclic_iff_no_cycle. Qed.
Print Assumptions C15_acyclic_iff_no_cycle.

(* ---- no sequence of loads makes the inheritance relation cyclic ---- *)

(* Every sequence of config loads, from any well-formed acyclic host (in particular the initial one),
   with the rebind guard of the repair: the host stays well-formed and acyclic. *)
Theorem C15_acyclic_preserved : forall d ls h lg h' lg', d_rebind_cycle d = false -> WF h -> Acyclic h ->
  loads d (h, lg) ls = Ok (h', lg') -> WF h' /\ Acyclic h'.
Proof. intros d ls h lg h' lg' Ed W A H. exact (acyclic_preserved d ls h lg h' lg' Ed (conj W A) H). Qed.
Print Assumptions C15_acyclic_preserved.

(* The code before the repair: class A {}; class B : A {}; class A : B {};  leaves a cyclic host on which the
   lookup of a missing entry never returns. *)
Theorem C15_acyclic_preserved_refuted :
  loads original (init_host, []) cycle_witness = Ok (cycle_host, []) /\
  (WF init_host /\ Acyclic init_host) /\ ~ Acyclic cycle_host /\
  (forall f, lookup_inh f cycle_host (Some 1) nx = OutOfFuel).
Proof. exact acyclic_preserved_refuted. Qed.
Print Assumptions C15_acyclic_preserved_refuted.

(* With the repairs, loading is total: every sequence of loads returns a host - no out-of-range access,
   no dereferenced delete marker, no self-insert, no non-terminating walk - and on the result every lookup
   path, existing or not, evaluates. *)
Theorem C15_loads_and_lookups_total : forall ls, exists h lg,
  loads as_is (init_host, []) ls = Ok (h, lg) /\ WF h /\ Acyclic h /\
  forall path, exists c w, op_path h (Some 0) path = Ok (c, w).
Proof. exact p15_loads_and_lookups_total. Qed.
Print Assumptions C15_loads_and_lookups_total.

(* For every defect setting, loads keep the host well-formed (ids never dangle). *)
Theorem C15_wellformed_preserved : forall d ls h lg h' lg', WF h -> loads d (h, lg) ls = Ok (h', lg') -> WF h'.
Proof. intros d ls h lg h' lg' W H. exact (proj1 (loads_inv d ls h lg h' lg' W H)). Qed.
Print Assumptions C15_wellformed_preserved.

(* ---- re-opening merges, declaration order ---- *)

(* Re-opening a class returns the existing container and changes nothing by itself: the body is then
   applied to the same container. *)
Theorem C15_reopen_merges : forall d h p cp name x, WF h -> nth_error h p = Some cp ->
  mfind (c_map cp) name = Some (Some x) -> append_or_replace d h (Some p) name [] = Ok (h, Some x).
Proof. exact reopen_merges. Qed.
Print Assumptions C15_reopen_merges.

(* Across ANY sequence of loads (any defect setting) the own entries of every existing class keep their
   positions: count never shrinks, position i keeps its entry or turns into a delete marker; nothing is
   reordered or dropped. *)
Theorem C15_declaration_order_stable : forall d ls h lg h' lg' k ck, WF h -> loads d (h, lg) ls = Ok (h', lg') ->
  nth_error h k = Some ck ->
  exists ck', nth_error h' k = Some ck' /\ length (c_vec ck) <= length (c_vec ck') /\
    forall i e, nth_error (c_vec ck) i = Some e ->
      nth_error (c_vec ck') i = Some e \/ nth_error (c_vec ck') i = Some None.
Proof. exact declaration_order_stable. Qed.
Print Assumptions C15_declaration_order_stable.

(* A first declaration goes to the end; count is the length of that vector and select i its i-th element. *)
Theorem C15_count_select_declaration_order : forall d h p cp name inh h' nav, WF h -> nth_error h p = Some cp ->
  mfind (c_map cp) name = None -> append_or_replace d h (Some p) name inh = Ok (h', nav) ->
  exists cp', nth_error h' p = Some cp' /\ c_vec cp' = c_vec cp ++ [nav] /\ nav = Some (length h) /\
    op_count h' (Some p) = Ok (S (length (c_vec cp)), []) /\
    op_select h' (Some p) (Z.of_nat (length (c_vec cp))) = Ok (nav, []) /\
    (forall i, (0 <= i < Z.of_nat (length (c_vec cp)))%Z -> op_select h' (Some p) i = op_select h (Some p) i).
Proof. exact p15_count_select_declaration_order. Qed.
Print Assumptions C15_count_select_declaration_order.

(* ---- delete hides, += appends ---- *)

Theorem C15_delete_hides : forall d h lg p name, WF h -> p < length h ->
  exists h', apply_node d (h, lg) (Some p) (NDelete name) = Ok (h', lg) /\
    lookup_inh (fuel_of h') h' (Some p) name = Ok None /\
    (forall q cq, nth_error h' q = Some cq -> c_pinh cq = Some p -> mfind (c_map cq) name = None ->
                  lookup_inh (fuel_of h') h' (Some q) name = Ok None).
Proof. exact delete_hides. Qed.
Print Assumptions C15_delete_hides.

(* `name[] += {vs}` in a class p with base b, where the nearest definition of name along b's chain is an
   array a0: afterwards p's own entry reads a0 ++ vs.  Every well-formed acyclic host. *)
Theorem C15_append_appends_inherited : forall d h lg p name vs cp b e0 c0 a0,
  WF h -> Acyclic h -> p < length h -> no_marker d h p name ->
  nth_error h p = Some cp -> c_pinh cp = Some b ->
  Nearest h name b (Some e0) -> nth_error h e0 = Some c0 -> c_value c0 = VArr a0 ->
  exists h' e, apply_node d (h, lg) (Some p) (NAppend name (NArr vs)) = Ok (h', lg) /\
    lookup_inh (fuel_of h') h' (Some p) name = Ok (Some e) /\
    op_getArray h' (Some e) = Ok (a0 ++ map eval_v vs, []).
Proof. exact p15_append_appends_inherited. Qed.
Print Assumptions C15_append_appends_inherited.

(* ---- inheritsFrom, configHierarchy ---- *)

(* `class name : base` applied below p: afterwards inheritsFrom (the class) is the class that `base`
   names along the enclosing classes of p - unless binding it would close a cycle, in which case nothing changed. *)
Theorem C15_inheritsFrom_is_base : forall d h p name base h' nav, WF h -> p < length h -> base <> [] ->
  d_inherits_logical d = false ->
  append_or_replace d h (Some p) name base = Ok (h', nav) ->
  exists x b, nav = Some x /\ lookup_log (S (fuel_of h)) h (Some p) base = Ok b /\
     (op_inheritsFrom d h' (Some x) = Ok (b, []) \/
      (d_rebind_cycle d = false /\ reaches (fuel_of h) h b x = Ok true /\ h' = h)).
Proof. exact p15_inheritsFrom_is_base. Qed.
Print Assumptions C15_inheritsFrom_is_base.

Theorem C15_inheritsFrom_is_base_refuted :
  loads original (init_host, []) inh_witness = Ok (inh_host, []) /\
  op_path inh_host (Some 0) [nDerived] = Ok (Some 2, []) /\ op_path inh_host (Some 0) [nBase] = Ok (Some 1, []) /\
  parent_inherited inh_host (Some 2) = Ok (Some 1) /\
  op_inheritsFrom original inh_host (Some 2) = Ok (Some 0, []).
Proof. exact inheritsFrom_refuted. Qed.
Print Assumptions C15_inheritsFrom_is_base_refuted.

(* configHierarchy (repaired) = the enclosing classes, root first, the class itself last. *)
Theorem C15_configHierarchy_spec : forall d h n, WF h -> n < length h -> d_hierarchy_shape d = false ->
  exists l, op_hierarchy d h (Some n) = Ok (HConfigs l, []) /\ Enclosing h n l.
Proof. exact hierarchy_spec. Qed.
Print Assumptions C15_configHierarchy_spec.

Theorem C15_configHierarchy_spec_refuted :
  loads original (init_host, []) hier_witness = Ok (hier_host, []) /\
  op_path hier_host (Some 0) [nA; nB] = Ok (Some 2, []) /\
  Enclosing hier_host 2 [0; 1; 2] /\
  op_hierarchy original hier_host (Some 2) = Ok (HNames [nA; nB; nB], []).
Proof. exact hierarchy_refuted. Qed.
Print Assumptions C15_configHierarchy_spec_refuted.

(* class A { x = 1; delete x; x = 2; };  on the code before the repair: m_containers[invalid_id]. *)
Theorem C15_redefine_after_delete_refuted :
  loads original (init_host, []) [[NClass nA [] [NField nx (NNum 1); NDelete nx; NField nx (NNum 2)]]] = UB DeletedDeref.
Proof. exact redefine_after_delete_refuted. Qed.
Print Assumptions C15_redefine_after_delete_refuted.

(* ---- non-vacuity: hosts built by real loads meet the hypotheses, and the statements bite ---- *)
Local Open Scope Z_scope.
Definition n_arr : str := [97;114;114].
(* class A { arr[] = {1,{2,"B"}}; x = 5; };  class B : A { arr[] += {3}; delete x; }; *)
Definition ex_loads : list (list node) :=
  [[NClass nA [] [NField n_arr (NArr [NNum 1; NArr [NNum 2; NStr nB]]); NField nx (NNum 5)]];
   [NClass nB nA [NAppend n_arr (NArr [NNum 3]); NDelete nx]]].
Local Close Scope Z_scope.
Definition ex_host : host :=
  Eval vm_compute in match loads as_is (init_host, []) ex_loads with Ok (h, _) => h | _ => [] end.
Example ex_loaded : loads as_is (init_host, []) ex_loads = Ok (ex_host, []).
Proof. vm_compute. reflexivity. Qed.
Example ex_inv : WF ex_host /\ Acyclic ex_host.
Proof. exact (C15_acyclic_preserved as_is ex_loads init_host [] ex_host [] eq_refl init_wf init_acyclic ex_loaded). Qed.
(* B >> arr = inherited ++ appended, B >> x hidden by delete although A defines it, A >> x = 5 *)
Example ex_append : exists e, op_path ex_host (Some 0) [nB; n_arr] = Ok (Some e, []) /\
  op_getArray ex_host (Some e) = Ok ([VNum 1; VArr [VNum 2; VStr nB]; VNum 3], []).
Proof. eexists. split; vm_compute; reflexivity. Qed.
Example ex_delete : op_path ex_host (Some 0) [nB; nx] = Ok (None, [W_NOTFOUND]) /\
  exists e, op_path ex_host (Some 0) [nA; nx] = Ok (Some e, []) /\ op_getNumber ex_host (Some e) = Ok (5%Z, []).
Proof. split; [vm_compute; reflexivity|]. eexists. split; vm_compute; reflexivity. Qed.
Example ex_inherits : op_inheritsFrom as_is ex_host (Some 4) = Ok (Some 1, []) /\
  op_hierarchy as_is ex_host (Some 5) = Ok (HConfigs [0; 4; 5], []).
Proof. split; vm_compute; reflexivity. Qed.
(* the repaired code refuses the cycle of the witness and logs the new warning *)
Example ex_cycle_refused : exists h, loads as_is (init_host, []) cycle_witness = Ok (h, [W_CYCLE_REFUSED]) /\
  op_path h (Some 0) [nA; nx] = Ok (None, [W_NOTFOUND]).
Proof. eexists. split; vm_compute; reflexivity. Qed.
