(* C17 - PBO archives are read faithfully; damaged ones are rejected safely.
   Theorems only; proofs live in PBO/PboProofs.v. The model (PBO/PboDefs.v) is tied to
   src/rvutils/pbofile.hpp by the correspondence run of checks/C17.py. *)
From Coq Require Import ZArith List.
Import ListNotations.
From SqfVerif Require Import PBO.PboDefs PBO.PboProofs PBO.PboTrunc.
Local Open Scope Z_scope.

(* Every well-formed archive of any size: the reader reports exactly the stored
   properties and the entry list (names, sizes), in order. *)
Theorem C17_open_pack : forall a, wf a ->
  exists p, open (pack a) = Some p /\ attributes p = props a /\ files p = listing a.
Proof. exact open_pack. Qed.
Print Assumptions C17_open_pack.

(* ... and every entry's bytes come back unchanged (first entry of that name). *)
Theorem C17_read_pack : forall a name, wf a -> name <> [] ->
  exists p, open (pack a) = Some p /\
    read_entry (pack a) p name = option_map edata (find (fun e => eqbl (ename e) name) (entries a)).
Proof. exact read_pack. Qed.
Print Assumptions C17_read_pack.

(* ANY byte string (truncated, corrupted): if the reader accepts it, every exposed
   entry's data block lies inside the file. *)
Theorem C17_exposed_inside : forall l p, Forall isbyte l -> open l = Some p ->
  p_len p = len l /\
  Forall (fun h => 0 <= h_start h /\ 0 <= h_size h /\ h_start h + h_size h <= len l) (p_hdrs p).
Proof. exact exposed_inside. Qed.
Print Assumptions C17_exposed_inside.

(* ... and what a read returns is a slice of the file of exactly the advertised size, so
   the buffer the reader allocates (descriptor().size) never exceeds the file length. *)
Theorem C17_read_bounded : forall l p name d, Forall isbyte l -> open l = Some p ->
  read_entry l p name = Some d ->
  exists h, In h (p_hdrs p) /\ len d = h_size h /\ h_size h <= len l /\
            d = slice l (h_start h) (h_size h) /\ h_start h + h_size h <= len l.
Proof. exact read_bounded. Qed.
Print Assumptions C17_read_bounded.

(* The reader's two loops terminate within the file length (fuel = |file| is never exhausted:
   any larger fuel gives the same answer). *)
Theorem C17_open_fuel_irrelevant : forall (l:list Z) f, (length l <= f)%nat ->
  forall r0, (length r0 < length l)%nat ->
  take_attrs (length l) r0 = take_attrs f r0 /\ take_hdrs (length l) r0 = take_hdrs f r0.
Proof. exact open_fuel_irrelevant. Qed.
Print Assumptions C17_open_fuel_irrelevant.

(* DAMAGED ARCHIVES, truncation: EVERY proper prefix of a well-formed packed archive (any size, any cut) is refused by the
   reader - a truncated archive exposes no entry at all, hence no damaged one. *)
Theorem C17_truncation_rejected : forall a n, wf a -> (n < length (pack a))%nat -> open (firstn n (pack a)) = None.
Proof. exact truncation_rejected. Qed.
Print Assumptions C17_truncation_rejected.

(* Bytes behind the data area (a checksum trailer, padding, garbage of any length) change nothing: ANY archive the reader
   accepts is accepted with the same properties and the same table when bytes are appended ... *)
Theorem C17_trailing_bytes_ignored : forall l p x, open l = Some p ->
  open (l ++ x) = Some {| p_attrs := p_attrs p; p_hdrs := p_hdrs p; p_len := len l + len x |}.
Proof. exact open_ext. Qed.
Print Assumptions C17_trailing_bytes_ignored.

(* ... and every read returns the same bytes as without them. *)
Theorem C17_trailing_bytes_reads : forall l p x name, Forall isbyte l -> open l = Some p ->
  read_entry (l ++ x) {| p_attrs := p_attrs p; p_hdrs := p_hdrs p; p_len := len l + len x |} name = read_entry l p name.
Proof. exact read_ext. Qed.
Print Assumptions C17_trailing_bytes_reads.

(* Corruption confined to the data area (same length, any bytes): the reader reports the properties and the table of the
   undamaged archive - names, sizes and positions of all entries are as stored; only the bytes that were changed differ. *)
Theorem C17_data_corruption_keeps_table : forall a d', wf a -> length d' = length (flat_map edata (entries a)) ->
  let L := pack a in
  let L' := firstn (length L - length d') L ++ d' in
  exists p', open L' = Some p' /\ p_attrs p' = props a /\ p_hdrs p' = p_hdrs (packed_pbo a) /\ p_len p' = len L.
Proof. exact data_corruption_table. Qed.
Print Assumptions C17_data_corruption_keeps_table.

(* ... and an entry whose own bytes are still at their place reads back exactly as stored, whatever happened to the bytes of
   the other entries: damage stays local, an exposed entry that was not hit is intact. *)
Theorem C17_data_corruption_intact_entry : forall ps pre e post d',
  let a := {| props := ps; entries := pre ++ e :: post |} in
  wf a -> length d' = length (flat_map edata (entries a)) ->
  Forall (fun x => eqbl (ename x) (ename e) = false) pre ->
  slice d' (len (flat_map edata pre)) (len (edata e)) = edata e ->
  let L := pack a in
  let L' := firstn (length L - length d') L ++ d' in
  exists p', open L' = Some p' /\ read_entry L' p' (ename e) = Some (edata e).
Proof. exact data_corruption_intact_entry. Qed.
Print Assumptions C17_data_corruption_intact_entry.

(* non-vacuity: a concrete two-entry archive with a property meets wf and reads back *)
Definition ex_archive : archive :=
  {| props := [([112;114;101;102;105;120], [120;92;121])];
     entries := [ {| ename := [97;46;115;113;102]; edata := [49;43;49;0;255]; etime := 7 |};
                  {| ename := [100;92;98]; edata := []; etime := 0 |} ] |}.
Example ex_wf : wf ex_archive.
Proof.
  unfold wf, ex_archive, wf_key, nonul, u32; cbn.
  repeat constructor; try discriminate; cbn; try reflexivity; try (intro; discriminate).
Qed.
Example ex_reads : exists p, open (pack ex_archive) = Some p /\
  read_entry (pack ex_archive) p [97;46;115;113;102] = Some [49;43;49;0;255] /\
  read_entry (pack ex_archive) p [100;92;98] = Some [].
Proof. eexists. split; [vm_compute; reflexivity|]. split; vm_compute; reflexivity. Qed.
(* and a truncated archive is rejected by the model *)
Example ex_truncated : open (firstn 60 (pack ex_archive)) = None.
Proof. vm_compute. reflexivity. Qed.
(* non-vacuity of the damaged-archive theorems: every cut of the example archive is refused (checked in the kernel for all
   cuts), 21 appended bytes are ignored, and a changed data byte leaves the table alone *)
Example ex_all_cuts_refused :
  forallb (fun n => match open (firstn n (pack ex_archive)) with None => true | Some _ => false end)
          (seq 0 (length (pack ex_archive))) = true.
Proof. vm_compute. reflexivity. Qed.
Example ex_trailer : exists p, open (pack ex_archive ++ repeat 7 21) = Some p /\
  read_entry (pack ex_archive ++ repeat 7 21) p [97;46;115;113;102] = Some [49;43;49;0;255].
Proof. eexists. split; vm_compute; reflexivity. Qed.
