From Coq Require Import ZArith List String ExtrOcamlBasic.
From SqfVerif Require Import VM.VmDefs VM.VmExec VM.SchedDefs.
Extraction Language OCaml.
Extraction "../ocaml/gen/sched_model.ml" create_rt load compile_block print_block show_code run_history.
