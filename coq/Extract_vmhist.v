From Coq Require Import ZArith List String ExtrOcamlBasic.
From SqfVerif Require Import VM.VmDefs VM.VmExec VM.C04Defs.
Extraction Language OCaml.
Extraction "../ocaml/gen/vmhist_model.ml" create_rt compile_block print_block hist_trace.
