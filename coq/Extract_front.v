From Coq Require Import ZArith NArith List ExtrOcamlBasic.
From SqfVerif Require Import Front.Machine Front.Tok Front.Reader Front.Scan.
Extraction Language OCaml.
Extraction "../ocaml/gen/front_model.ml" lex next code as_is repaired
  ras_is rrepaired stream next_char get_word get_line parse_define trim_l.
