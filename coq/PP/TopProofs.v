(* C13: laws of the reference expander - file level: passthrough, strings inviolate,
   whole identifiers, inactive branches, the macro table. *)
From Coq Require Import ZArith List Bool Lia.
Import ListNotations.
From SqfVerif Require Import PP.Spec PP.ReaderProofs PP.ExpandProofs.
Local Open Scope Z_scope.

(* characters of a text that the reader passes on unchanged: byte, position, empty gap *)
Fixpoint pos_chars (ln col:Z) (s:list byte) : list pchar :=
  match s with
  | [] => []
  | c :: t => mkpc c ln col [] :: (if c =? NL then pos_chars (ln + 1) 0 t else pos_chars ln (col + 1) t)
  end.
Fixpoint pos_end (ln col:Z) (s:list byte) : Z * Z :=
  match s with
  | [] => (ln, col)
  | c :: t => if c =? NL then pos_end (ln + 1) 0 t else pos_end ln (col + 1) t
  end.

Lemma bytes_pos_chars : forall s ln col, bytes (pos_chars ln col s) = s.
Proof. induction s; intros; simpl; auto. destruct (a =? NL); simpl; rewrite IHs; reflexivity. Qed.
Lemma hid_pos_chars : forall s ln col, hid_sum (pos_chars ln col s) = O.
Proof. induction s; intros; simpl; auto. destruct (a =? NL); simpl; rewrite IHs; reflexivity. Qed.
Lemma pos_chars_app : forall a b ln col,
  pos_chars ln col (a ++ b) = pos_chars ln col a ++ pos_chars (fst (pos_end ln col a)) (snd (pos_end ln col a)) b.
Proof.
  induction a; intros; simpl; auto. destruct (a =? NL); simpl; rewrite IHa; reflexivity.
Qed.

(* no CR, no comment start, no backslash-newline *)
Fixpoint plain (s:list byte) : Prop :=
  match s with
  | [] => True
  | c :: t =>
      c <> CR /\
      (c = SLASH -> match t with d :: _ => d <> SLASH /\ d <> STAR | [] => True end) /\
      (c = BSL -> match t with d :: _ => d <> NL /\ d <> CR | [] => True end) /\
      plain t
  end.

Lemma rd_plain : forall s m ln col, plain s -> m = RNormal \/ m = RString ->
  rd m ln col [] s = pos_chars ln col s.
Proof.
  induction s as [|c t IH]; intros m ln col P M; simpl; auto.
  simpl in P. destruct P as (P1 & P2 & P3 & P4).
  apply Z.eqb_neq in P1. rewrite P1.
  assert (N: forall ln col, rd RNormal ln col [] t = pos_chars ln col t) by (intros; apply IH; auto).
  assert (S: forall ln col, rd RString ln col [] t = pos_chars ln col t) by (intros; apply IH; auto).
  destruct M; subst m.
  - destruct (c =? SLASH) eqn:E1.
    { apply Z.eqb_eq in E1. subst c. specialize (P2 eq_refl). simpl.
      destruct t as [|d t']; [reflexivity|]. destruct P2 as [Q1 Q2].
      apply Z.eqb_neq in Q1, Q2. rewrite Q1, Q2. rewrite N. reflexivity. }
    destruct (c =? BSL) eqn:E2.
    { apply Z.eqb_eq in E2. subst c. specialize (P3 eq_refl). simpl.
      destruct t as [|d t']; [reflexivity|]. destruct P3 as [Q1 Q2].
      apply Z.eqb_neq in Q1, Q2. rewrite Q1, Q2. rewrite N. reflexivity. }
    destruct (c =? QUOTE) eqn:E3.
    { apply Z.eqb_eq in E3. subst c. simpl. rewrite S. reflexivity. }
    destruct (c =? NL); rewrite N; reflexivity.
  - destruct (c =? QUOTE) eqn:E3.
    { apply Z.eqb_eq in E3. subst c. simpl. rewrite N. reflexivity. }
    destruct (c =? NL); rewrite S; reflexivity.
Qed.

Lemma render_src : forall file cs, render (map (src file) cs) = bytes cs.
Proof. induction cs; simpl; auto. unfold render in *. simpl. rewrite IHcs. reflexivity. Qed.

(* ---- tokens that are written to the output as they are ---- *)
Definition verbatim_tok (tbl:table) (t:ltok) : Prop :=
  match t with
  | LW w => lookup tbl (bytes w) = None
  | LS _ => True
  | LC _ => True
  | LD _ _ _ => False
  end.

Section TopLaws.
  Variable d : defects.
  Variable file : list byte.
  Variable eof_line : Z.
  Variable dfuel : nat.
  Variable incl : table -> list byte -> res (list oitem * table * bool).
  Notation topD := (top d file eof_line dfuel incl).
  Notation src := (src file).

  Lemma add_pend_0 : forall st b, add_pend st 0 b = st.
  Proof.
    intros [t c p h] b. unfold add_pend; simpl. rewrite Nat.add_0_r.
    rewrite andb_false_r, orb_false_r. reflexivity.
  Qed.

  Lemma flush_0 : flush d 0 = [].
  Proof. unfold flush. destruct (d_missing_newlines d); reflexivity. Qed.

  Lemma hid_sum_app' : forall a b, hid_sum (a ++ b) = (hid_sum a + hid_sum b)%nat.
  Proof. induction a; intros; simpl; auto. rewrite IHa. lia. Qed.

  Lemma top_verbatim : forall toks st, active st = true -> ts_pend st = O ->
    Forall (verbatim_tok (ts_tbl st)) toks -> hid_sum (ltoks_chars toks) = O ->
    topD st O toks = Ok (map src (ltoks_chars toks), st).
  Proof.
    induction toks as [|t rest IH]; intros st A P F H.
    { reflexivity. }
    inversion F as [|x y Ft Fr]; subst.
    change (ltoks_chars (t :: rest)) with (ltok_chars t ++ ltoks_chars rest) in *.
    rewrite hid_sum_app' in H.
    assert (H1: hid_sum (ltok_chars t) = O) by lia. assert (H2: hid_sum (ltoks_chars rest) = O) by lia.
    specialize (IH st A P Fr H2).
    destruct t as [w|s|c|h l nl]; simpl in Ft; simpl in H1.
    - simpl. rewrite H1, add_pend_0, A. unfold top_word. rewrite Ft. simpl.
      rewrite IH. simpl. rewrite map_app. reflexivity.
    - simpl. rewrite H1, add_pend_0, A. rewrite IH. simpl. rewrite map_app. reflexivity.
    - simpl. assert (Hc: hid c = O) by lia. rewrite Hc, add_pend_0.
      destruct (pc_b c =? NL).
      + assert (E: clear_pend st = st) by (destruct st; simpl in *; subst; reflexivity).
        rewrite E, IH, P. change (0 + 0)%nat with 0%nat. rewrite flush_0. reflexivity.
      + rewrite A, IH. reflexivity.
    - contradiction.
  Qed.
End TopLaws.

(* passthrough: a text with no comment, continuation or CR (plain), no directive and no macro name
   reaches the output byte for byte - behind the '#line 0' that opens the file. *)
Theorem passthrough : forall d fs file s,
  plain s ->
  Forall (verbatim_tok initial_table) (lex (MNorm true) (read s)) ->
  preprocess d fs file s = Ok (OLine 0 file :: map (src file) (read s), initial_table, false) /\
  render (map (src file) (read s)) = s.
Proof.
  intros d fs file s P F.
  assert (R: read s = pos_chars 1 0 s) by (apply rd_plain; auto).
  split.
  - unfold preprocess. cbn [pp_file].
    rewrite (top_verbatim d file _ _ _ _ (mkts initial_table [] 0 false)); auto.
    + simpl. rewrite lex_chars. reflexivity.
    + rewrite lex_chars. simpl. rewrite R. apply hid_pos_chars.
  - rewrite render_src, R. apply bytes_pos_chars.
Qed.

(* ---- whole identifiers ---- *)
Lemma lex_word_acc : forall w acc c rest, Forall wordc w -> ~ wordc c ->
  lex (MWord acc) (w ++ c :: rest) = LW (acc ++ w) :: lex (MNorm false) (c :: rest).
Proof.
  induction w as [|a w' IH]; intros acc c rest W NC.
  - simpl. unfold wordc in NC. destruct (is_word (pc_b c)); [congruence|].
    rewrite app_nil_r. destruct (lex_norm false c) as [o m']. reflexivity.
  - inversion W; subst. simpl. unfold wordc in H1. rewrite H1. simpl.
    rewrite IH by auto. rewrite <- app_assoc. reflexivity.
Qed.

(* an identifier is one token, however many macro names it contains as parts *)
Theorem lex_word : forall w c rest bol, w <> [] -> Forall wordc w -> ~ wordc c ->
  lex (MNorm bol) (w ++ c :: rest) = LW w :: lex (MNorm false) (c :: rest).
Proof.
  intros w c rest bol N W NC. destruct w as [|a w']; [congruence|].
  inversion W; subst. simpl. unfold lex_norm. unfold wordc in H1. rewrite H1. simpl.
  rewrite lex_word_acc by auto. reflexivity.
Qed.

Section TopLaws2.
  Variable d : defects.
  Variable file : list byte.
  Variable eof_line : Z.
  Variable dfuel : nat.
  Variable incl : table -> list byte -> res (list oitem * table * bool).
  Notation topD := (top d file eof_line dfuel incl).
  Notation src := (src file).

  (* ... and only the whole identifier is looked up: when it is no macro it is written as it is *)
  Theorem whole_identifier_only : forall st w rest,
    active (add_pend st (hid_sum w) true) = true ->
    lookup (ts_tbl st) (bytes w) = None ->
    topD st O (LW w :: rest) =
    bind (topD (add_pend st (hid_sum w) true) O rest) (fun r => Ok (map src w ++ fst r, snd r)).
  Proof.
    intros st w rest A L. simpl. rewrite A. unfold top_word. simpl. rewrite L. reflexivity.
  Qed.

  (* the positive side: an object-like macro used as a whole identifier is replaced by its expansion *)
  Theorem object_macro_expanded : forall st w rest m x,
    active (add_pend st (hid_sum w) true) = true ->
    lookup (ts_tbl st) (bytes w) = Some m -> callable m = false ->
    call dfuel (ts_tbl st) file
         (match rest with t :: _ => match tok_line t with Some l => l | None => eof_line end | [] => eof_line end)
         [] (bytes w) m [] = Ok x ->
    exists st2, topD st O (LW w :: rest) =
                bind (topD st2 O rest) (fun r => Ok (map mac x ++ fst r, snd r)).
  Proof.
    intros st w rest m x A L C E. simpl. rewrite A. unfold top_word. simpl. rewrite L, C.
    simpl in E. rewrite E. simpl. eexists. reflexivity.
  Qed.

  (* ---- strings ---- *)
  Theorem string_token_copied : forall st s rest,
    active (add_pend st (hid_sum s) true) = true ->
    topD st O (LS s :: rest) =
    bind (topD (add_pend st (hid_sum s) true) O rest) (fun r => Ok (map src s ++ fst r, snd r)).
  Proof. intros st s rest A. simpl. rewrite A. reflexivity. Qed.
End TopLaws2.

(* the reader does not touch a string literal: no comment removal, no continuation *)
Lemma rd_in_string : forall body rest ln col, ~ In QUOTE body -> ~ In CR body ->
  rd RString ln col [] (body ++ QUOTE :: rest) =
  pos_chars ln col (body ++ [QUOTE]) ++
  rd RNormal (fst (pos_end ln col (body ++ [QUOTE]))) (snd (pos_end ln col (body ++ [QUOTE]))) [] rest.
Proof.
  induction body as [|c t IH]; intros rest ln col NQ NC.
  - reflexivity.
  - assert (E1: (c =? CR) = false) by (apply Z.eqb_neq; intros X; apply NC; left; auto).
    assert (E2: (c =? QUOTE) = false) by (apply Z.eqb_neq; intros X; apply NQ; left; auto).
    assert (NQ': ~ In QUOTE t) by (intros X; apply NQ; right; auto).
    assert (NC': ~ In CR t) by (intros X; apply NC; right; auto).
    simpl. rewrite E1, E2. destruct (c =? NL); rewrite IH by auto; reflexivity.
Qed.

Theorem strings_inviolate_reader : forall body rest ln col gap, ~ In QUOTE body -> ~ In CR body ->
  exists ln' col',
  rd RNormal ln col gap (QUOTE :: body ++ QUOTE :: rest) =
  mkpc QUOTE ln col gap :: pos_chars ln (col + 1) (body ++ [QUOTE]) ++ rd RNormal ln' col' [] rest.
Proof.
  intros. eexists. eexists. simpl. rewrite rd_in_string by auto. reflexivity.
Qed.

(* the lexer makes one token of it: no directive, word or macro is seen inside *)
Lemma lex_str_acc : forall sc acc bol q rest, Forall (fun c => pc_b c <> QUOTE) sc -> pc_b q = QUOTE ->
  lex (MStr acc bol) (sc ++ q :: rest) = LS (acc ++ sc ++ [q]) :: lex (MNorm bol) rest.
Proof.
  induction sc as [|c t IH]; intros acc bol q rest F Q.
  - simpl. rewrite Q. simpl. reflexivity.
  - inversion F; subst. simpl. apply Z.eqb_neq in H1. rewrite H1.
    rewrite IH by auto. rewrite <- app_assoc. reflexivity.
Qed.
Theorem strings_inviolate_lexer : forall q1 sc q2 rest bol,
  pc_b q1 = QUOTE -> pc_b q2 = QUOTE -> Forall (fun c => pc_b c <> QUOTE) sc ->
  lex (MNorm bol) (q1 :: sc ++ q2 :: rest) = LS (q1 :: sc ++ [q2]) :: lex (MNorm bol) rest.
Proof.
  intros q1 sc q2 rest bol Q1 Q2 F. simpl. unfold lex_norm. rewrite Q1. simpl.
  rewrite lex_str_acc by auto. reflexivity.
Qed.

(* inside macro arguments and macro bodies a string literal is copied as well *)
Theorem strings_inviolate_args : forall tbl callf inner pm s rest,
  xarg_go tbl callf inner pm O (BS s :: rest) =
  bind (xarg_go tbl callf inner pm O rest) (fun y => Ok (s ++ y)).
Proof. reflexivity. Qed.
Theorem strings_inviolate_bodies : forall tbl callf pm s rest,
  xbody tbl callf pm O (BS s :: rest) = bind (xbody tbl callf pm O rest) (fun y => Ok (s ++ y)).
Proof. reflexivity. Qed.

(* ---- inactive branches ---- *)
Definition is_nl_item (o:oitem) : Prop := match o with OChar b _ => b = NL | OLine _ _ => False end.
Definition dir_of (t:ltok) : option directive :=
  match t with LD _ l _ => Some (parse_directive (bytes l)) | _ => None end.
(* tokens other than conditional directives (an unknown directive is an error everywhere: S8) *)
Definition quiet (t:ltok) : Prop :=
  match dir_of t with
  | None => True
  | Some (DDefine _ _) | Some (DUndef _) | Some (DInclude _) | Some DPragma => True
  | Some _ => False
  end.
Definition is_if (t:ltok) : Prop :=
  match dir_of t with Some (DIfdef _) | Some (DIfndef _) => True | _ => False end.
Definition is_else (t:ltok) : Prop := match dir_of t with Some DElse => True | _ => False end.
Definition is_endif (t:ltok) : Prop := match dir_of t with Some DEndif => True | _ => False end.

(* a stretch of a file in which every #ifdef/#ifndef has its #endif *)
Inductive inert : list ltok -> Prop :=
| inert_nil : inert []
| inert_tok : forall t l, wf_ltok t -> quiet t -> inert l -> inert (t :: l)
| inert_if : forall i a e l, wf_ltok i -> is_if i -> inert a -> wf_ltok e -> is_endif e -> inert l ->
    inert (i :: a ++ e :: l)
| inert_ifelse : forall i a el b e l, wf_ltok i -> is_if i -> inert a -> wf_ltok el -> is_else el ->
    inert b -> wf_ltok e -> is_endif e -> inert l ->
    inert (i :: a ++ el :: b ++ e :: l).

Section Inactive.
  Variable d : defects.
  Variable file : list byte.
  Variable eof_line : Z.
  Variable dfuel : nat.
  Variable incl : table -> list byte -> res (list oitem * table * bool).
  Notation topD := (top d file eof_line dfuel incl).
  Notation src := (src file).

  Lemma flush_nl : forall n, Forall is_nl_item (flush d n).
  Proof.
    intros. unfold flush. destruct (d_missing_newlines d); [constructor|].
    induction n; simpl; constructor; simpl; auto.
  Qed.
  Lemma nl_only_nl : forall s, Forall is_nl_item (nl_only file s).
  Proof.
    induction s; unfold nl_only in *; simpl; [constructor|].
    destruct (pc_b a =? NL) eqn:E; simpl; auto. constructor; auto. simpl. apply Z.eqb_eq; auto.
  Qed.

  (* what one step in an inactive branch can do *)
  Definition silent_step (st:tstate) (t:ltok) (rest:list ltok) (conds':list cond) : Prop :=
    forall items st', topD st O (t :: rest) = Ok (items, st') ->
    exists o st1 items', items = o ++ items' /\ Forall is_nl_item o /\
      ts_tbl st1 = ts_tbl st /\ ts_conds st1 = conds' /\ topD st1 O rest = Ok (items', st').

  Lemma bind_top_inv : forall st1 rest (o:list oitem) items st',
    bind (topD st1 O rest) (fun r2 => Ok (o ++ fst r2, snd r2)) = Ok (items, st') ->
    exists items', items = o ++ items' /\ topD st1 O rest = Ok (items', st').
  Proof.
    intros st1 rest o items st' H. destruct (topD st1 0 rest) as [[i2 s2]|]; [|discriminate].
    simpl in H. inversion H; subst. eauto.
  Qed.

  Lemma directive_silent : forall st h l nl rest,
    active st = false -> wf_ltok (LD h l nl) ->
    match parse_directive (bytes l) with
    | DDefine _ _ | DUndef _ | DInclude _ | DPragma =>
        silent_step st (LD h l nl) rest (ts_conds st)
    | DIfdef _ | DIfndef _ => silent_step st (LD h l nl) rest (mkcond false false :: ts_conds st)
    | DElse => forall cs, ts_conds st = mkcond false false :: cs ->
                 silent_step st (LD h l nl) rest (mkcond false false :: cs)
    | DEndif => forall c cs, ts_conds st = c :: cs -> silent_step st (LD h l nl) rest cs
    | DUnknown => True
    end.
  Proof.
    intros st h l nl rest A [Wh Wn].
    assert (NLI: is_nl_item (match nl with Some c => src c | None => OChar NL PSynth end)).
    { destruct nl as [c|]; simpl; auto. apply Z.eqb_eq; auto. }
    (* the plain answer of a directive *)
    assert (PL: forall st1' st2 conds', ts_tbl st2 = ts_tbl st -> ts_conds st2 = conds' ->
              forall items st',
              bind (Ok (flush d (ts_pend st1') ++ [match nl with Some c => src c | None => OChar NL PSynth end], st2))
                   (fun r => bind (topD (snd r) O rest) (fun r2 => Ok (fst r ++ fst r2, snd r2))) = Ok (items, st') ->
              exists o st1 items', items = o ++ items' /\ Forall is_nl_item o /\
                ts_tbl st1 = ts_tbl st /\ ts_conds st1 = conds' /\ topD st1 O rest = Ok (items', st')).
    { intros st1' st2 conds' T C items st' H. simpl in H. apply bind_top_inv in H.
      destruct H as (items' & E1 & E2). exists (flush d (ts_pend st1') ++ [match nl with Some c => src c | None => OChar NL PSynth end]), st2, items'.
      repeat split; auto. apply Forall_app. split; [apply flush_nl | constructor; auto]. }
    destruct (parse_directive (bytes l)) eqn:EP; auto;
      try (intros items st' H; cbn [top] in H; unfold top_directive in H; rewrite EP in H;
           cbv beta zeta iota in H; try rewrite A in H; eapply PL; [| |exact H]; reflexivity).
    - intros cs C items st' H; cbn [top] in H; unfold top_directive in H; rewrite EP in H.
      cbv beta zeta iota in H. simpl ts_conds in H. rewrite C in H. eapply PL; [| |exact H]; reflexivity.
    - intros c cs C items st' H; cbn [top] in H; unfold top_directive in H; rewrite EP in H.
      cbv beta zeta iota in H. simpl ts_conds in H. rewrite C in H. eapply PL; [| |exact H]; reflexivity.
  Qed.

  Lemma active_conds : forall a b, ts_conds a = ts_conds b -> active a = active b.
  Proof. intros. unfold active. rewrite H. reflexivity. Qed.

  Lemma quiet_silent : forall st t rest, active st = false -> wf_ltok t -> quiet t ->
    silent_step st t rest (ts_conds st).
  Proof.
    intros st t rest A W Q. destruct t as [w|s|c|h l nl].
    - intros items st' H. simpl in H.
      rewrite (active_conds (add_pend st (hid_sum w) true) st eq_refl), A in H.
      exists [], (add_pend st (hid_sum w) true), items. repeat split; auto.
    - intros items st' H. simpl in H.
      rewrite (active_conds (add_pend st (hid_sum s) true) st eq_refl), A in H.
      apply bind_top_inv in H. destruct H as (items' & E1 & E2).
      eexists. exists (add_pend st (hid_sum s) true), items'. repeat split; eauto.
      destruct (d_missing_newlines d); [constructor | apply nl_only_nl].
    - intros items st' H. simpl in H. destruct (pc_b c =? NL) eqn:E.
      + change (flush d (ts_pend (add_pend st (hid c) true)) ++ src c :: ?x) with x in H.
        destruct (topD (clear_pend (add_pend st (hid c) true)) 0 rest) as [[i2 s2]|] eqn:E2; [|discriminate].
        simpl in H. inversion H; subst.
        exists (flush d (ts_pend (add_pend st (hid c) true)) ++ [src c]), (clear_pend (add_pend st (hid c) true)), i2.
        rewrite <- app_assoc. repeat split; auto.
        apply Forall_app. split; [apply flush_nl|]. constructor; auto. simpl. apply Z.eqb_eq; auto.
      + rewrite (active_conds (add_pend st (hid c) true) st eq_refl), A in H.
        exists [], (add_pend st (hid c) true), items. repeat split; auto.
    - pose proof (directive_silent st h l nl rest A W) as D.
      unfold quiet, dir_of in Q. destruct (parse_directive (bytes l)); try contradiction; exact D.
  Qed.

  (* inactive_never_emitted: a balanced stretch of an inactive branch - text, strings, macro uses,
     #define, #undef, #include, nested conditionals with their #else - contributes newlines only,
     leaves the macro table and the condition stack as they were, and processing goes on behind it. *)
  Theorem inactive_never_emitted : forall toks, inert toks ->
    forall st rest items st', active st = false ->
    topD st O (toks ++ rest) = Ok (items, st') ->
    exists o st1 items', items = o ++ items' /\ Forall is_nl_item o /\
      ts_tbl st1 = ts_tbl st /\ ts_conds st1 = ts_conds st /\ topD st1 O rest = Ok (items', st').
  Proof.
    induction 1 as [|t l W Q I IH|i a e l Wi Ii Ia IHa We Ie Il IHl|i a el b e l Wi Ii Ia IHa Wel Iel Ib IHb We Ie Il IHl];
      intros st rest items st' A H.
    - exists [], st, items. repeat split; auto.
    - simpl app in H. destruct (quiet_silent st t (l ++ rest) A W Q items st' H) as (o1 & s1 & i1 & E1 & N1 & T1 & C1 & R1).
      assert (A1: active s1 = false) by (rewrite (active_conds s1 st C1); auto).
      destruct (IH s1 rest i1 st' A1 R1) as (o2 & s2 & i2 & E2 & N2 & T2 & C2 & R2).
      exists (o1 ++ o2), s2, i2. subst. rewrite <- app_assoc. repeat split; auto; try congruence.
      apply Forall_app; auto.
    - simpl app in H. rewrite <- app_assoc in H. simpl app in H.
      destruct i as [| | |h l0 nl]; try (simpl in Ii; contradiction).
      destruct e as [| | |h2 l2 nl2]; try (simpl in Ie; contradiction).
      pose proof (directive_silent st h l0 nl (a ++ LD h2 l2 nl2 :: l ++ rest) A Wi) as D1.
      unfold is_if, dir_of in Ii. unfold is_endif, dir_of in Ie.
      assert (S1: silent_step st (LD h l0 nl) (a ++ LD h2 l2 nl2 :: l ++ rest) (mkcond false false :: ts_conds st))
        by (destruct (parse_directive (bytes l0)); try contradiction; exact D1).
      destruct (S1 items st' H) as (o1 & s1 & i1 & E1 & N1 & T1 & C1 & R1).
      assert (A1: active s1 = false) by (unfold active; rewrite C1; reflexivity).
      destruct (IHa s1 _ i1 st' A1 R1) as (o2 & s2 & i2 & E2 & N2 & T2 & C2 & R2).
      assert (A2: active s2 = false) by (unfold active; rewrite C2, C1; reflexivity).
      pose proof (directive_silent s2 h2 l2 nl2 (l ++ rest) A2 We) as D2.
      assert (S2: silent_step s2 (LD h2 l2 nl2) (l ++ rest) (ts_conds st)).
      { destruct (parse_directive (bytes l2)); try contradiction. eapply D2. rewrite C2, C1. reflexivity. }
      destruct (S2 i2 st' R2) as (o3 & s3 & i3 & E3 & N3 & T3 & C3 & R3).
      assert (A3: active s3 = false) by (rewrite (active_conds s3 st C3); auto).
      destruct (IHl s3 rest i3 st' A3 R3) as (o4 & s4 & i4 & E4 & N4 & T4 & C4 & R4).
      exists (o1 ++ o2 ++ o3 ++ o4), s4, i4. subst. repeat rewrite <- app_assoc.
      repeat split; auto; try congruence. repeat (apply Forall_app; split; auto).
    - simpl app in H. rewrite <- app_assoc in H. simpl app in H. rewrite <- app_assoc in H. simpl app in H.
      destruct i as [| | |h l0 nl]; try (simpl in Ii; contradiction).
      destruct el as [| | |h1 l1 nl1]; try (simpl in Iel; contradiction).
      destruct e as [| | |h2 l2 nl2]; try (simpl in Ie; contradiction).
      pose proof (directive_silent st h l0 nl (a ++ LD h1 l1 nl1 :: b ++ LD h2 l2 nl2 :: l ++ rest) A Wi) as D1.
      unfold is_if, dir_of in Ii. unfold is_else, dir_of in Iel. unfold is_endif, dir_of in Ie.
      assert (S1: silent_step st (LD h l0 nl) (a ++ LD h1 l1 nl1 :: b ++ LD h2 l2 nl2 :: l ++ rest) (mkcond false false :: ts_conds st))
        by (destruct (parse_directive (bytes l0)); try contradiction; exact D1).
      destruct (S1 items st' H) as (o1 & s1 & i1 & E1 & N1 & T1 & C1 & R1).
      assert (A1: active s1 = false) by (unfold active; rewrite C1; reflexivity).
      destruct (IHa s1 _ i1 st' A1 R1) as (o2 & s2 & i2 & E2 & N2 & T2 & C2 & R2).
      assert (A2: active s2 = false) by (unfold active; rewrite C2, C1; reflexivity).
      pose proof (directive_silent s2 h1 l1 nl1 (b ++ LD h2 l2 nl2 :: l ++ rest) A2 Wel) as Dm.
      assert (Sm: silent_step s2 (LD h1 l1 nl1) (b ++ LD h2 l2 nl2 :: l ++ rest) (mkcond false false :: ts_conds st)).
      { destruct (parse_directive (bytes l1)); try contradiction. eapply Dm. rewrite C2, C1. reflexivity. }
      destruct (Sm i2 st' R2) as (om & sm & im & Em & Nm & Tm & Cm & Rm).
      assert (Am: active sm = false) by (unfold active; rewrite Cm; reflexivity).
      destruct (IHb sm _ im st' Am Rm) as (ob & sb & ib & Eb & Nb & Tb & Cb & Rb).
      assert (Ab: active sb = false) by (unfold active; rewrite Cb, Cm; reflexivity).
      pose proof (directive_silent sb h2 l2 nl2 (l ++ rest) Ab We) as D2.
      assert (S2: silent_step sb (LD h2 l2 nl2) (l ++ rest) (ts_conds st)).
      { destruct (parse_directive (bytes l2)); try contradiction. eapply D2. rewrite Cb, Cm. reflexivity. }
      destruct (S2 ib st' Rb) as (o3 & s3 & i3 & E3 & N3 & T3 & C3 & R3).
      assert (A3: active s3 = false) by (rewrite (active_conds s3 st C3); auto).
      destruct (IHl s3 rest i3 st' A3 R3) as (o4 & s4 & i4 & E4 & N4 & T4 & C4 & R4).
      exists (o1 ++ o2 ++ om ++ ob ++ o3 ++ o4), s4, i4. subst. repeat rewrite <- app_assoc.
      repeat split; auto; try congruence. repeat (apply Forall_app; split; auto).
  Qed.
End Inactive.

(* ---- the macro table ---- *)
Definition apply_dir (t:table) (dir:directive) : table :=
  match dir with DDefine n m => define t n m | DUndef n => remove t n | _ => t end.
Definition dir_or_unknown (t:ltok) : directive := match dir_of t with Some x => x | None => DUnknown end.
Definition is_defundef (t:ltok) : Prop :=
  match dir_of t with Some (DDefine _ _) | Some (DUndef _) => True | _ => False end.

Lemma beq_neq : forall a b, a <> b -> beq a b = false.
Proof. intros a b N. destruct (beq a b) eqn:E; auto. apply beq_true_eq in E. congruence. Qed.

Theorem lookup_remove_same : forall t n, lookup (remove t n) n = None.
Proof.
  induction t as [|[k m] r IH]; intros n; simpl; auto.
  destruct (beq k n) eqn:E; auto. simpl. rewrite E. auto.
Qed.
Theorem lookup_remove_other : forall t n k, n <> k -> lookup (remove t n) k = lookup t k.
Proof.
  induction t as [|[k0 m] r IH]; intros n k N; simpl; auto.
  destruct (beq k0 n) eqn:E.
  - apply beq_true_eq in E. subst. rewrite (beq_neq _ _ N). auto.
  - simpl. destruct (beq k0 k); auto.
Qed.
Theorem lookup_define_same : forall t n m, lookup (define t n m) n = Some m.
Proof. intros. unfold define. simpl. rewrite beq_same. reflexivity. Qed.
Theorem lookup_define_other : forall t n m k, n <> k -> lookup (define t n m) k = lookup t k.
Proof. intros. unfold define. simpl. rewrite (beq_neq _ _ H). apply lookup_remove_other; auto. Qed.

Section Table.
  Variable d : defects.
  Variable file : list byte.
  Variable eof_line : Z.
  Variable dfuel : nat.
  Variable incl : table -> list byte -> res (list oitem * table * bool).
  Notation topD := (top d file eof_line dfuel incl).

  Lemma defundef_step : forall st t rest items st',
    active st = true -> wf_ltok t -> is_defundef t ->
    topD st O (t :: rest) = Ok (items, st') ->
    exists o st1 items', items = o ++ items' /\ Forall is_nl_item o /\
      ts_tbl st1 = apply_dir (ts_tbl st) (dir_or_unknown t) /\ ts_conds st1 = ts_conds st /\
      topD st1 O rest = Ok (items', st').
  Proof.
    intros st t rest items st' A W I H.
    destruct t as [| | |h l nl]; try (simpl in I; contradiction).
    unfold is_defundef, dir_or_unknown, dir_of in *. destruct W as [Wh Wn].
    assert (NLI: is_nl_item (match nl with Some c => src file c | None => OChar NL PSynth end)).
    { destruct nl as [c|]; simpl; auto. apply Z.eqb_eq; auto. }
    destruct (parse_directive (bytes l)) eqn:EP; try contradiction;
      cbn [top] in H; unfold top_directive in H; rewrite EP in H; cbv beta zeta iota in H; rewrite A in H;
      simpl in H; apply (bind_top_inv d file eof_line dfuel incl) in H; destruct H as (items' & E1 & E2);
      match type of E1 with items = ?o ++ _ => exists o end;
      match type of E2 with top _ _ _ _ _ ?s _ _ = _ => exists s end;
      exists items'; (split; [exact E1|]); (split; [apply Forall_app; split; [apply flush_nl | constructor; auto]|]);
      repeat split; auto.
  Qed.

  (* define_undef_table: a sequence of #define / #undef lines in an active region leaves exactly the
     table that results from applying them in order (define replaces, undef removes; the four lookup
     laws above say what that means for every name), and each line is answered by newlines only. *)
  Theorem define_undef_table : forall ds st rest items st',
    active st = true -> Forall wf_ltok ds -> Forall is_defundef ds ->
    topD st O (ds ++ rest) = Ok (items, st') ->
    exists o st1 items', items = o ++ items' /\ Forall is_nl_item o /\
      ts_tbl st1 = fold_left apply_dir (map dir_or_unknown ds) (ts_tbl st) /\
      ts_conds st1 = ts_conds st /\ topD st1 O rest = Ok (items', st').
  Proof.
    induction ds as [|t r IH]; intros st rest items st' A W I H.
    - exists [], st, items. repeat split; auto.
    - inversion W; subst. inversion I; subst. simpl app in H.
      destruct (defundef_step st t (r ++ rest) items st' A H2 H4 H) as (o1 & s1 & i1 & E1 & N1 & T1 & C1 & R1).
      assert (A1: active s1 = true) by (rewrite (active_conds s1 st C1); auto).
      destruct (IH s1 rest i1 st' A1 H3 H5 R1) as (o2 & s2 & i2 & E2 & N2 & T2 & C2 & R2).
      exists (o1 ++ o2), s2, i2. subst. rewrite <- app_assoc. repeat split; auto; try congruence.
      + apply Forall_app; auto.
      + simpl. rewrite T2, T1. reflexivity.
  Qed.
End Table.

(* the directive lines of the property's grammar are read as intended *)
Definition str_define_A_1 := [100;101;102;105;110;101;32;65;32;49].             (* define A 1 *)
Definition str_define_F := [100;101;102;105;110;101;32;70;40;88;44;32;89;41;32;88;43;89]. (* define F(X, Y) X+Y *)
Example parse_object_like : parse_directive str_define_A_1 = DDefine [65] (mkmacro None [49] None).
Proof. vm_compute. reflexivity. Qed.
Example parse_function_like :
  parse_directive str_define_F = DDefine [70] (mkmacro (Some [[88];[89]]) [88;43;89] None).
Proof. vm_compute. reflexivity. Qed.
Example parse_undef : parse_directive [117;110;100;101;102;32;65;32] = DUndef [65].
Proof. vm_compute. reflexivity. Qed.
