(* C14: line_sync, column_sync and line_file_macros stated against the byte-level tokenizer model. *)
From Coq Require Import ZArith List Bool Lia.
Import ListNotations.
From SqfVerif Require Import PP.Spec PP.Tracker PP.ReaderProofs PP.SyncProofs PP.TrackerProofs.
Local Open Scope Z_scope.

Lemma render_item_len : forall o, (1 <= length (render_item o))%nat.
Proof. destruct o; simpl; lia. Qed.

Lemma item_offset_lt : forall items i, (i < length items)%nat ->
  (item_offset items i < length (render items))%nat.
Proof.
  induction items as [|o r IH]; intros i H; simpl in H; [lia|].
  change (render (o :: r)) with (render_item o ++ render r). rewrite app_length.
  pose proof (render_item_len o).
  destruct i; simpl; [lia|]. specialize (IH i). lia.
Qed.

Lemma reported_some : forall d path items i, (i < length items)%nat ->
  exists tk, reported d path items i = Some tk.
Proof.
  intros. unfold reported, track.
  destruct (nth_error (fst (fst (trackc d 0 (tk_init path) (render items) []))) (item_offset items i)) eqn:E; eauto.
  apply nth_error_None in E. rewrite trackc_length in E.
  pose proof (item_offset_lt items i H). lia.
Qed.

(* line_sync: every output byte with provenance (f,l,c) is, for the tokenizer, in file f on line l.
   Hypotheses: the run reported no newline out of step (no continuation in plain text, no macro call
   spanning lines: both outside C14's quantifier) and the tokenizer recognises exactly the emitted
   '#line' texts (decidable on the output, evaluated by the correspondence on every case). *)
Theorem line_sync : forall fs file content path items tbl i b f l c,
  preprocess repaired fs file content = Ok (items, tbl, false) ->
  recognises repaired (tk_init path) items = true ->
  nth_error items i = Some (OChar b (PSrc f l c)) ->
  exists tk, reported repaired path items i = Some tk /\
             tp_file (tk_pos tk) = f /\ tp_line (tk_pos tk) = l.
Proof.
  intros fs file content path items tbl i b f l c HP HR HN.
  assert (Li: (i < length items)%nat) by (apply nth_error_Some; congruence).
  destruct (reported_some repaired path items i Li) as [tk Htk].
  exists tk. split; auto.
  unfold reported, track in Htk.
  assert (A0: agree true (tk_pos (tk_init path)) (tk_pos (tk_init path))) by (unfold agree; auto).
  pose proof (recognises_agree repaired true (fun _ => eq_refl) items (tk_init path) _ A0 HR i tk Htk Li) as (A & B & _).
  destruct (line_sync_ideal fs file content items tbl i b f l c (tk_pos (tk_init path)) HP HN) as [C D].
  split; congruence.
Qed.

(* ---- columns ---- *)
(* the items of the current output line (since the last newline or '#line') *)
Definition lp_step (acc:list oitem) (o:oitem) : list oitem :=
  match o with
  | OLine _ _ => []
  | OChar b _ => if b =? NL then [] else acc ++ [o]
  end.
Definition cur_line (pre:list oitem) : list oitem := fold_left lp_step pre [].
Fixpoint has_break (pre:list oitem) : bool :=
  match pre with
  | [] => false
  | OLine _ _ :: r => true
  | OChar b _ :: r => (b =? NL) || has_break r
  end.
(* the bytes are source bytes of line l of file f from column [k] on, one for one *)
Fixpoint verbatim_from (f:list byte) (l:Z) (k:Z) (its:list oitem) : Prop :=
  match its with
  | [] => True
  | OChar _ (PSrc f' l' c') :: r => f' = f /\ l' = l /\ c' = k /\ verbatim_from f l (k + 1) r
  | _ :: _ => False
  end.

Lemma itrack_col : forall pre acc p,
  tp_col (itrack p pre) =
  if has_break pre then Z.of_nat (length (fold_left lp_step pre acc)) - 0 * Z.of_nat (length acc)
  else tp_col p + Z.of_nat (length (fold_left lp_step pre acc)) - Z.of_nat (length acc).
Proof.
  induction pre as [|o r IH]; intros acc p.
  - simpl. lia.
  - unfold itrack in *. simpl fold_left. destruct o as [b pr|n f]; simpl has_break.
    + simpl lp_step. simpl istep. destruct (b =? NL) eqn:E; simpl orb.
      * rewrite (IH [] _). simpl. destruct (has_break r); simpl; lia.
      * rewrite (IH (acc ++ [OChar b pr]) _). simpl. rewrite app_length. simpl.
        destruct (has_break r); simpl; lia.
    + simpl. rewrite (IH [] _). simpl. destruct (has_break r); simpl; lia.
Qed.

Lemma verbatim_from_last : forall its f l k b c,
  verbatim_from f l k (its ++ [OChar b (PSrc f l c)]) -> c = k + Z.of_nat (length its).
Proof.
  induction its as [|o r IH]; intros f l k b c H; simpl in *.
  - destruct H as (_ & _ & H & _). lia.
  - destruct o as [b' [f' l' c'| |]|]; try contradiction.
    destruct H as (_ & _ & _ & H). apply IH in H. lia.
Qed.

(* column_sync: when the bytes of its line in front of a source byte reached the output one for one
   (no comment removed, nothing expanded, no continuation), the tokenizer reports its source column. *)
Theorem column_sync : forall fs file content path items tbl pre b f l c post,
  preprocess repaired fs file content = Ok (items, tbl, false) ->
  recognises repaired (tk_init path) items = true ->
  items = pre ++ OChar b (PSrc f l c) :: post ->
  has_break pre = true ->
  verbatim_from f l 0 (cur_line pre ++ [OChar b (PSrc f l c)]) ->
  exists tk, reported repaired path items (length pre) = Some tk /\ tp_col (tk_pos tk) = c.
Proof.
  intros fs file content path items tbl pre b f l c post HP HR HI HB HV.
  assert (Li: (length pre < length items)%nat) by (subst items; rewrite app_length; simpl; lia).
  destruct (reported_some repaired path items (length pre) Li) as [tk Htk].
  exists tk. split; auto.
  unfold reported, track in Htk.
  assert (A0: agree true (tk_pos (tk_init path)) (tk_pos (tk_init path))) by (unfold agree; auto).
  pose proof (recognises_agree repaired true (fun _ => eq_refl) items (tk_init path) _ A0 HR _ tk Htk Li) as (_ & _ & C).
  rewrite (C eq_refl). subst items. rewrite firstn_app, firstn_all, Nat.sub_diag. cbn [firstn]. rewrite app_nil_r.
  pose proof (itrack_col pre [] (tk_pos (tk_init path))) as IC. rewrite HB in IC.
  fold (cur_line pre) in IC. rewrite IC.
  apply verbatim_from_last in HV. lia.
Qed.

(* The hypothesis of column_sync cannot be dropped for the code as it is: behind a block comment the
   reported column is the column in the preprocessed text.   /* c */ x   - x is source column 8. *)
Theorem column_sync_refuted_after_comment : exists items tbl i b f l c tk,
  preprocess repaired (fun _ => None) wit_file [47;42;32;99;32;42;47;32;120] = Ok (items, tbl, false) /\
  nth_error items i = Some (OChar b (PSrc f l c)) /\ c = 8 /\
  reported repaired wit_file items i = Some tk /\ tp_col (tk_pos tk) = 1.
Proof.
  eexists. eexists. exists 2%nat. eexists. eexists. eexists. eexists. eexists.
  split; [vm_compute; reflexivity|]. split; [vm_compute; reflexivity|]. split; [vm_compute; reflexivity|].
  split; vm_compute; reflexivity.
Qed.

(* The unrepaired tokenizer counts a doubled quote inside a string as one column:  "a""b" x  *)
Theorem column_sync_refuted_doubled_quote : exists items tbl i b f l c tk,
  preprocess as_is (fun _ => None) wit_file [34;97;34;34;98;34;32;120] = Ok (items, tbl, false) /\
  nth_error items i = Some (OChar b (PSrc f l c)) /\ c = 7 /\
  reported as_is wit_file items i = Some tk /\ tp_col (tk_pos tk) = 6.
Proof.
  eexists. eexists. exists 8%nat. eexists. eexists. eexists. eexists. eexists.
  split; [vm_compute; reflexivity|]. split; [vm_compute; reflexivity|]. split; [vm_compute; reflexivity|].
  split; vm_compute; reflexivity.
Qed.

(* ---- __LINE__ and __FILE__ ---- *)
Lemma word_line_same : forall w L tl c d, w <> [] -> Forall wordc w ->
  lines_ok L (w ++ c :: tl) -> hid c = O -> pc_line c = pc_line (last w d).
Proof.
  induction w as [|a w' IH]; intros L tl c d N W LO Hc; [congruence|].
  inversion W; subst. simpl in LO. destruct LO as [A B].
  assert (Hnl: (pc_b a =? NL) = false).
  { unfold wordc in H1. destruct (pc_b a =? NL) eqn:E; auto. apply Z.eqb_eq in E. rewrite E in H1. discriminate. }
  rewrite Hnl in B. destruct w' as [|a' w''].
  - simpl in *. destruct B as [B _]. rewrite Hc in B. simpl in B. lia.
  - change (last (a :: a' :: w'') d) with (last (a' :: w'') d).
    eapply IH; eauto. discriminate.
Qed.

(* line_file_macros: a use of __LINE__ in plain text expands to the number of the line it is written
   on (the reader's line - whatever comments, multi-line defines, inactive branches and includes
   precede it), a use of __FILE__ to the quoted name of the file being processed. *)
Theorem line_file_macros : forall file eof dfuel st w t rest c cs L d,
  w <> [] -> Forall wordc w ->
  ltok_chars t = c :: cs -> hid c = O ->
  lines_ok L (w ++ ltoks_chars (t :: rest)) ->
  (lookup (ts_tbl st) (bytes w) = Some (mkmacro None [] (Some BLine)) ->
     exists st2, top_word file eof (S dfuel) st w (t :: rest)
                 = Ok (map mac (dec (pc_line (last w d))), O, st2)) /\
  (lookup (ts_tbl st) (bytes w) = Some (mkmacro None [] (Some BFile)) ->
     exists st2, top_word file eof (S dfuel) st w (t :: rest)
                 = Ok (map mac (QUOTE :: file ++ [QUOTE]), O, st2)).
Proof.
  intros file eof dfuel st w t rest c cs L d N W ET Hc LO.
  assert (LN: pc_line c = pc_line (last w d)).
  { change (ltoks_chars (t :: rest)) with (ltok_chars t ++ ltoks_chars rest) in LO.
    rewrite ET in LO. simpl in LO. eapply word_line_same; eauto. }
  split; intros HL; unfold top_word; rewrite HL; simpl.
  - unfold tok_line. rewrite ET. rewrite LN. eexists; reflexivity.
  - eexists; reflexivity.
Qed.
