(* C14: the byte-level model of the tokenizer's bookkeeping (PP/Tracker.v) agrees with the
   specification-side tracker [itrack] on every output that passes [recognises]. *)
From Coq Require Import ZArith List Bool Lia.
Import ListNotations.
From SqfVerif Require Import PP.Spec PP.Tracker.
Local Open Scope Z_scope.

Lemma beq_eq : forall a b, beq a b = true -> a = b.
Proof.
  induction a; destruct b; simpl; intros H; try discriminate; auto.
  apply andb_prop in H. destruct H as [A B]. apply Z.eqb_eq in A. subst. f_equal. auto.
Qed.
Lemma beq_refl : forall a, beq a a = true.
Proof. induction a; simpl; auto. rewrite Z.eqb_refl. auto. Qed.

Lemma tpos_eqb_eq : forall p q, tpos_eqb p q = true -> p = q.
Proof.
  intros [f l c] [f' l' c']. unfold tpos_eqb; simpl. intros H.
  apply andb_prop in H. destruct H as [H C]. apply andb_prop in H. destruct H as [F L].
  apply beq_eq in F. apply Z.eqb_eq in L. apply Z.eqb_eq in C. subst. reflexivity.
Qed.

Lemma trackc_app : forall d a b ctx k st,
  trackc d k st (a ++ b) ctx =
  let '(la, ea, ka) := trackc d k st a (b ++ ctx) in
  let '(lb, eb, kb) := trackc d ka ea b ctx in (la ++ lb, eb, kb).
Proof.
  induction a as [|c t IH]; intros b ctx k st.
  - simpl. destruct (trackc d k st b ctx) as [[lb eb] kb]. reflexivity.
  - simpl. destruct k as [|k].
    + rewrite <- app_assoc. destruct (tstep d st c (t ++ b ++ ctx)) as [st' k'].
      rewrite IH. destruct (trackc d k' st' t (b ++ ctx)) as [[la ea] ka].
      destruct (trackc d ka ea b ctx) as [[lb eb] kb]. reflexivity.
    + rewrite IH. destruct (trackc d k st t (b ++ ctx)) as [[la ea] ka].
      destruct (trackc d ka ea b ctx) as [[lb eb] kb]. reflexivity.
Qed.

Lemma trackc_length : forall d s ctx k st, length (fst (fst (trackc d k st s ctx))) = length s.
Proof.
  induction s as [|c t IH]; intros ctx k st; simpl; auto.
  destruct k as [|k].
  - destruct (tstep d st c (t ++ ctx)) as [st' k']. specialize (IH ctx k' st').
    destruct (trackc d k' st' t ctx) as [[l e] k2]. simpl in *. lia.
  - specialize (IH ctx k st). destruct (trackc d k st t ctx) as [[l e] k2]. simpl in *. lia.
Qed.

Lemma trackc_head : forall d s ctx st, s <> [] ->
  nth_error (fst (fst (trackc d O st s ctx))) O = Some st.
Proof.
  intros d [|c t] ctx st H; [congruence|]. simpl.
  destruct (tstep d st c (t ++ ctx)) as [st' k']. destruct (trackc d k' st' t ctx) as [[l e] k2]. reflexivity.
Qed.

(* agreement of two positions: file and line always, the column when [strict] *)
Definition agree (strict:bool) (p q:tpos) : Prop :=
  tp_file p = tp_file q /\ tp_line p = tp_line q /\ (strict = true -> tp_col p = tp_col q).

Lemma istep_agree : forall s p q o, agree s p q -> agree s (istep p o) (istep q o).
Proof.
  intros s p q o (A & B & C). destruct o as [b pr|n f]; simpl.
  - destruct (b =? NL); unfold agree; simpl; repeat split; auto; try lia. intros X. rewrite (C X). reflexivity.
  - unfold agree; simpl; auto.
Qed.
Lemma itrack_agree : forall s l p q, agree s p q -> agree s (itrack p l) (itrack q l).
Proof.
  induction l; intros p q H; simpl; auto. unfold itrack in *. simpl. apply IHl. apply istep_agree. auto.
Qed.

(* one byte of text: the tokenizer moves like the specification-side tracker *)
Lemma tstep_agree : forall d st b t st' pr s,
  tstep d st b t = (st', O) -> (s = true -> d_escquote_column d = false) ->
  agree s (tk_pos st') (istep (tk_pos st) (OChar b pr)).
Proof.
  intros d st b t st' pr s H S.
  assert (ADV: forall p, (b =? NL) = false -> agree s (adv p) (istep p (OChar b pr))).
  { intros p E. unfold agree, adv, istep. rewrite E. simpl. auto. }
  assert (NLN: forall p, (b =? NL) = true -> agree s (newline p) (istep p (OChar b pr))).
  { intros p E. unfold agree, newline, istep. rewrite E. simpl. auto. }
  assert (STAY: forall p, (b =? NL) = false -> d_escquote_column d = true -> agree s p (istep p (OChar b pr))).
  { intros p E Dq. unfold agree, istep. rewrite E. simpl. repeat split; auto.
    intros X. rewrite (S X) in Dq. discriminate. }
  unfold tstep in H. destruct (tk_mode st).
  - destruct (b =? NL) eqn:E1. { inversion H; subst; cbn [tk_pos]; auto. }
    destruct (b =? QUOTE). { inversion H; subst; cbn [tk_pos]; auto. }
    destruct (b =? SQ). { inversion H; subst; cbn [tk_pos]; auto. }
    destruct (b =? HASH).
    { destruct (line_directive t) as [| |n f len] eqn:ELD; try (inversion H; subst; cbn [tk_pos]; auto; fail).
      exfalso. inversion H; subst.
      unfold line_directive in ELD.
      destruct t as [|l0 [|i0 [|n0 [|e0 rest]]]];
        try (simpl in ELD; repeat match type of ELD with (if ?c then _ else _) = _ => destruct c end; discriminate).
      destruct ((lower l0 =? 108) && (lower i0 =? 105) && (lower n0 =? 110) && (lower e0 =? 101)); [|discriminate].
      destruct rest as [|x rest']; [discriminate|].
      destruct (is_letter x); [discriminate|].
      destruct (skip_to _ rest' 0%nat) as [numlen afternum].
      destruct (take_digits rest' 0 0%nat) as [[v nd] r3].
      destruct nd; [discriminate|].
      destruct (skip_blanks afternum 0%nat) as [nb afterb].
      destruct (skip_to _ afterb 0%nat) as [flen afterf].
      inversion ELD. }
    destruct (b =? SLASH).
    { destruct t as [|x t']; [inversion H; subst; cbn [tk_pos]; auto|].
      destruct ((x =? SLASH) || (x =? STAR)); inversion H; subst; cbn [tk_pos]; auto. }
    inversion H; subst; cbn [tk_pos]; auto.
  - destruct (b =? NL) eqn:E1. { inversion H; subst; cbn [tk_pos]; auto. }
    destruct (b =? QUOTE).
    { destruct t as [|x t']; [inversion H; subst; cbn [tk_pos]; auto|].
      destruct (x =? QUOTE); [|inversion H; subst; cbn [tk_pos]; auto].
      destruct (d_escquote_column d) eqn:Dq; inversion H; subst; cbn [tk_pos]; auto. }
    inversion H; subst; cbn [tk_pos]; auto.
  - destruct (b =? NL) eqn:E1; inversion H; subst; cbn [tk_pos]; auto.
  - destruct (b =? NL) eqn:E1. { inversion H; subst; cbn [tk_pos]; auto. }
    destruct (b =? SQ).
    { destruct t as [|x t']; [inversion H; subst; cbn [tk_pos]; auto|].
      destruct (x =? SQ); [|inversion H; subst; cbn [tk_pos]; auto].
      destruct (d_escquote_column d) eqn:Dq; inversion H; subst; cbn [tk_pos]; auto. }
    inversion H; subst; cbn [tk_pos]; auto.
  - destruct (b =? NL) eqn:E1; inversion H; subst; cbn [tk_pos]; auto.
Qed.

(* The tokenizer in front of output item i is where the specification-side tracker is. *)
Lemma recognises_agree : forall d s, (s = true -> d_escquote_column d = false) ->
  forall items st q, agree s (tk_pos st) q -> recognises d st items = true ->
  forall i tk, nth_error (fst (fst (trackc d O st (render items) []))) (item_offset items i) = Some tk ->
  (i < length items)%nat ->
  agree s (tk_pos tk) (itrack q (firstn i items)).
Proof.
  intros d s HS. induction items as [|o r IH]; intros st q A R i tk N Li.
  { simpl in Li. lia. }
  assert (NE: render_item o <> []) by (destruct o; simpl; discriminate).
  destruct i as [|i'].
  - simpl item_offset in N. change (render (o :: r)) with (render_item o ++ render r) in N.
    rewrite trackc_head in N.
    + inversion N; subst. simpl. exact A.
    + destruct (render_item o); [congruence|discriminate].
  - simpl item_offset in N. change (render (o :: r)) with (render_item o ++ render r) in N.
    rewrite trackc_app in N. rewrite app_nil_r in N.
    simpl in R.
    destruct (trackc d 0 st (render_item o) (render r)) as [[la e] k] eqn:E.
    destruct k as [|k]; [|discriminate].
    pose proof (trackc_length d (render_item o) (render r) 0%nat st) as LL. rewrite E in LL. simpl in LL.
    destruct (trackc d 0 e (render r) []) as [[lb eb] kb] eqn:E2. simpl in N.
    rewrite nth_error_app2 in N by lia.
    replace (length (render_item o) + item_offset r i' - length la)%nat with (item_offset r i') in N by lia.
    simpl in Li.
    assert (AE: agree s (tk_pos e) (istep q o) /\ recognises d e r = true).
    { destruct o as [b pr|n f].
      - split; auto. simpl in E.
        destruct (tstep d st b (render r)) as [st' k'] eqn:ET. inversion E; subst.
        eapply (istep_agree s _ _ (OChar b pr)) in A.
        pose proof (tstep_agree d st b (render r) e pr s ET HS) as B.
        destruct A as (A1 & A2 & A3). destruct B as (B1 & B2 & B3).
        unfold agree. repeat split; try congruence. intros X. rewrite (B3 X). apply A3; auto.
      - destruct (tk_mode st); try discriminate. destruct (tk_mode e); try discriminate.
        apply andb_prop in R. destruct R as [R1 R2]. split; auto.
        apply tpos_eqb_eq in R1. rewrite R1. simpl. unfold agree; simpl; auto. }
    destruct AE as [AE RE].
    change (itrack q (firstn (S i') (o :: r))) with (itrack (istep q o) (firstn i' r)).
    eapply IH; eauto.
    + rewrite E2. simpl. exact N.
    + lia.
Qed.

(* ---- the '#line' texts written by the preprocessor are read back exactly ---- *)
Fixpoint dval (a:Z) (ds:list Z) : Z := match ds with [] => a | c :: t => dval (a * 10 + (c - 48)) t end.
Lemma dval_app : forall x y a, dval a (x ++ y) = dval (dval a x) y.
Proof. induction x; intros; simpl; auto. Qed.

Lemma dec_go_spec : forall f n acc, 0 <= n -> n < 10 ^ Z.of_nat f -> (0 < f)%nat ->
  exists ds, dec_go f n acc = ds ++ acc /\ Forall (fun c => is_digit c = true) ds /\ ds <> [] /\
             forall a, dval a ds = a * 10 ^ Z.of_nat (length ds) + n.
Proof.
  induction f; intros n acc H0 H1 Hf; [lia|].
  cbn [dec_go].
  assert (D: is_digit (48 + n mod 10) = true).
  { unfold is_digit. pose proof (Z.mod_pos_bound n 10 ltac:(lia)). apply andb_true_intro. split; apply Z.leb_le; lia. }
  destruct (n <? 10) eqn:E.
  - apply Z.ltb_lt in E. exists [48 + n mod 10]. repeat split; auto; try discriminate.
    intros a. cbn [dval length]. change (Z.of_nat 1) with 1. rewrite Z.pow_1_r, Z.mod_small by lia. lia.
  - apply Z.ltb_ge in E.
    assert (Hf': (0 < f)%nat).
    { destruct f; [|lia]. simpl in H1. lia. }
    assert (H1': n / 10 < 10 ^ Z.of_nat f).
    { rewrite Nat2Z.inj_succ, Z.pow_succ_r in H1 by lia. apply Z.div_lt_upper_bound; lia. }
    destruct (IHf (n / 10) ((48 + n mod 10) :: acc) ltac:(apply Z.div_pos; lia) H1' Hf') as (ds & A & B & C & V).
    exists (ds ++ [48 + n mod 10]). split; [rewrite A, <- app_assoc; reflexivity|].
    split; [apply Forall_app; split; auto|]. split; [destruct ds; discriminate|].
    intros a. rewrite dval_app, V. cbn [dval]. rewrite app_length. cbn [length].
    rewrite Nat2Z.inj_add. change (Z.of_nat 1) with 1. rewrite Z.pow_add_r, Z.pow_1_r by lia.
    pose proof (Z.div_mod n 10 ltac:(lia)). lia.
Qed.

Lemma dec_spec : forall n, 0 <= n ->
  Forall (fun c => is_digit c = true) (dec n) /\ dec n <> [] /\ dval 0 (dec n) = n.
Proof.
  intros n H. unfold dec.
  assert (B: n < 10 ^ Z.of_nat (S (Z.to_nat (Z.log2 n)))).
  { rewrite Nat2Z.inj_succ, Z2Nat.id by apply Z.log2_nonneg.
    destruct (Z.eq_dec n 0) as [->|N]. { simpl. lia. }
    pose proof (Z.log2_spec n ltac:(lia)) as [_ L].
    eapply Z.lt_le_trans; [exact L|]. apply Z.pow_le_mono_l. pose proof (Z.log2_nonneg n). lia. }
  destruct (dec_go_spec _ n [] H B ltac:(lia)) as (ds & A & F & N & V).
  rewrite A, app_nil_r. repeat split; auto. rewrite V. lia.
Qed.

Lemma take_digits_app : forall ds rest a k, Forall (fun c => is_digit c = true) ds ->
  match rest with c :: _ => is_digit c = false | [] => True end ->
  take_digits (ds ++ rest) a k = (dval a ds, (k + length ds)%nat, rest).
Proof.
  induction ds as [|c t IH]; intros rest a k F R.
  - simpl. rewrite Nat.add_0_r. destruct rest as [|c r]; [reflexivity|]. simpl. rewrite R. reflexivity.
  - inversion F; subst. simpl. rewrite H1. rewrite IH by auto. simpl. rewrite <- Nat.add_succ_comm. reflexivity.
Qed.

Lemma skip_to_app : forall stop ds c rest k, Forall (fun x => stop x = false) ds -> stop c = true ->
  skip_to stop (ds ++ c :: rest) k = ((k + length ds)%nat, c :: rest).
Proof.
  induction ds as [|x t IH]; intros c rest k F S.
  - simpl. rewrite S, Nat.add_0_r. reflexivity.
  - inversion F; subst. simpl. rewrite H1. rewrite IH by auto. simpl. rewrite <- Nat.add_succ_comm. reflexivity.
Qed.

Lemma digit_not_stop : forall c, is_digit c = true -> ((c =? NL) || (c =? SP)) = false.
Proof.
  intros c H. unfold is_digit in H. apply andb_prop in H. destruct H as [A B].
  apply Z.leb_le in A. apply Z.leb_le in B.
  apply orb_false_intro; apply Z.eqb_neq; unfold NL, SP; lia.
Qed.

Lemma line_directive_emitted : forall n f ctx, 0 <= n -> ~ In NL f ->
  line_directive ([108;105;110;101;32] ++ dec n ++ [32;34] ++ f ++ [34;10] ++ ctx)
  = LDir n (Some f) (5 + length (dec n) + 1 + (length f + 2)).
Proof.
  intros n f ctx Hn Hf. destruct (dec_spec n Hn) as (FD & ND & VD).
  unfold line_directive. cbn [app]. cbn [lower Z.leb Z.eqb andb Z.compare Pos.compare Pos.compare_cont Z.add Pos.add Pos.succ].
  replace ((lower 108 =? 108) && (lower 105 =? 105) && (lower 110 =? 110) && (lower 101 =? 101)) with true by reflexivity.
  replace (is_letter 32) with false by reflexivity.
  assert (S1: skip_to (fun c => (c =? NL) || (c =? SP)) (dec n ++ 32 :: 34 :: f ++ 34 :: 10 :: ctx) 0
              = (length (dec n), 32 :: 34 :: f ++ 34 :: 10 :: ctx)).
  { rewrite skip_to_app; auto.
    eapply Forall_impl; [|exact FD]. intros. apply digit_not_stop; auto. }
  rewrite S1.
  rewrite (take_digits_app (dec n) (32 :: 34 :: f ++ 34 :: 10 :: ctx) 0 0%nat FD) by reflexivity.
  rewrite VD. simpl plus.
  destruct (length (dec n)) eqn:EL. { destruct (dec n); [congruence|discriminate]. }
  assert (S3: skip_blanks (32 :: 34 :: f ++ 34 :: 10 :: ctx) 0 = (1%nat, 34 :: f ++ 34 :: 10 :: ctx)) by reflexivity.
  rewrite S3.
  assert (S2: skip_to (fun c => c =? NL) (34 :: f ++ 34 :: 10 :: ctx) 0 = ((length f + 2)%nat, 10 :: ctx)).
  { replace (34 :: f ++ 34 :: 10 :: ctx) with ((34 :: f ++ [34]) ++ 10 :: ctx) by (simpl; rewrite <- app_assoc; reflexivity).
    rewrite skip_to_app.
    - f_equal. simpl. rewrite app_length. simpl. lia.
    - constructor; [reflexivity|]. apply Forall_app. split.
      + apply Forall_forall. intros x Hx. apply Z.eqb_neq. intros E. subst. auto.
      + constructor; [reflexivity|constructor].
    - reflexivity. }
  rewrite S2.
  assert (LE: (2 <=? length f + 2)%nat = true) by (apply Nat.leb_le; lia). rewrite LE.
  f_equal. f_equal.
  replace (length f + 2 - 2)%nat with (length f) by lia. simpl skipn.
  rewrite firstn_app, firstn_all, Nat.sub_diag. simpl. rewrite app_nil_r. reflexivity.
Qed.

Lemma trackc_skip : forall d s k st ctx, (length s <= k)%nat ->
  trackc d k st s ctx = (repeat st (length s), st, (k - length s)%nat).
Proof.
  induction s as [|c t IH]; intros k st ctx H; simpl.
  - f_equal. lia.
  - destruct k; [simpl in H; lia|]. rewrite IH by (simpl in H; lia). reflexivity.
Qed.

(* The '#line n "f"' text the preprocessor writes is read back by the tokenizer as (f, n+1, 0). *)
Theorem emitted_line_recognised : forall d st n f ctx,
  tk_mode st = TN -> 0 <= n -> ~ In NL f ->
  exists l, trackc d O st (render_item (OLine n f)) ctx = (l, mktk TN (mktp f (n + 1) 0) (tk_ub st), O).
Proof.
  intros d st n f ctx M Hn Hf.
  unfold render_item, s_line.
  set (body := [108;105;110;101;32] ++ dec n ++ [32;34] ++ f ++ [34]).
  assert (E: [35; 108; 105; 110; 101] ++ SP :: dec n ++ SP :: QUOTE :: f ++ [QUOTE; NL] = 35 :: body ++ [10]).
  { unfold body, SP, QUOTE, NL. cbn [app]. repeat (rewrite <- app_assoc; cbn [app]). reflexivity. }
  rewrite E. cbn [trackc].
  assert (LD: line_directive ((body ++ [10]) ++ ctx) = LDir n (Some f) (length body)).
  { unfold body. repeat rewrite <- app_assoc.
    replace ([108; 105; 110; 101; 32] ++ dec n ++ [32; 34] ++ f ++ [34] ++ [10] ++ ctx)
      with ([108; 105; 110; 101; 32] ++ dec n ++ [32; 34] ++ f ++ [34; 10] ++ ctx) by reflexivity.
    rewrite line_directive_emitted by auto. f_equal.
    repeat rewrite app_length. simpl. lia. }
  unfold tstep. rewrite M.
  replace (35 =? NL) with false by reflexivity. replace (35 =? QUOTE) with false by reflexivity.
  replace (35 =? SQ) with false by reflexivity. replace (35 =? HASH) with true by reflexivity.
  rewrite LD.
  rewrite trackc_app. rewrite trackc_skip by lia. rewrite Nat.sub_diag.
  cbn [trackc]. unfold tstep. cbn [tk_mode]. replace (10 =? NL) with true by reflexivity.
  cbn [tk_pos tk_ub]. eexists. unfold newline. cbn [tp_file tp_line]. reflexivity.
Qed.
