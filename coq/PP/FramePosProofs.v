From Coq Require Import List Arith Lia.
Import ListNotations.
From SqfVerif Require Import PP.FramePos.

Lemma fsteps_add : forall len a b p, fsteps len (a + b) p = fsteps len b (fsteps len a p).
Proof.
  intros len a. induction a as [|a IH]; intros b p; cbn [fsteps Nat.add]; [reflexivity|apply IH].
Qed.

(* while instructions remain, the (k+1)-th next() stands on instruction k *)
Lemma fafter_running : forall len k, k < len -> fafter len (S k) = PAt k.
Proof.
  intros len k. unfold fafter. induction k as [|k IH]; intros Hk.
  - reflexivity.
  - replace (S (S k)) with (S k + 1) by lia. rewrite fsteps_add. rewrite IH by lia.
    cbn [fsteps fnext]. destruct (Nat.eqb_spec k len) as [E|E]; [lia|reflexivity].
Qed.

Lemma fsteps_end_fixed : forall len m, fsteps len m (PAt len) = PAt len.
Proof.
  intros len m. induction m as [|m IH]; cbn [fsteps fnext]; [reflexivity|].
  rewrite Nat.eqb_refl. exact IH.
Qed.

(* once every instruction has run, the frame stands behind the last one and stays there *)
Lemma fafter_finished : forall len m, len < m -> fafter len m = PAt len.
Proof.
  intros len m Hm. unfold fafter.
  destruct len as [|len'].
  - destruct m as [|m]; [lia|]. cbn [fsteps fnext]. apply (fsteps_end_fixed 0).
  - replace m with (S len' + (m - S len')) by lia. rewrite fsteps_add.
    fold (fafter (S len') (S len')). rewrite fafter_running by lia.
    destruct (m - S len') as [|r] eqn:Er; [lia|].
    cbn [fsteps fnext]. destruct (Nat.eqb_spec len' (S len')) as [E|E]; [lia|].
    apply fsteps_end_fixed.
Qed.

Lemma names_executing : forall len k, k < len -> fdiag len (fafter len (S k)) = DIndex k.
Proof.
  intros len k Hk. rewrite fafter_running by exact Hk. cbn [fdiag].
  destruct (Nat.eqb_spec k len) as [E|E]; [lia|].
  destruct (Nat.ltb_spec k len) as [L|L]; [reflexivity|lia].
Qed.

Lemma names_last_when_finished : forall len m, 0 < len -> len < m -> fdiag len (fafter len m) = DIndex (len - 1).
Proof.
  intros len m Hl Hm. rewrite fafter_finished by exact Hm. cbn [fdiag]. rewrite Nat.eqb_refl.
  destruct (Nat.eqb_spec len 0) as [E|E]; [lia|reflexivity].
Qed.

Lemma names_first_before_start : forall len, 0 < len -> fdiag len (fafter len 0) = DIndex 0.
Proof.
  intros len Hl. cbn. destruct (Nat.eqb_spec len 0) as [E|E]; [lia|reflexivity].
Qed.

Lemma empty_has_no_location : forall m, fdiag 0 (fafter 0 m) = DNone.
Proof.
  intros m. destruct m as [|m]; [reflexivity|].
  rewrite fafter_finished by lia. reflexivity.
Qed.

(* a frame that is only ever moved by next() never dereferences behind its instruction set, and what it names is an instruction of the set *)
Lemma never_ub : forall len m, fdiag len (fafter len m) <> DUB /\ (forall i, fdiag len (fafter len m) = DIndex i -> i < len).
Proof.
  intros len m.
  destruct (Nat.eq_dec len 0) as [E0|E0].
  - subst len. rewrite empty_has_no_location. split; [discriminate|intros i H; discriminate].
  - destruct m as [|m].
    + rewrite names_first_before_start by lia. split; [discriminate|intros i H; inversion H; lia].
    + destruct (Nat.lt_ge_cases m len) as [L|G].
      * rewrite names_executing by exact L. split; [discriminate|intros i H; inversion H; lia].
      * rewrite names_last_when_finished by lia. split; [discriminate|intros i H; inversion H; lia].
Qed.
