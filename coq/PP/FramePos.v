(* C14, runtime side: which instruction a frame names when a diagnostic or a stack-trace entry asks it for a location.
   Mirror of src/runtime/frame.h: m_position (line 91; position_invalid = ~0, line 104), frame::next() (lines 256-260),
   frame::diag_info_from_position() (lines 187-201).  The instruction set is any list: the model is about indices only.
   Definitions only; proofs in PP/FramePosProofs.v.  A frame that exitWith has left (frame::die) is outside this model. *)
From Coq Require Import List Arith.
Import ListNotations.

(* m_position: position_invalid until the first next(), then an index; size = the frame stands behind its last instruction *)
Inductive fpos := PInvalid | PAt (n : nat).

(* frame::next(): "if (m_position == size) return done; return ++m_position == size ? done : ok;"  (++ wraps ~0 to 0) *)
Definition fnext (len : nat) (p : fpos) : fpos :=
  match p with
  | PInvalid => PAt 0
  | PAt n => if Nat.eqb n len then PAt n else PAt (S n)
  end.

Fixpoint fsteps (len m : nat) (p : fpos) : fpos :=
  match m with
  | O => p
  | S m' => fsteps len m' (fnext len p)
  end.

(* answer of diag_info_from_position: no location (empty set), the instruction at an index, or *current() behind the set *)
Inductive fdiag_res := DNone | DIndex (i : nat) | DUB.

Definition fdiag (len : nat) (p : fpos) : fdiag_res :=
  match p with
  | PInvalid => if Nat.eqb len 0 then DNone else DIndex 0                       (* begin() *)
  | PAt n =>
      if Nat.eqb n len then (if Nat.eqb len 0 then DNone else DIndex (len - 1))  (* rbegin() *)
      else if Nat.ltb n len then DIndex n                                        (* *current() *)
      else DUB                                                                   (* *current() behind end(): unchecked *)
  end.

(* the position of a frame after m calls of next() *)
Definition fafter (len m : nat) : fpos := fsteps len m PInvalid.
