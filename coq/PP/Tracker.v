(* M4 - mechanism model of the line/column/file bookkeeping of the SQF tokenizer
   (src/parser/sqf/tokenizer.hpp): m_line, m_column and the path stack as a function of the
   bytes consumed so far. Only what decides a token's reported position is modelled:
     whitespace           :208-225   every byte one column, NL: line+1, column 0
     string literals      :264-339   entered at a quote, a doubled quote stays inside,
                                     NL inside counts as a line
     #line N "file"       :132-160   m_line = N, column 0, path = text between the quotes,
                                     the token ends in front of the NL
     every other token    :401-421   column += length
   A token's position is the tracker value in front of its first byte (create_token, :123).
   Comments never reach the tokenizer after preprocessing; a comment start in normal mode, a
   '#line' cut short by the end of the text and a '#line' without digits are reported through the
   [tk_ub] flag (the C++ reads past the end or throws there; C10's business). *)
From Coq Require Import ZArith List Bool.
Import ListNotations.
From SqfVerif Require Import PP.Spec.
Local Open Scope Z_scope.

Definition SQ := 39.

Inductive tmode := TN | TDq | TDqE | TSq | TSqE.
Record tk := mktk { tk_mode : tmode; tk_pos : tpos; tk_ub : bool }.

Definition is_digit (c:byte) : bool := (48 <=? c) && (c <=? 57).
Definition is_letter (c:byte) : bool := ((65 <=? c) && (c <=? 90)) || ((97 <=? c) && (c <=? 122)).
Definition lower (c:byte) : byte := if (65 <=? c) && (c <=? 90) then c + 32 else c.

Fixpoint take_digits (l:list byte) (acc:Z) (n:nat) : Z * nat * list byte :=
  match l with
  | c :: t => if is_digit c then take_digits t (acc * 10 + (c - 48)) (S n) else (acc, n, l)
  | [] => (acc, n, [])
  end.
Fixpoint skip_to (stop:byte -> bool) (l:list byte) (n:nat) : nat * list byte :=
  match l with
  | c :: t => if stop c then (n, l) else skip_to stop t (S n)
  | [] => (n, [])
  end.
Fixpoint skip_blanks (l:list byte) (n:nat) : nat * list byte :=
  match l with
  | c :: t => if is_blank c then skip_blanks t (S n) else (n, l)
  | [] => (n, [])
  end.

Inductive linedir :=
| LNone                                               (* not a #line token *)
| LUb                                                 (* the C++ leaves defined behaviour *)
| LDir (n:Z) (file:option (list byte)) (len:nat).     (* len = bytes of the token after the '#' *)

(* [r] = the bytes after a '#' met in normal mode. len_ident_match(iter, "#line") :106-119 then :134-159 *)
Definition line_directive (r:list byte) : linedir :=
  match r with
  | l :: i :: n :: e :: rest =>
    if (lower l =? 108) && (lower i =? 105) && (lower n =? 110) && (lower e =? 101) then
      match rest with
      | [] => LUb                                     (* iter += 6 steps past the end *)
      | x :: rest' =>
        if is_letter x then LNone
        else
          let (numlen, afternum) := skip_to (fun c => (c =? NL) || (c =? SP)) rest' O in
          let '(v, nd, _) := take_digits rest' 0 O in
          match nd with
          | O => LUb                                  (* std::stoul throws (or takes a sign) *)
          | _ =>
            let (nb, afterb) := skip_blanks afternum O in
            let (flen, afterf) := skip_to (fun c => c =? NL) afterb O in
            let f := match afterf with
                     | [] => None                     (* iter == m_end: path not updated *)
                     | _ => if (2 <=? flen)%nat then Some (firstn (flen - 2) (skipn 1 afterb)) else None
                     end in
            LDir v f (5 + numlen + nb + flen)
          end
      end
    else LNone
  | _ =>
    (* fewer than four bytes left: the comparison loop stops at the end of the text; when every
       byte so far matched, the partial length is taken for a match *)
    let fix pre (a b:list byte) : bool :=
        match a, b with
        | [], _ => true
        | x :: a', y :: b' => (lower x =? y) && pre a' b'
        | _ :: _, [] => true
        end in
    if pre r [108;105;110;101] then LUb else LNone
  end.

Definition adv (p:tpos) : tpos := mktp (tp_file p) (tp_line p) (tp_col p + 1).
Definition newline (p:tpos) : tpos := mktp (tp_file p) (tp_line p + 1) 0.

(* one byte [c] with the bytes [t] after it: new state and how many of the following bytes belong
   to the same token and do not move the position *)
Definition tstep (d:defects) (st:tk) (c:byte) (t:list byte) : tk * nat :=
  let p := tk_pos st in
  let ub := tk_ub st in
  match tk_mode st with
  | TN =>
    if c =? NL then (mktk TN (newline p) ub, O)
    else if c =? QUOTE then (mktk TDq (adv p) ub, O)
    else if c =? SQ then (mktk TSq (adv p) ub, O)
    else if c =? HASH then
      match line_directive t with
      | LNone => (mktk TN (adv p) ub, O)
      | LUb => (mktk TN (adv p) true, O)
      | LDir n f len =>
          (mktk TN (mktp (match f with Some x => x | None => tp_file p end) n 0) ub, len)
      end
    else if c =? SLASH then
      match t with
      | x :: _ => if (x =? SLASH) || (x =? STAR) then (mktk TN (adv p) true, O) else (mktk TN (adv p) ub, O)
      | [] => (mktk TN (adv p) ub, O)
      end
    else (mktk TN (adv p) ub, O)
  | TDq =>
    if c =? NL then (mktk TDq (newline p) ub, O)
    else if c =? QUOTE then
      match t with
      | x :: _ => if x =? QUOTE then (mktk TDqE (if d_escquote_column d then p else adv p) ub, O)
                  else (mktk TN (adv p) ub, O)
      | [] => (mktk TN (adv p) ub, O)
      end
    else (mktk TDq (adv p) ub, O)
  | TDqE => (mktk TDq (if c =? NL then newline p else adv p) ub, O)   (* c is the second quote *)
  | TSq =>
    if c =? NL then (mktk TSq (newline p) ub, O)
    else if c =? SQ then
      match t with
      | x :: _ => if x =? SQ then (mktk TSqE (if d_escquote_column d then p else adv p) ub, O)
                  else (mktk TN (adv p) ub, O)
      | [] => (mktk TN (adv p) ub, O)
      end
    else (mktk TSq (adv p) ub, O)
  | TSqE => (mktk TSq (if c =? NL then newline p else adv p) ub, O)
  end.

(* State in front of every byte of [s], the state behind it, and how many bytes of what follows
   still belong to the current token; [ctx] is the text after [s] (the tokenizer looks ahead). *)
Fixpoint trackc (d:defects) (skip:nat) (st:tk) (s ctx:list byte) {struct s} : list tk * tk * nat :=
  match s with
  | [] => ([], st, skip)
  | c :: t =>
    match skip with
    | S k => let '(l, e, k') := trackc d k st t ctx in (st :: l, e, k')
    | O => let (st', k) := tstep d st c (t ++ ctx) in
           let '(l, e, k') := trackc d k st' t ctx in (st :: l, e, k')
    end
  end.
Definition track (d:defects) (st:tk) (s:list byte) : list tk := fst (fst (trackc d O st s [])).

(* tokenizer(start, end, path): m_line = 0, m_column = 0 (:428-437) *)
Definition tk_init (path:list byte) : tk := mktk TN (mktp path 0 0) false.

(* Position the tokenizer reports for a token starting at output item [i] of [items]. *)
Fixpoint item_offset (items:list oitem) (i:nat) : nat :=
  match i, items with
  | S i', o :: r => (length (render_item o) + item_offset r i')%nat
  | _, _ => O
  end.
Definition reported (d:defects) (path:list byte) (items:list oitem) (i:nat) : option tk :=
  nth_error (track d (tk_init path) (render items)) (item_offset items i).

(* first output item with the given provenance *)
Definition prov_eqb (p q:prov) : bool :=
  match p, q with
  | PSrc f l c, PSrc f' l' c' => beq f f' && (l =? l') && (c =? c')
  | PMacro, PMacro => true
  | PSynth, PSynth => true
  | _, _ => false
  end.
Fixpoint find_prov (p:prov) (items:list oitem) (i:nat) : option nat :=
  match items with
  | [] => None
  | OChar _ q :: r => if prov_eqb p q then Some i else find_prov p r (S i)
  | OLine _ _ :: r => find_prov p r (S i)
  end.

Definition tpos_eqb (p q:tpos) : bool :=
  beq (tp_file p) (tp_file q) && (tp_line p =? tp_line q) && (tp_col p =? tp_col q).

(* The tokenizer recognises exactly the '#line' texts the preprocessor wrote: in front of each it is
   in normal mode and reads the number and the path that were written, and no other '#' starts a
   '#line' token. Decidable on the output; the correspondence evaluates it for every generated case. *)
Fixpoint recognises (d:defects) (st:tk) (items:list oitem) {struct items} : bool :=
  match items with
  | [] => negb (tk_ub st)
  | o :: r =>
    let '(_, e, k) := trackc d O st (render_item o) (render r) in
    match k with
    | S _ => false
    | O =>
      match o with
      | OLine n f =>
          match tk_mode st, tk_mode e with
          | TN, TN => tpos_eqb (tk_pos e) (mktp f (n + 1) 0) && recognises d e r
          | _, _ => false
          end
      | OChar _ _ => recognises d e r
      end
    end
  end.
