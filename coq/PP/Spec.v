(* M4 - the REFERENCE EXPANDER of the preprocessor (C13) with provenance on every output
   byte (C14), and the emission rules of src/parser/preprocessor/default.cpp as a
   mechanism with a defect switch.

   Structure (each stage is a total function, structural or on explicit fuel):
     rd      raw bytes -> characters with position and the raw bytes skipped in front of them
             (mirror of preprocessorfileinfo::next, default.h:77-138: comments, continuations, CR)
     lex     characters -> words / string literals / single characters / directive lines
             (the lexical skeleton of parse_file, default.cpp:982-1112, and get_line, default.h:159-201)
     xarg / xbody / call   macro expansion (handle_arg, replace*, handle_macro, default.cpp:25-681)
     top     the file-level machine: conditionals, directives, emission (default.cpp:683-1112)
     pp_file files and #include

   The property text fixes: comments and backslash-newline are removed, the directive set,
   object-/function-like macros with argument substitution, #, ##, macros inside arguments and
   bodies, whole identifiers only, strings inviolate, inactive branches silent.

   SILENT CASES - the text does not decide them; the reference does what the implementation does
   today (observed on the binary, see checks/C13.py for the probes that pin each one):
    S1  CR bytes are dropped everywhere (CRLF and lone CR), also inside strings.
    S2  A comment is removed without leaving a blank: a/**/b becomes the single word ab.
    S3  Only "..." is a string. '...' is ordinary text (macros expand inside, commas split).
    S4  A directive is a '#' that is preceded on its line only by blanks, tabs and string literals;
        the directive name follows the '#' immediately and is case-insensitive; any other '#' is text.
    S5  A directive line is answered by exactly one newline (the implementation: also when it spans
        k physical lines - that is C14's defect switch d_missing_newlines, not C13's business);
        an inactive line contributes its newline and nothing else.
    S6  #define NAME(  : parameters are the comma separated, blank-trimmed words up to the first ')';
        the body is the rest of the line, blank-trimmed; "#define NAME (x)" is object-like.
        Redefinition replaces; #undef of an unknown name is a warning only.
    S7  #ifdef / #ifndef / #undef take the whole blank-trimmed rest of the line as the name.
    S8  Unknown directive, #else/#endif without #if, missing #endif, failing or recursive #include,
        wrong argument count: the whole preprocessing fails (no output).
    S9  A function-like macro name that is not directly followed by '(' stays as it is.
    S10 Arguments: split at top-level commas, nesting counted separately for () [] {}; blanks are
        kept (not trimmed); an empty argument is the empty text; "NAME()" gives one empty argument
        to a macro with parameters and none to a macro without.
    S11 Arguments are expanded before substitution (macro names first, then the parameters of the
        enclosing body); substituted text and the result of ## are not scanned again.
    S12 In a body: a parameter name wins over a macro of the same name; '#' stringifies the next
        word (after copying any punctuation in between), without escaping; "##" is deleted and the
        next word is substituted; '#'/'##' in front of a macro name use that macro's expansion.
    S13 A backslash of a directive line that is not in front of the newline stays where it is (runs too);
        a single backslash at the very end of the file is dropped.
    S14 __LINE__ is the line of the use site (also when it comes out of a macro body), __FILE__
        the quoted path of the file being processed.
    S15 '#line 0 "file"' opens every file, an include is bracketed by '#line 1 "inc"' and
        a newline plus '#line <line of the directive> "parent"'.
    S16 Newlines inside the arguments of a call in plain text stay inside the arguments (they
        appear wherever the parameter is used).
    S17 In an inactive branch string literals are still recognised (a '#' inside one is no directive).
   Outside the grammar (the reference returns what is written here, generators never produce it):
   unbalanced brackets or quotes in arguments or directive lines, a '#' directly followed by
   something that is not a directive name, parameter lists with empty entries.

   NOT silent - the text decides, the implementation did otherwise when this was written, the reference
   follows the text (witnesses and repairs: /verif/proposed_fixes/C13-*.diff, corpus/C13):
    D1  a string literal directly behind a block comment lost its string status (comment markers in it stripped)
    D2  backslash-newline inside a string literal was removed
    D3  runs of backslashes in a #define body (also inside its strings) were collapsed to one
    D4  a conditional nested in an inactive branch was evaluated on its own (text and directives leaked)
    D5  a word directly in front of a string literal was not looked up (plain text) / was written behind
        the string (macro arguments)
    D6  the name of a function-like macro at the end of an argument never returned (hang)
    D7  a comment or continuation at the end of an argument made the argument swallow the rest of the file
    D8  a comment or continuation inside a word of an argument stayed in the output
    D9  a self- or mutually recursive macro overflowed the stack instead of being an error outcome *)
From Coq Require Import ZArith List Bool.
Import ListNotations.
Local Open Scope Z_scope.

Notation byte := Z (only parsing).   (* 0..255 *)

Definition NL := 10.  Definition CR := 13.  Definition TAB := 9.   Definition SP := 32.
Definition QUOTE := 34. Definition HASH := 35. Definition BSL := 92. Definition SLASH := 47.
Definition STAR := 42.  Definition COMMA := 44.
Definition LPAR := 40. Definition RPAR := 41. Definition LBRK := 91. Definition RBRK := 93.
Definition LCUR := 123. Definition RCUR := 125.

Definition is_word (c:byte) : bool :=
  ((48 <=? c) && (c <=? 57)) || ((65 <=? c) && (c <=? 90)) || ((97 <=? c) && (c <=? 122)) || (c =? 95).
Definition is_blank (c:byte) : bool := (c =? SP) || (c =? TAB).

Fixpoint beq (a b : list byte) : bool :=
  match a, b with
  | [], [] => true
  | x :: a', y :: b' => (x =? y) && beq a' b'
  | _, _ => false end.

(* ================================================================================ *)
(* 1. The character reader                                                          *)

(* a character that reaches the expander: byte, 1-based line, 0-based column (CR not counted),
   and the raw bytes the reader skipped directly in front of it (comment text, continuations, CR) *)
Record pchar := mkpc { pc_b : byte; pc_line : Z; pc_col : Z; pc_gap : list byte }.

Inductive rmode := RNormal | RString | RBlock | RLine.

(* default.h:26-46 (_next: line/col/CR) and 79-138 (next), with is_in_string / is_in_block_comment
   as the mode. A '\' NL or '\' CR NL outside a string is a continuation (:123-132). *)
Fixpoint rd (m:rmode) (ln col:Z) (gap:list byte) (s:list byte) {struct s} : list pchar :=
  match s with
  | [] => []
  | c :: t =>
    if c =? CR then rd m ln col (gap ++ [c]) t else
    match m with
    | RNormal =>
      if c =? SLASH then
        match t with
        | d :: t' =>
          if d =? STAR then rd RBlock ln (col + 2) (gap ++ [c; d]) t'
          else if d =? SLASH then rd RLine ln (col + 1) (gap ++ [c]) t
          else mkpc c ln col gap :: rd RNormal ln (col + 1) [] t
        | [] => mkpc c ln col gap :: rd RNormal ln (col + 1) [] t
        end
      else if c =? BSL then
        match t with
        | d :: t' =>
          if d =? NL then rd RNormal (ln + 1) 0 (gap ++ [c; d]) t'
          else if d =? CR then
            match t' with
            | e :: t'' => if e =? NL then rd RNormal (ln + 1) 0 (gap ++ [c; d; e]) t''
                          else mkpc c ln col gap :: rd RNormal ln (col + 1) [] t
            | [] => mkpc c ln col gap :: rd RNormal ln (col + 1) [] t
            end
          else mkpc c ln col gap :: rd RNormal ln (col + 1) [] t
        | [] => mkpc c ln col gap :: rd RNormal ln (col + 1) [] t
        end
      else if c =? QUOTE then mkpc c ln col gap :: rd RString ln (col + 1) [] t
      else if c =? NL then mkpc c ln col gap :: rd RNormal (ln + 1) 0 [] t
      else mkpc c ln col gap :: rd RNormal ln (col + 1) [] t
    | RString =>
      if c =? QUOTE then mkpc c ln col gap :: rd RNormal ln (col + 1) [] t
      else if c =? NL then mkpc c ln col gap :: rd RString (ln + 1) 0 [] t
      else mkpc c ln col gap :: rd RString ln (col + 1) [] t
    | RBlock =>
      if c =? NL then mkpc c ln col gap :: rd RBlock (ln + 1) 0 [] t
      else if c =? STAR then
        match t with
        | d :: t' => if d =? SLASH then rd RNormal ln (col + 2) (gap ++ [c; d]) t'
                     else rd RBlock ln (col + 1) (gap ++ [c]) t
        | [] => rd RBlock ln (col + 1) (gap ++ [c]) t
        end
      else rd RBlock ln (col + 1) (gap ++ [c]) t
    | RLine =>
      if c =? NL then mkpc c ln col gap :: rd RNormal (ln + 1) 0 [] t
      else rd RLine ln (col + 1) (gap ++ [c]) t
    end
  end.

Definition read (s:list byte) : list pchar := rd RNormal 1 0 [] s.

Fixpoint count_nl (l:list byte) : nat :=
  match l with [] => O | c :: t => if c =? NL then S (count_nl t) else count_nl t end.
(* newlines the reader swallowed in front of a character (continuations) *)
Definition hid (c:pchar) : nat := count_nl (pc_gap c).
Definition bytes (l:list pchar) : list byte := map pc_b l.
Fixpoint hid_sum (l:list pchar) : nat := match l with [] => O | c :: t => (hid c + hid_sum t)%nat end.
Fixpoint nl_count (l:list pchar) : nat :=
  match l with [] => O | c :: t => if pc_b c =? NL then S (nl_count t) else nl_count t end.

(* ================================================================================ *)
(* 2. Lexical skeleton of a file                                                    *)

Inductive ltok :=
| LW (w:list pchar)                 (* maximal run of identifier characters *)
| LS (s:list pchar)                 (* string literal including its quotes (to the end of input when unterminated) *)
| LC (c:pchar)                      (* any other character *)
| LD (h:pchar) (l:list pchar) (nl:option pchar). (* directive line: the '#', the characters after it, terminating newline *)

Inductive lmode :=
| MNorm (bol:bool)                          (* bol = was_new_line, default.cpp:990,1016,1034-1037,1086 *)
| MWord (acc:list pchar)
| MStr (acc:list pchar) (bol:bool)
| MDir (h:pchar) (acc:list pchar) (esc:bool). (* get_line(true), default.h:165-194 *)

Definition lex_norm (bol:bool) (c:pchar) : list ltok * lmode :=
  let b := pc_b c in
  if is_word b then ([], MWord [c])
  else if b =? QUOTE then ([], MStr [c] bol)
  else if (b =? HASH) && bol then ([], MDir c [] false)
  else if b =? NL then ([LC c], MNorm true)
  else if is_blank b || (b =? CR) then ([LC c], MNorm bol)
  else ([LC c], MNorm false).

Definition lex_step (m:lmode) (c:pchar) : list ltok * lmode :=
  let b := pc_b c in
  match m with
  | MNorm bol => lex_norm bol c
  | MWord acc =>
      if is_word b then ([], MWord (acc ++ [c]))
      else let (o, m') := lex_norm false c in (LW acc :: o, m')
  | MStr acc bol =>
      if b =? QUOTE then ([LS (acc ++ [c])], MNorm bol) else ([], MStr (acc ++ [c]) bol)
  | MDir h acc esc =>
      if b =? BSL then ([], MDir h (acc ++ [c]) true)
      else if b =? NL then (if esc then ([], MDir h (acc ++ [c]) false) else ([LD h acc (Some c)], MNorm true))
      else ([], MDir h (acc ++ [c]) false)
  end.

Definition lex_end (m:lmode) : list ltok :=
  match m with
  | MNorm _ => []
  | MWord acc => [LW acc]
  | MStr acc _ => [LS acc]
  | MDir h acc _ => [LD h acc None]
  end.

Fixpoint lex (m:lmode) (cs:list pchar) : list ltok :=
  match cs with
  | [] => lex_end m
  | c :: t => let (o, m') := lex_step m c in o ++ lex m' t
  end.

(* ================================================================================ *)
(* 3. Macros and their expansion (on plain bytes)                                   *)

Inductive btok := BW (w:list byte) | BS (s:list byte) | BC (c:byte).

Inductive bmode := BNorm | BWord (acc:list byte) | BStr (acc:list byte).
Definition blex_norm (c:byte) : list btok * bmode :=
  if is_word c then ([], BWord [c]) else if c =? QUOTE then ([], BStr [c]) else ([BC c], BNorm).
Definition blex_step (m:bmode) (c:byte) : list btok * bmode :=
  match m with
  | BNorm => blex_norm c
  | BWord acc => if is_word c then ([], BWord (acc ++ [c]))
                 else let (o, m') := blex_norm c in (BW acc :: o, m')
  | BStr acc => if c =? QUOTE then ([BS (acc ++ [c])], BNorm) else ([], BStr (acc ++ [c]))
  end.
Definition blex_end (m:bmode) : list btok :=
  match m with BNorm => [] | BWord acc => [BW acc] | BStr acc => [BS acc] end.
Fixpoint blex_go (m:bmode) (s:list byte) : list btok :=
  match s with [] => blex_end m | c :: t => let (o, m') := blex_step m c in o ++ blex_go m' t end.
Definition blex (s:list byte) : list btok := blex_go BNorm s.

Definition btok_bytes (t:btok) : list byte := match t with BW w => w | BS s => s | BC c => [c] end.
Definition btoks_bytes (l:list btok) : list byte := flat_map btok_bytes l.

Inductive builtin := BLine | BFile.
Record macro := mkmacro {
  m_params : option (list (list byte));   (* None: object-like *)
  m_body : list byte;
  m_builtin : option builtin }.
Definition table := list (list byte * macro).

Fixpoint lookup (t:table) (n:list byte) : option macro :=
  match t with [] => None | (k, m) :: r => if beq k n then Some m else lookup r n end.
Fixpoint remove (t:table) (n:list byte) : table :=
  match t with [] => [] | (k, m) :: r => if beq k n then remove r n else (k, m) :: remove r n end.
Definition define (t:table) (n:list byte) (m:macro) : table := (n, m) :: remove t n.
Definition names (t:table) : list (list byte) := map fst t.
Fixpoint mem (n:list byte) (l:list (list byte)) : bool :=
  match l with [] => false | k :: r => beq k n || mem n r end.

Inductive err :=
| EArgCount | ERecursiveMacro | EUnknownDirective | EElse | EEndif | EMissingEndif
| EIncludeFailed | ERecursiveInclude | EUnbalanced | EOutOfFuel.
Inductive res (A:Type) := Ok (a:A) | Err (e:err).
Arguments Ok {A} a. Arguments Err {A} e.

(* ---- decimal numbers (std::to_string of a line number) ---- *)
Fixpoint dec_go (f:nat) (n:Z) (acc:list byte) : list byte :=
  match f with
  | O => acc
  | S f' => let acc' := (48 + n mod 10) :: acc in
            if n <? 10 then acc' else dec_go f' (n / 10) acc'
  end.
Definition dec (n:Z) : list byte := dec_go (S (Z.to_nat (Z.log2 n))) n [].

(* ---- argument lists: handle_macro, default.cpp:611-672 ----
   counters r (), e [], c {}; a closing bracket below zero is reported as unbalanced (the
   implementation's unsigned counter wraps there; outside the grammar).
   [split_args np toks] starts after the opening '('; result: raw arguments and the number of
   tokens consumed including the closing ')'. *)
Fixpoint split_go (r e c:nat) (cur:list btok) (acc:list (list btok)) (n:nat) (toks:list btok)
  : option (list (list btok) * nat) :=
  match toks with
  | [] => None
  | t :: rest =>
    let n' := S n in
    match t with
    | BC b =>
      if b =? LPAR then split_go (S r) e c (cur ++ [t]) acc n' rest
      else if b =? RPAR then
        match r with
        | S r' => split_go r' e c (cur ++ [t]) acc n' rest
        | O => match e, c with
               | O, O => Some (acc ++ [cur], n')
               | _, _ => None end
        end
      else if b =? LBRK then split_go r (S e) c (cur ++ [t]) acc n' rest
      else if b =? RBRK then match e with S e' => split_go r e' c (cur ++ [t]) acc n' rest | O => None end
      else if b =? LCUR then split_go r e (S c) (cur ++ [t]) acc n' rest
      else if b =? RCUR then match c with S c' => split_go r e c' (cur ++ [t]) acc n' rest | O => None end
      else if b =? COMMA then
        match r, e, c with
        | O, O, O => split_go r e c [] (acc ++ [cur]) n' rest
        | _, _, _ => split_go r e c (cur ++ [t]) acc n' rest
        end
      else split_go r e c (cur ++ [t]) acc n' rest
    | _ => split_go r e c (cur ++ [t]) acc n' rest
    end
  end.

(* S10: "NAME()" is no argument for a macro without parameters and one empty argument otherwise
   (default.cpp:643-666: an empty argument is only recorded when the macro has parameters) *)
Definition split_args (np:nat) (toks:list btok) : option (list (list btok) * nat) :=
  match split_go 0 0 0 [] [] 0 toks with
  | Some (args, n) =>
      match np with
      | O => Some (filter (fun a => match a with [] => false | _ => true end) args, n)
      | _ => Some (args, n)
      end
  | None => None
  end.

Fixpoint zip_params (ps:list (list byte)) (args:list (list byte)) : list (list byte * list byte) :=
  match ps, args with
  | p :: ps', a :: args' => (p, a) :: zip_params ps' args'
  | _, _ => [] end.
Fixpoint plookup (pm:list (list byte * list byte)) (n:list byte) : option (list byte) :=
  match pm with [] => None | (k, v) :: r => if beq k n then Some v else plookup r n end.

Definition bind {A B} (x:res A) (f:A -> res B) : res B := match x with Ok a => f a | Err e => Err e end.

Fixpoint mapM {A B} (f:A -> res B) (l:list A) : res (list B) :=
  match l with
  | [] => Ok []
  | a :: t => match f a with
              | Ok b => match mapM f t with Ok bs => Ok (b :: bs) | Err e => Err e end
              | Err e => Err e end
  end.

(* ---- expansion ----------------------------------------------------------------
   S11: call by value. [call] expands one use of a macro given its expanded arguments;
   it is the recursive knot (macros in bodies), tied in [call] below on a depth fuel. *)
Definition callable (m:macro) : bool := match m_params m with Some _ => true | None => false end.
Definition nparams (m:macro) : nat := match m_params m with Some ps => length ps | None => O end.

Section Expansion.
  Variable tbl : table.
  Variable callf : list byte -> macro -> list (list byte) -> res (list byte).

  (* handle_macro (default.cpp:554-681) seen from the word [w] = macro [m] with [rest] following:
     the text it stands for and how many of the following tokens it has consumed.
     [xa] expands one raw argument (handle_arg). *)
  Definition do_call (xa:list btok -> res (list byte)) (w:list byte) (m:macro) (rest:list btok)
    : res (list byte * nat) :=
    if callable m then
      match rest with
      | BC b :: rest' =>
        if b =? LPAR then
          match split_args (nparams m) rest' with
          | Some (raw, cnt) =>
              bind (mapM xa raw) (fun args => bind (callf w m args) (fun x => Ok (x, S cnt)))
          | None => Err EUnbalanced
          end
        else Ok (w, O)                                   (* S9 *)
      | _ => Ok (w, O)
      end
    else bind (callf w m []) (fun x => Ok (x, O)).

  (* handle_arg (default.cpp:456-553): strings and punctuation are copied; a word is a macro
     (S11: macro first), else a parameter of the enclosing body, else itself. *)
  Fixpoint xarg_go (inner:list btok -> res (list byte)) (pm:list (list byte * list byte))
           (skip:nat) (toks:list btok) {struct toks} : res (list byte) :=
    match toks with
    | [] => Ok []
    | t :: rest =>
      match skip with
      | S k => xarg_go inner pm k rest
      | O =>
        match t with
        | BW w =>
          match lookup tbl w with
          | Some m => bind (do_call inner w m rest) (fun xk =>
                      bind (xarg_go inner pm (snd xk) rest) (fun y => Ok (fst xk ++ y)))
          | None =>
            match plookup pm w with
            | Some v => bind (xarg_go inner pm O rest) (fun y => Ok (v ++ y))
            | None => bind (xarg_go inner pm O rest) (fun y => Ok (w ++ y))
            end
          end
        | BS s => bind (xarg_go inner pm O rest) (fun y => Ok (s ++ y))
        | BC c => bind (xarg_go inner pm O rest) (fun y => Ok (c :: y))
        end
      end
    end.

  (* [n] bounds the nesting depth of calls inside one argument; S (length toks) is enough *)
  Fixpoint xarg (n:nat) (pm:list (list byte * list byte)) (toks:list btok) : res (list byte) :=
    match n with
    | O => Err EOutOfFuel
    | S n' => xarg_go (xarg n' pm) pm O toks
    end.
  Definition xarg_top (pm:list (list byte * list byte)) (toks:list btok) : res (list byte) :=
    xarg (S (length toks)) pm toks.

  (* replace_skip (default.cpp:258-314) copies strings and every character except '#' and '\' *)
  Definition nonstop (t:btok) : bool :=
    match t with BS _ => true | BC c => negb ((c =? HASH) || (c =? BSL)) | BW _ => false end.
  Fixpoint span_nonstop (toks:list btok) : list byte * nat :=
    match toks with
    | t :: rest => if nonstop t then let (b, k) := span_nonstop rest in (btok_bytes t ++ b, S k)
                   else ([], O)
    | [] => ([], O)
    end.

  (* a word of a body: S12 parameter first, then macro *)
  Definition word_value (pm:list (list byte * list byte)) (w:list byte) (rest:list btok)
    : res (list byte * nat) :=
    match plookup pm w with
    | Some v => Ok (v, O)
    | None => match lookup tbl w with
              | Some m => do_call (xarg_top pm) w m rest
              | None => Ok (w, O)
              end
    end.

  (* replace_stringify / replace_concat (default.cpp:25-216), entered after a '#' of the body *)
  Definition hash_value (pm:list (list byte * list byte)) (rest:list btok) : res (list byte * nat) :=
    let (cp1, k1) := span_nonstop rest in
    match skipn k1 rest with
    | BW w :: r2 =>
        bind (word_value pm w r2) (fun xk => Ok (cp1 ++ QUOTE :: fst xk ++ [QUOTE], (k1 + 1 + snd xk)%nat))
    | BC c :: r2 =>
        if c =? HASH then
          let (cp2, k2) := span_nonstop r2 in
          match skipn k2 r2 with
          | BW w :: r3 =>
              bind (word_value pm w r3) (fun xk => Ok (cp1 ++ cp2 ++ fst xk, (k1 + 1 + k2 + 1 + snd xk)%nat))
          | _ => Ok (cp1 ++ cp2, (k1 + 1 + k2)%nat)
          end
        else Ok (cp1 ++ [QUOTE; QUOTE], k1)
    | _ => Ok (cp1 ++ [QUOTE; QUOTE], k1)
    end.

  (* replace (default.cpp:315-455) *)
  Fixpoint xbody (pm:list (list byte * list byte)) (skip:nat) (toks:list btok) {struct toks}
    : res (list byte) :=
    match toks with
    | [] => Ok []
    | t :: rest =>
      match skip with
      | S k => xbody pm k rest
      | O =>
        match t with
        | BS s => bind (xbody pm O rest) (fun y => Ok (s ++ y))
        | BW w => bind (word_value pm w rest) (fun xk =>
                  bind (xbody pm (snd xk) rest) (fun y => Ok (fst xk ++ y)))
        | BC c =>
          if c =? HASH then
            bind (hash_value pm rest) (fun xk =>
            bind (xbody pm (snd xk) rest) (fun y => Ok (fst xk ++ y)))
          else bind (xbody pm O rest) (fun y => Ok (c :: y))
        end
      end
    end.
End Expansion.

(* One use of macro [name] = [m] with expanded arguments. [d] is the depth fuel: it bounds the
   nesting of bodies; together with the stack of names under expansion, length tbl + 1 always
   suffices (theorem call_fuel_enough). default.cpp:315-330 and the recursion guard. *)
Fixpoint call (d:nat) (tbl:table) (cfile:list byte) (cline:Z) (stack:list (list byte))
         (name:list byte) (m:macro) (args:list (list byte)) {struct d} : res (list byte) :=
  match d with
  | O => Err EOutOfFuel
  | S d' =>
    if negb (Nat.eqb (length args) (nparams m)) then Err EArgCount
    else match m_builtin m with
    | Some BLine => Ok (dec cline)
    | Some BFile => Ok (QUOTE :: cfile ++ [QUOTE])
    | None =>
      if mem name stack then Err ERecursiveMacro
      else xbody tbl (call d' tbl cfile cline (name :: stack))
                 (zip_params (match m_params m with Some ps => ps | None => [] end) args)
                 O (blex (m_body m))
    end
  end.

(* ================================================================================ *)
(* 4. Directives                                                                    *)

Fixpoint take_word (l:list byte) : list byte * list byte :=
  match l with
  | c :: t => if is_word c then let (w, r) := take_word t in (c :: w, r) else ([], l)
  | [] => ([], [])
  end.
Fixpoint ltrim (l:list byte) : list byte :=
  match l with c :: t => if is_blank c then ltrim t else l | [] => [] end.
Definition trim (l:list byte) : list byte := rev (ltrim (rev (ltrim l))).
Definition upper (l:list byte) : list byte :=
  map (fun c => if (97 <=? c) && (c <=? 122) then c - 32 else c) l.

(* get_line(true), default.h:165-194 (S13) *)
Fixpoint unesc (esc:bool) (l:list byte) : list byte :=
  match l with
  | [] => []
  | c :: t =>
    if c =? BSL then (if esc then BSL :: unesc true t else unesc true t)
    else if c =? NL then unesc false t
    else if esc then BSL :: c :: unesc false t else c :: unesc false t
  end.

Fixpoint split_at (sep:byte) (l:list byte) : list byte * option (list byte) :=
  match l with
  | [] => ([], None)
  | c :: t => if c =? sep then ([], Some t)
              else let (a, b) := split_at sep t in (c :: a, b)
  end.
Fixpoint split_commas (f:nat) (l:list byte) : list (list byte) :=
  match f with
  | O => []
  | S f' => match split_at COMMA l with
            | (a, Some r) => a :: split_commas f' r
            | (a, None) => [a]
            end
  end.

Inductive directive :=
| DDefine (name:list byte) (m:macro)
| DUndef (name:list byte)
| DIfdef (name:list byte) | DIfndef (name:list byte) | DElse | DEndif
| DInclude (path:list byte)
| DPragma
| DUnknown.

Definition s_define := [68;69;70;73;78;69]. Definition s_undef := [85;78;68;69;70].
Definition s_ifdef := [73;70;68;69;70].     Definition s_ifndef := [73;70;78;68;69;70].
Definition s_else := [69;76;83;69].         Definition s_endif := [69;78;68;73;70].
Definition s_include := [73;78;67;76;85;68;69]. Definition s_pragma := [80;82;65;71;77;65].

(* default.cpp:763-852 (S6) *)
Definition parse_define (line:list byte) : directive :=
  let (name, r) := take_word line in
  match r with
  | [] => DDefine name (mkmacro None [] None)
  | c :: r' =>
    if c =? LPAR then
      match split_at RPAR r' with
      | (ps, Some body) =>
          let params := filter (fun p => match p with [] => false | _ => true end)
                               (map trim (split_commas (S (length ps)) ps)) in
          DDefine name (mkmacro (Some params) (trim body) None)
      | (ps, None) =>
          DDefine name (mkmacro (Some (map trim (split_commas (S (length ps)) ps))) [] None)
      end
    else DDefine name (mkmacro None (trim r) None)
  end.

Fixpoint drop_quotes (l:list byte) : list byte :=
  match l with c :: t => if c =? QUOTE then drop_quotes t else l | [] => [] end.

(* default.cpp:685-981; [l] = the characters after the '#' *)
Definition parse_directive (l:list byte) : directive :=
  let (inst, r) := take_word l in
  let line := trim (unesc false r) in
  let i := upper inst in
  if beq i s_define then parse_define line
  else if beq i s_undef then DUndef line
  else if beq i s_ifdef then DIfdef line
  else if beq i s_ifndef then DIfndef line
  else if beq i s_else then DElse
  else if beq i s_endif then DEndif
  else if beq i s_include then DInclude (fst (split_at QUOTE (drop_quotes line)))
  else if beq i s_pragma then DPragma
  else DUnknown.

(* ================================================================================ *)
(* 5. The file-level machine                                                        *)

Inductive prov := PSrc (file:list byte) (line col:Z) | PMacro | PSynth.
Inductive oitem :=
| OChar (b:byte) (p:prov)
| OLine (n:Z) (file:list byte).     (* the text  #line n "file" NL  *)

(* Defect switches (DESIGN 2.1a). as_is is what /repo does when the proposed fixes are not applied. *)
Record defects := mkdef {
  d_missing_newlines : bool;   (* newlines swallowed by continuations (multi-line #define!) and newlines of
                                  strings in inactive branches are not answered in the output *)
  d_escquote_column : bool }.  (* the SQF tokenizer counts a doubled quote inside a string as one column *)
Definition as_is := mkdef true true.
Definition repaired := mkdef false false.

Record cond := mkcond { c_on : bool; c_parent : bool }.
Record tstate := mkts {
  ts_tbl : table;
  ts_conds : list cond;      (* innermost first *)
  ts_pend : nat;             (* swallowed newlines not yet answered (swallowed_newlines) *)
  ts_hidden : bool }.        (* a continuation in plain text, a call spanning lines or a newline out of an expansion was seen *)

Definition active (st:tstate) : bool := match ts_conds st with [] => true | c :: _ => c_on c end.
Definition add_pend (st:tstate) (n:nat) (plain:bool) : tstate :=
  mkts (ts_tbl st) (ts_conds st) (ts_pend st + n)
       (ts_hidden st || (plain && negb (Nat.eqb n O))).
Definition set_hidden (st:tstate) (b:bool) : tstate :=
  mkts (ts_tbl st) (ts_conds st) (ts_pend st) (ts_hidden st || b).
Definition clear_pend (st:tstate) : tstate := mkts (ts_tbl st) (ts_conds st) O (ts_hidden st).
Definition set_tbl (st:tstate) (t:table) : tstate := mkts t (ts_conds st) (ts_pend st) (ts_hidden st).
Definition set_conds (st:tstate) (c:list cond) : tstate := mkts (ts_tbl st) c (ts_pend st) (ts_hidden st).

Definition ltok_btok (t:ltok) : btok :=
  match t with
  | LW w => BW (bytes w)
  | LS s => BS (bytes s)
  | LC c => BC (pc_b c)
  | LD h l nl => BS (pc_b h :: bytes l ++ match nl with Some c => [pc_b c] | None => [] end)
  end.
Definition ltok_chars (t:ltok) : list pchar :=
  match t with
  | LW w => w | LS s => s | LC c => [c]
  | LD h l nl => h :: l ++ match nl with Some c => [c] | None => [] end
  end.
Definition ltoks_chars (l:list ltok) : list pchar := flat_map ltok_chars l.
Definition tok_line (t:ltok) : option Z :=
  match ltok_chars t with c :: _ => Some (pc_line c) | [] => None end.

Section Top.
  Variable d : defects.
  Variable file : list byte.       (* name printed for this file *)
  Variable eof_line : Z.           (* line the reader is on at the end of the file *)
  Variable dfuel : nat.            (* depth fuel for macro bodies *)
  (* processes an included file: table in, (items, table, hidden flag) out *)
  Variable incl : table -> list byte -> res (list oitem * table * bool).

  Definition src (c:pchar) : oitem := OChar (pc_b c) (PSrc file (pc_line c) (pc_col c)).
  Definition mac (b:byte) : oitem := OChar b PMacro.
  Definition flush (n:nat) : list oitem :=
    if d_missing_newlines d then [] else repeat (OChar NL PSynth) n.
  Definition nl_only (s:list pchar) : list oitem :=
    map src (filter (fun c => pc_b c =? NL) s).

  (* a word of plain text (default.cpp:1040-1058, 1091-1109 and the quote case 1006-1013) *)
  Definition top_word (st:tstate) (w:list pchar) (rest:list ltok) : res (list oitem * nat * tstate) :=
    let tbl := ts_tbl st in
    match lookup tbl (bytes w) with
    | None => Ok (map src w, O, st)
    | Some m =>
      let cline := match rest with
                   | t :: _ => match tok_line t with Some l => l | None => eof_line end
                   | [] => eof_line end in
      let cf := call dfuel tbl file cline [] in
      if callable m then
        match rest with
        | LC c :: rest' =>
          if pc_b c =? LPAR then
            match split_args (nparams m) (map ltok_btok rest') with
            | Some (raw, cnt) =>
              let used := ltoks_chars (firstn (S cnt) rest) in
              bind (mapM (xarg_top tbl cf []) raw) (fun args =>
              bind (cf (bytes w) m args) (fun x =>
                Ok (map mac x, S cnt,
                    set_hidden (add_pend st (hid_sum used) true)
                               (negb (Nat.eqb (nl_count used) O) || negb (Nat.eqb (count_nl x) O)))))
            | None => Err EUnbalanced
            end
          else Ok (map src w, O, st)
        | _ => Ok (map src w, O, st)
        end
      else bind (cf (bytes w) m []) (fun x => Ok (map mac x, O, set_hidden st (negb (Nat.eqb (count_nl x) O))))
    end.

  (* one directive line (default.cpp:683-981 and :1019-1030) *)
  Definition top_directive (st:tstate) (h:pchar) (l:list pchar) (nl:option pchar) : res (list oitem * tstate) :=
    (* at the end of the file the continuations behind the last character count as well *)
    let tail := match nl with
                | Some c => hid c
                | None => let z := last l h in
                          Z.to_nat (eof_line - pc_line z - (if pc_b z =? NL then 1 else 0))
                end in
    let st1 := add_pend st (hid h + (hid_sum l + nl_count l) + tail) false in
    let nlitem := match nl with Some c => src c | None => OChar NL PSynth end in
    let plain (st':tstate) := Ok (flush (ts_pend st1) ++ [nlitem], clear_pend st') in
    let on := active st in
    match parse_directive (bytes l) with
    | DUnknown => Err EUnknownDirective
    | DPragma => plain st1
    | DDefine n m => plain (if on then set_tbl st1 (define (ts_tbl st1) n m) else st1)
    | DUndef n => plain (if on then set_tbl st1 (remove (ts_tbl st1) n) else st1)
    | DIfdef n =>
        let found := match lookup (ts_tbl st1) n with Some _ => true | None => false end in
        plain (set_conds st1 (mkcond (on && found) on :: ts_conds st1))
    | DIfndef n =>
        let found := match lookup (ts_tbl st1) n with Some _ => true | None => false end in
        plain (set_conds st1 (mkcond (on && negb found) on :: ts_conds st1))
    | DElse =>
        match ts_conds st1 with
        | [] => Err EElse
        | c :: cs => plain (set_conds st1 (mkcond (if c_parent c then negb (c_on c) else c_on c) (c_parent c) :: cs))
        end
    | DEndif =>
        match ts_conds st1 with
        | [] => Err EEndif
        | _ :: cs => plain (set_conds st1 cs)
        end
    | DInclude path =>
        if on then
          bind (incl (ts_tbl st1) path) (fun r =>
            let '(items, tbl', hidden') := r in
            let ret := match nl with Some c => pc_line c | None => eof_line - 1 end in
            Ok (flush (ts_pend st1) ++ OLine 1 (match items with OLine _ f :: _ => f | _ => [] end)
                  :: items ++ [OChar NL PSynth; OLine ret file],
                set_hidden (clear_pend (set_tbl st1 tbl')) hidden'))
        else plain st1
    end.

  Fixpoint top (st:tstate) (skip:nat) (toks:list ltok) {struct toks} : res (list oitem * tstate) :=
    match toks with
    | [] => Ok ([], st)
    | t :: rest =>
      match skip with
      | S k => top st k rest
      | O =>
        match t with
        | LW w =>
          let st1 := add_pend st (hid_sum w) true in
          if active st1 then
            bind (top_word st1 w rest) (fun r =>
              let '(o, k, st2) := r in
              bind (top st2 k rest) (fun r2 => Ok (o ++ fst r2, snd r2)))
          else top st1 O rest
        | LS s =>
          let st1 := add_pend st (hid_sum s) true in
          let o := if active st1 then map src s
                   else if d_missing_newlines d then [] else nl_only s in
          bind (top st1 O rest) (fun r2 => Ok (o ++ fst r2, snd r2))
        | LC c =>
          let st1 := add_pend st (hid c) true in
          if pc_b c =? NL then
            bind (top (clear_pend st1) O rest) (fun r2 => Ok (flush (ts_pend st1) ++ src c :: fst r2, snd r2))
          else if active st1 then
            bind (top st1 O rest) (fun r2 => Ok (src c :: fst r2, snd r2))
          else top st1 O rest
        | LD h l nl =>
          bind (top_directive st h l nl) (fun r =>
            bind (top (snd r) O rest) (fun r2 => Ok (fst r ++ fst r2, snd r2)))
        end
      end
    end.
End Top.

(* name printed in '#line' -> content; path text of an #include -> (name, content) *)
Definition fsys := list byte -> option (list byte * list byte).

Definition initial_table : table :=
  [ ([95;95;76;73;78;69;95;95], mkmacro None [] (Some BLine));     (* __LINE__ *)
    ([95;95;70;73;76;69;95;95], mkmacro None [] (Some BFile)) ].   (* __FILE__ *)

(* parse_file (default.cpp:982-1112) and the INCLUDE branch (:688-750). [fuel] bounds the include depth. *)
Fixpoint pp_file (fuel:nat) (d:defects) (fs:fsys) (stack:list (list byte)) (tbl:table)
         (file:list byte) (content:list byte) {struct fuel} : res (list oitem * table * bool) :=
  match fuel with
  | O => Err EOutOfFuel
  | S f =>
    let incl := fun (tbl':table) (path:list byte) =>
      match fs path with
      | None => Err EIncludeFailed
      | Some (phys, cont) =>
          if mem phys (file :: stack) then Err ERecursiveInclude
          else pp_file f d fs (file :: stack) tbl' phys cont
      end in
    let eof_line := 1 + Z.of_nat (count_nl content) in
    match top d file eof_line (S (length tbl + length content)) incl
              (mkts tbl [] O false) O (lex (MNorm true) (read content)) with
    | Ok (items, st) =>
        match ts_conds st with
        | [] => Ok (OLine 0 file :: items, ts_tbl st, ts_hidden st)
        | _ => Err EMissingEndif
        end
    | Err e => Err e
    end
  end.

Definition preprocess (d:defects) (fs:fsys) (file:list byte) (content:list byte)
  : res (list oitem * table * bool) :=
  pp_file 8 d fs [] initial_table file content.

(* ================================================================================ *)
(* 6. Output text and the tokenizer's position bookkeeping                          *)

Definition s_line := [35;108;105;110;101].   (* #line *)
Definition render_item (o:oitem) : list byte :=
  match o with
  | OChar b _ => [b]
  | OLine n f => s_line ++ SP :: dec n ++ SP :: QUOTE :: f ++ [QUOTE; NL]
  end.
Definition render (l:list oitem) : list byte := flat_map render_item l.

Record tpos := mktp { tp_file : list byte; tp_line : Z; tp_col : Z }.

(* What the SQF tokenizer's m_line / m_column / path would be if it recognised exactly the
   '#line' texts the preprocessor emits: the specification side of line_sync. *)
Definition istep (p:tpos) (o:oitem) : tpos :=
  match o with
  | OLine n f => mktp f (n + 1) 0
  | OChar b _ => if b =? NL then mktp (tp_file p) (tp_line p + 1) 0
                 else mktp (tp_file p) (tp_line p) (tp_col p + 1)
  end.
Definition itrack (p:tpos) (l:list oitem) : tpos := fold_left istep l p.
