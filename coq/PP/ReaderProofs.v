(* Lemmas about the character reader [rd] and the lexical skeleton [lex]:
   line bookkeeping (every raw newline is accounted for exactly once: as a newline character or as a
   hidden newline in the gap of the following character), column bookkeeping, strings and plain text
   pass through unchanged. *)
From Coq Require Import ZArith List Bool Lia.
Import ListNotations.
From SqfVerif Require Import PP.Spec.
Local Open Scope Z_scope.

Ltac zb := repeat match goal with
  | H: (_ =? _) = true |- _ => apply Z.eqb_eq in H
  | H: (_ =? _) = false |- _ => apply Z.eqb_neq in H end.

Lemma count_nl_app : forall a b, count_nl (a ++ b) = (count_nl a + count_nl b)%nat.
Proof. induction a; intros; simpl; auto. destruct (a =? NL); rewrite IHa; auto. Qed.

(* the line of every character = the line the reader is on, which moves by one per newline
   character and by the hidden newlines in front of a character *)
Fixpoint lines_ok (ln:Z) (cs:list pchar) : Prop :=
  match cs with
  | [] => True
  | c :: t => pc_line c = ln + Z.of_nat (hid c) /\
              lines_ok (pc_line c + (if pc_b c =? NL then 1 else 0)) t
  end.

Lemma lines_ok_emit : forall c ln col gap rest,
  lines_ok (ln + (if c =? NL then 1 else 0)) rest ->
  lines_ok (ln - Z.of_nat (count_nl gap)) (mkpc c ln col gap :: rest).
Proof. intros. simpl. unfold hid; simpl. split; [lia|auto]. Qed.

Lemma rd_lines_ok : forall n s, (length s <= n)%nat -> forall m ln col gap,
  lines_ok (ln - Z.of_nat (count_nl gap)) (rd m ln col gap s).
Proof.
  induction n; intros s Hn m ln col gap.
  { destruct s; [simpl; auto | simpl in Hn; lia]. }
  destruct s as [|c t]; [simpl; auto|]. simpl in Hn.
  assert (IHt: forall m ln col gap, lines_ok (ln - Z.of_nat (count_nl gap)) (rd m ln col gap t))
    by (intros; apply IHn; lia).
  (* a step that only extends the gap by [g] and moves the line by the newlines in [g] *)
  assert (GAP: forall g m' ln' col' t', (length t' <= n)%nat -> ln' = ln + Z.of_nat (count_nl g) ->
            lines_ok (ln - Z.of_nat (count_nl gap)) (rd m' ln' col' (gap ++ g) t')).
  { intros g m' ln' col' t' Ht' ->.
    pose proof (IHn t' Ht' m' (ln + Z.of_nat (count_nl g)) col' (gap ++ g)) as P.
    rewrite count_nl_app in P.
    replace (ln + Z.of_nat (count_nl g) - Z.of_nat (count_nl gap + count_nl g)) with (ln - Z.of_nat (count_nl gap)) in P by lia.
    exact P. }
  assert (EMIT: forall m' ln' col', ln' = ln + (if c =? NL then 1 else 0) ->
            lines_ok (ln - Z.of_nat (count_nl gap)) (mkpc c ln col gap :: rd m' ln' col' [] t)).
  { intros m' ln' col' ->. apply lines_ok_emit.
    pose proof (IHt m' (ln + (if c =? NL then 1 else 0)) col' []) as P. simpl in P.
    rewrite Z.sub_0_r in P. exact P. }
  cbn [rd].
  destruct (c =? CR) eqn:Ecr.
  { zb; subst. apply GAP; [lia | simpl; lia]. }
  assert (NLne: forall x, c = x -> x <> NL -> (c =? NL) = false) by (intros; subst; apply Z.eqb_neq; auto).
  destruct m.
  - (* normal *)
    destruct (c =? SLASH) eqn:E1.
    { zb; subst c. destruct t as [|d t'].
      { apply EMIT. simpl. lia. }
      simpl in Hn.
      destruct (d =? STAR) eqn:E2. { zb; subst. apply GAP; [lia| simpl; lia]. }
      destruct (d =? SLASH) eqn:E3. { zb; subst. apply (GAP [SLASH] RLine ln (col + 1) (SLASH :: t')); [simpl; lia | simpl; lia]. }
      apply EMIT. simpl. lia. }
    destruct (c =? BSL) eqn:E2.
    { zb; subst c. destruct t as [|d t'].
      { apply EMIT. simpl. lia. }
      simpl in Hn.
      destruct (d =? NL) eqn:E3. { zb; subst. apply GAP; [lia| simpl; lia]. }
      destruct (d =? CR) eqn:E4.
      { zb; subst. destruct t' as [|e t''].
        { apply EMIT. simpl. lia. }
        simpl in Hn.
        destruct (e =? NL) eqn:E5. { zb; subst. apply GAP; [lia| simpl; lia]. }
        apply EMIT. simpl. lia. }
      apply EMIT. simpl. lia. }
    destruct (c =? QUOTE) eqn:E3.
    { zb; subst c. apply EMIT. simpl. lia. }
    destruct (c =? NL) eqn:E4.
    { apply EMIT; try rewrite E4; lia. }
    apply EMIT; try rewrite E4; lia.
  - (* string *)
    destruct (c =? QUOTE) eqn:E3.
    { zb; subst c. apply EMIT. simpl. lia. }
    destruct (c =? NL) eqn:E4.
    { apply EMIT; try rewrite E4; lia. }
    apply EMIT; try rewrite E4; lia.
  - (* block comment *)
    destruct (c =? NL) eqn:E4.
    { apply EMIT; try rewrite E4; lia. }
    assert (G1: lines_ok (ln - Z.of_nat (count_nl gap)) (rd RBlock ln (col + 1) (gap ++ [c]) t)).
    { apply GAP; [lia| simpl; rewrite E4; simpl; lia]. }
    destruct (c =? STAR) eqn:E5; auto.
    destruct t as [|d t']; auto.
    simpl in Hn.
    destruct (d =? SLASH) eqn:E6; auto.
    zb; subst. apply GAP; [lia| simpl; lia].
  - (* line comment *)
    destruct (c =? NL) eqn:E4.
    { apply EMIT; try rewrite E4; lia. }
    apply GAP; [lia| simpl; rewrite E4; simpl; lia].
Qed.

Theorem read_lines_ok : forall s, lines_ok 1 (read s).
Proof.
  intros. unfold read.
  replace 1 with (1 - Z.of_nat (count_nl [])) by (simpl; lia).
  apply (rd_lines_ok (length s)); lia.
Qed.

(* ---- the lexical skeleton keeps every character, in order ---- *)
Definition pending (m:lmode) : list pchar :=
  match m with
  | MNorm _ => []
  | MWord acc => acc
  | MStr acc _ => acc
  | MDir h acc _ => h :: acc
  end.

Lemma ltoks_chars_app : forall a b, ltoks_chars (a ++ b) = ltoks_chars a ++ ltoks_chars b.
Proof. intros. unfold ltoks_chars. apply flat_map_app. Qed.

Lemma lex_norm_chars : forall bol c o m', lex_norm bol c = (o, m') -> ltoks_chars o ++ pending m' = [c].
Proof.
  intros bol c o m'. unfold lex_norm.
  destruct (is_word (pc_b c)). { intros H; inversion H; reflexivity. }
  destruct (pc_b c =? QUOTE). { intros H; inversion H; reflexivity. }
  destruct ((pc_b c =? HASH) && bol). { intros H; inversion H; reflexivity. }
  destruct (pc_b c =? NL). { intros H; inversion H; reflexivity. }
  destruct (is_blank (pc_b c) || (pc_b c =? CR)); intros H; inversion H; reflexivity.
Qed.

Lemma lex_step_chars : forall m c o m', lex_step m c = (o, m') ->
  ltoks_chars o ++ pending m' = pending m ++ [c].
Proof.
  intros m c o m'. destruct m as [bol|acc|acc bol|h acc esc]; simpl.
  - apply lex_norm_chars.
  - destruct (is_word (pc_b c)). { intros H; inversion H; reflexivity. }
    destruct (lex_norm false c) as [o1 m1] eqn:E. intros H; inversion H; subst.
    apply lex_norm_chars in E.
    change (ltoks_chars (LW acc :: o1)) with (acc ++ ltoks_chars o1).
    rewrite <- app_assoc, E. reflexivity.
  - destruct (pc_b c =? QUOTE); intros H; inversion H; subst; unfold ltoks_chars; simpl; rewrite ?app_nil_r; reflexivity.
  - destruct (pc_b c =? BSL). { intros H; inversion H; reflexivity. }
    destruct (pc_b c =? NL).
    + destruct esc; intros H; inversion H; subst; unfold ltoks_chars; simpl; rewrite ?app_nil_r; reflexivity.
    + intros H; inversion H; reflexivity.
Qed.

Lemma lex_end_chars : forall m, ltoks_chars (lex_end m) = pending m.
Proof. destruct m; unfold ltoks_chars; simpl; rewrite ?app_nil_r; reflexivity. Qed.

Theorem lex_chars : forall cs m, ltoks_chars (lex m cs) = pending m ++ cs.
Proof.
  induction cs as [|c t IH]; intros m; simpl.
  - rewrite lex_end_chars, app_nil_r. reflexivity.
  - destruct (lex_step m c) as [o m'] eqn:E. rewrite ltoks_chars_app, IH, app_assoc.
    rewrite (lex_step_chars _ _ _ _ E). rewrite <- app_assoc. reflexivity.
Qed.

(* ---- shape of the tokens ---- *)
Definition wordc (c:pchar) : Prop := is_word (pc_b c) = true.
Definition wf_ltok (t:ltok) : Prop :=
  match t with
  | LW w => Forall wordc w
  | LD h _ nl => (pc_b h =? HASH) = true /\ match nl with Some c => (pc_b c =? NL) = true | None => True end
  | _ => True
  end.
(* an unterminated directive line can only be the last token *)
Fixpoint ld_last (l:list ltok) : Prop :=
  match l with
  | [] => True
  | LD _ _ None :: r => r = []
  | _ :: r => ld_last r
  end.
Definition wf_mode (m:lmode) : Prop :=
  match m with MWord acc => Forall wordc acc | MDir h _ _ => (pc_b h =? HASH) = true | _ => True end.

Lemma lex_norm_wf : forall bol c o m', lex_norm bol c = (o, m') ->
  Forall wf_ltok o /\ wf_mode m' /\ (forall r, ld_last r -> ld_last (o ++ r)).
Proof.
  intros bol c o m'. unfold lex_norm.
  destruct (is_word (pc_b c)) eqn:W.
  { intros H; inversion H; subst. repeat split; simpl; auto; try (repeat constructor; simpl; auto; fail). }
  destruct (pc_b c =? QUOTE). { intros H; inversion H; subst. repeat split; simpl; auto; try (repeat constructor; simpl; auto; fail). }
  destruct ((pc_b c =? HASH) && bol) eqn:EH.
  { intros H; inversion H; subst. apply andb_prop in EH. destruct EH.
    repeat split; simpl; auto; try (repeat constructor; simpl; auto; fail). }
  destruct (pc_b c =? NL). { intros H; inversion H; subst. repeat split; simpl; auto; try (repeat constructor; simpl; auto; fail). }
  destruct (is_blank (pc_b c) || (pc_b c =? CR)); intros H; inversion H; subst; repeat split; simpl; auto; try (repeat constructor; simpl; auto; fail).
Qed.

Lemma lex_step_wf : forall m c o m', wf_mode m -> lex_step m c = (o, m') ->
  Forall wf_ltok o /\ wf_mode m' /\ (forall r, ld_last r -> ld_last (o ++ r)).
Proof.
  intros m c o m' Hm. destruct m as [bol|acc|acc bol|h acc esc]; simpl.
  - apply lex_norm_wf.
  - destruct (is_word (pc_b c)) eqn:W.
    { intros H; inversion H; subst. repeat split; simpl; auto; try (repeat constructor; simpl; auto; fail).
      apply Forall_app; split; auto. }
    destruct (lex_norm false c) as [o1 m1] eqn:E. intros H; inversion H; subst.
    destruct (lex_norm_wf _ _ _ _ E) as (A & B & C). repeat split; auto.
  - destruct (pc_b c =? QUOTE); intros H; inversion H; subst; repeat split; simpl; auto; try (repeat constructor; simpl; auto; fail).
  - destruct (pc_b c =? BSL). { intros H; inversion H; subst. repeat split; simpl; auto; try (repeat constructor; simpl; auto; fail). }
    destruct (pc_b c =? NL) eqn:ENL.
    + destruct esc; intros H; inversion H; subst; repeat split; simpl; auto; try (repeat constructor; simpl; auto; fail).
    + intros H; inversion H; subst. repeat split; simpl; auto; try (repeat constructor; simpl; auto; fail).
Qed.

Theorem lex_wf : forall cs m, wf_mode m -> Forall wf_ltok (lex m cs) /\ ld_last (lex m cs).
Proof.
  induction cs as [|c t IH]; intros m Hm; simpl.
  - destruct m; simpl in *; repeat split; auto; repeat constructor; simpl; auto.
  - destruct (lex_step m c) as [o m'] eqn:E.
    destruct (lex_step_wf _ _ _ _ Hm E) as (A & B & C).
    destruct (IH m' B) as (D & F). split.
    + apply Forall_app; split; auto.
    + apply C; auto.
Qed.
