(* C13: laws of the reference expander - macro expansion part:
   termination with a stated fuel bound, detection of recursive macros, balanced arguments,
   stringify / concatenate. *)
From Coq Require Import ZArith List Bool Lia.
Import ListNotations.
From SqfVerif Require Import PP.Spec.
Local Open Scope Z_scope.

Lemma beq_true_eq : forall a b, beq a b = true -> a = b.
Proof.
  induction a; destruct b; simpl; intros H; try discriminate; auto.
  apply andb_prop in H. destruct H as [A B]. apply Z.eqb_eq in A. subst. f_equal. auto.
Qed.
Lemma beq_same : forall a, beq a a = true.
Proof. induction a; simpl; auto. rewrite Z.eqb_refl. auto. Qed.

Lemma lookup_in_names : forall t n m, lookup t n = Some m -> In n (names t).
Proof.
  induction t as [|[k m'] r IH]; simpl; intros n m H; [discriminate|].
  destruct (beq k n) eqn:E.
  - apply beq_true_eq in E. auto.
  - right. eapply IH; eauto.
Qed.
Lemma mem_false_not_in : forall n l, mem n l = false -> ~ In n l.
Proof.
  induction l; simpl; intros H; auto. apply orb_false_elim in H. destruct H as [A B].
  intros [X|X]; [subst; rewrite beq_same in A; discriminate | apply IHl; auto].
Qed.

(* ---- nothing runs out of fuel ---- *)
Definition fine {A} (r:res A) : Prop := r <> Err EOutOfFuel.

Lemma bind_fine : forall A B (x:res A) (f:A -> res B),
  fine x -> (forall a, x = Ok a -> fine (f a)) -> fine (bind x f).
Proof. intros A B [a|e] f Hx Hf; simpl; auto. unfold fine in *. intros X. inversion X; subst. apply Hx. reflexivity. Qed.

Lemma mapM_fine : forall A B (f:A -> res B) l, (forall a, In a l -> fine (f a)) -> fine (mapM f l).
Proof.
  induction l; intros H; simpl. { discriminate. }
  pose proof (H a (or_introl eq_refl)) as Ha.
  destruct (f a) eqn:E; [|intros X; inversion X; subst; apply Ha; reflexivity].
  assert (IH: fine (mapM f l)) by (apply IHl; intros; apply H; right; auto).
  destruct (mapM f l); [discriminate | intros X; inversion X; subst; apply IH; reflexivity].
Qed.

(* the raw arguments of a call are never longer than the text they were cut from *)
Lemma split_go_len : forall toks r e c cur acc n args n' K,
  Forall (fun a => (length a <= K)%nat) acc -> (length cur + length toks <= K)%nat ->
  split_go r e c cur acc n toks = Some (args, n') ->
  Forall (fun a => (length a <= K)%nat) args.
Proof.
  induction toks as [|t rest IH]; intros r e c cur acc n args n' K HA HC H; simpl in H; [discriminate|].
  simpl in HC.
  assert (STEP: forall r e c n, split_go r e c (cur ++ [t]) acc n rest = Some (args, n') ->
                Forall (fun a => (length a <= K)%nat) args).
  { intros. eapply IH; eauto. rewrite app_length. simpl. lia. }
  destruct t as [w|s|b]; eauto.
  destruct (b =? LPAR); eauto.
  destruct (b =? RPAR).
  { destruct r; eauto. destruct e; [|discriminate]. destruct c; [|discriminate].
    inversion H; subst. apply Forall_app. split; auto. constructor; auto. lia. }
  destruct (b =? LBRK); eauto.
  destruct (b =? RBRK). { destruct e; [discriminate|]; eauto. }
  destruct (b =? LCUR); eauto.
  destruct (b =? RCUR). { destruct c; [discriminate|]; eauto. }
  destruct (b =? COMMA); eauto.
  destruct r; eauto. destruct e; eauto. destruct c; eauto.
  eapply IH; [| |exact H].
  - apply Forall_app. split; auto. constructor; auto. lia.
  - simpl. lia.
Qed.

Lemma split_args_len : forall np toks raw cnt, split_args np toks = Some (raw, cnt) ->
  Forall (fun a => (length a <= length toks)%nat) raw.
Proof.
  intros np toks raw cnt H. unfold split_args in H.
  destruct (split_go 0 0 0 [] [] 0 toks) as [[args n]|] eqn:E; [|discriminate].
  apply (split_go_len _ _ _ _ _ _ _ _ _ (length toks)) in E; auto.
  destruct np; inversion H; subst; auto.
  apply Forall_forall. intros a Ha. apply filter_In in Ha. destruct Ha as [Ha _].
  rewrite Forall_forall in E. auto.
Qed.

Section Fuel.
  Variable tbl : table.
  Variable callf : list byte -> macro -> list (list byte) -> res (list byte).
  (* the callee never runs out of fuel when asked for a macro of the table *)
  Hypothesis callf_fine : forall w m args, lookup tbl w = Some m -> fine (callf w m args).

  Lemma do_call_fine : forall xa w m rest, lookup tbl w = Some m ->
    (forall a, (length a < length rest)%nat -> fine (xa a)) ->
    fine (do_call callf xa w m rest).
  Proof.
    intros xa w m rest HL HX. unfold do_call.
    destruct (callable m).
    - destruct rest as [|t rest']; [discriminate|].
      destruct t; try discriminate.
      destruct (c =? LPAR); [|discriminate].
      destruct (split_args (nparams m) rest') as [[raw cnt]|] eqn:E; [|discriminate].
      apply bind_fine.
      + apply mapM_fine. intros a Ha. apply HX.
        apply split_args_len in E. rewrite Forall_forall in E. specialize (E a Ha). simpl. lia.
      + intros args _. apply bind_fine; [apply callf_fine; auto|]. intros; discriminate.
    - apply bind_fine; [apply callf_fine; auto|]. intros; discriminate.
  Qed.

  Lemma xarg_go_fine : forall inner pm toks skip,
    (forall a, (length a < length toks)%nat -> fine (inner a)) ->
    fine (xarg_go tbl callf inner pm skip toks).
  Proof.
    induction toks as [|t rest IH]; intros skip HI; simpl. { discriminate. }
    assert (IHr: forall k, fine (xarg_go tbl callf inner pm k rest)).
    { intros k. apply IH. intros a Ha. apply HI. simpl. lia. }
    destruct skip; auto.
    destruct t as [w|s|c].
    - destruct (lookup tbl w) as [m|] eqn:EL.
      + apply bind_fine.
        * apply do_call_fine; auto. intros a Ha. apply HI. simpl. lia.
        * intros xk _. apply bind_fine; auto. intros; discriminate.
      + destruct (plookup pm w); apply bind_fine; auto; intros; discriminate.
    - apply bind_fine; auto; intros; discriminate.
    - apply bind_fine; auto; intros; discriminate.
  Qed.

  Lemma xarg_fine : forall n pm toks, (length toks < n)%nat -> fine (xarg tbl callf n pm toks).
  Proof.
    induction n; intros pm toks H; [lia|]. simpl.
    apply xarg_go_fine. intros a Ha. apply IHn. lia.
  Qed.

  Lemma word_value_fine : forall pm w rest, fine (word_value tbl callf pm w rest).
  Proof.
    intros. unfold word_value. destruct (plookup pm w); [discriminate|].
    destruct (lookup tbl w) eqn:E; [|discriminate].
    apply do_call_fine; auto. intros a Ha. unfold xarg_top. apply xarg_fine. lia.
  Qed.

  Lemma hash_value_fine : forall pm rest, fine (hash_value tbl callf pm rest).
  Proof.
    intros. unfold hash_value. destruct (span_nonstop rest) as [cp1 k1].
    destruct (skipn k1 rest) as [|t r2]; [discriminate|].
    destruct t as [w|s|c]; try discriminate.
    - apply bind_fine; [apply word_value_fine|]. intros; discriminate.
    - destruct (c =? HASH); [|discriminate].
      destruct (span_nonstop r2) as [cp2 k2].
      destruct (skipn k2 r2) as [|t r3]; [discriminate|].
      destruct t; try discriminate.
      apply bind_fine; [apply word_value_fine|]. intros; discriminate.
  Qed.

  Lemma xbody_fine : forall pm toks skip, fine (xbody tbl callf pm skip toks).
  Proof.
    induction toks as [|t rest IH]; intros skip; simpl. { discriminate. }
    destruct skip; auto.
    destruct t as [w|s|c].
    - apply bind_fine; [apply word_value_fine|]. intros. apply bind_fine; auto. intros; discriminate.
    - apply bind_fine; auto. intros; discriminate.
    - destruct (c =? HASH).
      + apply bind_fine; [apply hash_value_fine|]. intros. apply bind_fine; auto. intros; discriminate.
      + apply bind_fine; auto. intros; discriminate.
  Qed.
End Fuel.

(* Termination with a stated bound: the depth fuel only has to exceed the number of macros that are
   not yet being expanded. A use of a macro that is already being expanded is reported as
   ERecursiveMacro, so that the nesting depth cannot exceed the size of the table. *)
Theorem call_fuel_enough : forall d tbl cfile cline stack name m args,
  NoDup stack -> incl stack (names tbl) -> lookup tbl name = Some m ->
  (length (names tbl) < d + length stack)%nat ->
  fine (call d tbl cfile cline stack name m args).
Proof.
  induction d; intros tbl cfile cline stack name m args ND IN HL HD.
  - exfalso. pose proof (NoDup_incl_length ND IN). simpl in HD. lia.
  - simpl. destruct (negb (Nat.eqb (length args) (nparams m))); [discriminate|].
    destruct (m_builtin m) as [[|]|]; try discriminate.
    destruct (mem name stack) eqn:EM; [discriminate|].
    apply xbody_fine. intros w m' args' HL'.
    apply IHd; auto.
    + constructor; auto. apply mem_false_not_in; auto.
    + intros x [X|X]; [subst; eapply lookup_in_names; eauto | auto].
    + simpl. lia.
Qed.

Corollary call_terminates : forall tbl cfile cline name m args, lookup tbl name = Some m ->
  fine (call (S (length tbl)) tbl cfile cline [] name m args).
Proof.
  intros. apply call_fuel_enough; auto.
  - constructor.
  - intros x [].
  - unfold names. rewrite map_length. simpl. lia.
Qed.

(* self- and mutually recursive macros are an error outcome, at any fuel that is large enough *)
Theorem recursive_macro_detected : forall d tbl cfile cline stack name m args,
  m_builtin m = None -> length args = nparams m -> mem name stack = true ->
  call (S d) tbl cfile cline stack name m args = Err ERecursiveMacro.
Proof.
  intros. simpl. rewrite H0, Nat.eqb_refl. simpl. rewrite H, H1. reflexivity.
Qed.

Definition m_A := mkmacro None [65] None.            (* #define A A *)
Definition m_AB := mkmacro None [66] None.           (* #define A B *)
Definition m_BA := mkmacro None [65] None.           (* #define B A *)
Example self_recursive : call 5 [([65], m_A)] [] 1 [] [65] m_A [] = Err ERecursiveMacro.
Proof. vm_compute. reflexivity. Qed.
Example mutually_recursive : call 5 [([65], m_AB); ([66], m_BA)] [] 1 [] [65] m_AB [] = Err ERecursiveMacro.
Proof. vm_compute. reflexivity. Qed.

(* ---- balanced arguments ---- *)
Definition plain_tok (t:btok) : Prop :=
  match t with
  | BC c => c <> LPAR /\ c <> RPAR /\ c <> LBRK /\ c <> RBRK /\ c <> LCUR /\ c <> RCUR /\ c <> COMMA
  | _ => True       (* words and string literals: a string is one token, whatever it contains *)
  end.
(* properly nested text; [top]: commas only inside brackets *)
Inductive bal : bool -> list btok -> Prop :=
| bal_nil : forall top, bal top []
| bal_tok : forall top t l, plain_tok t -> bal top l -> bal top (t :: l)
| bal_comma : forall l, bal false l -> bal false (BC COMMA :: l)
| bal_par : forall top a l, bal false a -> bal top l -> bal top (BC LPAR :: a ++ BC RPAR :: l)
| bal_brk : forall top a l, bal false a -> bal top l -> bal top (BC LBRK :: a ++ BC RBRK :: l)
| bal_cur : forall top a l, bal false a -> bal top l -> bal top (BC LCUR :: a ++ BC RCUR :: l).

Lemma split_go_plain : forall t r e c cur acc n rest, plain_tok t ->
  split_go r e c cur acc n (t :: rest) = split_go r e c (cur ++ [t]) acc (S n) rest.
Proof.
  intros t r e c cur acc n rest P. simpl. destruct t as [w|s|b]; auto.
  destruct P as (P1 & P2 & P3 & P4 & P5 & P6 & P7).
  apply Z.eqb_neq in P1, P2, P3, P4, P5, P6, P7. rewrite P1, P2, P3, P4, P5, P6, P7. reflexivity.
Qed.

Lemma split_go_bal : forall top g, bal top g -> forall r e c cur acc n rest,
  (top = false -> (0 < r + e + c)%nat) ->
  split_go r e c cur acc n (g ++ rest) = split_go r e c (cur ++ g) acc (n + length g) rest.
Proof.
  induction 1; intros r e c cur acc n rest D.
  - simpl. rewrite app_nil_r, Nat.add_0_r. reflexivity.
  - simpl app. rewrite split_go_plain by auto. rewrite IHbal by auto.
    rewrite <- app_assoc. simpl. f_equal. lia.
  - specialize (D eq_refl). simpl app.
    assert (S1: split_go r e c cur acc n (BC COMMA :: l ++ rest) = split_go r e c (cur ++ [BC COMMA]) acc (S n) (l ++ rest)).
    { simpl. destruct r; [destruct e; [destruct c; [lia|]|]|]; reflexivity. }
    rewrite S1, IHbal by auto. rewrite <- app_assoc. simpl. f_equal. lia.
  - simpl app. change (split_go r e c cur acc n (BC LPAR :: (a ++ BC RPAR :: l) ++ rest))
      with (split_go (S r) e c (cur ++ [BC LPAR]) acc (S n) ((a ++ BC RPAR :: l) ++ rest)).
    rewrite <- app_assoc. rewrite IHbal1 by (intros; lia). simpl app.
    change (split_go (S r) e c ((cur ++ [BC LPAR]) ++ a) acc (S n + length a) (BC RPAR :: l ++ rest))
      with (split_go r e c (((cur ++ [BC LPAR]) ++ a) ++ [BC RPAR]) acc (S (S n + length a)) (l ++ rest)).
    rewrite IHbal2 by auto. repeat rewrite <- app_assoc. simpl. f_equal.
    rewrite app_length. simpl. lia.
  - simpl app. change (split_go r e c cur acc n (BC LBRK :: (a ++ BC RBRK :: l) ++ rest))
      with (split_go r (S e) c (cur ++ [BC LBRK]) acc (S n) ((a ++ BC RBRK :: l) ++ rest)).
    rewrite <- app_assoc. rewrite IHbal1 by (intros; lia). simpl app.
    change (split_go r (S e) c ((cur ++ [BC LBRK]) ++ a) acc (S n + length a) (BC RBRK :: l ++ rest))
      with (split_go r e c (((cur ++ [BC LBRK]) ++ a) ++ [BC RBRK]) acc (S (S n + length a)) (l ++ rest)).
    rewrite IHbal2 by auto. repeat rewrite <- app_assoc. simpl. f_equal.
    rewrite app_length. simpl. lia.
  - simpl app. change (split_go r e c cur acc n (BC LCUR :: (a ++ BC RCUR :: l) ++ rest))
      with (split_go r e (S c) (cur ++ [BC LCUR]) acc (S n) ((a ++ BC RCUR :: l) ++ rest)).
    rewrite <- app_assoc. rewrite IHbal1 by (intros; lia). simpl app.
    change (split_go r e (S c) ((cur ++ [BC LCUR]) ++ a) acc (S n + length a) (BC RCUR :: l ++ rest))
      with (split_go r e c (((cur ++ [BC LCUR]) ++ a) ++ [BC RCUR]) acc (S (S n + length a)) (l ++ rest)).
    rewrite IHbal2 by auto. repeat rewrite <- app_assoc. simpl. f_equal.
    rewrite app_length. simpl. lia.
Qed.

(* arguments a1 , a2 , ... , an ) *)
Fixpoint join_args (args:list (list btok)) : list btok :=
  match args with
  | [] => []
  | [a] => a
  | a :: r => a ++ BC COMMA :: join_args r
  end.

Lemma split_go_args : forall args cur acc n rest, args <> [] -> Forall (bal true) args ->
  exists n', split_go 0 0 0 cur acc n (join_args args ++ BC RPAR :: rest)
             = Some (acc ++ (match args with a :: r => (cur ++ a) :: r | [] => [] end), n').
Proof.
  induction args as [|a r IH]; intros cur acc n rest NE F; [congruence|].
  inversion F; subst. destruct r as [|a2 r'].
  - simpl join_args. rewrite (split_go_bal true a H1) by (intros; discriminate).
    simpl. eexists. reflexivity.
  - remember (join_args (a2 :: r')) as J.
    assert (EJ: join_args (a :: a2 :: r') = a ++ BC COMMA :: J) by (subst; reflexivity).
    rewrite EJ, <- app_assoc. rewrite (split_go_bal true a H1) by (intros; discriminate).
    change ((BC COMMA :: J) ++ BC RPAR :: rest) with (BC COMMA :: J ++ BC RPAR :: rest).
    change (split_go 0 0 0 (cur ++ a) acc (n + length a) (BC COMMA :: J ++ BC RPAR :: rest))
      with (split_go 0 0 0 [] (acc ++ [cur ++ a]) (S (n + length a)) (J ++ BC RPAR :: rest)).
    subst J.
    destruct (IH [] (acc ++ [cur ++ a]) (S (n + length a)) rest ltac:(discriminate) H2) as [n' E].
    rewrite E. eexists. rewrite <- app_assoc. reflexivity.
Qed.

(* args_balanced: commas inside () [] {} and inside strings do not split arguments *)
Theorem args_balanced : forall np args rest, args <> [] -> Forall (bal true) args -> np <> O ->
  exists n, split_args np (join_args args ++ BC RPAR :: rest) = Some (args, n).
Proof.
  intros np args rest NE F NP. unfold split_args.
  destruct (split_go_args args [] [] 0%nat rest NE F) as [n' E]. rewrite E.
  destruct np; [congruence|]. exists n'. destruct args; [congruence|]. reflexivity.
Qed.

(* a string literal is one token for the argument scanner, whatever is inside *)
Lemma blex_go_str : forall body rest acc, ~ In QUOTE body ->
  blex_go (BStr acc) (body ++ QUOTE :: rest) = BS (acc ++ body ++ [QUOTE]) :: blex_go BNorm rest.
Proof.
  induction body as [|c t IH]; intros rest acc NI; simpl.
  - reflexivity.
  - destruct (c =? QUOTE) eqn:E. { apply Z.eqb_eq in E. exfalso. apply NI. left. auto. }
    rewrite IH by (intros X; apply NI; right; auto). rewrite <- app_assoc. reflexivity.
Qed.
Theorem blex_string : forall body rest, ~ In QUOTE body ->
  blex (QUOTE :: body ++ QUOTE :: rest) = BS (QUOTE :: body ++ [QUOTE]) :: blex rest.
Proof. intros. unfold blex. simpl. rewrite blex_go_str by auto. reflexivity. Qed.

(* ---- stringify and concatenate ---- *)
Section Hash.
  Variable tbl : table.
  Variable callf : list byte -> macro -> list (list byte) -> res (list byte).

  (* #X  ->  "argument" *)
  Theorem stringify : forall pm x v rest,
    plookup pm x = Some v ->
    xbody tbl callf pm O (BC HASH :: BW x :: rest) =
    bind (xbody tbl callf pm O rest) (fun y => Ok (QUOTE :: v ++ [QUOTE] ++ y)).
  Proof.
    intros pm x v rest P. simpl. unfold hash_value. simpl. unfold word_value. rewrite P. simpl.
    destruct (xbody tbl callf pm 0 rest); simpl; auto. rewrite <- app_assoc. reflexivity.
  Qed.

  (* X##Y  ->  the two arguments side by side, not scanned again *)
  Theorem concat : forall pm x y vx vy rest,
    plookup pm x = Some vx -> plookup pm y = Some vy ->
    xbody tbl callf pm O (BW x :: BC HASH :: BC HASH :: BW y :: rest) =
    bind (xbody tbl callf pm O rest) (fun z => Ok (vx ++ vy ++ z)).
  Proof.
    intros pm x y vx vy rest Px Py. simpl. unfold word_value at 1. rewrite Px. simpl.
    unfold hash_value. simpl. unfold word_value. rewrite Py. simpl.
    destruct (xbody tbl callf pm 0 rest); simpl; auto.
  Qed.

  (* pre_##X and X##_suf: ordinary text joins the argument *)
  Theorem concat_word : forall pm x vx w rest,
    plookup pm x = Some vx -> plookup pm w = None -> lookup tbl w = None ->
    xbody tbl callf pm O (BW w :: BC HASH :: BC HASH :: BW x :: rest) =
    bind (xbody tbl callf pm O rest) (fun z => Ok (w ++ vx ++ z)).
  Proof.
    intros pm x vx w rest Px Pw Lw. simpl. unfold word_value at 1. rewrite Pw, Lw. simpl.
    unfold hash_value. simpl. unfold word_value. rewrite Px. simpl.
    destruct (xbody tbl callf pm 0 rest); simpl; auto.
  Qed.
End Hash.
