(* C14: the emitted newlines and '#line' texts keep the tokenizer's (file, line) equal to the
   provenance of every source byte in the output (line_sync), for the repaired emission rule;
   the rule of the unchanged code is refuted by the three-line #define. *)
From Coq Require Import ZArith List Bool Lia.
Import ListNotations.
From SqfVerif Require Import PP.Spec PP.ReaderProofs.
Local Open Scope Z_scope.

(* ---- the specification-side tracker ---- *)
Fixpoint syncedf (p:tpos) (items:list oitem) : Prop :=
  match items with
  | [] => True
  | o :: r =>
      match o with
      | OChar _ (PSrc f l _) => tp_file p = f /\ tp_line p = l
      | _ => True
      end /\ syncedf (istep p o) r
  end.

Lemma itrack_app : forall a b p, itrack p (a ++ b) = itrack (itrack p a) b.
Proof. intros. unfold itrack. apply fold_left_app. Qed.

Lemma syncedf_app : forall a b p, syncedf p (a ++ b) <-> syncedf p a /\ syncedf (itrack p a) b.
Proof.
  induction a; intros; simpl.
  - tauto.
  - rewrite IHa. unfold itrack. simpl. tauto.
Qed.

Lemma syncedf_nth : forall items p i b f l c,
  syncedf p items -> nth_error items i = Some (OChar b (PSrc f l c)) ->
  tp_file (itrack p (firstn i items)) = f /\ tp_line (itrack p (firstn i items)) = l.
Proof.
  induction items; intros p i b f l c H N.
  - destruct i; discriminate.
  - destruct i; simpl in *.
    + inversion N; subst. destruct H as [H _]. exact H.
    + destruct H as [_ H]. unfold itrack. simpl. eapply IHitems; eauto.
Qed.

Lemma itrack_flush_line : forall n p,
  itrack p (repeat (OChar NL PSynth) n) = mktp (tp_file p) (tp_line p + Z.of_nat n) (if Nat.eqb n O then tp_col p else 0).
Proof.
  induction n; intros p.
  - simpl. destruct p; simpl. f_equal. lia.
  - change (repeat (OChar NL PSynth) (S n)) with (OChar NL PSynth :: repeat (OChar NL PSynth) n).
    unfold itrack. simpl fold_left. fold (itrack (mktp (tp_file p) (tp_line p + 1) 0) (repeat (OChar NL PSynth) n)).
    rewrite IHn. simpl. f_equal; try lia. destruct (Nat.eqb n 0); reflexivity.
Qed.

Lemma syncedf_flush : forall n p, syncedf p (repeat (OChar NL PSynth) n).
Proof. induction n; intros; simpl; auto. Qed.

Lemma itrack_mac : forall x p, count_nl x = O ->
  tp_file (itrack p (map (fun b => OChar b PMacro) x)) = tp_file p /\
  tp_line (itrack p (map (fun b => OChar b PMacro) x)) = tp_line p.
Proof.
  induction x; intros p H; [simpl; auto|].
  simpl in H. destruct (a =? NL) eqn:E; [discriminate|].
  cbn [map].
  change (itrack p (OChar a PMacro :: map (fun b => OChar b PMacro) x))
    with (itrack (istep p (OChar a PMacro)) (map (fun b => OChar b PMacro) x)).
  destruct (IHx (istep p (OChar a PMacro)) H) as [A B]. rewrite A, B.
  unfold istep. rewrite E. simpl. auto.
Qed.
Lemma syncedf_mac : forall x p, syncedf p (map (fun b => OChar b PMacro) x).
Proof. induction x; intros; simpl; auto. Qed.

(* ---- arithmetic of hidden newlines ---- *)
Lemma hid_sum_app : forall a b, hid_sum (a ++ b) = (hid_sum a + hid_sum b)%nat.
Proof. induction a; intros; simpl; auto. rewrite IHa. lia. Qed.
Lemma nl_count_app : forall a b, nl_count (a ++ b) = (nl_count a + nl_count b)%nat.
Proof. induction a; intros; simpl; auto. destruct (pc_b a =? NL); rewrite IHa; lia. Qed.

Lemma lines_ok_skip : forall w L rest, hid_sum w = O -> nl_count w = O ->
  lines_ok L (w ++ rest) -> lines_ok L rest.
Proof.
  induction w; intros L rest H1 H2 H; simpl in *; auto.
  destruct (pc_b a =? NL) eqn:E; [discriminate|].
  destruct H as [A B]. apply IHw; try lia.
  replace L with (pc_line a + 0) by lia. exact B.
Qed.

Lemma lines_ok_line_of : forall a L c rest, lines_ok L (a ++ c :: rest) ->
  pc_line c = L + Z.of_nat (hid_sum a + nl_count a + hid c) /\
  lines_ok (pc_line c + (if pc_b c =? NL then 1 else 0)) rest.
Proof.
  induction a; intros L c rest H; simpl in *.
  - destruct H. split; auto; try lia.
  - destruct H as [A B]. apply IHa in B. destruct B as [B1 B2]. split; auto.
    destruct (pc_b a =? NL); lia.
Qed.

Lemma wordc_no_nl : forall w, Forall wordc w -> nl_count w = O.
Proof.
  induction 1; simpl; auto. unfold wordc in H.
  destruct (pc_b x =? NL) eqn:E; auto. apply Z.eqb_eq in E. rewrite E in H. discriminate.
Qed.

Lemma ld_last_tail : forall t r, ld_last (t :: r) -> ld_last r.
Proof. intros t r H. destruct t; simpl in H; auto. destruct nl; auto. subst. simpl. auto. Qed.

Section Sync.
  Variable file : list byte.
  Variable eof_line : Z.
  Variable dfuel : nat.
  Variable incl : table -> list byte -> res (list oitem * table * bool).
  (* an included file that reports no hidden newline is in step from whatever position *)
  Hypothesis incl_synced : forall tbl path its tbl' h,
    incl tbl path = Ok (its, tbl', h) -> h = false -> forall p0, syncedf p0 its.

  Notation src := (src file).
  Notation topR := (top repaired file eof_line dfuel incl).

  (* verbatim source characters *)
  Lemma sync_src_run : forall w p rest,
    lines_ok (tp_line p) (w ++ rest) -> hid_sum w = O -> tp_file p = file ->
    syncedf p (map src w) /\ lines_ok (tp_line (itrack p (map src w))) rest /\
    tp_file (itrack p (map src w)) = file.
  Proof.
    induction w; intros p rest L H F; simpl in *.
    - auto.
    - destruct L as [A B].
      assert (Ha: hid a = O) by lia. assert (Hw: hid_sum w = O) by lia.
      rewrite Ha in A. simpl in A.
      set (p' := istep p (Spec.src file a)).
      assert (tp_line p' = pc_line a + (if pc_b a =? NL then 1 else 0) /\ tp_file p' = file) as [P1 P2].
      { unfold p', Spec.src. simpl. destruct (pc_b a =? NL); simpl; split; auto; lia. }
      destruct (IHw p' rest) as (I1 & I2 & I3); auto. { rewrite P1. exact B. }
      repeat split; auto. lia.
  Qed.

  (* the newlines of a string in an inactive branch *)
  Lemma sync_nl_only : forall w p rest,
    lines_ok (tp_line p) (w ++ rest) -> hid_sum w = O -> tp_file p = file ->
    syncedf p (nl_only file w) /\ lines_ok (tp_line (itrack p (nl_only file w))) rest /\
    tp_file (itrack p (nl_only file w)) = file.
  Proof.
    induction w; intros p rest L H F; simpl in *.
    - auto.
    - destruct L as [A B].
      assert (Ha: hid a = O) by lia. assert (Hw: hid_sum w = O) by lia.
      rewrite Ha in A. simpl in A.
      unfold nl_only. simpl. destruct (pc_b a =? NL) eqn:E; simpl.
      + set (p' := istep p (Spec.src file a)).
        assert (tp_line p' = pc_line a + 1 /\ tp_file p' = file) as [P1 P2].
        { unfold p', Spec.src. simpl. rewrite E. simpl. split; auto; lia. }
        destruct (IHw p' rest) as (I1 & I2 & I3); auto. { rewrite P1. exact B. }
        repeat split; auto. lia.
      + apply IHw; auto. replace (tp_line p) with (pc_line a + 0) by lia. exact B.
  Qed.

  Definition hid_le (a b:tstate) : Prop := ts_hidden a = true -> ts_hidden b = true.
  Lemma hid_le_refl : forall a, hid_le a a. Proof. unfold hid_le; auto. Qed.
  Lemma hid_le_trans : forall a b c, hid_le a b -> hid_le b c -> hid_le a c.
  Proof. unfold hid_le; auto. Qed.
  Lemma hid_le_add_pend : forall st n b, hid_le st (add_pend st n b).
  Proof. unfold hid_le, add_pend; simpl; intros st n b H; rewrite H; reflexivity. Qed.
  Lemma hid_le_set_hidden : forall st b, hid_le st (set_hidden st b).
  Proof. unfold hid_le, set_hidden; simpl; intros st b H; rewrite H; reflexivity. Qed.
  Lemma hid_le_clear_pend : forall st, hid_le st (clear_pend st). Proof. unfold hid_le; auto. Qed.
  Lemma hid_le_set_tbl : forall st t, hid_le st (set_tbl st t). Proof. unfold hid_le; auto. Qed.
  Lemma hid_le_set_conds : forall st c, hid_le st (set_conds st c). Proof. unfold hid_le; auto. Qed.
  Hint Resolve hid_le_refl hid_le_add_pend hid_le_set_hidden hid_le_clear_pend hid_le_set_tbl hid_le_set_conds : hidle.

  Lemma top_word_hid : forall st w rest o k st2,
    top_word file eof_line dfuel st w rest = Ok (o, k, st2) -> hid_le st st2.
  Proof.
    intros st w rest o k st2. unfold top_word.
    destruct (lookup (ts_tbl st) (bytes w)) as [m|]; [|intros H; inversion H; subst; auto with hidle].
    destruct (callable m).
    - destruct rest as [|t rest']; [intros H; inversion H; subst; auto with hidle|].
      destruct t; try (intros H; inversion H; subst; auto with hidle; fail).
      destruct (pc_b c =? LPAR); [|intros H; inversion H; subst; auto with hidle].
      destruct (split_args (nparams m) (map ltok_btok rest')) as [[raw cnt]|]; [|discriminate].
      unfold bind. destruct (mapM _ raw); [|discriminate].
      destruct (call _ _ _ _ _ _ _ _); [|discriminate].
      intros H; inversion H; subst.
      eapply hid_le_trans; [apply hid_le_add_pend | apply hid_le_set_hidden].
    - unfold bind. destruct (call _ _ _ _ _ _ _ _); [|discriminate].
      intros H; inversion H; subst. auto with hidle.
  Qed.

  Lemma top_directive_hid : forall d st h l nl o st2,
    top_directive d file eof_line incl st h l nl = Ok (o, st2) -> hid_le st st2.
  Proof.
    intros d st h l nl o st2. unfold top_directive.
    set (st1 := add_pend st _ false).
    assert (S1: hid_le st st1) by (apply hid_le_add_pend).
    assert (PL: forall st' (items o:list oitem), hid_le st st' ->
              @Ok (list oitem * tstate) (items, clear_pend st') = Ok (o, st2) -> hid_le st st2).
    { intros st' items o0 A H; inversion H; subst. unfold hid_le in *; simpl; auto. }
    assert (K: forall st', ts_hidden st' = ts_hidden st1 -> hid_le st st').
    { intros st' A. unfold hid_le in *. rewrite A. auto. }
    destruct (parse_directive (bytes l)).
    - intros H; eapply PL; [|exact H]. destruct (active st); apply K; reflexivity.
    - intros H; eapply PL; [|exact H]. destruct (active st); apply K; reflexivity.
    - intros H; eapply PL; [|exact H]. apply K; reflexivity.
    - intros H; eapply PL; [|exact H]. apply K; reflexivity.
    - destruct (ts_conds st1) eqn:E; [discriminate|].
      intros H; eapply PL; [|exact H]. apply K; reflexivity.
    - destruct (ts_conds st1) eqn:E; [discriminate|].
      intros H; eapply PL; [|exact H]. apply K; reflexivity.
    - destruct (active st).
      + unfold bind. destruct (incl (ts_tbl st1) path) as [[[its tbl'] hd]|]; [|discriminate].
        intros H; inversion H; subst. eapply hid_le_trans; [exact S1|].
        unfold hid_le; simpl. intros X; rewrite X; reflexivity.
      + intros H; eapply PL; [|exact H]. apply K; reflexivity.
    - intros H; eapply PL; [|exact H]. apply K; reflexivity.
    - discriminate.
  Qed.

  Lemma top_hid : forall d toks skip st items st',
    top d file eof_line dfuel incl st skip toks = Ok (items, st') -> hid_le st st'.
  Proof.
    induction toks as [|t rest IH]; intros skip st items st' H.
    - simpl in H. inversion H; subst. apply hid_le_refl.
    - destruct skip as [|k]; [|simpl in H; eapply IH; eauto].
      simpl in H. destruct t.
      + (* LW *)
        destruct (active (add_pend st (hid_sum w) true)).
        * unfold bind in H. destruct (top_word _ _ _ _ w rest) as [[[o k] st2]|] eqn:E; [|discriminate].
          destruct (top d file eof_line dfuel incl st2 k rest) as [[i2 s2]|] eqn:E2; [|discriminate].
          inversion H; subst. simpl.
          eapply hid_le_trans; [apply hid_le_add_pend|].
          eapply hid_le_trans; [eapply top_word_hid; eauto | eapply IH; eauto].
        * eapply hid_le_trans; [apply hid_le_add_pend | eapply IH; eauto].
      + (* LS *)
        unfold bind in H.
        destruct (top d file eof_line dfuel incl (add_pend st (hid_sum s) true) 0 rest) as [[i2 s2]|] eqn:E2; [|discriminate].
        inversion H; subst. simpl. eapply hid_le_trans; [apply hid_le_add_pend | eapply IH; eauto].
      + (* LC *)
        destruct (pc_b c =? NL).
        * unfold bind in H.
          destruct (top d file eof_line dfuel incl (clear_pend (add_pend st (hid c) true)) 0 rest) as [[i2 s2]|] eqn:E2; [|discriminate].
          inversion H; subst. simpl.
          eapply hid_le_trans; [apply hid_le_add_pend|]. eapply hid_le_trans; [apply hid_le_clear_pend | eapply IH; eauto].
        * destruct (active (add_pend st (hid c) true)).
          -- unfold bind in H.
             destruct (top d file eof_line dfuel incl (add_pend st (hid c) true) 0 rest) as [[i2 s2]|] eqn:E2; [|discriminate].
             inversion H; subst. simpl. eapply hid_le_trans; [apply hid_le_add_pend | eapply IH; eauto].
          -- eapply hid_le_trans; [apply hid_le_add_pend | eapply IH; eauto].
      + (* LD *)
        unfold bind in H.
        destruct (top_directive d file eof_line incl st h l nl) as [[o st2]|] eqn:E; [|discriminate].
        simpl in H.
        destruct (top d file eof_line dfuel incl st2 0 rest) as [[i2 s2]|] eqn:E2; [|discriminate].
        inversion H; subst. simpl.
        eapply hid_le_trans; [eapply top_directive_hid; eauto | eapply IH; eauto].
  Qed.

  Lemma hidden_add_pend_false : forall st n, ts_hidden (add_pend st n true) = false ->
    n = O /\ ts_hidden st = false.
  Proof.
    intros st n. unfold add_pend; simpl. intros H. apply orb_false_elim in H. destruct H as [A B].
    split; auto. simpl in B. destruct n; auto. discriminate.
  Qed.
  Lemma hidden_set_false : forall st b, ts_hidden (set_hidden st b) = false -> b = false /\ ts_hidden st = false.
  Proof. intros st b. unfold set_hidden; simpl. intros H. apply orb_false_elim in H. tauto. Qed.
  Lemma negb_eqb_false : forall n, negb (Nat.eqb n O) = false -> n = O.
  Proof. intros n H. destruct n; auto. discriminate. Qed.

  Lemma ltoks_chars_firstn_skipn : forall n l, ltoks_chars l = ltoks_chars (firstn n l) ++ ltoks_chars (skipn n l).
  Proof. intros. rewrite <- ltoks_chars_app, firstn_skipn. reflexivity. Qed.

  Lemma top_word_sync : forall st w rest o k st2 p,
    top_word file eof_line dfuel st w rest = Ok (o, k, st2) ->
    ts_hidden st2 = false ->
    Forall wordc w -> hid_sum w = O -> tp_file p = file ->
    lines_ok (tp_line p) (w ++ ltoks_chars rest) ->
    syncedf p o /\ tp_file (itrack p o) = file /\ ts_pend st2 = ts_pend st /\
    lines_ok (tp_line (itrack p o)) (ltoks_chars (skipn k rest)).
  Proof.
    intros st w rest o k st2 p H Hh Ww Hw Fp L.
    assert (VERB: o = map src w -> k = O -> st2 = st ->
            syncedf p o /\ tp_file (itrack p o) = file /\ ts_pend st2 = ts_pend st /\
            lines_ok (tp_line (itrack p o)) (ltoks_chars (skipn k rest))).
    { intros -> -> ->. destruct (sync_src_run w p (ltoks_chars rest) L Hw Fp) as (A & B & C).
      simpl. auto. }
    assert (Lrest: lines_ok (tp_line p) (ltoks_chars rest)).
    { eapply lines_ok_skip; eauto. apply wordc_no_nl; auto. }
    unfold top_word in H.
    destruct (lookup (ts_tbl st) (bytes w)) as [m|]; [|inversion H; subst; apply VERB; auto].
    destruct (callable m).
    - destruct rest as [|t rest']; [inversion H; subst; apply VERB; auto|].
      destruct t; try (inversion H; subst; apply VERB; auto; fail).
      destruct (pc_b c =? LPAR); [|inversion H; subst; apply VERB; auto].
      destruct (split_args (nparams m) (map ltok_btok rest')) as [[raw cnt]|]; [|discriminate].
      unfold bind in H. destruct (mapM _ raw); [|discriminate].
      destruct (call _ _ _ _ _ _ _ _) as [x|]; [|discriminate].
      inversion H; subst; clear H.
      apply hidden_set_false in Hh. destruct Hh as [Hb Hh].
      apply orb_false_elim in Hb. destruct Hb as [Hb1 Hb2].
      apply negb_eqb_false in Hb1. apply negb_eqb_false in Hb2.
      apply hidden_add_pend_false in Hh. destruct Hh as [Hu Hh].
      unfold mac. destruct (itrack_mac x p Hb2) as [A B].
      split; [apply syncedf_mac|]. split; [rewrite A; auto|]. split.
      + simpl. rewrite Hu. lia.
      + rewrite B. rewrite (ltoks_chars_firstn_skipn (S cnt)) in Lrest.
        exact (lines_ok_skip (ltoks_chars (firstn (S cnt) (LC c :: rest'))) _ _ Hu Hb1 Lrest).
    - unfold bind in H. destruct (call _ _ _ _ _ _ _ _) as [x|]; [|discriminate].
      inversion H; subst; clear H.
      apply hidden_set_false in Hh. destruct Hh as [Hb Hh]. apply negb_eqb_false in Hb.
      unfold mac. destruct (itrack_mac x p Hb) as [A B].
      split; [apply syncedf_mac|]. split; [rewrite A; auto|]. split; [reflexivity|].
      rewrite B. simpl. exact Lrest.
  Qed.

  Lemma itrack_last_line : forall a n f p, itrack p (a ++ [OLine n f]) = mktp f (n + 1) 0.
  Proof. intros. rewrite itrack_app. reflexivity. Qed.

  Lemma top_directive_sync : forall st h l nl o st2 p rest,
    top_directive repaired file eof_line incl st h l nl = Ok (o, st2) ->
    ts_hidden st2 = false -> ts_pend st = O -> tp_file p = file ->
    wf_ltok (LD h l nl) ->
    lines_ok (tp_line p) (ltok_chars (LD h l nl) ++ rest) ->
    syncedf p o /\ tp_file (itrack p o) = file /\ ts_pend st2 = O /\
    (nl <> None -> lines_ok (tp_line (itrack p o)) rest).
  Proof.
    intros st h l nl o st2 p rest H Hh P0 Fp [Wh Wn] L.
    unfold top_directive in H.
    set (tail := match nl with Some c => hid c | None => _ end) in H.
    set (n := (hid h + (hid_sum l + nl_count l) + tail)%nat) in H.
    set (st1 := add_pend st n false) in H.
    assert (Pn: ts_pend st1 = n) by (unfold st1, add_pend; simpl; lia).
    rewrite Pn in H.
    assert (FL: flush repaired n = repeat (OChar NL PSynth) n) by reflexivity.
    rewrite FL in H.
    set (nlitem := match nl with Some c => src c | None => OChar NL PSynth end) in H.
    (* position of the terminating newline *)
    assert (NLpos: forall c, nl = Some c ->
              pc_line c = tp_line p + Z.of_nat n /\ lines_ok (pc_line c + 1) rest).
    { intros c ->. simpl in Wn. cbn [ltok_chars] in L.
      replace ((h :: l ++ [c]) ++ rest) with ((h :: l) ++ c :: rest) in L
        by (simpl; rewrite <- app_assoc; reflexivity).
      apply lines_ok_line_of in L. destruct L as [A B]. rewrite Wn in B. split; auto.
      rewrite A. simpl. apply Z.eqb_eq in Wh.
      assert ((pc_b h =? NL) = false) as -> by (rewrite Wh; reflexivity).
      unfold n, tail. lia. }
    (* the plain answer: pending newlines, then the newline of the line *)
    assert (PLAIN: forall st', o = repeat (OChar NL PSynth) n ++ [nlitem] -> st2 = clear_pend st' ->
              syncedf p o /\ tp_file (itrack p o) = file /\ ts_pend st2 = O /\
              (nl <> None -> lines_ok (tp_line (itrack p o)) rest)).
    { intros st' -> ->.
      pose proof (itrack_flush_line n p) as IF.
      split.
      { apply syncedf_app. split; [apply syncedf_flush|]. rewrite IF. unfold nlitem.
        destruct nl as [c|]; simpl; auto. destruct (NLpos c eq_refl) as [A _].
        repeat split; auto. }
      rewrite itrack_app, IF. split; [|split; [reflexivity|]].
      - unfold nlitem. destruct nl as [c|]; simpl.
        + destruct (pc_b c =? NL); simpl; exact Fp.
        + exact Fp.
      - intros NN. unfold nlitem. destruct nl as [c|]; [|congruence].
        destruct (NLpos c eq_refl) as [A B]. simpl in Wn. simpl. rewrite Wn. simpl.
        rewrite <- A. exact B. }
    destruct (parse_directive (bytes l)).
    - inversion H; subst. eapply PLAIN; eauto.
    - inversion H; subst. eapply PLAIN; eauto.
    - inversion H; subst. eapply PLAIN; eauto.
    - inversion H; subst. eapply PLAIN; eauto.
    - destruct (ts_conds st1); [discriminate|]. inversion H; subst. eapply PLAIN; eauto.
    - destruct (ts_conds st1); [discriminate|]. inversion H; subst. eapply PLAIN; eauto.
    - destruct (active st); [|inversion H; subst; eapply PLAIN; eauto].
      unfold bind in H. destruct (incl (ts_tbl st1) path) as [[[its tbl'] hd]|] eqn:EI; [|discriminate].
      injection H as Ho Hs. subst o st2.
      apply hidden_set_false in Hh. destruct Hh as [Hd _]. subst hd.
      pose proof (incl_synced _ _ _ _ _ EI eq_refl) as SI.
      pose proof (itrack_flush_line n p) as IF.
      split.
      { apply syncedf_app. split; [apply syncedf_flush|].
        simpl. split; auto. apply syncedf_app. split; [apply SI|]. simpl. auto. }
      set (f' := match its with OLine _ f :: _ => f | _ => [] end).
      set (ret := match nl with Some c => pc_line c | None => eof_line - 1 end).
      assert (EQ: repeat (OChar NL PSynth) n ++ OLine 1 f' :: its ++ [OChar NL PSynth; OLine ret file]
                  = (repeat (OChar NL PSynth) n ++ OLine 1 f' :: its ++ [OChar NL PSynth]) ++ [OLine ret file]).
      { rewrite <- app_assoc. simpl. rewrite <- app_assoc. reflexivity. }
      rewrite EQ, itrack_last_line. simpl.
      split; [reflexivity|]. split; [reflexivity|].
      intros NN. destruct nl as [c|]; [|congruence].
      destruct (NLpos c eq_refl) as [A B]. unfold ret. exact B.
    - inversion H; subst. eapply PLAIN; eauto.
    - discriminate.
  Qed.

  (* line_sync for one file: every source byte that reaches the output is on the line the tokenizer counts *)
  Lemma top_synced : forall toks skip st p items st',
    topR st skip toks = Ok (items, st') ->
    ts_hidden st' = false ->
    ts_pend st = O -> tp_file p = file ->
    Forall wf_ltok toks -> ld_last toks ->
    lines_ok (tp_line p) (ltoks_chars (skipn skip toks)) ->
    syncedf p items.
  Proof.
    induction toks as [|t rest IH]; intros skip st p items st' H Hh P0 Fp W LD L.
    { simpl in H. inversion H; subst. simpl. auto. }
    assert (Wr: Forall wf_ltok rest) by (inversion W; auto).
    assert (Wt: wf_ltok t) by (inversion W; auto).
    assert (LDr: ld_last rest) by (eapply ld_last_tail; eauto).
    destruct skip as [|k]; [|simpl in H; eapply IH; eauto].
    simpl in H. simpl skipn in L.
    change (ltoks_chars (t :: rest)) with (ltok_chars t ++ ltoks_chars rest) in L.
    destruct t.
    - (* word *)
      cbn [ltok_chars] in L. set (st1 := add_pend st (hid_sum w) true) in H.
      assert (Hst1: ts_hidden st1 = false /\ hid_sum w = O).
      { destruct (ts_hidden st1) eqn:E.
        - exfalso. assert (X: hid_le st1 st').
          { destruct (active st1).
            - unfold bind in H. destruct (top_word _ _ _ _ w rest) as [[[o k] st2]|] eqn:E1; [|discriminate].
              destruct (topR st2 k rest) as [[i2 s2]|] eqn:E2; [|discriminate].
              injection H as Hi Hs; subst items st'. simpl. eapply hid_le_trans; [eapply top_word_hid; eauto | eapply top_hid; eauto].
            - eapply top_hid; eauto. }
          rewrite (X E) in Hh. discriminate.
        - split; auto. apply hidden_add_pend_false in E. tauto. }
      destruct Hst1 as [H1 Hw].
      assert (P1: ts_pend st1 = O) by (unfold st1, add_pend; simpl; lia).
      destruct (active st1).
      + unfold bind in H. destruct (top_word _ _ _ _ w rest) as [[[o k] st2]|] eqn:E1; [|discriminate].
        destruct (topR st2 k rest) as [[i2 s2]|] eqn:E2; [|discriminate].
        injection H as Hi Hs; subst items st'. simpl in Hh.
        assert (H2: ts_hidden st2 = false).
        { destruct (ts_hidden st2) eqn:E; auto. pose proof (top_hid _ _ _ _ _ _ E2 E) as X. simpl in X. congruence. }
        destruct (top_word_sync _ _ _ _ _ _ p E1 H2 Wt Hw Fp L) as (A & B & C & D).
        apply syncedf_app. split; auto.
        eapply IH; eauto. lia.
      + eapply IH; eauto. simpl.
        eapply lines_ok_skip; eauto. apply wordc_no_nl; auto.
    - (* string *)
      cbn [ltok_chars] in L. set (st1 := add_pend st (hid_sum s) true) in H.
      unfold bind in H. destruct (topR st1 0 rest) as [[i2 s2]|] eqn:E2; [|discriminate].
      injection H as Hi Hs; subst items st'. simpl in Hh.
      assert (H1: ts_hidden st1 = false).
      { destruct (ts_hidden st1) eqn:E; auto. pose proof (top_hid _ _ _ _ _ _ E2 E) as X. simpl in X. congruence. }
      apply hidden_add_pend_false in H1. destruct H1 as [Hs _].
      assert (P1: ts_pend st1 = O) by (unfold st1, add_pend; simpl; lia).
      apply syncedf_app.
      destruct (active st1).
      + destruct (sync_src_run s p (ltoks_chars rest) L Hs Fp) as (A & B & C).
        split; auto. eapply IH; eauto.
      + change (d_missing_newlines repaired) with false. cbv iota.
        destruct (sync_nl_only s p (ltoks_chars rest) L Hs Fp) as (A & B & C).
        split; auto. eapply IH; eauto.
    - (* single character *)
      cbn [ltok_chars] in L. set (st1 := add_pend st (hid c) true) in H.
      assert (P1: ts_hidden st1 = false -> ts_pend st1 = O /\ hid_sum [c] = O).
      { intros E. apply hidden_add_pend_false in E. destruct E as [E _].
        unfold st1, add_pend; simpl. lia. }
      destruct (pc_b c =? NL) eqn:ENL.
      + unfold bind in H. destruct (topR (clear_pend st1) 0 rest) as [[i2 s2]|] eqn:E2; [|discriminate].
        injection H as Hi Hs; subst items st'. simpl in Hh.
        assert (H1: ts_hidden st1 = false).
        { destruct (ts_hidden st1) eqn:E; auto.
          assert (X: ts_hidden (clear_pend st1) = true) by (simpl; auto).
          pose proof (top_hid _ _ _ _ _ _ E2 X) as Y. simpl in Y. congruence. }
        destruct (P1 H1) as [Pz Hc].
        change (ts_pend st + hid c)%nat with (ts_pend st1). rewrite Pz.
        change (flush repaired 0) with (@nil oitem). simpl app.
        destruct (sync_src_run [c] p (ltoks_chars rest) L Hc Fp) as (A & B & C).
        change (src c :: i2) with (map src [c] ++ i2). apply syncedf_app. split; auto.
        eapply IH; eauto.
      + destruct (active st1).
        * unfold bind in H. destruct (topR st1 0 rest) as [[i2 s2]|] eqn:E2; [|discriminate].
          injection H as Hi Hs; subst items st'. simpl in Hh.
          assert (H1: ts_hidden st1 = false).
          { destruct (ts_hidden st1) eqn:E; auto. pose proof (top_hid _ _ _ _ _ _ E2 E) as Y. simpl in Y. congruence. }
          destruct (P1 H1) as [Pz Hc].
          destruct (sync_src_run [c] p (ltoks_chars rest) L Hc Fp) as (A & B & C).
          change (src c :: i2) with (map src [c] ++ i2). apply syncedf_app. split; auto.
          eapply IH; eauto.
        * assert (H1: ts_hidden st1 = false).
          { destruct (ts_hidden st1) eqn:E; auto. pose proof (top_hid _ _ _ _ _ _ H E) as Y. congruence. }
          destruct (P1 H1) as [Pz Hc].
          eapply IH; eauto. simpl.
          eapply (lines_ok_skip [c]); eauto. simpl. rewrite ENL. reflexivity.
    - (* directive *)
      unfold bind in H.
      destruct (top_directive repaired file eof_line incl st h l nl) as [[o st2]|] eqn:E1; [|discriminate].
      simpl in H. destruct (topR st2 0 rest) as [[i2 s2]|] eqn:E2; [|discriminate].
      injection H as Hi Hs; subst items st'. simpl in Hh.
      assert (H2: ts_hidden st2 = false).
      { destruct (ts_hidden st2) eqn:E; auto. pose proof (top_hid _ _ _ _ _ _ E2 E) as Y. simpl in Y. congruence. }
      destruct (top_directive_sync _ _ _ _ _ _ p (ltoks_chars rest) E1 H2 P0 Fp Wt L) as (A & B & C & D).
      apply syncedf_app. split; auto.
      destruct nl as [c|].
      + eapply IH; eauto. simpl. apply D. congruence.
      + simpl in LD. subst rest. simpl in E2. injection E2 as Hi Hs; subst i2 s2. simpl. auto.
  Qed.
End Sync.

(* ---- whole files, includes entering and returning ---- *)
Theorem pp_file_synced : forall fuel fs stack tbl file content items tbl',
  pp_file fuel repaired fs stack tbl file content = Ok (items, tbl', false) ->
  forall p0, syncedf p0 items.
Proof.
  induction fuel as [|f IH]; intros fs stack tbl file content items tbl' H p0.
  { discriminate. }
  cbn [pp_file] in H.
  set (incl := fun (tbl'0:table) (path:list byte) =>
         match fs path with
         | Some (phys, cont) =>
             if mem phys (file :: stack) then Err ERecursiveInclude
             else pp_file f repaired fs (file :: stack) tbl'0 phys cont
         | None => Err EIncludeFailed
         end) in H.
  assert (IS: forall tb path its tb' h, incl tb path = Ok (its, tb', h) -> h = false ->
              forall q, syncedf q its).
  { intros tb path its tb' h HI -> q. unfold incl in HI.
    destruct (fs path) as [[phys cont]|]; [|discriminate].
    destruct (mem phys (file :: stack)); [discriminate|].
    eapply IH; eauto. }
  destruct (top repaired file _ _ incl _ 0 _) as [[items0 st]|] eqn:E; [|discriminate].
  destruct (ts_conds st); [|discriminate].
  injection H as Hi Ht Hh. subst items.
  simpl. split; auto.
  destruct (lex_wf (read content) (MNorm true) I) as [W LD].
  eapply (top_synced file _ _ incl IS _ 0 _ (mktp file 1 0)); eauto.
  simpl. rewrite lex_chars. simpl. apply read_lines_ok.
Qed.

(* Specification-side statement of line_sync: the position a tokenizer that recognises exactly the
   emitted '#line' texts has in front of output item i. *)
Theorem line_sync_ideal : forall fs file content items tbl i b f l c p0,
  preprocess repaired fs file content = Ok (items, tbl, false) ->
  nth_error items i = Some (OChar b (PSrc f l c)) ->
  tp_file (itrack p0 (firstn i items)) = f /\ tp_line (itrack p0 (firstn i items)) = l.
Proof.
  intros. eapply syncedf_nth; eauto. eapply pp_file_synced; eauto.
Qed.

(* The rule of the unchanged code (one newline per directive, whatever it spans):
   #define A 1 \ NL 2 \ NL 3 NL x  - the x of line 4 is reported on line 2. *)
Definition wit_define3 : list byte :=
  [35;100;101;102;105;110;101;32;65;32;49;32;92;10; 32;50;32;92;10; 32;51;10; 120].
Definition wit_file : list byte := [109].
Theorem line_sync_refuted_as_is : exists items tbl i b f l c,
  preprocess as_is (fun _ => None) wit_file wit_define3 = Ok (items, tbl, false) /\
  nth_error items i = Some (OChar b (PSrc f l c)) /\
  l = 4 /\ tp_line (itrack (mktp wit_file 0 0) (firstn i items)) = 2.
Proof.
  eexists. eexists. exists 2%nat. eexists. eexists. eexists. eexists.
  split; [vm_compute; reflexivity|]. split; [vm_compute; reflexivity|]. split; vm_compute; reflexivity.
Qed.
(* and the repaired rule on the same text *)
Example line_sync_witness_repaired : exists items tbl,
  preprocess repaired (fun _ => None) wit_file wit_define3 = Ok (items, tbl, false) /\
  nth_error items 4 = Some (OChar 120 (PSrc wit_file 4 0)) /\
  tp_line (itrack (mktp wit_file 0 0) (firstn 4 items)) = 4.
Proof. eexists. eexists. split; [vm_compute; reflexivity|]. split; vm_compute; reflexivity. Qed.
