From Coq Require Import ZArith List ExtrOcamlBasic.
From SqfVerif Require Import Config.ConfigDefs.
Extraction Language OCaml.
Extraction "../ocaml/gen/config_model.ml" original repaired as_is init_host load op_path op_name op_configName op_count
  op_select op_inheritsFrom op_hierarchy op_isNumber op_isText op_isArray op_isClass op_getNumber op_getText op_getArray
  op_configClasses eval_v.
