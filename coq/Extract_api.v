From Coq Require Import ZArith List String ExtrOcamlBasic.
From SqfVerif Require Import VM.VmDefs VM.VmExec API.CtlDefs API.ApiDefs API.IsoDefs.
Extraction Language OCaml.
Extraction "../ocaml/gen/api_model.ml"
  create_rt load compile_block print_block show_code
  ctl_as_is ctl_repaired execute_ctl observe_ctl show_outcome run_seq base_state set_run set_state
  api_as_is api_repaired run_ops show_op
  iso_as_is iso_counter_fixed iso_spec g0 run after join.
