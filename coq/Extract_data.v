From Coq Require Import ZArith List ExtrOcamlBasic.
From SqfVerif Require Import Data.DataDefs.
Extraction Language OCaml.
Extraction "../ocaml/gen/data_model.ml" step run observe freeze thaw veq deq print_tree order_sensitive render_op render_tree
  init_state as_is repaired fuel_of teq t_iseq t_eqeq eqeq_defined tdeq nil_nan_free wf_tree print_code vhash is_error.
