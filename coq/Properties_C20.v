(* C20 - runs are deterministic and VM instances are isolated from each other.
   About API/IsoDefs: programs that read / write the process state G (the writable statics of the implementation as found
   by translators/statics.py, Gen/Statics.v) from a fresh VM instance.  iso_as_is = /repo before proposed_fixes/C20-01,
   iso_counter_fixed = with it (the print mode set by toFixed stays process-wide: finding tofixed-process-wide),
   iso_spec = every component in the instance. *)
From Coq Require Import String ZArith List Bool.
From SqfVerif Require Import Gen.Statics VM.VmDefs API.IsoDefs API.IsoProofs.
Import ListNotations.
Local Open Scope list_scope.

(* a run in a fresh VM is a function of the program and the process state: nothing else (no other instance) enters *)
Theorem C20_deterministic : forall d g p o1 g1 o2 g2, run d g p = (o1, g1) -> run d g p = (o2, g2) -> o1 = o2 /\ g1 = g2.
Proof. exact deterministic. Qed.
Print Assumptions C20_deterministic.

(* what a program prints depends only on the components of G it reads *)
Theorem C20_outputs_depend_on_reads_only : forall d p g g', agree (reads d p) g g' -> out_of d g p = out_of d g' p.
Proof. exact outputs_depend_on_reads_only. Qed.
Print Assumptions C20_outputs_depend_on_reads_only.

(* output(P in a fresh VM) is the same whether or not Q ran before it in the process, provided Q writes no shared
   component that P reads - for every placement of the components *)
Theorem C20_noninterference_modulo : forall d p q g, disjoint (reads d p) (writes d q) = true ->
  out_of d (after d g q) p = out_of d g p.
Proof. exact noninterference_modulo. Qed.
Print Assumptions C20_noninterference_modulo.

(* with every component in the instance: full non-interference *)
Theorem C20_noninterference_spec : forall p q g, out_of iso_spec (after iso_spec g q) p = out_of iso_spec g p.
Proof. exact noninterference_spec. Qed.
Print Assumptions C20_noninterference_spec.

(* with the counter in the runtime (C20-01): P is unaffected unless it prints a number AND Q used toFixed *)
Theorem C20_counter_fixed_only_mode_left : forall p q g, (prints p = false \/ sets_mode q = false) ->
  out_of iso_counter_fixed (after iso_counter_fixed g q) p = out_of iso_counter_fixed g p.
Proof. exact counter_fixed_only_mode_left. Qed.
Print Assumptions C20_counter_fixed_only_mode_left.

(* the code as it is: toFixed in one VM changes what the next VM prints; __COUNTER__ continues across instances *)
Theorem C20_noninterference_refuted :
  (exists p q, out_of iso_as_is (after iso_as_is g0 q) p <> out_of iso_as_is g0 p /\ p = [GPrint 3] /\ q = [GToFixed 2]) /\
  (exists p q, out_of iso_as_is (after iso_as_is g0 q) p <> out_of iso_as_is g0 p /\ p = [GCounter] /\ q = [GCounter]).
Proof. exact noninterference_refuted. Qed.
Print Assumptions C20_noninterference_refuted.

Theorem C20_tofixed_still_leaks_refuted :
  exists p q, out_of iso_counter_fixed (after iso_counter_fixed g0 q) p <> out_of iso_counter_fixed g0 p /\ p = [GPrint 3] /\ q = [GToFixed 2].
Proof. exact tofixed_still_leaks_refuted. Qed.
Print Assumptions C20_tofixed_still_leaks_refuted.

(* every object with static storage in a writable section of the implementation (nm, this run) is one of the classified ones,
   and the only `Mode` entry is the scalar print mode: a new mutable static anywhere in the runtime breaks this obligation *)
Theorem C20_statics_are_exactly_known : statics = map fst modelled_G /\ modes = ["sqf::types::d_scalar::s_decimals"]%string.
Proof. split; [apply sl_eqb_eq; vm_compute; reflexivity|reflexivity]. Qed.
Print Assumptions C20_statics_are_exactly_known.

(* ---------------------------------------------------------------- non-vacuity *)
Example ex_run : out_of iso_as_is (after iso_as_is g0 [GToFixed 2; GCounter]) [GPrint 3; GCounter; GIsNil "gx"] = ["3.00"; "1.00"; "true"]%string.
Proof. vm_compute. reflexivity. Qed.
Example ex_disjoint : disjoint (reads iso_as_is [GIsNil "gx"; GPure ["a"%string]]) (writes iso_as_is [GToFixed 2; GCounter]) = true.
Proof. reflexivity. Qed.
