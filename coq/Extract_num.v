From Coq Require Import ZArith List ExtrOcamlBasic SpecFloat.
From SqfVerif Require Import Num.NumDefs.
Extraction Language OCaml.
Extraction "../ocaml/gen/num_model.ml" fmt_g6 decode32 encode32 str_value read_all read_value lit_num lit_hex lit_of_dec
  dec_of next_tok as_is repaired to_sqf from_sqf nearest32_dec round6 veq len.
