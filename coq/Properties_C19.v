(* C19 - execution control (start / stop / abort / assembly step / line step / leave scope) follows its state machine,
   one action after another and with a controller thread beside the executing thread.
   Sequential theorems are about API/CtlDefs.execute_ctl (VmExec.execute plus line_step / leave_scope with a position table)
   for the code WITH the repairs proposed in /verif/proposed_fixes/C19-01..04; the ..._refuted theorems show what the
   code does without them.  Concurrent theorems are about the interleaving model API/Interleave.v (plain fields as
   sequentially consistent registers; C++ data races are outside the model: the property is shown only in part). *)
From Coq Require Import String ZArith List Bool.
From SqfVerif Require Import Gen.ResultMap VM.VmDefs VM.VmExec API.CtlDefs API.CtlProofs API.Interleave.
Import ListNotations.
Local Open Scope list_scope.

(* ---------------------------------------------------------------- the result -> state table is the one in the source *)
Theorem C19_state_of_result_uniform :
  (forall blk, In blk state_switches -> snd blk = model_switch) /\
  (forall a, In a ["start"; "assembly_step"; "line_step"; "leave_scope"]%string -> exists t, In (a, t) state_switches) /\
  (forall x r, r_state (state_of_result x r) = CtlProofs.table x) /\
  enums_ok = true.
Proof.
  destruct (switches_ok_spec eq_refl) as [A B]. split; [exact A|]. split; [exact B|]. split; [exact state_of_result_table|reflexivity].
Qed.
Print Assumptions C19_state_of_result_uniform.

(* ---------------------------------------------------------------- result and next state of every action from every state *)
Theorem C19_sequential_table : forall dg a r x r', execute_ctl ctl_repaired dg a r = Ok (x, r') ->
  match a with
  | AStop =>
      match r_state r, r_run r with
      | StRunning, true => x = ROk /\ r' = set_exit_req r true
      | _, _ => x = RActionError /\ r' = r end
  | AAbort =>
      match r_state r, r_run r with
      | StRunning, true => x = ROk /\ r' = set_exit_req r true
      | StHalted, false | StHaltedError, false =>
          x = ROk /\ r_state r' = StEmpty /\ r_ctxs r' = [] /\ r_active r' = None /\ r_run r' = false
      | _, _ => x = RActionError /\ r' = r end
  | _ =>
      if r_run r then x = RActionError /\ r' = r
      else (x = ROk \/ x = REmpty \/ x = RRuntimeError) /\ r_run r' = false /\
           r_state r' = (if r_exit_req r' then StEmpty else CtlProofs.table x) /\
           (r_exit_req r' = true -> r_ctxs r' = [] /\ r_active r' = None)
  end.
Proof. exact sequential_table. Qed.
Print Assumptions C19_sequential_table.

Theorem C19_abort_on_halted_clears : forall dg r x r', r_run r = false -> (r_state r = StHalted \/ r_state r = StHaltedError) ->
  execute_ctl ctl_repaired dg AAbort r = Ok (x, r') ->
  x = ROk /\ r_ctxs r' = [] /\ r_active r' = None /\ r_state r' = StEmpty /\ r_run r' = false.
Proof. exact abort_on_halted_clears. Qed.
Print Assumptions C19_abort_on_halted_clears.

(* after any history of actions that returned, the run flag is free and the state is not `running`: every executing action is
   accepted again (never action_error), and abort discards a halted script *)
Theorem C19_always_accepting : forall dg r l r', idle r -> history dg r l r' ->
  idle r' /\
  (forall a x r'', executing a = true -> execute_ctl ctl_repaired dg a r' = Ok (x, r'') -> x <> RActionError) /\
  (r_state r' = StHalted \/ r_state r' = StHaltedError ->
   execute_ctl ctl_repaired dg AAbort r' = Ok (ROk, set_run (set_state (set_active (set_ctxs r' []) None) StEmpty) false)).
Proof. exact always_accepting. Qed.
Print Assumptions C19_always_accepting.

(* an assembly step: passes of the execute_do loop that only complete frames, then exactly one executed instruction -
   unless an exit request, a finished / suspended / failing script ends it first *)
Theorem C19_assembly_step_one : forall dg r x r', r_run r = false ->
  execute_ctl ctl_repaired dg AAssemblyStep r = Ok (x, r') ->
  exists r1, one_step (resolve_active (set_state (enter r) StRunning)) x r1 /\ r' = finish_action x r1.
Proof. exact assembly_step_one. Qed.
Print Assumptions C19_assembly_step_one.

(* a line step that began in front of an instruction of line (fst p0): its instruction steps all stay on that line (or at the end
   of a scope, where it continues in the caller); if it returns ok without having been stopped, the next instruction of the
   innermost scope is on another line *)
Theorem C19_line_step_stops_at_line_change : forall dg r x r' p0, r_run r = false -> r_ctxs r <> [] ->
  execute_ctl ctl_repaired dg ALineStep r = Ok (x, r') ->
  (exists f, look ctl_repaired (set_state (enter r) StRunning) = Ok (resolve_active (set_state (enter r) StRunning), Some f) /\
             peek_pos ctl_repaired dg f = Ok (Some p0)) ->
  exists r1, line_steps dg (fst p0) (resolve_active (set_state (enter r) StRunning)) x r1 /\ r' = finish_action x r1 /\
    (x = ROk -> loop_on r1 = true -> exists l, next_line dg r1 = Some l /\ l <> fst p0).
Proof. exact line_step_stops_at_line_change. Qed.
Print Assumptions C19_line_step_stops_at_line_change.

(* ---------------------------------------------------------------- two threads *)
(* at most one agent is between a successful compare_exchange on the run flag and the store of false, in every reachable
   state of the interleaving of two agents issuing arbitrary actions (b = false) *)
Theorem C19_mutual_exclusion : forall b s, reachable b s ->
  (in_cs (pc0 s) = true -> in_cs (pc1 s) = true -> False) /\ run s = orb (in_cs (pc0 s)) (in_cs (pc1 s)).
Proof. exact mutual_exclusion. Qed.
Print Assumptions C19_mutual_exclusion.

(* no deadlock: an agent inside execute() always has its next atomic step enabled; when both are outside, the run flag is
   free and the state is not `running`, so actions are accepted again *)
Theorem C19_never_stuck : forall b s, reachable b s ->
  (pc0 s <> Idle -> moves (pc0 s) s <> []) /\ (pc1 s <> Idle -> moves (pc1 s) s <> []) /\
  (pc0 s = Idle -> pc1 s = Idle -> run s = false /\ state s <> SRunning).
Proof. exact never_stuck. Qed.
Print Assumptions C19_never_stuck.

(* the executing thread issues one action, the controller anything: once a stop/abort was accepted the executor executes at
   most ONE more instruction (g never reaches GBad), and if the request was stored before the executor's last test of it,
   all scripts are gone and the state is empty when the executor hands the run flag back *)
Theorem C19_stop_abort_bounded : forall s, reachable true s ->
  g s <> GBad /\
  (forall k x, pc0 s = XRelease k x -> (g s = GReq0 \/ g s = GReq1) -> state s = SEmpty /\ cx s = false).
Proof. exact stop_abort_bounded. Qed.
Print Assumptions C19_stop_abort_bounded.

(* the full statement `every accepted stop/abort takes effect` is refuted by the faithful model: the test of state/run flag
   and the store of the request are two steps *)
Theorem C19_stop_lost_across_actions_refuted : exists s, reachable false s /\ g s = GBad /\ ex s = false /\ pc1 s = Idle.
Proof. exact stop_lost_across_actions_refuted. Qed.
Print Assumptions C19_stop_lost_across_actions_refuted.

Theorem C19_accepted_abort_can_miss_refuted :
  exists s, reachable true s /\ g s = GLate /\ pc0 s = Idle /\ pc1 s = Idle /\ state s = SHalted /\ cx s = true /\ ex s = true.
Proof. exact accepted_abort_can_miss_refuted. Qed.
Print Assumptions C19_accepted_abort_can_miss_refuted.

(* ---------------------------------------------------------------- the code without the repairs (witnesses) *)
Definition flat_dg : code -> nat -> nat * nat := fun _ i => (0, i).    (* everything on line 0, one column per instruction *)
Definition two_lines : code -> nat -> nat * nat := fun _ i => (if Nat.ltb i 3 then 0 else 1, i).
Definition prog : code := [IPush (VNum 1); IAssign "a"; IEnd; IPush (VNum 2); IAssign "b"]%string.
Definition empty_vm : rt := create_rt [] 0 0 10000 150.
Definition loaded_vm : rt := load empty_vm prog.

(* C19-01: start / line_step on a runtime without scripts: invalid, halted_error *)
Theorem C19_no_script_is_an_error_refuted :
  (exists r', execute_ctl ctl_as_is flat_dg AStart empty_vm = Ok (RInvalid, r') /\ r_state r' = StHaltedError) /\
  (exists r', execute_ctl ctl_as_is flat_dg ALineStep empty_vm = Ok (RInvalid, r') /\ r_state r' = StHaltedError) /\
  (exists r', execute_ctl ctl_repaired flat_dg AStart empty_vm = Ok (REmpty, r') /\ r_state r' = StEmpty).
Proof. repeat split; eexists; (split; [vm_compute; reflexivity|reflexivity]). Qed.
Print Assumptions C19_no_script_is_an_error_refuted.

(* C19-02: leave_scope on an empty runtime and line_step on a loaded, never started one go through the null active context;
   line_step after the script was stepped to its end calls current_frame() on a context without frames *)
Theorem C19_null_active_context_refuted :
  (exists w, execute_ctl ctl_as_is flat_dg ALeaveScope empty_vm = UB w) /\
  (exists w, execute_ctl ctl_as_is flat_dg ALineStep loaded_vm = UB w) /\
  (exists w, execute_ctl ctl_as_is flat_dg ALeaveScope loaded_vm = UB w) /\
  (exists x r', execute_ctl ctl_repaired flat_dg ALineStep loaded_vm = Ok (x, r')) /\
  (exists x r', execute_ctl ctl_repaired flat_dg ALeaveScope empty_vm = Ok (x, r')).
Proof. repeat split; try (eexists; vm_compute; reflexivity); eexists; eexists; vm_compute; reflexivity. Qed.
Print Assumptions C19_null_active_context_refuted.

(* C19-03: with both statements on one line, a line step of the unrepaired code (after one assembly step) advances by ONE
   instruction; the repaired one runs the whole line.  With two lines the repaired step stops in front of line 1. *)
Definition top_pos (o:res (rresult * rt)) : option nat :=
  match o with Ok (_, r) => match r_ctxs r with c :: _ => match c_frames c with f :: _ => Some (f_pos f) | [] => None end | [] => None end | _ => None end.
Definition after_one_step (d:cdefects) (dg:code -> nat -> nat * nat) : res (rresult * rt) :=
  match execute_ctl d dg AAssemblyStep loaded_vm with Ok (_, r) => execute_ctl d dg ALineStep r | o => o end.
Theorem C19_line_step_is_instruction_step_refuted :
  top_pos (after_one_step ctl_as_is flat_dg) = Some 2 /\
  (exists r', after_one_step ctl_repaired flat_dg = Ok (REmpty, r')) /\
  top_pos (execute_ctl ctl_repaired two_lines ALineStep loaded_vm) = Some 3.
Proof. split; [vm_compute; reflexivity|]. split; [eexists; vm_compute; reflexivity|vm_compute; reflexivity]. Qed.
Print Assumptions C19_line_step_is_instruction_step_refuted.

(* ---------------------------------------------------------------- non-vacuity *)
Example ex_history : exists r', history flat_dg loaded_vm [(AAssemblyStep, ROk); (ALineStep, REmpty); (AStart, REmpty)] r' /\ idle r'.
Proof.
  eexists. split.
  - eapply h_cons; [vm_compute; reflexivity|]. eapply h_cons; [vm_compute; reflexivity|]. eapply h_cons; [vm_compute; reflexivity|]. apply h_nil.
  - split; [reflexivity|discriminate].
Qed.
Example ex_idle_initial : idle empty_vm /\ idle loaded_vm.
Proof. repeat split; discriminate. Qed.
