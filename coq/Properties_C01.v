(* C01 - Every SQF expression is compiled as its documented reading.
   Theorems only; proofs live in Syntax/*.v.  The model (Syntax/SyntaxDefs.v) is tied to
   src/parser/sqf/{tokenizer.hpp,parser.y,parser.tab.cc,sqf_parser.cpp} and src/opcodes/*.h by the
   correspondence run of checks/C01.py; Gen/Registry.v and Gen/Grammar.v are regenerated on every run. *)
From Coq Require Import ZArith List Bool Arith String.
Import ListNotations.
From SqfVerif Require Import Syntax.SyntaxDefs Syntax.ParsePrint Syntax.LexProofs Syntax.LexGlue Syntax.CompileProofs Syntax.Reading Syntax.GenProofs Syntax.Findings.
From SqfVerif Require Gen.Registry Gen.Grammar.

(* 1-2. The reading.  `print_toks R lay ss` is the documented reading written out: a binary operator of
   level k takes an exp_k on its left and an exp_(k+1) on its right (left association, tighter levels
   inside), a unary operator takes an operand of the tightest level, parentheses appear exactly where
   a subtree's level is below what its position asks for - and additionally wherever the tree carries a
   Par node (any redundant parenthesisation), with any layout of `;` / `,` separators.  For EVERY
   registry, every tree whose operator names are registered in the class and at the level the tree uses
   them, and every fuel above a bound, the parser returns exactly the tree (Par nodes erased). *)
Theorem C01_parse_print_any : forall (R:registry) (d:defects) (lay:layout) (ss:list stmt),
  wf_block R ss ->
  exists f0, forall f, (f0 <= f)%nat -> parse_toks d f (print_toks R lay ss) = POk (map strip_stmt ss).
Proof. exact parse_print_block. Qed.
Print Assumptions C01_parse_print_any.

Theorem C01_parse_print_min : forall (R:registry) (d:defects) (lay:layout) (ss:list stmt),
  wf_block R ss -> forallb noparb_stmt ss = true ->
  exists f0, forall f, (f0 <= f)%nat -> parse_toks d f (print_toks R lay ss) = POk ss.
Proof.
  intros R d lay ss Hwf Hnp. destruct (parse_print_block R d lay ss Hwf) as [f0 H]. exists f0. intros f Hf.
  rewrite (H f Hf). f_equal. rewrite <- (map_id ss) at 2. apply map_ext_in. intros s Hs.
  apply (proj2 (strip_nopar (size_stmt s)) s (le_n _)). rewrite forallb_forall in Hnp. apply Hnp. exact Hs.
Qed.
Print Assumptions C01_parse_print_min.

(* 3. Whitespace.  A token is well spelled (tok_ok) when its text alone is read as exactly that token.  Write
   well-spelled tokens with arbitrary whitespace (space, tab, CR, LF) before each and at the end - and with
   none at all wherever the next character is whitespace, a bracket or a separator, or the token itself is a
   bracket, a separator or a sign (sep_ok) - and the lexer returns exactly those tokens.  Letter case: names
   are classified by their lower-cased spelling (classify_name) and compiled in lower case (postorder), so
   theorems 1-2, which hold for trees with ANY spelling of the names, cover arbitrary letter case. *)
Theorem C01_lex_render : forall items trail, sep_ok items trail -> lex (render items trail) = LexOk (map snd items).
Proof. exact lex_render. Qed.
Print Assumptions C01_lex_render.

(* 3a. No whitespace at all wherever the token grammar allows it (sep_glued): a name, a keyword, a number may be followed
   directly by any character that cannot continue it (an operator character, a quote: `1--1`, `_a++_b`, `a*-b`), a string
   literal by anything but a quote (`"s"select 0`), an operator by anything that does not spell a longer operator, a
   comment or a #line directive with it (`a&&!b`, `a>=-1`, `a/-b`; not `> =`, `/ *`, `# line`), `=` by anything but `=`
   (`x=-1`).  sep_ok is the special case (sep_ok_glued). *)
Theorem C01_lex_render_glued : forall items trail, sep_glued items trail -> lex (render items trail) = LexOk (map snd items).
Proof. exact lex_render_glued. Qed.
Print Assumptions C01_lex_render_glued.

Theorem C01_compiled_reading_glued : forall (R:registry) (d:defects) (lay:layout) (ss:list stmt) items trail,
  wf_block R ss -> map snd items = print_raw lay ss -> sep_glued items trail ->
  exists f0, forall f, (f0 <= f)%nat ->
    match parse_text d R f (render items trail) with FOk p => compile_block p | _ => None end
    = Some (postorder_block (map strip_stmt ss)).
Proof. exact compiled_reading_glued. Qed.
Print Assumptions C01_compiled_reading_glued.

(* 1-3 composed: from the text of the documented reading to the tree, and to the compiled post-order *)
Theorem C01_reading_end_to_end : forall (R:registry) (d:defects) (lay:layout) (ss:list stmt) items trail,
  wf_block R ss -> map snd items = print_raw lay ss -> sep_ok items trail ->
  exists f0, forall f, (f0 <= f)%nat -> parse_text d R f (render items trail) = FOk (map strip_stmt ss).
Proof. exact reading_end_to_end. Qed.
Print Assumptions C01_reading_end_to_end.

Theorem C01_compiled_reading : forall (R:registry) (d:defects) (lay:layout) (ss:list stmt) items trail,
  wf_block R ss -> map snd items = print_raw lay ss -> sep_ok items trail ->
  exists f0, forall f, (f0 <= f)%nat ->
    match parse_text d R f (render items trail) with FOk p => compile_block p | _ => None end
    = Some (postorder_block (map strip_stmt ss)).
Proof. exact compiled_reading. Qed.
Print Assumptions C01_compiled_reading.

(* 4. The emitted instruction sequence is the post-order of the reading: the compiler model (which appends
   to a vector exactly as to_assembly does, including the cast applied by the sign fold) never reaches
   the undefined cast and produces postorder: left operand, right operand, operator; array elements
   left to right, then MAKEARRAY n; a signed number literal is one PUSH. *)
Theorem C01_compile_postorder : forall t set, comp t set = Some (set ++ postorder t).
Proof. exact compile_postorder. Qed.
Print Assumptions C01_compile_postorder.

Theorem C01_compile_block_postorder : forall ss, compile_block ss = Some (postorder_block ss).
Proof. exact compile_block_postorder. Qed.
Print Assumptions C01_compile_block_postorder.

(* 5. The value the stack machine computes is the value of the fully parenthesised expression, for every
   operator semantics (binary pops right, then left).  The only thing assumed of the operators is what
   the sign fold itself assumes: unary - / + on a number literal denote its negation / itself. *)
Theorem C01_stack_eval_correct : forall (V:Type) (m:sem V),
  (forall l, ((exists s, l = LNum s) \/ (exists s, l = LHex s)) -> s_un V m sym_minus (s_lit V m false l) = s_lit V m true l) ->
  (forall l, ((exists s, l = LNum s) \/ (exists s, l = LHex s)) -> s_un V m sym_plus (s_lit V m false l) = s_lit V m false l) ->
  forall t st, run_stack V m (postorder t) st = Some (eval_tree V m t :: st).
Proof. exact stack_eval_correct. Qed.
Print Assumptions C01_stack_eval_correct.

(* 6. The registry of the built runtime (Gen/Registry.v): all overloads of one name share one precedence,
   every precedence is in 1..10, names are distinct. *)
Theorem C01_registry_single_prec : forall name ps u n, In (name, (ps, u, n)) Registry.table ->
  forall p q, In p ps -> In q ps -> p = q.
Proof. exact registry_single_prec. Qed.
Print Assumptions C01_registry_single_prec.

Theorem C01_registry_prec_range : forall name ps u n, In (name, (ps, u, n)) Registry.table ->
  forall p, In p ps -> (1 <= p <= 10)%nat.
Proof. exact registry_prec_range. Qed.
Print Assumptions C01_registry_prec_range.

Theorem C01_registry_names_distinct : NoDup (map fst Registry.table).
Proof. exact registry_names_distinct. Qed.
Print Assumptions C01_registry_names_distinct.

(* 7. The grammar the tables were generated from (Gen/Grammar.v: yyr1_/yyr2_/yytname_ + actions, checked
   against parser.y by the translator) is exactly the 10-level layered grammar the parser model follows,
   and the yylex switch is exactly the model's classification. *)
Theorem C01_grammar_is_layered : forall r, In r Grammar.rules <-> In r (layered_rules 10).
Proof. exact grammar_is_layered. Qed.
Print Assumptions C01_grammar_is_layered.

Theorem C01_grammar_rule_count : List.length Grammar.rules = List.length (layered_rules 10).
Proof. exact grammar_rule_count. Qed.
Print Assumptions C01_grammar_rule_count.

Theorem C01_lexmap_ok : forall b u nl p t s, In (b, u, nl, p, t) Grammar.lexmap ->
  exists c, classify_name (fun _ => info b u nl p) true s = TOp c s /\ class_name c = t.
Proof. exact lexmap_ok. Qed.
Print Assumptions C01_lexmap_ok.

Theorem C01_lexmap_complete : forall i s c, classify_name (fun _ => i) true s = TOp c s ->
  In (match oi_bin i with Some _ => true | None => false end, oi_un i, oi_nul i,
      match oi_bin i with Some p => p | None => 0%nat end, class_name c) Grammar.lexmap.
Proof. exact lexmap_complete. Qed.
Print Assumptions C01_lexmap_complete.

(* The recorded defect (known_findings.txt un-nular-operand): with the parser as it stands a name that
   is unary and nular is not readable as an operand - `x = un` is never parsed as the assignment of the
   nular operator - whereas the repaired grammar reads it; as a unary operator the name works in both. *)
Theorem C01_nular_operand_UN_refuted : forall f, parse_text as_is R_un f un_src <> FOk un_reading.
Proof. exact un_operand_as_is. Qed.
Print Assumptions C01_nular_operand_UN_refuted.

Theorem C01_nular_operand_UN_repaired : exists f0, forall f, (f0 <= f)%nat -> parse_text repaired R_un f un_src = FOk un_reading.
Proof. exact un_operand_repaired. Qed.
Print Assumptions C01_nular_operand_UN_repaired.

Local Open Scope Z_scope.
(* non-vacuity: a tree over four levels, a unary, an array, a code block and an assignment is well formed
   for a small registry, and its minimal rendering parses back *)
Definition ex_R : registry := fun key =>
  if text_eqb key [43] then {| oi_bin := Some 6%nat; oi_un := true; oi_nul := false |}            (* + *)
  else if text_eqb key [42] then {| oi_bin := Some 7%nat; oi_un := false; oi_nul := false |}       (* * *)
  else if text_eqb key [62] then {| oi_bin := Some 3%nat; oi_un := false; oi_nul := false |}       (* > *)
  else if text_eqb key [33] then {| oi_bin := None; oi_un := true; oi_nul := false |}              (* ! *)
  else if text_eqb key [112;105] then {| oi_bin := None; oi_un := false; oi_nul := true |}         (* pi *)
  else no_op.
Definition ex_prog : list stmt :=
  [ SAssign (Var [120]) (Bin 6%nat [42] (Par (Bin 5%nat [43] (Var [97]) (Nul [112;105]))) (Un [43] (Var [98])));
    SExpr (Bin 2%nat [62] (Arr [Lit (LNum [49]); Code [SExpr (Un [33] (Var [99]))]]) (Bin 5%nat [43] (Var [97]) (Bin 5%nat [43] (Var [98]) (Var [99])))) ].
Example ex_wf : wf_block ex_R ex_prog.
Proof. vm_compute. reflexivity. Qed.
(* the hypotheses of theorem 3 are met by a rendering with mixed gluing: `x =(a +pi)* \t+b ;\n` *)
Example ex_sep_ok : sep_ok [([], RIdent [120]); ([32], REqual); ([], RRoundO); ([], RIdent [97]); ([32], ROp [43]); ([], RIdent [112;105]);
                            ([], RRoundC); ([], ROp [42]); ([32; 9], ROp [43]); ([], RIdent [98]); ([32], RSemi)] [10].
Proof. cbn [sep_ok]. repeat split; try (left; reflexivity); try (right; reflexivity); try reflexivity. Qed.
(* the hypotheses of theorem 3a are met by `x=1--1;_a++_b*-2>=-.5&&!c "s"sel 0` - and not by `>` directly in front of `>=` *)
Example ex_sep_glued : sep_glued [([], RIdent [120]); ([], REqual); ([], RNum [49]); ([], ROp [45]); ([], ROp [45]); ([], RNum [49]); ([], RSemi);
   ([], RIdent [95;97]); ([], ROp [43]); ([], ROp [43]); ([], RIdent [95;98]); ([], ROp [42]); ([], ROp [45]); ([], RNum [50]); ([], ROp [62;61]); ([], ROp [45]); ([], RNum [46;53]);
   ([], ROp [38;38]); ([], ROp [33]); ([], RIdent [99]); ([32], RStr [34;115;34]); ([], RIdent [115;101;108]); ([32], RNum [48])] [].
Proof. cbn [sep_glued]. repeat split; try (right; right; reflexivity); try (right; left; reflexivity); try (left; reflexivity); try reflexivity. Qed.
Example ex_sep_glued_not : ~ sep_glued [([], ROp [62]); ([], ROp [62;61])] [].
Proof. cbn. intros (_ & _ & [H|[H|H]] & _); discriminate. Qed.
Example ex_parses : parse_toks as_is 200%nat (print_toks ex_R layout_min ex_prog) = POk (map strip_stmt ex_prog).
Proof. vm_compute. reflexivity. Qed.
