(* C12 - Scheduler is fair and isolating; sleep, scriptDone, terminate work as documented.
   Theorems only; proofs live in VM/C12Proofs.v (and VM/Sched*.v). The scheduler model is SchedDefs.start_pass2 /
   start_loop2 / execute_do2 / visit_ctx: the shared start_pass / start_loop / execute_do of VM/VmExec.v, VM/VmDefs.v
   with ghost instrumentation (visit log, instruction counters), see C12_scheduler_is_shared_model. It is tied to
   src/runtime/runtime.cpp (action::start), context.h and ops_generic.cpp by the correspondence runs of
   checks/C12.py. All theorems hold for every slice length (r_slice) and for both settings of the two time-limit
   switches b1 b2 of SchedDefs (b1 = b2 = false is the shared model, i.e. the runtime after repo commit f22674f). *)
From Coq Require Import String ZArith List Bool Lia Arith.
Import ListNotations.
Set Warnings "-abstract-large-number".
From SqfVerif Require Import Gen.DiagCodes Gen.Consts VM.VmDefs VM.VmExec VM.SchedDefs VM.SchedOps VM.SchedBase VM.SchedIter VM.SchedEquiv VM.C12Defs VM.C12Proofs VM.C12FrameOps VM.C12Frame VM.C12Commute VM.C12NsEq VM.C12Globals VM.C12GlobalsCommute VM.C12GlobalsAll.
Local Open Scope list_scope.

(* the instrumented scheduler (switches off) is the shared one *)
Theorem C12_scheduler_is_shared_model : forall fuel r x ps,
  map_res (fun '(x, r, _) => (x, r)) (start_loop2 false false fuel r x ps) = start_loop fuel r x.
Proof. exact start_loop2_shared. Qed.
Print Assumptions C12_scheduler_is_shared_model.

(* ------------------------------------------------------------------ round robin *)
(* round_robin, one pass: whatever the slices do (finish, sleep, spawn, terminate, go on), a pass that runs to its
   end gives exactly one turn to every script scheduled at its start, in list order, then to the scripts spawned
   during the pass, in spawn order (pass_order); nobody is skipped when a finished script is erased; afterwards
   exactly the scripts whose turn did not end with "finished" are scheduled, in the same order (pass_survivors).
   ids: the script ids in list order; wf_ids: they are unique and below the next id to hand out. *)
Theorem C12_round_robin_pass : forall b1 b2 fuel r x x' r' log,
  start_pass2 b1 b2 fuel r 0 x [] = Ok (PassDone2 x' r' log) -> wf_ids r ->
  pass_order (ids r) log /\ pass_survivors log (ids r') /\ wf_ids r' /\
  Forall (fun v => kept v = true \/ finished v = true) log.
Proof. exact round_robin_pass. Qed.
Print Assumptions C12_round_robin_pass.

(* a pass that is cut short (time limit, runtime error, last script gone): the turns taken are a prefix of that order *)
Theorem C12_round_robin_pass_cut : forall b1 b2 fuel r x x' r' log,
  start_pass2 b1 b2 fuel r 0 x [] = Ok (PassExit2 x' r' log) -> wf_ids r ->
  exists spawned later, ids r ++ spawned = map v_id log ++ later /\ NoDup (ids r ++ spawned).
Proof. exact round_robin_pass_cut. Qed.
Print Assumptions C12_round_robin_pass_cut.

(* the whole run: every pass starts with the survivors of the pass before, in the same order - the turns of the
   run are the turns of a round-robin queue *)
Theorem C12_round_robin_run : forall b1 b2 fuel r x x' r' ps,
  start_loop2 b1 b2 fuel r x [] = Ok (x', r', ps) -> wf_ids r -> chained (ids r) ps.
Proof. exact round_robin_run. Qed.
Print Assumptions C12_round_robin_run.

(* between two consecutive turns of one script every other script that stays scheduled gets exactly one:
   pass k has the turns a ++ v :: b, v's script stays; until its next turn (in pass k+1, which starts with the
   survivors of pass k) the turns are b, then the survivors of a; every other survivor t occurs there exactly once *)
Theorem C12_between_two_turns : forall (a b:list visit) (v:visit) (t:nat),
  NoDup (map v_id (a ++ v :: b)) -> kept v = true ->
  In t (map v_id (filter kept (a ++ v :: b))) -> t <> v_id v ->
  count_occ Nat.eq_dec (map v_id b ++ map v_id (filter kept a)) t = 1.
Proof. exact between_two_turns. Qed.
Print Assumptions C12_between_two_turns.

(* ------------------------------------------------------------------ slices *)
(* slice_bounded: execute_do performs at most exit_after units - executed instructions (ki) plus rounds of empty
   loop bodies (kr); the scheduler passes r_slice *)
Theorem C12_slice_bounded : forall b fuel r n ki kr x r' ki' kr',
  execute_do2 b fuel r n ki kr = Ok (x, r', (ki', kr')) -> ki <= ki' /\ kr <= kr' /\ (ki' - ki) + (kr' - kr) <= n.
Proof. exact slice_bounded. Qed.
Print Assumptions C12_slice_bounded.

(* ... so a turn of the scheduler executes at most r_slice units; with the slice of runtime.cpp (Gen.Consts): 150 *)
Theorem C12_turn_bounded : forall b1 b2 r i x r' v,
  visit_ctx b1 b2 r i = Ok (x, r', v) -> i < length (r_ctxs r) -> v_instr v + v_restarts v <= r_slice r.
Proof. exact turn_bounded. Qed.
Print Assumptions C12_turn_bounded.
Theorem C12_turn_bounded_150 : forall b1 b2 r i x r' v,
  r_slice r = slice_length ->
  visit_ctx b1 b2 r i = Ok (x, r', v) -> i < length (r_ctxs r) -> v_instr v + v_restarts v <= slice_length.
Proof. intros b1 b2 r i x r' v E V Hi. rewrite <- E. eapply turn_bounded; eauto. Qed.
Print Assumptions C12_turn_bounded_150.

(* ------------------------------------------------------------------ sleep *)
Theorem C12_sleep_sets_wakeup : forall d r c, c_can_suspend c = true ->
  op_unary "sleep" (VNum d) r c =
    Ok (set_clock r (r_clock r + r_tick r)%Z, set_suspended c true (r_clock r + r_tick r + d * 1000000)%Z, VNil).
Proof. exact sleep_sets_wakeup. Qed.
Print Assumptions C12_sleep_sets_wakeup.

(* no_early_wake: the scheduler reads the clock once when it comes to a sleeping script; the script gets its slice
   only if that value is not before its wake-up time, otherwise nothing of it executes in this pass and it is left
   exactly as it is *)
Theorem C12_no_early_wake : forall b1 b2 r i c x r' v,
  visit_ctx b1 b2 r i = Ok (x, r', v) -> nth_error (r_ctxs r) i = Some c ->
  c_suspended c = true -> c_terminate c = false ->
  (v_entered v = true -> (c_wakeup c <= r_clock r + r_tick r)%Z) /\
  ((r_clock r + r_tick r < c_wakeup c)%Z ->
     v_entered v = false /\ v_instr v = 0 /\ v_restarts v = 0 /\ (x = ROk -> nth_error (r_ctxs r') i = Some c)).
Proof. exact no_early_wake. Qed.
Print Assumptions C12_no_early_wake.

(* ... and inside execute_do a suspended script executes nothing *)
Theorem C12_suspended_executes_nothing : forall b fuel r n ki kr i c,
  r_active r = Some i -> nth_error (r_ctxs r) i = Some c -> c_suspended c = true -> r_exit_req r = false ->
  execute_do2 b (S fuel) r (S n) ki kr = Ok (ROk, r, (ki, kr)).
Proof. exact suspended_executes_nothing. Qed.
Print Assumptions C12_suspended_executes_nothing.

(* ------------------------------------------------------------------ scriptDone *)
(* scriptDone_spec: the answer is true exactly when no scheduled script has the handle's id *)
Theorem C12_scriptdone_spec : forall id r c,
  op_unary "scriptdone" (VScript id) r c = Ok (r, c, VBool true) <-> ~ In id (ids r).
Proof. exact scriptdone_true_iff. Qed.
Print Assumptions C12_scriptdone_spec.

(* false while instructions remain: a script is erased only after a turn that found it without frames ... *)
Theorem C12_retired_only_when_finished : forall b1 b2 r i c r2 v,
  visit_ctx b1 b2 r i = Ok (REmpty, r2, v) -> nth_error (r_ctxs r) i = Some c -> r_exit_req r = false ->
  exists c', nth_error (r_ctxs r2) i = Some c' /\ c_id c' = c_id c /\ c_frames c' = [] /\ c_suspended c' = false.
Proof. exact retired_only_when_finished. Qed.
Print Assumptions C12_retired_only_when_finished.

(* ... true once retired: after the erase its id is not scheduled any more ... *)
Theorem C12_scriptdone_true_once_retired : forall b1 b2 r i c r2 v,
  visit_ctx b1 b2 r i = Ok (REmpty, r2, v) -> nth_error (r_ctxs r) i = Some c -> wf_ids r ->
  ~ In (c_id c) (ids (retire r2 i)) /\ wf_ids (retire r2 i) /\ c_id c < r_next_id (retire r2 i).
Proof. exact scriptdone_true_once_retired. Qed.
Print Assumptions C12_scriptdone_true_once_retired.

(* ... and never again: ids are not reused *)
Theorem C12_retired_id_never_returns : forall b1 b2 r i x r2 v id,
  visit_ctx b1 b2 r i = Ok (x, r2, v) -> i < length (r_ctxs r) -> wf_ids r ->
  ~ In id (ids r) -> id < r_next_id r -> ~ In id (ids r2) /\ id < r_next_id r2.
Proof. exact retired_id_never_returns. Qed.
Print Assumptions C12_retired_id_never_returns.

(* ------------------------------------------------------------------ terminate *)
Theorem C12_terminate_sets_flag : forall id r c x,
  existsb (fun y => Nat.eqb (c_id y) id) (r_ctxs r) = true -> Nat.eqb id (c_id c) = false ->
  find (fun y => Nat.eqb (c_id y) id) (r_ctxs r) = Some x -> c_terminate x = false ->
  op_unary "terminate" (VScript id) r c =
    Ok (set_ctxs r (map (fun y => if Nat.eqb (c_id y) id then set_terminate y true else y) (r_ctxs r)), c, VNil).
Proof. exact terminate_sets_flag. Qed.
Print Assumptions C12_terminate_sets_flag.

(* the turn of a terminated script: nothing executes, it is reported as finished (and therefore erased) *)
Theorem C12_terminated_turn : forall b1 b2 r i c x r' v,
  visit_ctx b1 b2 r i = Ok (x, r', v) -> nth_error (r_ctxs r) i = Some c -> c_terminate c = true ->
  r_exit_req r = false -> 0 < r_slice r ->
  x = REmpty /\ v_instr v = 0 /\ v_restarts v = 0.
Proof. exact terminated_turn. Qed.
Print Assumptions C12_terminated_turn.

(* terminated_runs_nothing_after_next_point: from any state of the scheduler loop on (start of a pass), a script
   whose terminate flag is up - whatever the other scripts do meanwhile - executes no instruction in any turn it
   gets in this and all later passes ... *)
Theorem C12_terminated_runs_nothing : forall b1 b2 fuel r x x' r' ps,
  start_loop2 b1 b2 fuel r x [] = Ok (x', r', ps) -> r_exit_req r = false -> 0 < r_slice r -> wf_ids r ->
  Forall (Forall (fun v => flagged r (v_id v) -> v_instr v = 0 /\ v_restarts v = 0 /\ v_result v = REmpty)) ps.
Proof. exact terminated_runs_nothing. Qed.
Print Assumptions C12_terminated_runs_nothing.

(* ... and is gone after the first complete pass that starts with the flag up *)
Theorem C12_terminated_removed_by_next_pass : forall b1 b2 fuel r x x' r' log id,
  start_pass2 b1 b2 fuel r 0 x [] = Ok (PassDone2 x' r' log) ->
  r_exit_req r = false -> 0 < r_slice r -> wf_ids r -> flagged r id -> ~ In id (ids r').
Proof. exact terminated_removed_by_next_pass. Qed.
Print Assumptions C12_terminated_removed_by_next_pass.

(* ------------------------------------------------------------------ isolation *)
(* A turn of script i leaves every other scheduled script exactly as it was (frames, operand stack, local
   variables, suspension), except that its terminate flag may have been raised.
   independent_scripts_commute - "each script's statement order and results are independent of the interleaving
   with scripts it shares no data with" - is NOT proved: it needs a footprint analysis of every operator over
   namespaces and the clock. What is proved is this isolation of the per-script state, the fixed order of turns
   (round robin) and that a script's own instructions run in program order inside execute_do. *)
Theorem C12_other_scripts_untouched_partial : forall b1 b2 r i x r' v c0 j c,
  visit_ctx b1 b2 r i = Ok (x, r', v) -> nth_error (r_ctxs r) i = Some c0 ->
  j <> i -> nth_error (r_ctxs r) j = Some c ->
  exists c', nth_error (r_ctxs r') j = Some c' /\ (c' = c \/ c' = set_terminate c true).
Proof. exact other_scripts_untouched. Qed.
Print Assumptions C12_other_scripts_untouched_partial.

(* ------------------------------------------------------------------ independent turns commute *)
(* FULL STATEMENT (isolation clause of C12): two scheduled scripts that touch disjoint state can have their turns swapped
   without changing either script's trace or the final machine.
   PROVED (C12_independent_turns_commute_partial): for the scheduler turn visit_ctx of the model, scripts i <> j, from a machine
   r, with the independence predicate spelled out as
     solo_turn .. r i Ri Wi xi ri vi : the turn of i taken ALONE from r returns (xi, ri, vi), where
        visit_ok b1 Ri Wi r i = true  (executable: it runs the turn and checks every instruction it executes) - globals are
           read only at keys of Ri and assigned only at keys of Wi (key = namespace, lower-cased name; GETVARIABLE, ASSIGNTO,
           getVariable, setVariable, isNil "name"), and no instruction is spawn, terminate or scriptDone;
        quiet r ri       - no exit request, no error state left, no script id handed out;
        nss_effect Wi r ri - the namespaces changed only by new values for EXISTING variables of Wi;
     the same for j, and independent Ri Wi Rj Wj = true: Wj is disjoint from Ri and Wi, Wi from Rj;
     r_tick r = 0 (no virtual time passes inside the turns) and the log of r is empty (the log is write-only:
     C12_log_is_write_only, so this is no restriction);
   then i after j does exactly what i does alone (same result, same visit record: instructions executed, restarts) and j after
   i does what j does alone, and the two final machines are equal in every field except r_active (the script that ran last)
   and the log, which holds i's lines and j's lines in the one or the other order (shared_state m1 = shared_state m2).
   MISSING for the full statement: (1) turns that CREATE a global are outside THIS theorem (the model's namespaces are association
   lists, the position of a new entry depends on the order of creation) - they are covered, up to the order of entries, by
   C12_independent_turns_commute_creating_partial / C12_round_order_irrelevant_creating_partial below; (2) turns that spawn (the
   children's position in the scheduler's list and their ids depend on the order:
   refuted as stated: C12_spawning_turns_commute_refuted); (3) a clock that advances during the turns (wake-up times of sleeping scripts
   then depend on the order); (4) C12_round_order_irrelevant_partial lifts the statement to any number of turns in any order, as a sequence of
   scheduler turns (visit_ctx); the pass loop start_pass2 additionally erases finished contexts, which shifts the indices of the
   later ones - that bookkeeping is not lifted. *)
Theorem C12_independent_turns_commute_partial : forall b1 b2 r i j Ri Wi Rj Wj xi ri vi xj rj vj,
  i <> j -> r_out r = [] -> r_tick r = 0%Z ->
  solo_turn b1 b2 r i Ri Wi xi ri vi -> solo_turn b1 b2 r j Rj Wj xj rj vj ->
  independent Ri Wi Rj Wj = true ->
  exists m1 m2,
    visit_ctx b1 b2 rj i = Ok (xi, m1, vi) /\
    visit_ctx b1 b2 ri j = Ok (xj, m2, vj) /\
    shared_state m1 = shared_state m2 /\
    r_out m1 = r_out ri ++ r_out rj /\ r_out m2 = r_out rj ++ r_out ri.
Proof. exact independent_turns_commute. Qed.
Print Assumptions C12_independent_turns_commute_partial.

(* the log is write-only: a turn from a machine whose log already holds `old` does what it does from the empty log, with
   `old` underneath (tr_log old appends at the old end of the log) *)
Theorem C12_log_is_write_only : forall b1 b2 R W r i old,
  i < length (r_ctxs r) -> visit_ok b1 R W r i = true ->
  visit_ctx b1 b2 (app (tr_log old) r) i = map_v (app (tr_log old)) (visit_ctx b1 b2 r i).
Proof. exact log_is_write_only. Qed.
Print Assumptions C12_log_is_write_only.

(* ... so the commutation holds from a machine with any log (the solo turns are taken from the machine with its log emptied):
   both orders exist, each script does what it does alone, the final machines agree up to r_active and the order of the two
   scripts' log lines on top of the old log *)
Theorem C12_independent_turns_commute_any_log_partial : forall b1 b2 r i j Ri Wi Rj Wj xi ri vi xj rj vj,
  i <> j -> r_tick r = 0%Z ->
  solo_turn b1 b2 (set_out r []) i Ri Wi xi ri vi -> solo_turn b1 b2 (set_out r []) j Rj Wj xj rj vj ->
  independent Ri Wi Rj Wj = true ->
  exists ri' rj' m1 m2,
    visit_ctx b1 b2 r i = Ok (xi, ri', vi) /\ visit_ctx b1 b2 r j = Ok (xj, rj', vj) /\
    visit_ctx b1 b2 rj' i = Ok (xi, m1, vi) /\ visit_ctx b1 b2 ri' j = Ok (xj, m2, vj) /\
    shared_state m1 = shared_state m2 /\
    r_out m1 = r_out ri ++ r_out rj ++ r_out r /\ r_out m2 = r_out rj ++ r_out ri ++ r_out r.
Proof. exact independent_turns_commute_any_log. Qed.
Print Assumptions C12_independent_turns_commute_any_log_partial.

(* Whole rounds: any number of turns of different scripts that are pairwise independent (all_independent: different indices,
   independent footprints), each a solo_turn from r, can be taken in ANY order (Permutation): every order runs through, every
   script does in it exactly what it does alone (runs: same result and visit record), and the final machines agree on everything
   but the order of the log lines and r_active. *)
Theorem C12_round_order_irrelevant_partial : forall b1 b2 r us us',
  r_out r = [] -> r_tick r = 0%Z ->
  Forall (solo b1 b2 r) us -> all_independent us -> Permutation.Permutation us us' ->
  exists m m', runs b1 b2 r us m /\ runs b1 b2 r us' m' /\ shared_state m = shared_state m'.
Proof. exact round_order_irrelevant. Qed.
Print Assumptions C12_round_order_irrelevant_partial.
Example ex_round_hypotheses : Forall (solo false false ex_machine) [ex_ta; ex_tb] /\ all_independent [ex_ta; ex_tb].
Proof. exact ex_round. Qed.

(* the restriction "no spawn" is necessary: two scripts that each spawn a child - the children's places in the scheduler's
   list follow the order of the parents' turns, so the final machines differ (as in runtime.cpp: spawn appends to m_contexts;
   the children's turns in the next pass come in that order) *)
Theorem C12_spawning_turns_commute_refuted :
  exists m1 m2, two_turns sp_machine 0 1 = Some m1 /\ two_turns sp_machine 1 0 = Some m2 /\
                shared_state m1 <> shared_state m2.
Proof. exact spawning_turns_commute_refuted. Qed.
Print Assumptions C12_spawning_turns_commute_refuted.

(* the frame property behind it: a change of the machine that the turn of script i does not look at - another script's
   context, log lines at the old end of the log, globals outside its footprints (tr_ok) - commutes with the whole turn *)
Theorem C12_frame_turn : forall T i R W b1 b2 r,
  tr_ok T i R W -> i < length (r_ctxs r) -> visit_ok b1 R W r i = true ->
  visit_ctx b1 b2 (app T r) i = map_v (app T) (visit_ctx b1 b2 r i).
Proof. exact app_visit_ctx. Qed.
Print Assumptions C12_frame_turn.

(* ... in particular a turn without spawn / terminate / scriptDone leaves every other script EXACTLY as it is *)
Theorem C12_turn_leaves_others : forall b1 b2 R W r i x ri v k ck,
  visit_ctx b1 b2 r i = Ok (x, ri, v) -> i < length (r_ctxs r) -> visit_ok b1 R W r i = true ->
  k <> i -> nth_error (r_ctxs r) k = Some ck -> nth_error (r_ctxs ri) k = Some ck.
Proof. exact turn_leaves_others. Qed.
Print Assumptions C12_turn_leaves_others.

(* non-vacuity: two spawned scripts `ga = ga + 1; diag_log ga` and `gb = gb + 2; diag_log gb` on a machine where both globals
   exist satisfy every hypothesis (ex_solo_a, ex_solo_b, ex_independent_turns), both log and both change the namespaces *)
Example ex_commute :
  exists m1 m2,
    visit_ctx false false (snd (fst (ex_turn 1))) 0 = Ok (fst (fst (ex_turn 0)), m1, snd (ex_turn 0)) /\
    visit_ctx false false (snd (fst (ex_turn 0))) 1 = Ok (fst (fst (ex_turn 1)), m2, snd (ex_turn 1)) /\
    shared_state m1 = shared_state m2 /\
    r_out m1 = r_out (snd (fst (ex_turn 0))) ++ r_out (snd (fst (ex_turn 1))) /\
    r_out m2 = r_out (snd (fst (ex_turn 1))) ++ r_out (snd (fst (ex_turn 0))).
Proof.
  apply (independent_turns_commute false false ex_machine 0 1 ex_Ka ex_Ka ex_Kb ex_Kb);
    [discriminate | reflexivity | reflexivity | exact ex_solo_a | exact ex_solo_b | reflexivity].
Qed.
Example ex_hypotheses_hold :
  independent ex_Ka ex_Ka ex_Kb ex_Kb = true /\ r_out ex_machine = [] /\ r_tick ex_machine = 0%Z /\
  r_out (snd (fst (ex_turn 0))) <> [] /\ r_out (snd (fst (ex_turn 1))) <> [] /\
  r_nss (snd (fst (ex_turn 0))) <> r_nss ex_machine /\ r_nss (snd (fst (ex_turn 1))) <> r_nss ex_machine.
Proof. exact ex_independent_turns. Qed.

(* ------------------------------------------------------------------ independent turns commute: turns that CREATE globals *)
(* The model keeps the namespaces as association lists: a global that does not exist yet is appended, so the position of an
   entry records the order of creation - an artefact of the model (the implementation's map has no such order, and no modelled
   operator enumerates a namespace: r_nss is read by ns_get and written by ns_set only). nss_eq identifies two namespace lists that
   are the same finite map: every (namespace, variable) has the same value or is undefined in both, and the same namespaces are
   defined; req is nss_eq on r_nss and equality on every other field of the machine. *)

(* nss_eq / req are equivalence relations, an assignment respects nss_eq ... *)
Theorem C12_req_is_equivalence :
  (forall r, req r r) /\ (forall r r', req r r' -> req r' r) /\ (forall a b c, req a b -> req b c -> req a c) /\
  (forall a b ns n v, nss_eq a b -> nss_eq (raw_set a ns n v) (raw_set b ns n v)).
Proof. exact (conj req_refl (conj req_sym (conj req_trans nss_eq_set))). Qed.
Print Assumptions C12_req_is_equivalence.

(* ... and the order of the entries is the only freedom it leaves: association lists without repeated keys (all that assoc_set builds
   from the empty list) with the same lookups are permutations of each other *)
Theorem C12_same_lookups_is_reordering : forall (l l':list (string * value)),
  NoDup (map fst l) -> NoDup (map fst l') -> (forall k, assoc k l = assoc k l') -> Permutation.Permutation l l'.
Proof. exact (@same_lookups_permutation value). Qed.
Print Assumptions C12_same_lookups_is_reordering.

(* (1) req is a congruence for a scheduler turn: equivalent machines take equivalent turns - the same result, the same visit record
   (instructions executed, restarts), and machines afterwards that are again equal in every field (contexts, log, clock, error
   state, ids) except the order of namespace entries. The turn may read, assign and CREATE any globals: R and W only have to list
   them (any lists with visit_ok .. = true).
   FULL STATEMENT: the same without the hypothesis visit_ok (which also excludes turns that execute spawn, terminate or scriptDone):
   proved as C12_equivalent_machines_take_equivalent_turns below; this version is kept because the commutation proofs use it. *)
Theorem C12_equivalent_machines_take_equivalent_turns_partial : forall b1 b2 R W r r' i x r1 v,
  req r r' -> i < length (r_ctxs r) -> visit_ok b1 R W r i = true ->
  visit_ctx b1 b2 r i = Ok (x, r1, v) ->
  exists r1', visit_ctx b1 b2 r' i = Ok (x, r1', v) /\ req r1 r1'.
Proof. exact req_turn_congruence. Qed.
Print Assumptions C12_equivalent_machines_take_equivalent_turns_partial.

(* (1) at full strength: req is a congruence for EVERY scheduler turn - whatever the turn executes (globals read, assigned or
   created, spawn, terminate, scriptDone, sleep, errors and their handlers, the time limit): equivalent machines take equivalent
   turns, with the same result and the same visit record, and the machines afterwards are again equal in every field (contexts
   including spawned ones and raised terminate flags, next script id, log, clock, error state) except the order of namespace
   entries. Every instruction that touches a global has a one-key footprint (VM/C12GlobalsAll.v: keyof_u, keyof_b); spawn,
   terminate and scriptDone do not touch the namespaces and are proved directly. *)
Theorem C12_equivalent_machines_take_equivalent_turns : forall b1 b2 r r' i x r1 v,
  req r r' -> i < length (r_ctxs r) ->
  visit_ctx b1 b2 r i = Ok (x, r1, v) ->
  exists r1', visit_ctx b1 b2 r' i = Ok (x, r1', v) /\ req r1 r1'.
Proof. exact req_turn_congruence_all. Qed.
Print Assumptions C12_equivalent_machines_take_equivalent_turns.

(* ... and a turn that leaves the modelled fragment, hangs or hits undefined behaviour does exactly the same from the equivalent machine *)
Theorem C12_equivalent_machines_fail_alike : forall b1 b2 r r' i,
  req r r' -> i < length (r_ctxs r) ->
  match visit_ctx b1 b2 r i with Ok _ => True | x => visit_ctx b1 b2 r' i = x end.
Proof. exact req_turn_congruence_fail. Qed.
Print Assumptions C12_equivalent_machines_fail_alike.

(* non-vacuity: the spawning machine of C12_spawning_turns_commute_refuted with two globals, entered in the one and in the other order:
   the machines are req and not equal, the turn of script 0 (which spawns) comes back with Ok from both *)
Definition ab_nss : list (string * list (string * value)) := [(default_ns, [("a"%string, VNum 1); ("b"%string, VNum 2)])].
Definition ba_nss : list (string * list (string * value)) := [(default_ns, [("b"%string, VNum 2); ("a"%string, VNum 1)])].
Example ex_req_reordered : req (set_nss sp_machine ab_nss) (set_nss sp_machine ba_nss) /\ set_nss sp_machine ab_nss <> set_nss sp_machine ba_nss /\
  0 < length (r_ctxs (set_nss sp_machine ab_nss)) /\
  match visit_ctx false false (set_nss sp_machine ab_nss) 0 with Ok (_, r1, _) => length (r_ctxs r1) = 3 | _ => False end.
Proof.
  split; [|split; [|split]].
  - split; [reflexivity|]. split.
    + intros ns n. unfold raw_get, ab_nss, ba_nss. cbn [assoc r_nss set_nss rt_with].
      destruct (String.eqb ns default_ns); [|reflexivity]. cbn [assoc].
      destruct (String.eqb n "a") eqn:A; destruct (String.eqb n "b") eqn:B; try reflexivity.
      apply String.eqb_eq in A. apply String.eqb_eq in B. subst n. discriminate.
    + intro ns. unfold ns_def, ab_nss, ba_nss. cbn [assoc r_nss set_nss rt_with]. destruct (String.eqb ns default_ns); reflexivity.
  - intro H. apply (f_equal r_nss) in H. vm_compute in H. discriminate.
  - vm_compute. repeat constructor.
  - vm_compute. reflexivity.
Qed.

(* the frame property up to the order of entries: a change G of the namespaces that the script cannot observe (sem_ok G R W: globals
   of R read the same after G, an assignment to a global of W commutes with G up to nss_eq - it may CREATE the global -, G respects
   nss_eq) commutes with the whole turn: from r with namespaces a' ~ G (r_nss r) the turn returns the same result and visit record
   as from r, and the machine it returns from r with its namespaces replaced by some a1 ~ G (the namespaces it leaves from r)
   (rres_v; cst a = "replace the namespaces by a"). The replayed writes of another script (wr Wj ..) are such a G when Wj is disjoint
   from R and W (sem_ok_wr). *)
Theorem C12_frame_turn_up_to_order : forall G R W i b1 b2 r a',
  sem_ok G R W -> relN G r a' -> i < length (r_ctxs r) -> visit_ok b1 R W r i = true ->
  rres_v G (visit_ctx b1 b2 (app (cst a') r) i) (visit_ctx b1 b2 r i).
Proof. exact turn_up_to_order. Qed.
Print Assumptions C12_frame_turn_up_to_order.

(* (2) two turns of different scripts with independent footprints commute up to req - each may CREATE globals (of its own W).
   solo_turn_c is solo_turn with nss_effect_c in place of nss_effect: up to the order of entries, the namespaces after the turn
   taken alone are those before it with the turn's final values written at the keys of W (wr: overwritten where the variable
   exists, created where it does not). Conclusion as in C12_independent_turns_commute_partial with req (shared_state m1)
   (shared_state m2) in place of equality: i after j does exactly what i does alone, j after i what j does alone, the final machines
   are equal in every field except r_active, the order of the two scripts' log lines and the ORDER of the namespace entries.
   Still MISSING for the full isolation clause: spawn (refuted as stated: C12_spawning_turns_commute_refuted - the children's places in the
   scheduler's list and their ids follow the order of the parents' turns; a statement up to a renaming of script ids and a permutation
   of the scheduler's list behind the two scripts is not attempted), a clock that advances during the turns, the erase bookkeeping
   of start_pass2. *)
Theorem C12_independent_turns_commute_creating_partial : forall b1 b2 r i j Ri Wi Rj Wj xi ri vi xj rj vj,
  i <> j -> r_out r = [] -> r_tick r = 0%Z ->
  solo_turn_c b1 b2 r i Ri Wi xi ri vi -> solo_turn_c b1 b2 r j Rj Wj xj rj vj ->
  independent Ri Wi Rj Wj = true ->
  exists m1 m2,
    visit_ctx b1 b2 rj i = Ok (xi, m1, vi) /\
    visit_ctx b1 b2 ri j = Ok (xj, m2, vj) /\
    req (shared_state m1) (shared_state m2) /\
    r_out m1 = r_out ri ++ r_out rj /\ r_out m2 = r_out rj ++ r_out ri.
Proof. exact independent_turns_commute_c. Qed.
Print Assumptions C12_independent_turns_commute_creating_partial.

(* whole rounds: any number of pairwise independent turns, each a solo_turn_c from r (each may create globals), can be taken in ANY
   order: every order runs through, every script does in it exactly what it does alone, the final machines agree up to req on
   everything but the order of the log lines and r_active *)
Theorem C12_round_order_irrelevant_creating_partial : forall b1 b2 r us us',
  r_out r = [] -> r_tick r = 0%Z ->
  Forall (solo_c b1 b2 r) us -> all_independent us -> Permutation.Permutation us us' ->
  exists m m', runs b1 b2 r us m /\ runs b1 b2 r us' m' /\ req (shared_state m) (shared_state m').
Proof. exact round_order_irrelevant_c. Qed.
Print Assumptions C12_round_order_irrelevant_creating_partial.

(* non-vacuity: two spawned scripts `ga = 1; diag_log ga` and `gb = 2; diag_log gb` on a machine WITHOUT any global (cr_machine):
   each creates its variable; the hypotheses hold (cr_solo_a, cr_solo_b, cr_facts), and the two orders end with namespaces that
   differ in the order of their entries ([ga; gb] against [gb; ga]) - the equality of C12_independent_turns_commute_partial fails
   for this pair, req holds *)
Example ex_commute_creating :
  exists m1 m2,
    visit_ctx false false (snd (fst (cr_turn 1))) 0 = Ok (fst (fst (cr_turn 0)), m1, snd (cr_turn 0)) /\
    visit_ctx false false (snd (fst (cr_turn 0))) 1 = Ok (fst (fst (cr_turn 1)), m2, snd (cr_turn 1)) /\
    req (shared_state m1) (shared_state m2) /\
    r_out m1 = r_out (snd (fst (cr_turn 0))) ++ r_out (snd (fst (cr_turn 1))) /\
    r_out m2 = r_out (snd (fst (cr_turn 1))) ++ r_out (snd (fst (cr_turn 0))).
Proof.
  apply (independent_turns_commute_c false false cr_machine 0 1 ex_Ka ex_Ka ex_Kb ex_Kb);
    [discriminate | reflexivity | reflexivity | exact cr_solo_a | exact cr_solo_b | reflexivity].
Qed.
Example ex_creating_hypotheses_hold :
  independent ex_Ka ex_Ka ex_Kb ex_Kb = true /\ r_out cr_machine = [] /\ r_tick cr_machine = 0%Z /\ r_nss cr_machine = [] /\
  r_out (snd (fst (cr_turn 0))) <> [] /\ r_out (snd (fst (cr_turn 1))) <> [] /\
  r_nss (snd (fst (cr_turn 0))) = [(default_ns, [("ga"%string, VNum 1)])] /\
  r_nss (snd (fst (cr_turn 1))) = [(default_ns, [("gb"%string, VNum 2)])] /\
  cr_both 0 1 = [(default_ns, [("ga"%string, VNum 1); ("gb"%string, VNum 2)])] /\
  cr_both 1 0 = [(default_ns, [("gb"%string, VNum 2); ("ga"%string, VNum 1)])].
Proof. exact cr_facts. Qed.
Example ex_creating_round_hypotheses : Forall (solo_c false false cr_machine) [cr_ta; cr_tb] /\ all_independent [cr_ta; cr_tb].
Proof. exact cr_round. Qed.

(* ------------------------------------------------------------------ non-vacuity *)
(* three spawned scripts of 2, 5 and 3 statements under a slice of 4 instructions: the passes of the model *)
Definition marks (s:string) (n:nat) : list stmt :=
  map (fun k => SExpr (EUnary "diag_log" (EStr (append s (show_nat k))))) (seq 1 n).
Definition prog_three : list stmt :=
  [SExpr (EBinary "spawn" (ENum 0) (ECode (marks "a" 2)));
   SExpr (EBinary "spawn" (ENum 0) (ECode (marks "b" 5)));
   SExpr (EBinary "spawn" (ENum 0) (ECode (marks "c" 3)));
   SExpr (ENum 0)].
Definition machine3 : rt := load (create_rt [] 0 0 10000 4) (compile_block prog_three).
Example ex_wf : wf_ids machine3.
Proof. split; vm_compute; repeat constructor; intros []. Qed.
Example ex_passes :
  match execute2 AStart machine3 with
  | Ok (x, r', ps) => show_passes ps = "0:4+0,1:4+0;0:4+0,1:1+0,2:4+0;0:4+0,2:4+0,3:4+0;0:1+0,2:4+0,3:4+0;2:2+0,3:0+0"%string
  | _ => False end.
Proof. vm_compute. reflexivity. Qed.
(* the slice of the implementation (Gen.Consts, read from runtime.cpp) is a legal slice *)
Example ex_slice_pos : 0 < slice_length.
Proof. vm_compute. repeat constructor. Qed.
